(* C06Proofs.v — gate lemmas and entry-point theorems of property C06. *)
From Coq Require Import String List NArith Bool Lia.
From Model Require Import Base PyVal TableTypes C06Model C06Spec.
From Gen Require Import Tables.
Import ListNotations.
Open Scope string_scope.
Open Scope N_scope.

(* ---------- generic ---------- *)
Lemma bind_ok {A B} (m : res A) (f : A -> res B) b :
  bind m f = Ok b -> exists a, m = Ok a /\ f a = Ok b.
Proof. destruct m; simpl; intro H; [eauto | discriminate]. Qed.

Lemma find_name {A} (f : A -> bool) l r : find f l = Some r -> In r l /\ f r = true.
Proof. apply find_some. Qed.

Lemma asc_inj a b : asc a = asc b -> a = b.
Proof.
  revert b. induction a as [|c a IH]; destruct b as [|d b]; simpl; intro H;
    try reflexivity; try discriminate.
  inversion H as [[H1 H2]]. apply IH in H2. subst b.
  assert (c = d).
  { rewrite <- (Ascii.ascii_N_embedding c), <- (Ascii.ascii_N_embedding d), H1. reflexivity. }
  subst; reflexivity.
Qed.

Lemma list_contains_pstr l s :
  list_contains l (PStr s) = true -> In (PStr s) l.
Proof.
  unfold list_contains. intro H. apply existsb_exists in H. destruct H as [y [Hin Heq]].
  destruct y; simpl in Heq; try discriminate.
  apply str_eqb_eq in Heq. subst. exact Hin.
Qed.

Lemma list_contains_pstr_rev l s :
  In (PStr s) l -> list_contains l (PStr s) = true.
Proof.
  intro H. unfold list_contains. apply existsb_exists. exists (PStr s). split; [exact H|].
  simpl. apply str_eqb_refl.
Qed.

(* ---------- BaseKey gates ---------- *)
Lemma check_use_ok u k : use_wf (k_use k) -> check_use u k = Ok tt -> declared_use_ok u k.
Proof.
  unfold check_use, declared_use_ok, use_wf. intros [E | [s [E Hs]]] H; rewrite E in *.
  - left; reflexivity.
  - right. destruct s as [|c s]; [contradiction|]. simpl in H.
    destruct (str_eqb (c :: s) (sasc u)) eqn:Q; simpl in H; [|discriminate].
    apply str_eqb_eq in Q. rewrite Q. reflexivity.
Qed.

Lemma check_use_err u k s :
  k_use k = Some (PStr s) -> s <> [] -> s <> asc u ->
  check_use u k = Err (EJose UnsupportedKeyUseError).
Proof.
  intros E Hs Hne. unfold check_use. rewrite E. destruct s as [|c s]; [contradiction|].
  simpl. destruct (str_eqb (c :: s) (sasc u)) eqn:Q; [|reflexivity].
  apply str_eqb_eq in Q. contradiction.
Qed.

Lemma check_use_pass u k : declared_use_ok u k -> check_use u k = Ok tt.
Proof.
  unfold check_use, declared_use_ok. intros [E | E]; rewrite E; [reflexivity|].
  simpl. unfold sasc. rewrite str_eqb_refl. simpl. rewrite andb_false_r. reflexivity.
Qed.

Definition op_private (op : string) : bool :=
  match find_op op with Some r => op_needs_private r | None => false end.

Lemma check_key_op_ok op k :
  ops_wf (k_ops k) -> check_key_op op k = Ok tt ->
  ops_include op k /\ (op_private op = true -> k_priv k = true).
Proof.
  unfold check_key_op, ops_include, ops_wf, op_private. intros W H.
  apply bind_ok in H. destruct H as [[] [H1 H2]].
  split.
  - destruct W as [E | [l E]]; rewrite E in *; [left; reflexivity|].
    right. exists l. split; [reflexivity|].
    simpl in H1. destruct (list_contains l (PStr (sasc op))) eqn:Q; [|discriminate].
    apply list_contains_pstr in Q. exact Q.
  - destruct (find_op op); [|discriminate].
    intro P. rewrite P in H2. simpl in H2. destruct (k_priv k); [reflexivity | discriminate].
Qed.

Lemma check_key_op_err op k l r :
  k_ops k = Some (PList l) -> ~ In (PStr (asc op)) l -> find_op op = Some r ->
  check_key_op op k = Err (EJose UnsupportedKeyOperationError).
Proof.
  intros E Hn F. unfold check_key_op. rewrite E. simpl.
  destruct (list_contains l (PStr (sasc op))) eqn:Q.
  - apply list_contains_pstr in Q. contradiction.
  - reflexivity.
Qed.

Lemma check_key_op_pass op k r :
  ops_include op k -> find_op op = Some r -> (op_needs_private r = true -> k_priv k = true) ->
  check_key_op op k = Ok tt.
Proof.
  unfold ops_include, check_key_op. intros I F P. rewrite F.
  assert (G : (if op_needs_private r && negb (k_priv k)
               then Err (EJose UnsupportedKeyOperationError) else Ok tt) = Ok tt).
  { destruct (op_needs_private r); [rewrite P by reflexivity|]; reflexivity. }
  destruct I as [E | [l [E Hin]]]; rewrite E; simpl.
  - exact G.
  - unfold sasc. rewrite (list_contains_pstr_rev _ _ Hin). simpl. exact G.
Qed.

Lemma check_key_op_public_err op k r :
  ops_include op k -> find_op op = Some r -> op_needs_private r = true -> k_priv k = false ->
  check_key_op op k = Err (EJose UnsupportedKeyOperationError).
Proof.
  unfold ops_include, check_key_op. intros I F N P. rewrite F, N, P.
  destruct I as [E | [l [E Hin]]]; rewrite E; simpl; [reflexivity|].
  unfold sasc. rewrite (list_contains_pstr_rev _ _ Hin). reflexivity.
Qed.

Lemma get_op_key_ok op k n :
  ops_wf (k_ops k) -> get_op_key op k = Ok n ->
  ops_include op k /\ (op_private op = true -> k_priv k = true) /\
  n = native_of k (op_private op).
Proof.
  intros W H. unfold get_op_key in H. apply bind_ok in H. destruct H as [[] [H1 H2]].
  destruct (check_key_op_ok op k W H1) as [A B]. repeat split; try assumption.
  unfold op_private. destruct (find_op op); [|discriminate]. inversion H2. reflexivity.
Qed.

(* the private flags of the operations, read off the registry table *)
Lemma op_private_values :
  op_private "sign" = true /\ op_private "verify" = false /\
  op_private "encrypt" = false /\ op_private "decrypt" = true /\
  op_private "wrapKey" = false /\ op_private "unwrapKey" = true /\
  op_private "deriveKey" = false.
Proof. vm_compute. repeat split; reflexivity. Qed.

Lemma curve_name_ok k c : curve_name k = Ok c -> (k_kty k = KEc \/ k_kty k = KOkp) /\ c = k_crv k.
Proof.
  unfold curve_name. destruct (k_kty k); intro H; try discriminate; inversion H; auto.
Qed.

Lemma in_ec_not_okp c : In c ec_curve_names -> In c okp_curve_names -> False.
Proof.
  simpl. intros [<-|[<-|[<-|[<-|[]]]]] H; repeat (destruct H as [H|H]; [discriminate|]); exact H.
Qed.

(* ---------- tactics ---------- *)
Ltac inv_bind H :=
  let x := fresh "x" in let H1 := fresh H "a" in let H2 := fresh H "b" in
  apply bind_ok in H; destruct H as [x [H1 H2]];
  try match type of x with unit => destruct x end.

Ltac kty_cases k :=
  let E := fresh "Ekty" in destruct (k_kty k) eqn:E.

(* ---------- JWS ---------- *)
Section JWS.
Variable prim : pop -> native -> res unit.

Lemma when_ok b m : when b m = Ok tt -> b = true -> m = Ok tt.
Proof. intros H E. subst. exact H. Qed.

Lemma jws_rows r : In r jws_alg_table ->
  In (ja_name r, ja_family r, ja_key_type r, ja_curve r)
     [("none","none","oct",""); ("HS256","HMAC","oct",""); ("HS384","HMAC","oct","");
      ("HS512","HMAC","oct",""); ("RS256","RSA","RSA",""); ("RS384","RSA","RSA","");
      ("RS512","RSA","RSA",""); ("ES256","EC","EC","P-256"); ("ES384","EC","EC","P-384");
      ("ES512","EC","EC","P-521"); ("PS256","PSS","RSA",""); ("PS384","PSS","RSA","");
      ("PS512","PSS","RSA",""); ("EdDSA","EdDSA","OKP",""); ("ES256K","EC","EC","secp256k1")].
Proof.
  intro H. apply (in_map (fun r => (ja_name r, ja_family r, ja_key_type r, ja_curve r))) in H.
  exact H.
Qed.

(* the key the entry point works with is the given one *)
Lemma guess_key_same src rnd alg k k' : guess_key src rnd alg k = Ok k' -> k' = k.
Proof.
  unfold guess_key, pick_random.
  destruct src; try (intro H; inversion H; reflexivity).
  destruct rnd; [|intro H; inversion H; reflexivity].
  destruct (match find _ _ with Some (_, l) => l | None => [] end);
    [intro H; inversion H; reflexivity|].
  destruct (mem_str _ _); intro H; inversion H; reflexivity.
Qed.

Definition contract_or_gate (e : jws_entry) : Prop :=
  jws_has_type_gate e = true \/ prim_contract prim.

(* sign / verify bodies: what an Ok says, per family; the kind is concluded
   either from the type gate (T) or from the primitive's contract *)
Lemma jws_sign_ok r k :
  key_wf k -> In r jws_alg_table ->
  (kty_str (k_kty k) = ja_key_type r \/ prim_contract prim) ->
  jws_sign prim r k = Ok tt -> check_use "sig" k = Ok tt ->
  jws_suitable (ja_name r) true k.
Proof.
  intros W Hin T H U. destruct W as (Wu & Wo & Woct & Wec & Wokp).
  pose proof (check_use_ok _ _ Wu U) as HU.
  pose proof op_private_values as (Ps & Pv & _).
  apply jws_rows in Hin. unfold jws_sign in H.
  destruct r as [nm fam kt rec hs cv pd]. cbn [ja_name ja_family ja_key_type ja_curve] in *.
  simpl in Hin.
  repeat (destruct Hin as [Hin | Hin];
          [ inversion Hin; subst nm fam kt cv; clear Hin | ]);
    try contradiction;
    unfold jws_suitable; (split; [exact HU|]); unfold jws_kind_ok; cbn;
    cbn -[get_op_key] in H.
  all: try (split; [exact I | intro Q; contradiction Q; reflexivity]).
  (* HMAC, RSA, PSS *)
  all: try (inv_bind H; destruct (get_op_key_ok _ _ _ Wo Ha) as (Ho & Hp & Hn);
            rewrite Ps in *; split;
            [ destruct T as [T | T];
              [ kty_cases k; simpl in T; try discriminate T; reflexivity
              | apply T in Hb; subst; unfold native_of in Hb; kty_cases k; simpl in Hb;
                try discriminate Hb; reflexivity ]
            | intros _; split; [exact Ho | intros _; apply Hp; reflexivity] ]).
  (* EC *)
  all: try (inv_bind H; unfold ec_check_key in Ha; inv_bind Ha;
            destruct (curve_name_ok _ _ Haa) as [Hk Hc]; subst;
            match type of Hab with (if String.eqb ?a ?b then _ else _) = _ =>
              destruct (String.eqb a b) eqn:Q; [apply String.eqb_eq in Q | discriminate Hab] end;
            inv_bind Hb; destruct (get_op_key_ok _ _ _ Wo Hba) as (Ho & Hp & Hn); rewrite Ps in *;
            split;
            [ split; [| exact Q];
              destruct Hk as [Hk | Hk]; [exact Hk|];
              exfalso; apply (in_ec_not_okp (k_crv k)); [rewrite Q; simpl; tauto | apply Wokp; exact Hk]
            | intros _; split; [exact Ho | intros _; apply Hp; reflexivity] ]).
  (* EdDSA *)
  inv_bind H. destruct (get_op_key_ok _ _ _ Wo Ha) as (Ho & Hp & Hn). rewrite Ps in *.
  inv_bind Hb. subst. unfold native_of, ed_assert in Hba.
  split.
  - kty_cases k; simpl in Hba; try discriminate Hba. split; [reflexivity|].
    destruct (String.eqb (k_crv k) "Ed25519") eqn:Q1.
    + left. apply String.eqb_eq. exact Q1.
    + destruct (String.eqb (k_crv k) "Ed448") eqn:Q2.
      * right. apply String.eqb_eq. exact Q2.
      * simpl in Hba. discriminate Hba.
  - intros _. split; [exact Ho | intros _; apply Hp; reflexivity].
Qed.

Lemma jws_verify_ok r k mat siglen :
  key_wf k -> In r jws_alg_table ->
  (kty_str (k_kty k) = ja_key_type r \/ prim_contract prim) ->
  jws_verify prim r k mat siglen = Ok true -> check_use "sig" k = Ok tt ->
  jws_suitable (ja_name r) false k.
Proof.
  intros W Hin T H U. destruct W as (Wu & Wo & Woct & Wec & Wokp).
  pose proof (check_use_ok _ _ Wu U) as HU.
  pose proof op_private_values as (Ps & Pv & _).
  apply jws_rows in Hin. unfold jws_verify in H.
  destruct r as [nm fam kt rec hs cv pd]. cbn [ja_name ja_family ja_key_type ja_curve] in *.
  simpl in Hin.
  repeat (destruct Hin as [Hin | Hin];
          [ inversion Hin; subst nm fam kt cv; clear Hin | ]);
    try contradiction;
    unfold jws_suitable; (split; [exact HU|]); unfold jws_kind_ok; cbn;
    cbn -[get_op_key N.mul N.div N.add N.eqb] in H.
  all: try discriminate H.
  (* HMAC, RSA, PSS *)
  all: try (inv_bind H; destruct (get_op_key_ok _ _ _ Wo Ha) as (Ho & Hp & Hn);
            rewrite Pv in *; inv_bind Hb; split;
            [ destruct T as [T | T];
              [ kty_cases k; simpl in T; try discriminate T; reflexivity
              | apply T in Hba; subst; unfold native_of in Hba; kty_cases k; simpl in Hba;
                try discriminate Hba; reflexivity ]
            | intros _; split; [exact Ho | intro Q; discriminate Q] ]).
  (* EC *)
  all: try (inv_bind H; unfold ec_check_key in Ha; inv_bind Ha;
            destruct (curve_name_ok _ _ Haa) as [Hk Hc]; subst;
            match type of Hab with (if String.eqb ?a ?b then _ else _) = _ =>
              destruct (String.eqb a b) eqn:Q; [apply String.eqb_eq in Q | discriminate Hab] end;
            inv_bind Hb;
            match type of Hbb with (if ?c then _ else _) = _ =>
              destruct c; try discriminate Hbb end;
            inv_bind Hbb; destruct (get_op_key_ok _ _ _ Wo Hbba) as (Ho & Hp & Hn);
            split;
            [ split; [| exact Q];
              destruct Hk as [Hk | Hk]; [exact Hk|];
              exfalso; apply (in_ec_not_okp (k_crv k)); [rewrite Q; simpl; tauto | apply Wokp; exact Hk]
            | intros _; split; [exact Ho | intro Q'; discriminate Q'] ]).
  (* EdDSA *)
  inv_bind H. destruct (get_op_key_ok _ _ _ Wo Ha) as (Ho & Hp & Hn). rewrite Pv in *.
  inv_bind Hb. subst. unfold native_of, ed_assert in Hba.
  split.
  - kty_cases k; simpl in Hba; try discriminate Hba. split; [reflexivity|].
    destruct (String.eqb (k_crv k) "Ed25519") eqn:Q1.
    + left. apply String.eqb_eq. exact Q1.
    + destruct (String.eqb (k_crv k) "Ed448") eqn:Q2.
      * right. apply String.eqb_eq. exact Q2.
      * simpl in Hba. discriminate Hba.
  - intros _. split; [exact Ho | intro Q; discriminate Q].
Qed.

Lemma jws_type_gate_ok r k : jws_check_key_type r k = Ok tt -> kty_str (k_kty k) = ja_key_type r.
Proof.
  unfold jws_check_key_type. destruct (String.eqb _ _) eqn:Q; [|discriminate].
  intros _. apply String.eqb_eq. exact Q.
Qed.

Theorem jws_run_suitable e src alg k mat siglen :
  key_wf k -> contract_or_gate e ->
  jws_run prim e src alg k mat siglen = Ok tt ->
  jws_suitable alg (jws_is_sign e) k.
Proof.
  intros W C H. unfold jws_run in H.
  destruct (find_jws alg) as [r|] eqn:F; [|discriminate].
  apply find_name in F. destruct F as [Hin Hn]. apply String.eqb_eq in Hn. subst alg.
  inv_bind H. apply guess_key_same in Ha. subst x.
  inv_bind Hb. inv_bind Hbb. inv_bind Hbbb.
  assert (T : kty_str (k_kty k) = ja_key_type r \/ prim_contract prim).
  { destruct C as [C | C]; [left | right; exact C].
    rewrite C in Hbba. simpl in Hbba. apply jws_type_gate_ok. exact Hbba. }
  destruct (jws_is_sign e).
  - apply jws_sign_ok; assumption.
  - inv_bind Hbbbb. destruct x; [|discriminate].
    eapply jws_verify_ok; eassumption.
Qed.

End JWS.

(* ---------- JWE ---------- *)
Section JWE.
Variable prim : pop -> native -> res unit.

Definition curves_wf (k : key) : Prop :=
  (k_kty k = KEc -> In (k_crv k) ec_curve_names) /\
  (k_kty k = KOkp -> In (k_crv k) okp_curve_names).

Lemma key_wf_curves k : key_wf k -> curves_wf k.
Proof. intros (_ & _ & _ & A & B). split; assumption. Qed.

Lemma same_kty a b :
  curves_wf a -> curves_wf b -> k_crv a = k_crv b ->
  (k_kty a = KEc \/ k_kty a = KOkp) -> (k_kty b = KEc \/ k_kty b = KOkp) ->
  k_kty a = k_kty b.
Proof.
  intros [A1 A2] [B1 B2] E [Ha | Ha] [Hb | Hb]; try congruence; exfalso.
  - apply (in_ec_not_okp (k_crv a)); [apply A1; exact Ha | rewrite E; apply B2; exact Hb].
  - apply (in_ec_not_okp (k_crv a)); [rewrite E; apply B1; exact Hb | apply A2; exact Ha].
Qed.

Lemma exchange_ok self other :
  ops_wf (k_ops other) -> exchange_derive_key self other = Ok tt ->
  k_priv self = true /\ k_crv other = k_crv self /\
  ((k_kty self = KEc /\ (k_kty other = KEc \/ k_kty other = KOkp)) \/
   (k_kty self = KOkp /\ k_kty other = KOkp /\
    (k_crv self = "X25519" \/ k_crv self = "X448"))) /\
  ops_include "deriveKey" other.
Proof.
  intros W H. unfold exchange_derive_key in H.
  pose proof op_private_values as (_ & _ & _ & _ & _ & _ & Pd).
  destruct (k_kty self) eqn:Es; try discriminate H.
  - inv_bind H. clear Ha. inv_bind Hb. destruct (get_op_key_ok _ _ _ W Hba) as (Ho & _ & _).
    destruct (k_priv self); [|discriminate Hbb].
    inv_bind Hbb. destruct (curve_name_ok _ _ Hbba) as [Hk Hc]. subst.
    destruct (String.eqb (k_crv self) (k_crv other)) eqn:Q; [|discriminate Hbbb].
    apply String.eqb_eq in Q. repeat split; auto.
  - inv_bind H. destruct (get_op_key_ok _ _ _ W Ha) as (Ho & _ & Hn). rewrite Pd in Hn.
    subst x. unfold native_of in Hb.
    destruct (k_priv self); [|simpl in Hb; discriminate Hb].
    destruct (k_kty other) eqn:Eo; simpl in Hb; try rewrite !andb_false_r in Hb;
      try discriminate Hb.
    destruct (String.eqb (k_crv self) "X25519") eqn:Q1; simpl in Hb.
    + destruct (String.eqb (k_crv other) "X25519") eqn:Q1'; simpl in Hb.
      * apply String.eqb_eq in Q1, Q1'. repeat split; auto; try congruence; try (right; repeat split; auto).
      * destruct (String.eqb (k_crv self) "X448") eqn:Q2; simpl in Hb; [|discriminate Hb].
        apply String.eqb_eq in Q1, Q2. congruence.
    + destruct (String.eqb (k_crv self) "X448") eqn:Q2; simpl in Hb; [|discriminate Hb].
      destruct (String.eqb (k_crv other) "X448") eqn:Q2'; simpl in Hb; [|discriminate Hb].
      apply String.eqb_eq in Q2, Q2'. repeat split; auto; try congruence; try (right; repeat split; auto).
Qed.

Lemma check_op_key_ok r n :
  check_op_key r n = Ok tt -> exists b, n = NBytes b /\ ea_key_size r = Some b.
Proof.
  unfold check_op_key. destruct n; try discriminate.
  destruct (ea_key_size r) as [sz|]; try discriminate.
  destruct (bits =? sz) eqn:Q; [|discriminate]. apply N.eqb_eq in Q. subst. eauto.
Qed.

Lemma rsa_size_gate_ok r n :
  rsa_size_gate r n = Ok tt ->
  exists p b sz, n = NRsa p b /\ ea_key_size r = Some sz /\ sz <= b.
Proof.
  unfold rsa_size_gate. destruct n; try discriminate.
  destruct (ea_key_size r) as [sz|]; try discriminate.
  destruct (bits <? sz) eqn:Q; [discriminate|]. apply N.ltb_ge in Q. eauto 6.
Qed.

Lemma import_epk_ok k e ek :
  import_epk k e = Ok ek ->
  ek = epk_key e /\ k_kty k = epk_kty e /\ (k_kty k = KEc \/ k_kty k = KOkp).
Proof.
  unfold import_epk. destruct (k_kty k), (epk_kty e); intro H; try discriminate H;
    inversion H; auto.
Qed.

Lemma jwe_rows r : In r jwe_alg_table_drafts ->
  In (ea_name r, ea_family r, ea_key_types r, ea_key_size r, ea_wrap r)
     [("RSA1_5","RSA",["RSA"],Some 2048,""); ("RSA-OAEP","RSA",["RSA"],Some 2048,"");
      ("RSA-OAEP-256","RSA",["RSA"],Some 2048,"");
      ("A128KW","AESKW",["oct"],Some 128,""); ("A192KW","AESKW",["oct"],Some 192,"");
      ("A256KW","AESKW",["oct"],Some 256,""); ("dir","dir",["oct"],None,"");
      ("ECDH-ES","ECDHES",["EC";"OKP"],None,"");
      ("ECDH-ES+A128KW","ECDHES",["EC";"OKP"],Some 128,"A128KW");
      ("ECDH-ES+A192KW","ECDHES",["EC";"OKP"],Some 192,"A192KW");
      ("ECDH-ES+A256KW","ECDHES",["EC";"OKP"],Some 256,"A256KW");
      ("A128GCMKW","AESGCMKW",["oct"],Some 128,""); ("A192GCMKW","AESGCMKW",["oct"],Some 192,"");
      ("A256GCMKW","AESGCMKW",["oct"],Some 256,"");
      ("PBES2-HS256+A128KW","PBES2",["oct"],Some 128,"A128KW");
      ("PBES2-HS384+A192KW","PBES2",["oct"],Some 192,"A192KW");
      ("PBES2-HS512+A256KW","PBES2",["oct"],Some 256,"A256KW");
      ("ECDH-1PU","ECDH1PU",["EC";"OKP"],None,"");
      ("ECDH-1PU+A128KW","ECDH1PU",["EC";"OKP"],Some 128,"A128KW");
      ("ECDH-1PU+A192KW","ECDH1PU",["EC";"OKP"],Some 192,"A192KW");
      ("ECDH-1PU+A256KW","ECDH1PU",["EC";"OKP"],Some 256,"A256KW")].
Proof.
  intro H.
  apply (in_map (fun r => (ea_name r, ea_family r, ea_key_types r, ea_key_size r, ea_wrap r))) in H.
  exact H.
Qed.

Ltac kty_gate k H :=
  unfold jwe_check_key_type in H; cbn in H; kty_cases k; cbn in H; try discriminate H.

Ltac ecdh_kind_from X :=
  destruct X as (Xp & Xc & [[Xk Xo] | (Xk & Xo & Xx)] & Xi).

Lemma eph_ops_wf k : ops_wf (k_ops (ephemeral_for k)).
Proof. left; reflexivity. Qed.
Lemma epk_ops_wf e : ops_wf (k_ops (epk_key e)).
Proof. left; reflexivity. Qed.

Lemma ecdh_kind_of_exchange_eph k :
  ops_wf (k_ops k) -> exchange_derive_key (ephemeral_for k) k = Ok tt -> ecdh_kind k.
Proof.
  intros W H. apply exchange_ok in H; [|exact W].
  destruct H as (_ & _ & [[Hk _] | (Hk & _ & Hx)] & _); simpl in *.
  - left; exact Hk.
  - right; split; assumption.
Qed.

Lemma jwe_encrypt_ok r en k sender :
  key_wf k -> (forall s, sender = Some s -> key_wf s) -> In r jwe_alg_table_drafts ->
  jwe_encrypt_alg prim r en k sender = Ok tt ->
  jwe_kind_suitable (ea_name r) true (ee_cek_size en) k sender {| epk_kty := KEc; epk_crv := "" |}.
Proof.
  intros W Ws Hin H. pose proof (key_wf_curves _ W) as Wc.
  destruct W as (Wu & Wo & Woct & Wec & Wokp).
  pose proof op_private_values as (Ps & Pv & Pe & Pd & Pw & Puw & Pdk).
  apply jwe_rows in Hin. unfold jwe_encrypt_alg in H.
  destruct r as [nm fam dm ta kts ksz rc more wr hs p2c pd].
  cbn [ea_name ea_family ea_key_types ea_key_size ea_wrap] in *.
  simpl in Hin.
  repeat (destruct Hin as [Hin | Hin]; [ inversion Hin; subst nm fam kts ksz wr; clear Hin | ]);
    try contradiction;
    unfold jwe_kind_suitable; cbn;
    cbn -[get_op_key exchange_derive_key jwe_check_key_type check_op_key rsa_size_gate check_enc_1pu] in H.
  (* RSA *)
  all: try (inv_bind H; kty_gate k Ha; inv_bind Hb;
            destruct (get_op_key_ok _ _ _ Wo Hba) as (Ho & _ & Hn); inv_bind Hbb;
            destruct (rsa_size_gate_ok _ _ Hbba) as (p & b & sz & En & Es & Hle);
            cbn in Es; inversion Es; subst sz; rewrite Hn in En; unfold native_of in En; rewrite Ekty in En;
            inversion En; subst b;
            split; [reflexivity | split; [exact Hle | exact Ho]]).
  (* AESKW, AESGCMKW *)
  all: try (inv_bind H; kty_gate k Ha; inv_bind Hb;
            destruct (get_op_key_ok _ _ _ Wo Hba) as (Ho & _ & Hn); inv_bind Hbb;
            destruct (check_op_key_ok _ _ Hbba) as (b & En & Es);
            cbn in Es; inversion Es; subst b; rewrite Hn in En; unfold native_of in En; rewrite Ekty in En;
            injection En as Eb;
            split; [reflexivity | split; [exact Eb | exact Ho]]).
  (* dir *)
  all: try (inv_bind H; kty_gate k Ha;
            match type of Hb with (if ?c then _ else _) = _ =>
              destruct c eqn:Q; [apply N.eqb_eq in Q | discriminate Hb] end;
            split; [reflexivity | exact Q]).
  (* PBES2 *)
  all: try (inv_bind H; kty_gate k Ha; inv_bind Hb;
            destruct (get_op_key_ok _ _ _ Wo Hba) as (Ho & _ & Hn);
            split; [reflexivity | exact Ho]).
  (* ECDH-ES *)
  all: try (inv_bind H; split; [apply ecdh_kind_of_exchange_eph; assumption | intro Q; discriminate Q]).
  (* ECDH-1PU *)
  all: inv_bind H; inv_bind Hb; destruct sender as [s|]; [|discriminate Hbb];
    inv_bind Hbb;
    pose proof (key_wf_curves _ (Ws s eq_refl)) as Wsc;
    pose proof (exchange_ok _ _ Wo Hbba) as X;
    (split; [apply ecdh_kind_of_exchange_eph; assumption|]);
    (split; [| intro Q; discriminate Q]);
    exists s; split; [reflexivity|];
    destruct X as (Xp & Xc & Xk & _);
    (split; [| intros _; exact Xp]);
    split; [| symmetry; exact Xc];
    apply same_kty; auto;
    destruct Xk as [[Xk Xo] | (Xk & Xo & _)]; auto.
Qed.

Lemma map_exchange_ok m : map_exchange_err m = Ok tt -> m = Ok tt.
Proof. destruct m as [[]|e]; [reflexivity|]. destruct e; try discriminate. destruct c; discriminate. Qed.

Lemma jwe_decrypt_ok r en k sender e :
  key_wf k -> (forall s, sender = Some s -> key_wf s) -> In r jwe_alg_table_drafts ->
  jwe_decrypt_alg prim r en k sender e = Ok tt ->
  jwe_kind_suitable (ea_name r) false (ee_cek_size en) k sender e.
Proof.
  intros W Ws Hin H. pose proof (key_wf_curves _ W) as Wc.
  destruct W as (Wu & Wo & Woct & Wec & Wokp).
  pose proof op_private_values as (Ps & Pv & Pe & Pd & Pw & Puw & Pdk).
  apply jwe_rows in Hin. unfold jwe_decrypt_alg in H.
  destruct r as [nm fam dm ta kts ksz rc more wr hs p2c pd].
  cbn [ea_name ea_family ea_key_types ea_key_size ea_wrap] in *.
  simpl in Hin.
  repeat (destruct Hin as [Hin | Hin]; [ inversion Hin; subst nm fam kts ksz wr; clear Hin | ]);
    try contradiction;
    unfold jwe_kind_suitable; cbn;
    cbn -[get_op_key exchange_derive_key jwe_check_key_type check_op_key rsa_size_gate check_enc_1pu import_epk] in H.
  (* RSA *)
  all: try (inv_bind H; kty_gate k Ha; inv_bind Hb;
            destruct (get_op_key_ok _ _ _ Wo Hba) as (Ho & Hp & Hn);
            split; [reflexivity | split; [exact Ho | apply Hp; exact Pd]]).
  (* AESKW, AESGCMKW *)
  all: try (inv_bind H; kty_gate k Ha; inv_bind Hb;
            destruct (get_op_key_ok _ _ _ Wo Hba) as (Ho & _ & Hn); inv_bind Hbb;
            destruct (check_op_key_ok _ _ Hbba) as (b & En & Es);
            cbn in Es; inversion Es; subst b; rewrite Hn in En; unfold native_of in En; rewrite Ekty in En;
            injection En as Eb;
            split; [reflexivity | split; [exact Eb | exact Ho]]).
  (* dir *)
  all: try (inv_bind H; kty_gate k Ha;
            match type of Hb with (if ?c then _ else _) = _ =>
              destruct c eqn:Q; [apply N.eqb_eq in Q | discriminate Hb] end;
            split; [reflexivity | exact Q]).
  (* PBES2 *)
  all: try (inv_bind H; kty_gate k Ha; inv_bind Hb;
            destruct (get_op_key_ok _ _ _ Wo Hba) as (Ho & _ & Hn);
            split; [reflexivity | exact Ho]).
  (* ECDH-ES *)
  all: try (inv_bind H; inv_bind Hb;
            destruct (import_epk_ok _ _ _ Hba) as (Eek & Ekt & Hk); subst x;
            pose proof (exchange_ok _ _ (epk_ops_wf e) Hbb) as X;
            destruct X as (Xp & Xc & Xk & _); simpl in Xc;
            split;
            [ destruct Xk as [[Xk Xo] | (Xk & Xo & Xx)]; [left; exact Xk | right; split; assumption]
            | intros _; split; [exact Xp | split; [exact Ekt | symmetry; exact Xc]] ]).
  (* ECDH-1PU *)
  all: inv_bind H; destruct sender as [s|]; [|discriminate Hb];
    inv_bind Hb; clear Hba; inv_bind Hbb; inv_bind Hbbb;
    destruct (import_epk_ok _ _ _ Hbba) as (Eek & Ekt & Hk); subst x;
    pose proof (key_wf_curves _ (Ws s eq_refl)) as Wsc;
    destruct (Ws s eq_refl) as (_ & Wso & _);
    pose proof (exchange_ok _ _ Wso Hbbba) as X;
    pose proof (exchange_ok _ _ (epk_ops_wf e) Hbbbb) as Y;
    destruct X as (Xp & Xc & Xk & _); destruct Y as (_ & Yc & Yk & _); simpl in Yc;
    (split; [ destruct Yk as [[Yk Yo] | (Yk & Yo & Yx)]; [left; exact Yk | right; split; assumption] |]);
    (split; [| intros _; split; [exact Xp | split; [exact Ekt | symmetry; exact Yc]]]);
    exists s; split; [reflexivity|];
    (split; [| intro Q; discriminate Q]);
    split; [| exact Xc];
    symmetry; apply same_kty; auto;
    destruct Xk as [[Xk Xo] | (Xk & Xo & _)]; auto.
Qed.

Definition cek_of (enc : string) : N :=
  match find_enc enc with Some en => ee_cek_size en | None => 0 end.

Lemma sender_gate_ok sender :
  (forall s, sender = Some s -> key_wf s) -> sender_use_gate sender = Ok tt ->
  forall s, sender = Some s -> declared_use_ok "enc" s.
Proof.
  intros Ws H s E. subst sender. simpl in H.
  destruct (Ws s eq_refl) as (Wu & _). eapply check_use_ok; eassumption.
Qed.

Lemma jwe_attach_ok e src alg k sender x :
  key_wf k -> (forall s, sender = Some s -> key_wf s) ->
  jwe_attach e src alg k sender = Ok x ->
  x = k /\ declared_use_ok "enc" k /\ (forall s, sender = Some s -> declared_use_ok "enc" s).
Proof.
  intros W Ws H. unfold jwe_attach in H.
  assert (R : forall y,
    (if jwe_preattached e then do _ <- check_use "enc" k; Ok k
     else do k1 <- guess_key src (jwe_is_enc e) alg k; do _ <- check_use "enc" k1; Ok k1) = Ok y ->
    y = k /\ declared_use_ok "enc" k).
  { intros y Hy. destruct W as (Wu & _). destruct (jwe_preattached e).
    - inv_bind Hy. injection Hyb as <-. split; [reflexivity|]. exact (check_use_ok _ _ Wu Hya).
    - inv_bind Hy. apply guess_key_same in Hya. subst. inv_bind Hyb. injection Hybb as <-.
      split; [reflexivity|]. exact (check_use_ok _ _ Wu Hyba). }
  destruct (jwe_sender_first e).
  - inv_bind H. destruct (R _ Hb) as [-> U]. split; [reflexivity | split; [exact U|]].
    apply sender_gate_ok; assumption.
  - inv_bind H. destruct (R _ Ha) as [-> U]. inv_bind Hb. injection Hbb as <-.
    split; [reflexivity | split; [exact U|]]. apply sender_gate_ok; assumption.
Qed.

Lemma eff_sender_wf e sender :
  (forall s, sender = Some s -> key_wf s) -> forall s, eff_sender e sender = Some s -> key_wf s.
Proof.
  intros Ws s. unfold eff_sender. destruct (jwe_is_jwt e); [discriminate | apply Ws].
Qed.

Theorem jwe_run_suitable e src alg enc k sender ek mat :
  key_wf k -> (forall s, sender = Some s -> key_wf s) ->
  jwe_run prim e src alg enc k sender ek mat = Ok tt ->
  jwe_suitable alg (jwe_is_enc e) (cek_of enc) k (eff_sender e sender)
               (if jwe_is_enc e then {| epk_kty := KEc; epk_crv := "" |} else ek).
Proof.
  intros W Ws0 H. pose proof (eff_sender_wf e sender Ws0) as Ws.
  unfold jwe_run in H. unfold cek_of.
  destruct (find_enc enc) as [en|] eqn:Fe; [|discriminate].
  destruct (find_jwe alg) as [r|] eqn:F; [|discriminate].
  apply find_name in F. destruct F as [Hin Hn]. apply String.eqb_eq in Hn. subst alg.
  inv_bind H.
  destruct (jwe_attach_ok _ _ _ _ _ _ W Ws Ha) as (-> & U & US).
  split; [exact U | split; [exact US|]].
  destruct (jwe_is_enc e).
  - apply jwe_encrypt_ok; assumption.
  - inv_bind Hb. apply map_exchange_ok in Hba. apply jwe_decrypt_ok; assumption.
Qed.

(* ---------- several recipients ---------- *)
Lemma forall_res_ok {A} (f : A -> res unit) l :
  forall_res f l = Ok tt -> Forall (fun x => f x = Ok tt) l.
Proof.
  induction l as [|a l IH]; simpl; intro H; [constructor|].
  inv_bind H. constructor; [exact Ha | apply IH; exact Hb].
Qed.

Lemma enc_pre_post n r en k s :
  jwe_enc_pre prim n r en k s = Ok tt -> jwe_enc_post prim r en k s = Ok tt ->
  jwe_encrypt_alg prim r en k s = Ok tt.
Proof.
  unfold jwe_enc_pre, jwe_enc_post. destruct (is_agreement r); [intros _ H; exact H|].
  destruct (ea_direct r && Nat.ltb 1 n); [discriminate | intros H _; exact H].
Qed.

Definition nek : epk := {| epk_kty := KEc; epk_crv := "" |}.

Lemma with_alg_ok alg f : with_alg alg f = Ok tt ->
  exists r, In r jwe_alg_table_drafts /\ ea_name r = alg /\ f r = Ok tt.
Proof.
  unfold with_alg. destruct (find_jwe alg) as [r|] eqn:F; [|discriminate].
  apply find_name in F. destruct F as [Hin Hn]. apply String.eqb_eq in Hn. eauto.
Qed.

Theorem jwe_multi_enc_suitable src enc rs sender :
  Forall (fun m => key_wf (m_key m)) rs -> (forall s, sender = Some s -> key_wf s) ->
  jwe_multi_enc prim src enc rs sender = Ok tt ->
  Forall (fun m => jwe_suitable (m_alg m) true (cek_of enc) (m_key m) sender nek) rs.
Proof.
  intros W Ws H. unfold jwe_multi_enc in H. unfold cek_of.
  destruct (find_enc enc) as [en|] eqn:Fe; [|discriminate].
  inv_bind H. inv_bind Hb.
  apply forall_res_ok in Ha, Hba, Hbb.
  rewrite Forall_forall in *. intros m Hm.
  specialize (W m Hm). specialize (Ha m Hm). specialize (Hba m Hm). specialize (Hbb m Hm).
  cbv beta in *.
  inv_bind Ha. destruct (jwe_attach_ok _ _ _ _ _ _ W Ws Haa) as (_ & U & US).
  apply with_alg_ok in Hba, Hbb.
  destruct Hba as (r & Hin & Hn & Hpre). destruct Hbb as (r' & Hin' & Hn' & Hpost).
  assert (r' = r).
  { unfold with_alg in *. clear - Hin Hin' Hn Hn'.
    assert (F : forall a b, In a jwe_alg_table_drafts -> In b jwe_alg_table_drafts ->
                            ea_name a = ea_name b -> a = b).
    { intros a b Ia Ib. simpl in Ia, Ib.
      repeat (destruct Ia as [<- | Ia]; [repeat (destruct Ib as [<- | Ib]; [intro Q; first [reflexivity | discriminate Q]|]); contradiction|]).
      contradiction. }
    apply F; congruence. }
  subst r'. rewrite <- Hn.
  split; [exact U | split; [exact US|]].
  apply jwe_encrypt_ok; try assumption. eapply enc_pre_post; eassumption.
Qed.

Definition dec_good (en : jwe_enc_row) (sender : option key) (m : mrec) : Prop :=
  exists r, In r jwe_alg_table_drafts /\ ea_name r = m_alg m /\
            jwe_decrypt_alg prim r en (m_key m) sender (m_epk m) = Ok tt /\ m_mat m = true.

Lemma dec_one_good r en m sender :
  find_jwe (m_alg m) = Some r -> jwe_dec_one prim r en m sender = Ok tt -> dec_good en sender m.
Proof.
  intros F H. apply find_name in F. destruct F as [Hin Hn]. apply String.eqb_eq in Hn.
  unfold jwe_dec_one in H. inv_bind H. exists r. repeat split; try assumption.
  destruct (m_mat m); [reflexivity | discriminate Hb].
Qed.

Lemma dec_loop_all en sender rs got b :
  dec_loop prim true en sender rs got = Ok b -> Forall (dec_good en sender) rs.
Proof.
  revert got. induction rs as [|m rs IH]; simpl; intros got H; [constructor|].
  destruct (find_jwe (m_alg m)) as [r|] eqn:F; [|discriminate].
  destruct (jwe_dec_one prim r en m sender) as [[]|e] eqn:D.
  - constructor; [eapply dec_one_good; eassumption | eapply IH; eassumption].
  - rewrite andb_false_r in H. discriminate H.
Qed.

Lemma dec_loop_any va en sender rs got :
  dec_loop prim va en sender rs got = Ok true -> got = true \/ Exists (dec_good en sender) rs.
Proof.
  revert got. induction rs as [|m rs IH]; simpl; intros got H.
  - left. inversion H. reflexivity.
  - destruct (find_jwe (m_alg m)) as [r|] eqn:F; [|discriminate].
    destruct (jwe_dec_one prim r en m sender) as [[]|e] eqn:D.
    + right. apply Exists_cons_hd. eapply dec_one_good; eassumption.
    + destruct (swallowed e && negb va); [|discriminate].
      destruct (IH _ H) as [G | G]; [left; exact G | right; apply Exists_cons_tl; exact G].
Qed.

Lemma dec_good_suitable enc en sender m :
  find_enc enc = Some en -> key_wf (m_key m) -> (forall s, sender = Some s -> key_wf s) ->
  declared_use_ok "enc" (m_key m) -> (forall s, sender = Some s -> declared_use_ok "enc" s) ->
  dec_good en sender m ->
  m_mat m = true /\ jwe_suitable (m_alg m) false (cek_of enc) (m_key m) sender (m_epk m).
Proof.
  intros Fe W Ws U US (r & Hin & Hn & Hd & Hm). split; [exact Hm|].
  unfold cek_of. rewrite Fe. rewrite <- Hn.
  split; [exact U | split; [exact US|]]. apply jwe_decrypt_ok; assumption.
Qed.

(* decrypt_json on a general JSON serialization: every recipient key (and the sender
   key) is use-checked whatever verify_all_recipients; the plaintext comes from a
   recipient whose key is suitable and whose material matches; with
   verify_all_recipients every recipient key is suitable *)
Theorem jwe_multi_dec_suitable va src enc rs sender :
  Forall (fun m => key_wf (m_key m)) rs -> (forall s, sender = Some s -> key_wf s) ->
  jwe_multi_dec prim va src enc rs sender = Ok tt ->
  Forall (fun m => declared_use_ok "enc" (m_key m)) rs /\
  Exists (fun m => m_mat m = true /\
                   jwe_suitable (m_alg m) false (cek_of enc) (m_key m) sender (m_epk m)) rs /\
  (va = true ->
   Forall (fun m => m_mat m = true /\
                    jwe_suitable (m_alg m) false (cek_of enc) (m_key m) sender (m_epk m)) rs).
Proof.
  intros W Ws H. unfold jwe_multi_dec in H.
  destruct (find_enc enc) as [en|] eqn:Fe; [|discriminate].
  inv_bind H. apply forall_res_ok in Ha. apply map_exchange_ok in Hb.
  inv_bind Hb. destruct x; [|discriminate Hbb].
  assert (A : Forall (fun m => declared_use_ok "enc" (m_key m) /\
                               (forall s, sender = Some s -> declared_use_ok "enc" s)) rs).
  { rewrite Forall_forall in *. intros m Hm. specialize (W m Hm). specialize (Ha m Hm).
    cbv beta in Ha. inv_bind Ha.
    destruct (jwe_attach_ok _ _ _ _ _ _ W Ws Haa) as (_ & U & US). split; assumption. }
  assert (G : forall m, In m rs -> dec_good en sender m ->
              m_mat m = true /\ jwe_suitable (m_alg m) false (cek_of enc) (m_key m) sender (m_epk m)).
  { intros m Hm Hg. rewrite Forall_forall in W, A. destruct (A m Hm) as [U US].
    eapply dec_good_suitable; eauto. }
  split; [|split].
  - rewrite Forall_forall in *. intros m Hm. exact (proj1 (A m Hm)).
  - destruct (dec_loop_any _ _ _ _ _ Hba) as [Q | Q]; [discriminate Q|].
    apply Exists_exists in Q. destruct Q as (m & Hm & Hg). apply Exists_exists.
    exists m. split; [exact Hm | exact (G m Hm Hg)].
  - intros ->. apply dec_loop_all in Hba. rewrite Forall_forall in *.
    intros m Hm. exact (G m Hm (Hba m Hm)).
Qed.

End JWE.

(* ---------- error classes of the explicit gates ---------- *)
Section Classes.
Variable prim : pop -> native -> res unit.

Lemma jws_use_class e alg r k mat siglen s :
  find_jws alg = Some r -> k_use k = Some (PStr s) -> s <> [] -> s <> asc "sig" ->
  jws_run prim e SrcKey alg k mat siglen = Err (EJose UnsupportedKeyUseError).
Proof.
  intros F E Hs Hn. unfold jws_run. rewrite F. simpl.
  rewrite (check_use_err "sig" k s E Hs Hn). reflexivity.
Qed.

Lemma jws_type_class e alg r k mat siglen :
  find_jws alg = Some r -> jws_has_type_gate e = true -> declared_use_ok "sig" k ->
  kty_str (k_kty k) <> ja_key_type r ->
  jws_run prim e SrcKey alg k mat siglen = Err (EJose InvalidKeyTypeError).
Proof.
  intros F G U Hn. unfold jws_run. rewrite F. simpl.
  rewrite (check_use_pass _ _ U). simpl. rewrite G. simpl.
  unfold jws_check_key_type. destruct (String.eqb _ _) eqn:Q; [|reflexivity].
  apply String.eqb_eq in Q. contradiction.
Qed.

Lemma get_op_key_err op k l r :
  k_ops k = Some (PList l) -> ~ In (PStr (asc op)) l -> find_op op = Some r ->
  get_op_key op k = Err (EJose UnsupportedKeyOperationError).
Proof.
  intros E Hn F. unfold get_op_key. rewrite (check_key_op_err op k l r E Hn F). reflexivity.
Qed.

Lemma find_op_sign : exists r, find_op "sign" = Some r.
Proof. vm_compute. eauto. Qed.
Lemma find_op_verify : exists r, find_op "verify" = Some r.
Proof. vm_compute. eauto. Qed.

(* signing with key_ops that lack "sign": the explicit error, for every
   algorithm but none (for ES*: once the curve gate has passed) *)
Lemma jws_sign_ops_class r k l :
  In r jws_alg_table -> ja_family r <> "none" ->
  (ja_family r = "EC" -> ec_check_key r k = Ok tt) ->
  k_ops k = Some (PList l) -> ~ In (PStr (asc "sign")) l ->
  jws_sign prim r k = Err (EJose UnsupportedKeyOperationError).
Proof.
  intros Hin Hf Hec E Hn. destruct find_op_sign as [ro Fo].
  pose proof (get_op_key_err "sign" k l ro E Hn Fo) as G.
  apply jws_rows in Hin. unfold jws_sign.
  destruct r as [nm fam kt rec hs cv pd]. cbn [ja_name ja_family ja_key_type ja_curve] in *.
  simpl in Hin.
  repeat (destruct Hin as [Hin | Hin]; [ inversion Hin; subst nm fam kt cv; clear Hin | ]);
    try contradiction; try (exfalso; apply Hf; reflexivity);
    cbn -[get_op_key ec_check_key]; try rewrite (Hec eq_refl); try rewrite G; reflexivity.
Qed.

(* a public key cannot sign *)
Lemma jws_sign_public_class r k :
  In r jws_alg_table -> ja_family r <> "none" ->
  (ja_family r = "EC" -> ec_check_key r k = Ok tt) ->
  ops_include "sign" k -> k_priv k = false ->
  jws_sign prim r k = Err (EJose UnsupportedKeyOperationError).
Proof.
  intros Hin Hf Hec I P.
  assert (G : get_op_key "sign" k = Err (EJose UnsupportedKeyOperationError)).
  { destruct find_op_sign as [ro Fo]. unfold get_op_key.
    rewrite (check_key_op_public_err "sign" k ro I Fo); [reflexivity | | exact P].
    vm_compute in Fo. inversion Fo. reflexivity. }
  apply jws_rows in Hin. unfold jws_sign.
  destruct r as [nm fam kt rec hs cv pd]. cbn [ja_name ja_family ja_key_type ja_curve] in *.
  simpl in Hin.
  repeat (destruct Hin as [Hin | Hin]; [ inversion Hin; subst nm fam kt cv; clear Hin | ]);
    try contradiction; try (exfalso; apply Hf; reflexivity);
    cbn -[get_op_key ec_check_key]; try rewrite (Hec eq_refl); try rewrite G; reflexivity.
Qed.

(* ES256 / ES384 / ES512 / ES256K with an EC key on another curve: ValueError *)
Lemma jws_curve_class r k mat siglen :
  ja_family r = "EC" -> k_kty k = KEc -> k_crv k <> ja_curve r ->
  jws_sign prim r k = Err EValue /\ jws_verify prim r k mat siglen = Err EValue.
Proof.
  intros Hf Hk Hc.
  assert (G : ec_check_key r k = Err EValue).
  { unfold ec_check_key, curve_name. rewrite Hk. simpl.
    destruct (String.eqb (k_crv k) (ja_curve r)) eqn:Q; [|reflexivity].
    apply String.eqb_eq in Q. contradiction. }
  unfold jws_sign, jws_verify. rewrite Hf. cbn -[ec_check_key]. rewrite G. split; reflexivity.
Qed.

Lemma jwe_use_class e alg enc r en k ek mat s :
  find_jwe alg = Some r -> find_enc enc = Some en ->
  k_use k = Some (PStr s) -> s <> [] -> s <> asc "enc" ->
  jwe_run prim e SrcKey alg enc k None ek mat = Err (EJose UnsupportedKeyUseError).
Proof.
  intros F Fe E Hs Hn. unfold jwe_run. rewrite F, Fe.
  replace (eff_sender e None) with (@None key) by (unfold eff_sender; destruct (jwe_is_jwt e); reflexivity).
  unfold jwe_attach. simpl.
  rewrite (check_use_err "enc" k s E Hs Hn).
  destruct (jwe_sender_first e), (jwe_preattached e); reflexivity.
Qed.

(* the sender key (ECDH-1PU) declared for another use: refused on every entry point
   that takes a sender key, whatever the algorithm *)
Lemma jwe_sender_use_class e alg enc r en k sk ek mat s :
  find_jwe alg = Some r -> find_enc enc = Some en -> jwe_is_jwt e = false ->
  declared_use_ok "enc" k ->
  k_use sk = Some (PStr s) -> s <> [] -> s <> asc "enc" ->
  jwe_run prim e SrcKey alg enc k (Some sk) ek mat = Err (EJose UnsupportedKeyUseError).
Proof.
  intros F Fe J U E Hs Hn. unfold jwe_run. rewrite F, Fe. unfold eff_sender. rewrite J.
  unfold jwe_attach. simpl.
  rewrite (check_use_err "enc" sk s E Hs Hn), (check_use_pass _ _ U).
  destruct (jwe_sender_first e), (jwe_preattached e); reflexivity.
Qed.

(* a key whose type the algorithm does not take: InvalidKeyTypeError (every
   algorithm when encrypting; every algorithm but ECDH-1PU when decrypting,
   where the epk import / key agreement refuse instead) *)
Lemma jwe_type_class r en k sender e :
  In r jwe_alg_table_drafts -> mem_str (kty_str (k_kty k)) (ea_key_types r) = false ->
  jwe_encrypt_alg prim r en k sender = Err (EJose InvalidKeyTypeError) /\
  (ea_family r <> "ECDH1PU" ->
   jwe_decrypt_alg prim r en k sender e = Err (EJose InvalidKeyTypeError)).
Proof.
  intros Hin Hn.
  assert (G : jwe_check_key_type r k = Err (EJose InvalidKeyTypeError)).
  { unfold jwe_check_key_type. rewrite Hn. reflexivity. }
  apply jwe_rows in Hin. unfold jwe_encrypt_alg, jwe_decrypt_alg.
  destruct r as [nm fam dm ta kts ksz rc more wr hs p2c pd].
  cbn [ea_name ea_family ea_key_types ea_key_size ea_wrap] in *.
  simpl in Hin.
  repeat (destruct Hin as [Hin | Hin]; [ inversion Hin; subst nm fam kts ksz wr; clear Hin | ]);
    try contradiction;
    (split; [| intro Q]); try (exfalso; apply Q; reflexivity);
    cbn -[jwe_check_key_type]; rewrite G; reflexivity.
Qed.

(* ECDH-1PU decryption: the recipient key type is an explicit gate as well, reached once
   the enc restriction holds and a sender key is there; without a sender key the
   explicit error is InvalidExchangeKeyError (reported as DecodeError by perform_decrypt) *)
Lemma jwe_1pu_decrypt_classes r en k s e :
  ea_family r = "ECDH1PU" -> check_enc_1pu r en = Ok tt ->
  (mem_str (kty_str (k_kty k)) (ea_key_types r) = false ->
   jwe_decrypt_alg prim r en k (Some s) e = Err (EJose InvalidKeyTypeError)) /\
  map_exchange_err (jwe_decrypt_alg prim r en k None e) = Err (EJose DecodeError).
Proof.
  intros Hf He. unfold jwe_decrypt_alg. rewrite Hf.
  cbn -[jwe_check_key_type check_enc_1pu]. rewrite He. cbn -[jwe_check_key_type]. split.
  - intro Hn. unfold jwe_check_key_type. rewrite Hn. reflexivity.
  - reflexivity.
Qed.

(* AES key wrap / GCM key wrap with an oct key of another size, and RSA
   encryption with a modulus under 2048 bits: InvalidKeyLengthError *)
Lemma jwe_wrap_size_class r en k sender e sz :
  In r jwe_alg_table_drafts -> (ea_family r = "AESKW" \/ ea_family r = "AESGCMKW") ->
  ea_key_size r = Some sz -> k_kty k = KOct -> k_priv k = true -> k_ops k = None ->
  k_bits k <> sz ->
  jwe_encrypt_alg prim r en k sender = Err (EJose InvalidKeyLengthError) /\
  jwe_decrypt_alg prim r en k sender e = Err (EJose InvalidKeyLengthError).
Proof.
  intros Hin Hf Hs Hk Hp Ho Hb.
  assert (Gw : forall op, (op = "wrapKey" \/ op = "unwrapKey")%string ->
               get_op_key op k = Ok (NBytes (k_bits k))).
  { intros op [-> | ->]; unfold get_op_key, check_key_op, native_of; rewrite Ho, Hk, Hp;
      vm_compute; reflexivity. }
  assert (Gc : check_op_key r (NBytes (k_bits k)) = Err (EJose InvalidKeyLengthError)).
  { unfold check_op_key. rewrite Hs. destruct (k_bits k =? sz) eqn:Q; [|reflexivity].
    apply N.eqb_eq in Q. contradiction. }
  assert (Gt : jwe_check_key_type r k = Ok tt).
  { apply jwe_rows in Hin. unfold jwe_check_key_type. rewrite Hk.
    destruct r as [nm fam dm ta kts ksz rc more wr hs p2c pd].
    cbn [ea_name ea_family ea_key_types ea_key_size ea_wrap] in *. simpl in Hin.
    repeat (destruct Hin as [Hin | Hin]; [ inversion Hin; subst nm fam kts ksz wr; clear Hin | ]);
      try contradiction; try reflexivity; destruct Hf as [Hf | Hf]; discriminate Hf. }
  unfold jwe_encrypt_alg, jwe_decrypt_alg.
  destruct Hf as [Hf | Hf]; rewrite Hf; cbn -[get_op_key check_op_key jwe_check_key_type];
    rewrite Gt; cbn -[get_op_key check_op_key]; rewrite !Gw by auto;
    cbn -[get_op_key check_op_key]; rewrite Gc; split; reflexivity.
Qed.

Lemma jwe_rsa_size_class r en k sender sz :
  ea_family r = "RSA" -> ea_key_types r = ["RSA"] -> ea_key_size r = Some sz ->
  k_kty k = KRsa -> k_ops k = None -> k_bits k < sz ->
  jwe_encrypt_alg prim r en k sender = Err (EJose InvalidKeyLengthError).
Proof.
  intros Hf Ht Hs Hk Ho Hb. unfold jwe_encrypt_alg. rewrite Hf.
  cbn -[get_op_key rsa_size_gate jwe_check_key_type].
  unfold jwe_check_key_type. rewrite Ht, Hk. simpl.
  unfold get_op_key, check_key_op, native_of. rewrite Ho, Hk.
  replace (find_op "encrypt") with (Some {| ko_name := "encrypt"; ko_use := "enc"; ko_private := Some false |})
    by (vm_compute; reflexivity).
  simpl. unfold rsa_size_gate. rewrite Hs.
  apply N.ltb_lt in Hb. rewrite Hb. reflexivity.
Qed.

End Classes.

(* ---------- corollaries ---------- *)
Lemma one_of_In a l : In a l -> one_of a l = true.
Proof.
  intro H. unfold one_of. apply existsb_exists. exists a. split; [exact H | apply String.eqb_refl].
Qed.

Theorem no_mac_with_asymmetric_key prim e src alg k mat siglen :
  key_wf k -> (jws_has_type_gate e = true \/ prim_contract prim) ->
  In alg hmac_algs -> k_kty k <> KOct ->
  jws_run prim e src alg k mat siglen <> Ok tt.
Proof.
  intros W C Ha Hk H. apply jws_run_suitable in H; try assumption.
  destruct H as (_ & K & _). unfold jws_kind_ok in K. rewrite (one_of_In _ _ Ha) in K.
  contradiction.
Qed.

(* key_ops given as a JSON string would be matched by substring ("wrapKey" in "unwrapKey");
   since /repo 7fefb53 such a key cannot be imported: the registry validates "use" as a
   single member of [sig; enc] and "key_ops" as a list of operation names, which is what
   key_wf assumes (use_wf / ops_wf) *)
Definition kparam_kind (name : string) : option vkind :=
  option_map kp_kind (find (fun r => String.eqb (kp_name r) name) jwk_parameter_registry).

Lemma key_params_table :
  kparam_kind "use" = Some (VChoiceStr ["sig"; "enc"]) /\
  kparam_kind "key_ops" =
    Some (VChoiceList ["sign"; "verify"; "encrypt"; "decrypt"; "wrapKey"; "unwrapKey";
                       "deriveKey"; "deriveBits"]).
Proof. vm_compute. split; reflexivity. Qed.

(* for a well-formed key the key_ops gate is list membership, never substring search *)
Lemma key_ops_membership op k :
  key_wf k -> check_key_op op k = Ok tt -> ops_include op k.
Proof. intros (_ & Wo & _) H. exact (proj1 (check_key_op_ok op k Wo H)). Qed.

(* ---------- completeness: a suitable key is accepted ---------- *)
Lemma prim_std_fits p n : fits p n = true -> prim_std p n = Ok tt.
Proof. unfold prim_std. intros ->. reflexivity. Qed.

(* ---------- unsafe import ---------- *)
Lemma is_prefix_spec p t : is_prefix p t = true <-> exists rest, t = (p ++ rest)%list.
Proof.
  revert t. induction p as [|a p IH]; intro t; simpl.
  - split; [intros _; exists t; reflexivity | reflexivity].
  - destruct t as [|b t].
    + split; [discriminate | intros [rest H]; discriminate H].
    + rewrite andb_true_iff, N.eqb_eq, IH. split.
      * intros [-> [rest ->]]. exists rest. reflexivity.
      * intros [rest H]. inversion H. split; [reflexivity | exists rest; reflexivity].
Qed.

Lemma unsafe_table : possible_unsafe_keys = unsafe_prefixes.
Proof. vm_compute. reflexivity. Qed.

Lemma is_ws_spec c : is_ws c = true <-> whitespace c.
Proof.
  unfold is_ws, whitespace. rewrite !orb_true_iff, !N.eqb_eq. tauto.
Qed.

Lemma lstrip_split t : exists ws, Forall whitespace ws /\ t = (ws ++ lstrip t)%list.
Proof.
  induction t as [|c t IH]; simpl.
  - exists []. split; [constructor | reflexivity].
  - destruct (is_ws c) eqn:Q.
    + destruct IH as [ws [Hw Ht]]. exists (c :: ws). split.
      * constructor; [apply is_ws_spec; exact Q | exact Hw].
      * simpl. f_equal. exact Ht.
    + exists []. split; [constructor | reflexivity].
Qed.

Lemma lstrip_app_ws ws t : Forall whitespace ws -> lstrip (ws ++ t)%list = lstrip t.
Proof.
  induction 1 as [|c ws Hc Hw IH]; simpl; [reflexivity|].
  apply is_ws_spec in Hc. rewrite Hc. exact IH.
Qed.

(* none of the six prefixes begins with whitespace *)
Lemma lstrip_unsafe_prefix p rest : In p unsafe_prefixes -> lstrip (p ++ rest)%list = (p ++ rest)%list.
Proof.
  simpl. intros [<-|[<-|[<-|[<-|[<-|[<-|[]]]]]]]; reflexivity.
Qed.

Theorem unsafe_import_iff text : oct_import_warns text = true <-> starts_with_unsafe text.
Proof.
  unfold oct_import_warns, starts_with_unsafe. rewrite unsafe_table, existsb_exists. split.
  - intros [p [Hin Hp]]. apply is_prefix_spec in Hp. destruct Hp as [rest Hr].
    destruct (lstrip_split text) as [ws [Hw Ht]]. exists ws, p, rest.
    repeat split; try assumption. rewrite <- Hr. exact Ht.
  - intros [ws [p [rest [Hw [Hin ->]]]]]. exists p. split; [exact Hin|].
    rewrite (lstrip_app_ws _ _ Hw), (lstrip_unsafe_prefix _ _ Hin). apply is_prefix_spec. eauto.
Qed.

Theorem unsafe_import_all_routes r text :
  fst (import_text r text) = oct_of_text text /\
  (snd (import_text r text) = true <-> starts_with_unsafe text).
Proof.
  destruct r; simpl; (split; [reflexivity | apply unsafe_import_iff]).
Qed.

(* leading whitespace is looked behind; a byte-order mark and DER are not *)
Lemma unsafe_prefix_gap :
  oct_import_warns (asc " -----BEGIN PUBLIC KEY-----") = true /\
  oct_import_warns (13 :: 10 :: 9 :: 11 :: 12 :: asc "ssh-rsa AAAA") = true /\
  oct_import_warns (239 :: 187 :: 191 :: asc "-----BEGIN PUBLIC KEY-----") = false /\
  oct_import_warns [48; 130; 1; 34; 48; 13; 6; 9] = false.      (* DER SubjectPublicKeyInfo *)
Proof. vm_compute. repeat split; reflexivity. Qed.

(* ---------- statements of props/C06.v in their final form ---------- *)
Lemma p_c06_jws :
  forall prim e src alg k mat siglen,
    key_wf k -> jws_has_type_gate e = true ->
    jws_run prim e src alg k mat siglen = Ok tt ->
    jws_suitable alg (jws_is_sign e) k.
Proof. intros; eapply jws_run_suitable; eauto; left; assumption. Qed.

Lemma p_c06_jws_by_contract :
  forall prim, prim_contract prim ->
  forall e src alg k mat siglen,
    key_wf k ->
    jws_run prim e src alg k mat siglen = Ok tt ->
    jws_suitable alg (jws_is_sign e) k.
Proof. intros; eapply jws_run_suitable; eauto; right; assumption. Qed.

Lemma p_c06_no_mac :
  forall prim e src alg k mat siglen,
    key_wf k -> jws_has_type_gate e = true ->
    In alg ["HS256"; "HS384"; "HS512"] -> k_kty k <> KOct ->
    jws_run prim e src alg k mat siglen <> Ok tt.
Proof. intros; eapply no_mac_with_asymmetric_key; eauto. Qed.

Lemma p_c06_no_mac_by_contract :
  forall prim, prim_contract prim ->
  forall e src alg k mat siglen,
    key_wf k -> In alg ["HS256"; "HS384"; "HS512"] -> k_kty k <> KOct ->
    jws_run prim e src alg k mat siglen <> Ok tt.
Proof. intros; eapply no_mac_with_asymmetric_key; eauto. Qed.

Lemma p_c06_jwe :
  forall prim e src alg enc k sender ek mat,
    key_wf k -> (forall s, sender = Some s -> key_wf s) ->
    jwe_run prim e src alg enc k sender ek mat = Ok tt ->
    jwe_suitable alg (jwe_is_enc e) (cek_of enc) k (eff_sender e sender)
                 (if jwe_is_enc e then {| epk_kty := KEc; epk_crv := "" |} else ek).
Proof. exact jwe_run_suitable. Qed.

(* the key handed to add_recipient(header, key) is use-checked as well *)
Lemma p_c06_jwe_preattached :
  forall prim e src alg enc k sender ek mat,
    key_wf k -> (forall s, sender = Some s -> key_wf s) -> jwe_preattached e = true ->
    jwe_run prim e src alg enc k sender ek mat = Ok tt ->
    declared_use_ok "enc" k /\ (forall s, sender = Some s -> declared_use_ok "enc" s).
Proof.
  intros prim e src alg enc k sender ek mat W Ws P H.
  destruct (jwe_run_suitable prim e src alg enc k sender ek mat W Ws H) as (A & B & _).
  split; [exact A|]. unfold eff_sender in B.
  destruct e; try discriminate P; exact B.
Qed.

Definition ex_key (t : kty) (crv : string) (bits : N) (priv : bool) (use : option string)
           (ops : option (list string)) : key :=
  {| k_kty := t; k_crv := crv; k_bits := bits; k_priv := priv;
     k_use := option_map (fun u => PStr (asc u)) use;
     k_ops := option_map (fun l => PList (map (fun o => PStr (asc o)) l)) ops;
     k_alg := None |}.

Lemma p_c06_wf_instance :
  key_wf (ex_key KEc "P-256" 0 true (Some "sig") (Some ["sign"])) /\
  key_wf (ex_key KOct "" 256 true None None) /\
  prim_contract prim_std /\
  starts_with_unsafe (asc "-----BEGIN PUBLIC KEY-----") /\
  oct_import_warns (asc "ssh-ed25519 AAAAC3Nz") = true /\
  oct_import_warns (asc "a long random secret") = false.
Proof.
  split; [|split; [|split; [|split; [|split]]]].
  - unfold key_wf; simpl. repeat split; try discriminate.
    + right. exists (asc "sig"). split; [reflexivity | discriminate].
    + right. eexists. reflexivity.
    + intros _. tauto.
  - unfold key_wf; simpl. repeat split; try discriminate; left; reflexivity.
  - intros p n H. unfold prim_std in H. destruct (fits p n); [reflexivity | discriminate H].
  - exists [], (asc "-----BEGIN "), (asc "PUBLIC KEY-----").
    split; [constructor | split; [simpl; tauto | reflexivity]].
  - vm_compute. reflexivity.
  - vm_compute. reflexivity.
Qed.

(* ---------- completeness (JWS): a suitable key is accepted ---------- *)
Lemma get_op_key_pass op k :
  (exists r, find_op op = Some r) -> ops_include op k -> (op_private op = true -> k_priv k = true) ->
  get_op_key op k = Ok (native_of k (op_private op)).
Proof.
  intros [r F] I P. unfold get_op_key, op_private in *. rewrite F in *.
  rewrite (check_key_op_pass op k r I F P). reflexivity.
Qed.

Definition siglen_ok (k : key) (siglen : N) : Prop :=
  forall c, find_curve (k_crv k) = Some c -> siglen = 2 * ((cv_bits c + 7) / 8).

Theorem jws_complete e alg r k siglen :
  key_wf k -> find_jws alg = Some r -> alg <> "none" ->
  jws_suitable alg (jws_is_sign e) k -> check_alg alg k = Ok tt -> siglen_ok k siglen ->
  jws_run prim_std e SrcKey alg k true siglen = Ok tt.
Proof.
  intros W F Hnone (U & K & O) A L. specialize (O Hnone). destruct O as [Oi Op].
  pose proof op_private_values as (Ps & Pv & _).
  unfold jws_run. rewrite F. apply find_name in F. destruct F as [Hin Hn].
  apply String.eqb_eq in Hn. subst alg.
  cbn [guess_key bind]. rewrite (check_use_pass _ _ U). cbn [bind].
  rewrite A.
  apply jws_rows in Hin.
  destruct r as [nm fam kt rec hs cv pd]. cbn [ja_name ja_family ja_key_type ja_curve] in *.
  simpl in Hin.
  repeat (destruct Hin as [Hin | Hin]; [ inversion Hin; subst nm fam kt cv; clear Hin | ]);
    try contradiction; try (exfalso; apply Hnone; reflexivity);
    first [ assert (K1 : k_kty k = KOct) by exact K
          | assert (K1 : k_kty k = KRsa) by exact K
          | assert (K1 : k_kty k = KEc) by exact (proj1 K);
            first [ assert (K2 : k_crv k = "P-256") by exact (proj2 K)
                  | assert (K2 : k_crv k = "P-384") by exact (proj2 K)
                  | assert (K2 : k_crv k = "P-521") by exact (proj2 K)
                  | assert (K2 : k_crv k = "secp256k1") by exact (proj2 K) ]
          | assert (K1 : k_kty k = KOkp) by exact (proj1 K);
            assert (K2 : k_crv k = "Ed25519" \/ k_crv k = "Ed448") by exact (proj2 K) ];
    clear K;
    (destruct (jws_is_sign e) eqn:Es;
    [ pose proof (get_op_key_pass "sign" k find_op_sign Oi (fun _ => Op eq_refl)) as G; rewrite Ps in G
    | pose proof (get_op_key_pass "verify" k find_op_verify Oi
                    (fun Q => False_ind _ (Bool.diff_false_true (eq_trans (eq_sym Pv) Q)))) as G;
      rewrite Pv in G ]);
    unfold jws_check_key_type, jws_sign, jws_verify, ec_check_key, curve_name, curve_key_size, native_of in *;
    destruct (jws_has_type_gate e), (jws_has_alg_gate e);
    cbn -[get_op_key N.mul N.div N.add N.eqb find_curve];
    rewrite ?K1;
    cbn -[get_op_key N.mul N.div N.add N.eqb find_curve]; rewrite ?G;
    rewrite ?K1;
    cbn -[N.mul N.div N.add N.eqb find_curve];
    try reflexivity.
  (* ES*: the curve; verification: the signature length; EdDSA: the two curves *)
  all: try (rewrite !K2; vm_compute; reflexivity).
  all: try (assert (Ls : exists c, find_curve (k_crv k) = Some c) by (rewrite K2; vm_compute; eauto);
            destruct Ls as [c Fc]; rewrite (L c Fc); rewrite K2 in Fc; vm_compute in Fc;
            inversion Fc; subst c; rewrite !K2; vm_compute; reflexivity).
  all: destruct K2 as [K2 | K2]; rewrite K2; reflexivity.
Qed.

Lemma get_op_key_err_global op k l r :
  k_ops k = Some (PList l) -> ~ In (PStr (asc op)) l -> find_op op = Some r ->
  get_op_key op k = Err (EJose UnsupportedKeyOperationError).
Proof.
  intros E Hn F. unfold get_op_key. rewrite (check_key_op_err op k l r E Hn F). reflexivity.
Qed.

(* ---------- the gates are stateless ---------- *)
(* whatever was done before with the same key object, the verdict of an operation is the
   verdict of that operation on a fresh key with the same parameters *)
Theorem gate_stateless k history op :
  last (run_history k (history ++ [op])) (Ok tt) = op_verdict k op /\
  (forall op', nth_error (run_history k (history ++ [op])) (length history) = Some (op_verdict k op) /\
               run_history k (op' :: history ++ [op]) = op_verdict k op' :: run_history k (history ++ [op])).
Proof.
  unfold run_history. split.
  - rewrite map_app. simpl. apply last_last.
  - intro op'. split; [|reflexivity].
    rewrite map_app, nth_error_app2 by (rewrite map_length; apply Nat.le_refl).
    rewrite map_length, Nat.sub_diag. reflexivity.
Qed.

(* hence a permitted warm-up never opens a gate: if the key_ops of a well-formed key lack
   the operation, it is refused after ANY history *)
Theorem gate_after_history k history op l r :
  k_ops k = Some (PList l) -> ~ In (PStr (asc op)) l -> find_op op = Some r ->
  last (run_history k (history ++ [op])) (Ok tt) = Err (EJose UnsupportedKeyOperationError).
Proof.
  intros E Hn F. rewrite (proj1 (gate_stateless k history op)).
  unfold op_verdict. rewrite (get_op_key_err_global op k l r E Hn F). reflexivity.
Qed.
