(* C09Dict.v — header merge ({"typ": "JWT", **header}) and convert_claims
   (in-place NumericDate conversion) against their member-wise specifications. *)
From Coq Require Import Lia ZifyBool.
From Model Require Import Base PyVal C09Jwt C09Spec.
From Gen Require Import TablesC09.
From Proofs Require Import C09Calendar.
Open Scope Z_scope.

(* ---------- dictionaries ---------- *)
Lemma dget_none_mem {A} (d : list (str * A)) k : dget d k = None <-> str_mem k (dkeys d) = false.
Proof.
  induction d as [|[k' v] d IH]; simpl; [tauto|].
  destruct (str_eqb k' k); simpl; [split; discriminate | exact IH].
Qed.

Lemma dset_absent {A} (d : list (str * A)) k v : dget d k = None -> dset d k v = d ++ [(k, v)].
Proof.
  induction d as [|[k' v'] d IH]; simpl; [reflexivity|].
  destruct (str_eqb k' k); [discriminate|]. intro H. rewrite (IH H). reflexivity.
Qed.

Lemma ddel_absent {A} (d : list (str * A)) k : dget d k = None -> ddel d k = d.
Proof.
  induction d as [|[k' v'] d IH]; simpl; [reflexivity|].
  destruct (str_eqb k' k); [discriminate|]. intro H. rewrite (IH H). reflexivity.
Qed.

Lemma dget_app {A} (a b : list (str * A)) k :
  dget (a ++ b) k = match dget a k with Some v => Some v | None => dget b k end.
Proof.
  induction a as [|[k' v'] a IH]; simpl; [reflexivity|].
  destruct (str_eqb k' k); [reflexivity | exact IH].
Qed.

Lemma str_eqb_sym a b : str_eqb a b = str_eqb b a.
Proof.
  destruct (str_eqb a b) eqn:E.
  - apply str_eqb_eq in E. subst. symmetry. apply str_eqb_refl.
  - destruct (str_eqb b a) eqn:F; [|reflexivity]. apply str_eqb_eq in F. subst.
    rewrite str_eqb_refl in E. discriminate.
Qed.

(* fold of dset over the caller's members, starting from the default member
   followed by already merged members *)
Lemma merge_one (k0 : str) : forall (h acc : list (str * pv)) (v : pv),
  keys_unique (dkeys h) = true ->
  dget acc k0 = None ->
  (forall k, dmem h k = true -> dget acc k = None) ->
  fold_left (fun a kv => dset a (fst kv) (snd kv)) h ((k0, v) :: acc) =
  (k0, match dget h k0 with Some x => x | None => v end) :: acc ++ ddel h k0.
Proof.
  induction h as [|[k x] h IH]; intros acc v U A0 D.
  - simpl. rewrite app_nil_r. reflexivity.
  - simpl in U. apply andb_true_iff in U. destruct U as [U1 U2].
    apply negb_true_iff in U1. apply dget_none_mem in U1.
    cbn [fold_left fst snd dset dget ddel].
    rewrite (str_eqb_sym k k0).
    destruct (str_eqb k0 k) eqn:E.
    + apply str_eqb_eq in E. subst k.
      rewrite IH; [|exact U2|exact A0|].
      * rewrite U1. reflexivity.
      * intros k Hk. apply D. unfold dmem in *. simpl.
        destruct (str_eqb k0 k); [reflexivity|exact Hk].
    + assert (Ak : dget acc k = None).
      { apply D. unfold dmem. simpl. rewrite str_eqb_refl. reflexivity. }
      rewrite (dset_absent acc k x Ak).
      rewrite IH; [|exact U2| |].
      * rewrite <- app_assoc. reflexivity.
      * rewrite dget_app, A0. simpl. rewrite (str_eqb_sym k k0), E. reflexivity.
      * intros k' Hk'. rewrite dget_app.
        rewrite D; [|unfold dmem in *; simpl; destruct (str_eqb k k'); [reflexivity|exact Hk']].
        simpl. destruct (str_eqb k k') eqn:F; [|reflexivity].
        apply str_eqb_eq in F. subst k'. unfold dmem in Hk'. rewrite U1 in Hk'. discriminate.
Qed.

Lemma default_header_is : default_header = [(lit_typ, lit_JWT)].
Proof. reflexivity. Qed.

Lemma typ_default_spec h : keys_unique (dkeys h) = true -> typ_default h = spec_header h.
Proof.
  intro U. unfold typ_default, dupdate. rewrite default_header_is.
  rewrite (merge_one lit_typ h [] lit_JWT U); [reflexivity|reflexivity|reflexivity].
Qed.

Lemma dget_ddel_other {A} (d : list (str * A)) k k2 : k <> k2 -> dget (ddel d k) k2 = dget d k2.
Proof.
  intro N. induction d as [|[k' v'] d IH]; simpl; [reflexivity|].
  destruct (str_eqb k' k) eqn:E.
  - apply str_eqb_eq in E. subst k'.
    destruct (str_eqb k k2) eqn:E2; [apply str_eqb_eq in E2; contradiction | exact IH].
  - simpl. destruct (str_eqb k' k2); [reflexivity | exact IH].
Qed.

Lemma spec_header_typ h :
  dget (spec_header h) lit_typ = Some (match dget h lit_typ with Some v => v | None => lit_JWT end).
Proof. unfold spec_header. simpl. reflexivity. Qed.

Lemma spec_header_other h k : k <> lit_typ -> dget (spec_header h) k = dget h k.
Proof.
  intro N. unfold spec_header. cbn [dget].
  destruct (str_eqb lit_typ k) eqn:E; [apply str_eqb_eq in E; congruence|].
  apply dget_ddel_other. congruence.
Qed.

Lemma spec_header_members h k v : dget h k = Some v -> dget (spec_header h) k = Some v.
Proof.
  intro H. destruct (str_eqb lit_typ k) eqn:E.
  - apply str_eqb_eq in E. subst k. rewrite spec_header_typ, H. reflexivity.
  - rewrite spec_header_other; [exact H|]. intro F. subst k. rewrite str_eqb_refl in E. discriminate.
Qed.

(* ---------- convert_claims ---------- *)
Lemma dkeys_dset_present {A} (d : list (str * A)) k v : dmem d k = true -> dkeys (dset d k v) = dkeys d.
Proof.
  unfold dmem. induction d as [|[k' v'] d IH]; simpl; [discriminate|].
  destruct (str_eqb k' k) eqn:E; simpl; [reflexivity|]. intro H. rewrite (IH H). reflexivity.
Qed.

Definition conv_point (ks : list str) (c c' : claims) (k : str) : Prop :=
  match dget c k with
  | Some (CDt t) =>
      if str_mem k ks
      then exists n, numericdate t = Ok n /\ dget c' k = Some (CV (PInt n))
      else dget c' k = Some (CDt t)
  | x => dget c' k = x
  end.

Lemma convert_keys_ok ks : forall c c',
  convert_keys ks c = (c', None) ->
  dkeys c' = dkeys c /\ forall k, conv_point ks c c' k.
Proof.
  induction ks as [|k0 r IH]; intros c c' H.
  - simpl in H. injection H as <-. split; [reflexivity|].
    intro k. unfold conv_point. destruct (dget c k) as [[v|t|ob]|]; reflexivity.
  - cbn [convert_keys] in H.
    destruct (dget c k0) as [[v|t|ob]|] eqn:G.
    + destruct (IH _ _ H) as [K P]. split; [exact K|]. intro k. specialize (P k).
      unfold conv_point in *. cbn [str_mem].
      destruct (str_eqb k0 k) eqn:E; [|exact P].
      apply str_eqb_eq in E. subst k. rewrite G in *. exact P.
    + destruct (numericdate t) as [n|e] eqn:N; [|discriminate].
      destruct (IH _ _ H) as [K P]. split.
      * rewrite K. apply dkeys_dset_present. unfold dmem. rewrite G. reflexivity.
      * intro k. specialize (P k). unfold conv_point in *. cbn [str_mem].
        destruct (str_eqb k0 k) eqn:E.
        -- apply str_eqb_eq in E. subst k. rewrite dget_dset_same in P. rewrite G. simpl.
           exists n. split; [exact N|exact P].
        -- rewrite dget_dset_other in P; [exact P|].
           intro F. subst k. rewrite str_eqb_refl in E. discriminate.
    + destruct (IH _ _ H) as [K P]. split; [exact K|]. intro k. specialize (P k).
      unfold conv_point in *. cbn [str_mem].
      destruct (str_eqb k0 k) eqn:E; [|exact P].
      apply str_eqb_eq in E. subst k. rewrite G in *. exact P.
    + destruct (IH _ _ H) as [K P]. split; [exact K|]. intro k. specialize (P k).
      unfold conv_point in *. cbn [str_mem].
      destruct (str_eqb k0 k) eqn:E; [|exact P].
      apply str_eqb_eq in E. subst k. rewrite G in *. exact P.
Qed.

Lemma convert_keys_err ks : forall c c' e,
  convert_keys ks c = (c', Some e) ->
  e = EOverflow /\ exists k t, In k ks /\ dget c' k = Some (CDt t) /\ numericdate t = Err e.
Proof.
  induction ks as [|k0 r IH]; intros c c' e H; [discriminate|].
  cbn [convert_keys] in H.
  destruct (dget c k0) as [[v|t|ob]|] eqn:G.
  - destruct (IH _ _ _ H) as [E (k & t & I & D & N)]. split; [exact E|]. exists k, t. simpl. tauto.
  - destruct (numericdate t) as [n|e'] eqn:N.
    + destruct (IH _ _ _ H) as [E (k & t' & I & D & N')]. split; [exact E|]. exists k, t'. simpl. tauto.
    + injection H as <- <-. split; [apply (numericdate_only_overflow t e' N)|].
      exists k0, t. simpl. tauto.
  - destruct (IH _ _ _ H) as [E (k & t & I & D & N)]. split; [exact E|]. exists k, t. simpl. tauto.
  - destruct (IH _ _ _ H) as [E (k & t & I & D & N)]. split; [exact E|]. exists k, t. simpl. tauto.
Qed.

Lemma claims_pv_spec : forall c d, claims_pv c = Some d ->
  dkeys d = dkeys c /\
  forall k, dget d k = match dget c k with Some (CV v) => Some v | _ => None end.
Proof.
  induction c as [|[k x] c IH]; intros d H.
  - simpl in H. injection H as <-. split; [reflexivity|]. intro; reflexivity.
  - simpl in H. destruct x as [v|t|o]; [|discriminate|discriminate].
    destruct (claims_pv c) as [d'|] eqn:E; [|discriminate]. injection H as <-.
    destruct (IH d' eq_refl) as [K P]. split; [simpl; rewrite K; reflexivity|].
    intro k2. simpl. destruct (str_eqb k k2); [reflexivity|apply P].
Qed.

Lemma claims_pv_none : forall c, claims_pv c = None ->
  exists k x, In (k, x) c /\ (forall v, x <> CV v).
Proof.
  induction c as [|[k x] c IH]; simpl; [discriminate|].
  destruct x as [v|t|o].
  - destruct (claims_pv c); [discriminate|]. intros _. destruct (IH eq_refl) as (k' & x & I & N).
    exists k', x. split; [right; exact I|exact N].
  - intros _. exists k, (CDt t). split; [left; reflexivity|discriminate].
  - intros _. exists k, (CObj o). split; [left; reflexivity|discriminate].
Qed.

(* ---------- well-formedness ---------- *)
Lemma json_wf_dict d :
  json_wf (PDict d) = keys_unique (dkeys d) && forallb (fun kv => json_wf (snd kv)) d.
Proof.
  cbn [json_wf]. f_equal. induction d as [|[k x] d IH]; [reflexivity|].
  cbn [forallb snd]. rewrite <- IH. reflexivity.
Qed.

Lemma json_str_ok_dict d :
  json_str_ok (PDict d) = forallb (fun kv => str_ok (fst kv) && json_str_ok (snd kv)) d.
Proof.
  cbn [json_str_ok]. induction d as [|[k x] d IH]; [reflexivity|].
  cbn [forallb fst snd]. rewrite <- IH. reflexivity.
Qed.

Lemma claims_pv_ok : forall c d, claims_ok c = true -> claims_pv c = Some d -> json_ok (PDict d) = true.
Proof.
  intros c d O H. unfold json_ok. rewrite json_wf_dict, json_str_ok_dict.
  unfold claims_ok in O. apply andb_true_iff in O. destruct O as [U F].
  destruct (claims_pv_spec c d H) as [K _]. rewrite K, U. simpl.
  revert d H K. induction c as [|[k x] c IH]; intros d H K.
  - simpl in H. injection H as <-. reflexivity.
  - simpl in H. destruct x as [v|t|o]; [|discriminate|discriminate].
    destruct (claims_pv c) as [d'|] eqn:E; [|discriminate]. injection H as <-.
    cbn [forallb fst snd cval_ok] in F |- *.
    apply andb_true_iff in F. destruct F as [F1 F2].
    apply andb_true_iff in F1. destruct F1 as [S J]. unfold json_ok in J.
    apply andb_true_iff in J. destruct J as [J1 J2].
    simpl in U. apply andb_true_iff in U. destruct U as [_ U2].
    simpl in K. injection K as K.
    specialize (IH U2 F2 d' eq_refl K). apply andb_true_iff in IH. destruct IH as [I1 I2].
    rewrite J1, J2, S, I1, I2. reflexivity.
Qed.

Lemma claims_ok_dset c k n : claims_ok c = true -> dmem c k = true ->
  claims_ok (dset c k (CV (PInt n))) = true.
Proof.
  unfold claims_ok. intros O M. apply andb_true_iff in O. destruct O as [U F].
  rewrite (dkeys_dset_present c k _ M), U. simpl.
  clear U. unfold dmem in M. induction c as [|[k' x] c IH]; [discriminate|].
  cbn [forallb fst snd] in F. apply andb_true_iff in F. destruct F as [F1 F2].
  apply andb_true_iff in F1. destruct F1 as [S C].
  cbn [dset dget] in *. destruct (str_eqb k' k).
  - cbn [forallb fst snd]. rewrite S, F2. reflexivity.
  - cbn [forallb fst snd]. rewrite S, C, (IH F2 M). reflexivity.
Qed.

Lemma convert_keys_claims_ok ks : forall c c' o,
  claims_ok c = true -> convert_keys ks c = (c', o) -> claims_ok c' = true.
Proof.
  induction ks as [|k0 r IH]; intros c c' o O H.
  - simpl in H. injection H as <- _. exact O.
  - cbn [convert_keys] in H. destruct (dget c k0) as [[v|t|ob]|] eqn:G.
    + exact (IH _ _ _ O H).
    + destruct (numericdate t) as [n|e].
      * apply (IH _ _ _ (claims_ok_dset c k0 n O ltac:(unfold dmem; rewrite G; reflexivity)) H).
      * injection H as <- _. exact O.
    + exact (IH _ _ _ O H).
    + exact (IH _ _ _ O H).
Qed.
