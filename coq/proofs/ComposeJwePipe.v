(* ComposeJwePipe.v — the C15 / C05 / C14 / C06 / C17 characterisations as
   corollaries about the entry points of the JWE pipeline model
   (perform_decrypt / perform_encrypt, decrypt_compact[_k], decrypt_json[_k],
   encrypt_compact, encrypt_json), for every oracle record whose
   o_check_header / o_inflate fields are the C15 / C17 models. *)
From Coq Require Import String List NArith ZArith Bool Lia.
From Model Require Import Base PyVal TableTypes ComposeDefs.
From Model Require Import JweKeys ComposeJweDefs.
From Model Require C05Model C06Model C06Spec C14KeySet C14Spec C15Registry C15Spec C17Zip.
From Gen Require Import Tables.
From Proofs Require JwsProofs C05Proofs C14Proofs C15Proofs C17Proofs ComposeJweEq.
Import ListNotations.
Open Scope N_scope.

Ltac bst H x E := apply JwsProofs.bind_ok in H; destruct H as (x & E & H).

Section Pipe.
  Variable O : oracles.

  (* ---------------- what every accepting decryption did ---------------- *)
  Definition loop_ok (g : registry) (o : jobj) (r : recip) : Prop :=
    exists hs algv a,
      headers (j_ser o) (j_prot o) (j_unprot o) (r_header r) = Ok hs /\
      o_check_header O (PDict hs) true = Ok tt /\
      hitem hs "alg" = Ok algv /\ get_alg g algv = Ok a.

  Lemma recip_loop_inv g e o : forall rs ceks out,
    recip_loop O g e o rs ceks = Ok out -> Forall (loop_ok g o) rs.
  Proof.
    induction rs as [|r rest IH]; intros ceks out H; [constructor|].
    cbn [recip_loop] in H.
    bst H hs HS. bst H u CH. destruct u. bst H algv HA. bst H a GA.
    constructor.
    - exists hs, algv, a. auto.
    - destruct (decrypt_recipient O a e hs r (j_tag o)) as [cek|x].
      + exact (IH _ _ H).
      + destruct (catchable x); [|discriminate]. destruct (g_verify_all g); [discriminate|]. exact (IH _ _ H).
  Qed.

  Lemma perform_decrypt_inner_ok g o m :
    perform_decrypt O g o = Ok m -> perform_decrypt_inner O g o = Ok m.
  Proof.
    unfold perform_decrypt. destruct (perform_decrypt_inner O g o) as [x|e]; [auto|].
    destruct e as [c| | | | | | | | | |]; try discriminate. destruct c; discriminate.
  Qed.

  Theorem perform_decrypt_inv g o m :
    perform_decrypt O g o = Ok m ->
    exists encv e cek aad msg,
      hitem (j_prot o) "enc" = Ok encv /\ get_enc g encv = Ok e /\ check_iv e (j_iv o) = Ok tt /\
      recip_loop O g e o (j_recips o) [] = Ok [cek] /\ lenN cek * 8 = ee_cek_size e /\
      enc_decrypt O e (j_ct o) (j_tag o) cek (j_iv o) aad = Ok msg /\
      unzip O g (j_prot o) msg = Ok m /\
      Forall (loop_ok g o) (j_recips o).
  Proof.
    intro H. apply perform_decrypt_inner_ok in H. unfold perform_decrypt_inner in H.
    bst H u0 U0. bst H encv HE. bst H e GE. bst H u1 CI. destruct u1. bst H ceks RL.
    destruct ceks as [|cek [|c2 cs]]; try discriminate.
    destruct (negb (lenN cek * 8 =? ee_cek_size e)) eqn:L; [discriminate|].
    apply negb_false_iff, N.eqb_eq in L.
    bst H aad DA. bst H msg ED.
    exists encv, e, cek, aad, msg. repeat (split; [assumption|]).
    exact (recip_loop_inv _ _ _ _ _ _ RL).
  Qed.

  (* ---------------- what every producing run did ---------------- *)
  Definition pre_ok (g : registry) (s : ser) (unprot : pv) (r : recip) : Prop :=
    exists prot hs algv a,
      headers s prot unprot (r_header r) = Ok hs /\
      o_check_header O (PDict hs) false = Ok tt /\
      hitem hs "alg" = Ok algv /\ get_alg g algv = Ok a.

  Lemma prepare_inv g s prot unprot r a prot1 r1 :
    prepare_recipient_algorithm O g s prot unprot r = Ok (a, prot1, r1) ->
    exists hs algv, headers s prot unprot (r_header r) = Ok hs /\
      o_check_header O (PDict hs) false = Ok tt /\ hitem hs "alg" = Ok algv /\ get_alg g algv = Ok a.
  Proof.
    unfold prepare_recipient_algorithm. intro H.
    bst H hs HS. bst H u CH. destruct u. bst H algv HA. bst H a' GA.
    exists hs, algv. repeat (split; [assumption|]).
    destruct (is_agreement a').
    - bst H pr PR. inversion H; subst. exact GA.
    - inversion H; subst. exact GA.
  Qed.

  Lemma pre_loop_inv g e s unprot total dc : forall rs ds prot cek acc out,
    pre_loop O g e s unprot total dc rs ds prot cek acc = Ok out -> Forall (pre_ok g s unprot) rs.
  Proof.
    induction rs as [|r rest IH]; intros ds prot cek acc out H; [constructor|].
    cbn [pre_loop] in H. bst H apr PR. destruct apr as [[a prot1] r1].
    destruct (prepare_inv _ _ _ _ _ _ _ _ PR) as (hs & algv & HS & CH & HA & GA).
    constructor; [exists prot, hs, algv, a; auto|].
    destruct (ea_direct a).
    - destruct (Nat.ltb 1 total); [discriminate|]. bst H cr CR. exact (IH _ _ _ _ _ H).
    - destruct (is_agreement a).
      + exact (IH _ _ _ _ _ H).
      + bst H pre EC. destruct pre as [[prot2 r2] ek]. exact (IH _ _ _ _ _ H).
  Qed.

  Theorem perform_encrypt_inv g o d x :
    perform_encrypt O g o d = Ok x ->
    exists encv e m,
      hitem (e_prot o) "enc" = Ok encv /\ get_enc g encv = Ok e /\
      zip_plain O g (x_prot x) (e_plain o) = Ok m /\
      x_iv x = d_civ d /\
      enc_encrypt O e m (x_cek x) (x_iv x) (x_aadseg x) = Ok (x_ct x, x_tag x) /\
      Forall (pre_ok g (e_ser o) (e_unprot o)) (e_recips o).
  Proof.
    unfold perform_encrypt. intro H.
    bst H encv HE. bst H e GE. bst H st PL. destruct st as [[prot cek] acc].
    bst H m ZP. bst H b64p JB. bst H ctag EE. destruct ctag as [ct tag]. bst H rs QL.
    inversion H; subst; cbn.
    exists encv, e, m. repeat (split; [assumption|]). split; [reflexivity|]. split; [exact EE|].
    exact (pre_loop_inv _ _ _ _ _ _ _ _ _ _ _ _ PL).
  Qed.

  (* ================================================================ *)
  (* C15                                                               *)
  (* ================================================================ *)
  Section C15.
    Variable tbl : list jwe_alg_row.
    Variable recommended : list string.
    Variable allowed : option (list string).
    Variable reg : list hparam.
    Variable strict : bool.
    Hypothesis check_header_is_c15 : forall hs cm,
      o_check_header O (PDict hs) cm = C15Registry.jwe_check_header tbl recommended allowed reg strict hs cm.

    Notation hok := (C15Spec.header_ok_jwe tbl recommended allowed reg strict).

    Lemma checked_ok hs cm : o_check_header O (PDict hs) cm = Ok tt -> hok hs cm = true.
    Proof. rewrite check_header_is_c15. apply C15Proofs.jwe_iff. Qed.

    (* consuming side: every recipient's merged header, check_more = true *)
    Theorem c15_decrypt g o m :
      perform_decrypt O g o = Ok m ->
      Forall (fun r => exists hs, headers (j_ser o) (j_prot o) (j_unprot o) (r_header r) = Ok hs /\
                                  hok hs true = true) (j_recips o).
    Proof.
      intro H. destruct (perform_decrypt_inv _ _ _ H) as (_ & _ & _ & _ & _ & _ & _ & _ & _ & _ & _ & _ & F).
      eapply Forall_impl; [|exact F]. intros r (hs & algv & a & HS & CH & _).
      exists hs. split; [exact HS|]. exact (checked_ok _ _ CH).
    Qed.

    (* producing side: every recipient's merged header at the time it is processed
       (the protected header grows while recipients are processed), check_more = false *)
    Theorem c15_encrypt g o d x :
      perform_encrypt O g o d = Ok x ->
      Forall (fun r => exists prot hs, headers (e_ser o) prot (e_unprot o) (r_header r) = Ok hs /\
                                       hok hs false = true) (e_recips o).
    Proof.
      intro H. destruct (perform_encrypt_inv _ _ _ _ H) as (_ & _ & _ & _ & _ & _ & _ & _ & F).
      eapply Forall_impl; [|exact F]. intros r (prot & hs & algv & a & HS & CH & _).
      exists prot, hs. split; [exact HS|]. exact (checked_ok _ _ CH).
    Qed.

    (* the merged header is C15's merge_parts in the order protected < unprotected < per-recipient *)
    Theorem c15_decrypt_merged g o m u :
      perform_decrypt O g o = Ok m -> j_unprot o = optd u ->
      Forall (fun r => forall h, r_header r = optd h ->
                hok (C15Registry.merge_parts (ser_parts (j_ser o) (j_prot o) u h)) true = true) (j_recips o).
    Proof.
      intros H U. pose proof (c15_decrypt _ _ _ H) as F.
      eapply Forall_impl; [|exact F]. intros r (hs & HS & OK) h RH.
      rewrite U, RH, ComposeJweEq.headers_merge in HS. inversion HS. subst hs. exact OK.
    Qed.
  End C15.

  (* ================================================================ *)
  (* C05                                                               *)
  (* ================================================================ *)
  Definition listed (g : registry) (n : str) : Prop :=
    In (PStr n) (C05Model.effective (allowed_list (g_allowed g)) jwe_recommended_drafts).

  Lemma get_alg_listed g v a : get_alg g v = Ok a ->
    exists n, v = PStr n /\ C05Model.find_row ea_name jwe_alg_table_drafts n = Some a /\ listed g n.
  Proof.
    intro H. assert (S : exists n, v = PStr n) by (destruct v; try discriminate; eauto).
    destruct S as [n ->]. exists n. split; [reflexivity|].
    rewrite ComposeJweEq.jwe_get_alg_eq, <- ComposeJwsEq.pv_of_allowed_list in H.
    exact (proj1 (proj1 (proj2 (C05Proofs.gate_all_four C05Model.w0_drafts _ n)) a) H).
  Qed.
  Lemma get_enc_listed g v e : get_enc g v = Ok e ->
    exists n, v = PStr n /\ C05Model.find_row ee_name jwe_enc_table_drafts n = Some e /\ listed g n.
  Proof.
    intro H. assert (S : exists n, v = PStr n) by (destruct v; try discriminate; eauto).
    destruct S as [n ->]. exists n. split; [reflexivity|].
    rewrite ComposeJweEq.jwe_get_enc_eq, <- ComposeJwsEq.pv_of_allowed_list in H.
    exact (proj1 (proj1 (proj2 (proj2 (C05Proofs.gate_all_four C05Model.w0_drafts _ n))) e) H).
  Qed.
  Lemma get_zip_listed g v z : get_zip g v = Ok z ->
    exists n, v = PStr n /\ C05Model.find_row ez_name jwe_zip_table_drafts n = Some z /\ listed g n.
  Proof.
    intro H. assert (S : exists n, v = PStr n) by (destruct v; try discriminate; eauto).
    destruct S as [n ->]. exists n. split; [reflexivity|].
    rewrite ComposeJweEq.jwe_get_zip_eq, <- ComposeJwsEq.pv_of_allowed_list in H.
    exact (proj1 (proj2 (proj2 (proj2 (C05Proofs.gate_all_four C05Model.w0_drafts _ n))) z) H).
  Qed.

  Lemma recommended_drafts_is :
    jwe_recommended_drafts =
    ["RSA-OAEP"; "A128KW"; "A256KW"; "dir"; "ECDH-ES"; "ECDH-ES+A128KW"; "ECDH-ES+A256KW";
     "A128CBC-HS256"; "A192CBC-HS384"; "A256CBC-HS512"; "A128GCM"; "A192GCM"; "A256GCM"; "DEF"]%string.
  Proof. vm_compute. reflexivity. Qed.

  (* no list given: only the recommended literals of the property text *)
  Lemma listed_default g n : g_allowed g = None \/ g_allowed g = Some [] -> listed g n ->
    In n (map asc ["RSA-OAEP"; "A128KW"; "A256KW"; "dir"; "ECDH-ES"; "ECDH-ES+A128KW"; "ECDH-ES+A256KW";
                   "A128CBC-HS256"; "A192CBC-HS384"; "A256CBC-HS512"; "A128GCM"; "A192GCM"; "A256GCM"; "DEF"]%string).
  Proof.
    unfold listed. intros A L.
    assert (L' : In (PStr n) (map C05Model.pname jwe_recommended_drafts)) by (destruct A as [A|A]; rewrite A in L; exact L).
    rewrite recommended_drafts_is in L'. apply in_map_iff in L'. destruct L' as (x & E & I).
    inversion E. subst n. apply in_map. exact I.
  Qed.

  Definition alg_listed (g : registry) (hs : dict) : Prop :=
    exists n a, hitem hs "alg" = Ok (PStr n) /\
                C05Model.find_row ea_name jwe_alg_table_drafts n = Some a /\ listed g n.

  Theorem c05_decrypt g o m :
    perform_decrypt O g o = Ok m ->
    (exists n e, hitem (j_prot o) "enc" = Ok (PStr n) /\
                 C05Model.find_row ee_name jwe_enc_table_drafts n = Some e /\ listed g n) /\
    Forall (fun r => exists hs, headers (j_ser o) (j_prot o) (j_unprot o) (r_header r) = Ok hs /\
                                alg_listed g hs) (j_recips o) /\
    (dmem (j_prot o) (s_ "zip") = true ->
     exists n z, hget (j_prot o) "zip" = PStr n /\
                 C05Model.find_row ez_name jwe_zip_table_drafts n = Some z /\ listed g n).
  Proof.
    intro H. destruct (perform_decrypt_inv _ _ _ H) as (encv & e & cek & aad & msg & HE & GE & _ & _ & _ & _ & UZ & F).
    split; [|split].
    - destruct (get_enc_listed _ _ _ GE) as (n & -> & FR & L). exists n, e. auto.
    - eapply Forall_impl; [|exact F]. intros r (hs & algv & a & HS & _ & HA & GA).
      exists hs. split; [exact HS|]. destruct (get_alg_listed _ _ _ GA) as (n & -> & FR & L). exists n, a. auto.
    - intro Z. unfold unzip in UZ. rewrite Z in UZ. bst UZ z GZ.
      destruct (get_zip_listed _ _ _ GZ) as (n & E & FR & L). exists n, z. auto.
  Qed.

  Theorem c05_encrypt g o d x :
    perform_encrypt O g o d = Ok x ->
    (exists n e, hitem (e_prot o) "enc" = Ok (PStr n) /\
                 C05Model.find_row ee_name jwe_enc_table_drafts n = Some e /\ listed g n) /\
    Forall (fun r => exists prot hs, headers (e_ser o) prot (e_unprot o) (r_header r) = Ok hs /\
                                     alg_listed g hs) (e_recips o) /\
    (dmem (x_prot x) (s_ "zip") = true ->
     exists n z, hget (x_prot x) "zip" = PStr n /\
                 C05Model.find_row ez_name jwe_zip_table_drafts n = Some z /\ listed g n).
  Proof.
    intro H. destruct (perform_encrypt_inv _ _ _ _ H) as (encv & e & m & HE & GE & ZP & _ & _ & F).
    split; [|split].
    - destruct (get_enc_listed _ _ _ GE) as (n & -> & FR & L). exists n, e. auto.
    - eapply Forall_impl; [|exact F]. intros r (prot & hs & algv & a & HS & _ & HA & GA).
      exists prot, hs. split; [exact HS|]. destruct (get_alg_listed _ _ _ GA) as (n & -> & FR & L). exists n, a. auto.
    - intro Z. unfold zip_plain in ZP. rewrite Z in ZP. bst ZP z GZ.
      destruct (get_zip_listed _ _ _ GZ) as (n & E & FR & L). exists n, z. auto.
  Qed.

  (* ================================================================ *)
  (* C17                                                               *)
  (* ================================================================ *)
  Section C17.
    Variable zdec : C17Zip.zoracle.
    Hypothesis inflate_is_c17 : forall x, o_inflate O x = C17Zip.decompress zdec x.

    Lemma max_size_is : zip_max_size = 256000.
    Proof. vm_compute. reflexivity. Qed.

    (* decrypt = Ok with "zip" in the protected header: the plaintext is within the limit *)
    Theorem c17_decrypt_bound g o m :
      perform_decrypt O g o = Ok m -> dmem (j_prot o) (s_ "zip") = true ->
      C17Zip.blen m <= 256000.
    Proof.
      intros H Z. destruct (perform_decrypt_inv _ _ _ H) as (_ & _ & _ & _ & msg & _ & _ & _ & _ & _ & _ & UZ & _).
      unfold unzip in UZ. rewrite Z in UZ. bst UZ z GZ. rewrite inflate_is_c17 in UZ.
      rewrite <- max_size_is. exact (C17Proofs.decompress_bound zdec msg m UZ).
    Qed.
  End C17.

  (* ================================================================ *)
  (* key resolution of the entry points (JweKeys): C14, C06            *)
  (* ================================================================ *)
  Definition hs_of (o : jobj) (r : recip) : res dict :=
    headers (j_ser o) (j_prot o) (j_unprot o) (r_header r).

  Fixpoint attached (o : jobj) (src : ksrc) (ssrc : option ksrc0) (idx : nat) (rs rs' : list recip) : Prop :=
    match rs, rs' with
    | [], [] => True
    | r :: rest, r' :: rest' =>
        (exists k, guess_key src idx (hs_of o r) = Ok k /\ check_use_enc k = Ok tt /\
                   r_key r' = kk_key k /\ r_header r' = r_header r /\ r_ek r' = r_ek r /\
                   match sender_given ssrc with
                   | Some s => exists sk, guess_sender s (hs_of o r) = Ok sk /\ check_use_enc sk = Ok tt /\
                                          r_sender r' = Some (kk_key sk)
                   | None => r_sender r' = None
                   end) /\
        attached o src ssrc (S idx) rest rest'
    | _, _ => False
    end.

  Lemma guess_sender_use s hs sk : guess_sender s hs = Ok sk -> check_use_enc sk = Ok tt.
  Proof. unfold guess_sender. intro H. bst H k GK. bst H u CU. destruct u. inversion H; subst. exact CU. Qed.

  Lemma attach_keys_inv o src ssrc : forall rs idx rs',
    attach_keys o rs idx src ssrc = Ok rs' -> attached o src ssrc idx rs rs'.
  Proof.
    induction rs as [|r rest IH]; intros idx rs' H; cbn [attach_keys] in H.
    - inversion H. exact I.
    - bst H k GK. bst H u CU. destruct u. bst H sk SK. bst H rs2 AK. inversion H; subst rs'. cbn [attached].
      split; [|exact (IH _ _ AK)].
      exists k. repeat (split; [first [assumption|reflexivity]|]).
      destruct (sender_given ssrc) as [s|].
      + bst SK x GS. inversion SK; subst sk. exists x. split; [exact GS|]. split; [exact (guess_sender_use _ _ _ GS)|reflexivity].
      + inversion SK. reflexivity.
  Qed.

  Theorem decrypt_compact_k_inv g value src ssrc m o :
    decrypt_compact_k O g value src ssrc = Ok (m, o) ->
    exists o0, extract_compact O value {| k_kty := []; k_crv := []; k_priv := false; k_id := [] |} None = Ok o0 /\
      attached o0 src ssrc 0 (j_recips o0) (j_recips o) /\ o = set_recips o0 (j_recips o) /\
      perform_decrypt O g o = Ok m.
  Proof.
    unfold decrypt_compact_k. intro H. bst H o0 EX. bst H rs AK. bst H m' PD. inversion H; subst m' o.
    exists o0. split; [exact EX|]. split; [exact (attach_keys_inv _ _ _ _ _ _ AK)|]. split; [reflexivity|exact PD].
  Qed.

  Theorem decrypt_json_k_inv g data src ssrc m o :
    decrypt_json_k O g data src ssrc = Ok (m, o) ->
    exists o0, extract_json O data [] {| k_kty := []; k_crv := []; k_priv := false; k_id := [] |} None = Ok o0 /\
      attached o0 src ssrc 0 (j_recips o0) (j_recips o) /\ o = set_recips o0 (j_recips o) /\
      perform_decrypt O g o = Ok m.
  Proof.
    unfold decrypt_json_k. intro H. bst H o0 EX. bst H rs AK. bst H m' PD. inversion H; subst m' o.
    exists o0. split; [exact EX|]. split; [exact (attach_keys_inv _ _ _ _ _ _ AK)|]. split; [reflexivity|exact PD].
  Qed.

  (* C14: with a key set, the key attached to a recipient is the one C14's Spec names *)
  Theorem c14_named mat use ks idx hs k :
    guess_key (KPlain (KSet (map (kk_of mat use) ks))) idx hs = Ok k ->
    exists h k14, hs = Ok h /\ k = kk_of mat use k14 /\
      C14KeySet.get_by_kid ks (C14KeySet.hget h C14KeySet.s_kid) = Ok k14 /\
      ((C14KeySet.hget h C14KeySet.s_kid = PNone /\ ks = [k14]) \/
       C14Spec.first_with ks (C14KeySet.hget h C14KeySet.s_kid) k14).
  Proof.
    cbn [guess_key src_at bind]. intro H. bst H h HS.
    rewrite ComposeJweEq.jwe_get_by_kid_eq in H.
    change (hget h "kid") with (C14KeySet.hget h C14KeySet.s_kid) in H.
    destruct (C14KeySet.get_by_kid ks (C14KeySet.hget h C14KeySet.s_kid)) as [k14|e] eqn:G; [|discriminate].
    inversion H; subst k. exists h, k14. split; [exact HS|]. split; [reflexivity|]. split; [exact G|].
    exact (proj1 (C14Proofs.lookup_iff _ _ _) G).
  Qed.

  (* sender key set: resolved by "skid" *)
  Theorem c14_sender_named mat use ks hs sk :
    guess_sender (KSet (map (kk_of mat use) ks)) hs = Ok sk ->
    exists h k14, hs = Ok h /\ sk = kk_of mat use k14 /\
      py_truth (C14KeySet.hget h C14KeySet.s_skid) = true /\
      C14Spec.first_with ks (C14KeySet.hget h C14KeySet.s_skid) k14.
  Proof.
    unfold guess_sender. intro H. bst H k GK. bst H u CU. inversion H; subst sk. clear H.
    bst GK h HS. change (hget h "skid") with (C14KeySet.hget h C14KeySet.s_skid) in GK.
    destruct (py_truth (C14KeySet.hget h C14KeySet.s_skid)) eqn:T; [|discriminate].
    rewrite ComposeJweEq.jwe_get_by_kid_eq in GK.
    destruct (C14KeySet.get_by_kid ks (C14KeySet.hget h C14KeySet.s_skid)) as [k14|e] eqn:G; [|discriminate].
    inversion GK; subst k. exists h, k14. split; [exact HS|]. split; [reflexivity|]. split; [exact T|].
    destruct (proj1 (C14Proofs.lookup_iff _ _ _) G) as [[E _]|L]; [|exact L].
    rewrite E in T. discriminate.
  Qed.

  (* C06: the declared use of every attached recipient and sender key passed C06's gate *)
  Theorem c06_use_gate k k6 : C06Model.k_use k6 = Some (kk_use k) ->
    check_use_enc k = Ok tt -> C06Model.check_use "enc" k6 = Ok tt.
  Proof. intros U H. rewrite <- (ComposeJweEq.jwe_check_use_eq k k6 U). exact H. Qed.

  (* C06: every path of decrypt_recipient that yields a CEK went through the key-type gate,
     which is C06's jwe_check_key_type on the related key *)
  Lemma dec_auk_key_type a e hs r tag z :
    dec_auk O a e hs r tag = Ok z -> JweCrypto.check_key_type a (r_key r) = Ok tt.
  Proof.
    unfold dec_auk. destruct (fam_is (ea_family a) "ECDH1PU").
    - unfold ecdh1pu_dec_auk. intro H. bst H u1 E1. bst H u2 E2. bst H sk E3. bst H u3 E4. destruct u3. exact E4.
    - unfold ecdhes_dec_auk. intro H. bst H u1 E1. bst H u2 E2. destruct u2. exact E2.
  Qed.

  Theorem decrypt_recipient_key_type a e hs r tag cek :
    decrypt_recipient O a e hs r tag = Ok cek -> JweCrypto.check_key_type a (r_key r) = Ok tt.
  Proof.
    unfold decrypt_recipient. destruct (ea_direct a).
    - destruct (r_ek r) as [[|b l]|]; try discriminate.
      + destruct (is_agreement a); [apply dec_auk_key_type|].
        destruct (fam_is (ea_family a) "dir"); [|discriminate].
        unfold dir_compute_cek. intro H. bst H u E. destruct u. exact E.
      + destruct (is_agreement a); [apply dec_auk_key_type|].
        destruct (fam_is (ea_family a) "dir"); [|discriminate].
        unfold dir_compute_cek. intro H. bst H u E. destruct u. exact E.
    - destruct (is_agreement a).
      + intro H. bst H auk E. destruct (ea_tag_aware a); exact (dec_auk_key_type _ _ _ _ _ _ E).
      + unfold decrypt_cek.
        destruct (fam_is (ea_family a) "RSA"); [intro H; bst H u E; destruct u; exact E|].
        destruct (fam_is (ea_family a) "AESKW"); [intro H; bst H u E; destruct u; exact E|].
        destruct (fam_is (ea_family a) "AESGCMKW"); [intro H; bst H u E; destruct u; exact E|].
        destruct (fam_is (ea_family a) "PBES2"); [|discriminate].
        intro H. bst H u1 E1. bst H u2 E2. bst H sb E3. bst H p2s E4. bst H u3 E5. destruct u3. exact E5.
  Qed.

  Theorem c06_key_type_gate a e hs r tag cek use k6 :
    krel (r_key r) use k6 -> decrypt_recipient O a e hs r tag = Ok cek ->
    C06Model.jwe_check_key_type a k6 = Ok tt.
  Proof.
    intros R H. rewrite <- (ComposeJweEq.jwe_check_key_type_eq a (r_key r) use k6 R).
    exact (decrypt_recipient_key_type _ _ _ _ _ _ H).
  Qed.

  (* an accepted decryption recovered its CEK from at least one recipient *)
  Lemma recip_loop_some g e o : forall rs ceks out,
    recip_loop O g e o rs ceks = Ok out -> ceks = [] -> out <> [] ->
    exists r hs a cek, In r rs /\ hs_of o r = Ok hs /\ decrypt_recipient O a e hs r (j_tag o) = Ok cek /\
                       (exists algv, hitem hs "alg" = Ok algv /\ get_alg g algv = Ok a).
  Proof.
    induction rs as [|r rest IH]; intros ceks out H E NE.
    - cbn in H. inversion H. subst. contradiction.
    - cbn [recip_loop] in H. bst H hs HS. bst H u CH. bst H algv HA. bst H a GA.
      destruct (decrypt_recipient O a e hs r (j_tag o)) as [cek|x] eqn:DR.
      + exists r, hs, a, cek. split; [left; reflexivity|]. split; [exact HS|]. split; [exact DR|eauto].
      + destruct (catchable x); [|discriminate]. destruct (g_verify_all g); [discriminate|].
        destruct (IH _ _ H E NE) as (r' & hs' & a' & cek' & I & X). exists r', hs', a', cek'. split; [right; exact I|exact X].
  Qed.
End Pipe.
