(* JwsProofs.v — lemmas shared by C01 / C03 / C07 about model/Jws.v:
   dot-splitting, monadic inversion, header merging, base64url segments. *)
From Coq Require Import Lia ZifyBool.
From Model Require Import Jws.
From Proofs Require Import B64Proofs IntCodecProofs.
Open Scope N_scope.

(* ---------- monadic inversion ---------- *)
Lemma bind_ok {A B} (m : res A) (f : A -> res B) b :
  bind m f = Ok b -> exists a, m = Ok a /\ f a = Ok b.
Proof. destruct m; simpl; intro H; [eauto | discriminate]. Qed.

Ltac binv :=
  repeat (match goal with
  | H : bind ?m ?f = Ok ?x |- _ =>
      let a := fresh "a" in let E := fresh "E" in
      apply bind_ok in H; destruct H as (a & E & H); cbv beta in H
  | H : (if ?b then _ else _) = Ok _ |- _ => destruct b eqn:?; try discriminate
  | H : Ok _ = Ok _ |- _ => inversion H; subst; clear H
  | H : Err _ = Ok _ |- _ => discriminate H
  | H : jerr _ = Ok _ |- _ => discriminate H
  | a : unit |- _ => destruct a
  end).

Tactic Notation "bstep" hyp(H) "as" ident(x) ident(E) :=
  apply bind_ok in H; destruct H as (x & E & H); cbv beta in H.

Ltac esplits := repeat (split; [eassumption|]); try eassumption.

Lemma of_opt_ok {A} (o : option A) e x : of_opt o e = Ok x -> o = Some x.
Proof. destruct o; simpl; intro H; inversion H; reflexivity. Qed.

(* ---------- splitting at '.' ---------- *)
Lemma split_on_nonempty c l : split_on c l <> [].
Proof.
  destruct l as [|x r]; simpl; [discriminate|].
  destruct (x =? c); [discriminate|]. destruct (split_on c r); discriminate.
Qed.

Lemma join_split l : join_dot (split_dot l) = l.
Proof.
  induction l as [|x r IH]; [reflexivity|].
  unfold split_dot in *. simpl. destruct (x =? 46) eqn:E.
  - apply N.eqb_eq in E. subst x.
    destruct (split_on 46 r) as [|h t] eqn:S; [exfalso; eapply split_on_nonempty; eauto|].
    change (join_dot ([] :: h :: t)) with ([] ++ 46 :: join_dot (h :: t)).
    rewrite IH. reflexivity.
  - destruct (split_on 46 r) as [|h t] eqn:S; [exfalso; eapply split_on_nonempty; eauto|].
    destruct t as [|t1 t'].
    + simpl in *. rewrite IH. reflexivity.
    + change (join_dot ((x :: h) :: t1 :: t')) with ((x :: h) ++ 46 :: join_dot (t1 :: t')).
      change (join_dot (h :: t1 :: t')) with (h ++ 46 :: join_dot (t1 :: t')) in IH.
      simpl. rewrite <- IH. reflexivity.
Qed.

Lemma split_parts_no_dot l : Forall (fun p => no_dot p = true) (split_dot l).
Proof.
  induction l as [|x r IH]; unfold split_dot in *; simpl.
  - repeat constructor.
  - destruct (x =? 46) eqn:E.
    + constructor; [reflexivity|exact IH].
    + destruct (split_on 46 r) as [|h t]; [repeat constructor; simpl; rewrite E; reflexivity|].
      inversion IH; subst. constructor; [|assumption].
      simpl. rewrite E. simpl. assumption.
Qed.

Lemma split3_inv t h p s :
  split_dot t = [h; p; s] ->
  t = h ++ 46 :: p ++ 46 :: s /\ no_dot h = true /\ no_dot p = true /\ no_dot s = true.
Proof.
  intro E. pose proof (join_split t) as J. pose proof (split_parts_no_dot t) as F.
  rewrite E in J, F. simpl in J.
  inversion F as [|? ? F1 F']; subst. inversion F' as [|? ? F2 F'']; subst.
  inversion F'' as [|? ? F3 ?]; subst. auto.
Qed.

Lemma split_app a r : no_dot a = true -> split_dot (a ++ 46 :: r) = a :: split_dot r.
Proof.
  unfold split_dot. induction a as [|x a IH]; simpl; intro H; [reflexivity|].
  apply andb_true_iff in H. destruct H as [H1 H2].
  destruct (x =? 46); [discriminate|]. rewrite (IH H2). reflexivity.
Qed.

Lemma split_nodot a : no_dot a = true -> split_dot a = [a].
Proof.
  unfold split_dot. induction a as [|x a IH]; simpl; intro H; [reflexivity|].
  apply andb_true_iff in H. destruct H as [H1 H2].
  destruct (x =? 46); [discriminate|]. rewrite (IH H2). reflexivity.
Qed.

Lemma split3 a b c :
  no_dot a = true -> no_dot b = true -> no_dot c = true ->
  split_dot (a ++ 46 :: b ++ 46 :: c) = [a; b; c].
Proof.
  intros A B C. rewrite (split_app a _ A), (split_app b _ B), (split_nodot c C). reflexivity.
Qed.

(* the header segment is delimited by the first '.': equal signing inputs have
   equal segments (the payload part may contain dots: rfc7797) *)
Lemma seg_pair_injective h1 p1 h2 p2 :
  no_dot h1 = true -> no_dot h2 = true ->
  h1 ++ 46 :: p1 = h2 ++ 46 :: p2 -> h1 = h2 /\ p1 = p2.
Proof.
  revert h2. induction h1 as [|x h1 IH]; intros [|y h2] A B E; simpl in *.
  - inversion E; auto.
  - inversion E; subst. rewrite N.eqb_refl in B. discriminate.
  - inversion E; subst. rewrite N.eqb_refl in A. discriminate.
  - apply andb_true_iff in A, B. destruct A as [_ A]. destruct B as [_ B].
    inversion E; subst. destruct (IH h2 A B H1) as [-> ->]. auto.
Qed.

(* base64url text never contains '.' *)
Lemma alphabet_no_dot s : forallb in_alphabet s = true -> no_dot s = true.
Proof.
  induction s as [|c s IH]; simpl; [reflexivity|]. intro H.
  apply andb_true_iff in H. destruct H as [H1 H2]. rewrite (IH H2), andb_true_r.
  destruct (c =? 46) eqn:E; [|reflexivity].
  apply N.eqb_eq in E. subst c. vm_compute in H1. discriminate.
Qed.

Lemma b64e_no_dot x : bytes_ok x = true -> no_dot (b64e x) = true.
Proof. intro H. apply alphabet_no_dot, b64e_alphabet, H. Qed.

(* ---------- dictionaries ---------- *)
Lemma dmem_dset_other {A} (d : list (str * A)) k k2 v :
  k <> k2 -> dmem (dset d k v) k2 = dmem d k2.
Proof. intro N. unfold dmem. rewrite dget_dset_other by exact N. reflexivity. Qed.

Lemma dget_dupdate_absent {A} (e : list (str * A)) : forall d k,
  dmem e k = false -> dget (dupdate d e) k = dget d k.
Proof.
  unfold dupdate. induction e as [|[k' v'] e IH]; intros d k H; simpl; [reflexivity|].
  unfold dmem in H. simpl in H. destruct (str_eqb k' k) eqn:E; [discriminate|].
  rewrite IH by (unfold dmem; exact H). simpl.
  apply dget_dset_other. apply str_eqb_neq. exact E.
Qed.

Lemma dmem_dupdate {A} (e : list (str * A)) : forall d k,
  dmem (dupdate d e) k = dmem d k || dmem e k.
Proof.
  unfold dupdate. induction e as [|[k' v'] e IH]; intros d k; simpl.
  - unfold dmem at 3. simpl. rewrite orb_false_r. reflexivity.
  - rewrite IH. simpl. unfold dmem at 4. simpl.
    destruct (str_eqb k' k) eqn:E.
    + apply str_eqb_eq in E. subst k'. unfold dmem at 1. rewrite dget_dset_same.
      rewrite orb_true_r. simpl. reflexivity.
    + rewrite dmem_dset_other by (apply str_eqb_neq; exact E).
      unfold dmem. reflexivity.
Qed.
