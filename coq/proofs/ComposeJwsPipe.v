(* ComposeJwsPipe.v — the per-property characterisations (C15 header check,
   C05 algorithm gate, C14 key lookup, C06 key suitability) as corollaries
   about the ENTRY POINTS of the pipeline model model/Jws.v.
   [ran rg src h msg sseg r k]: what every accepting verification path did;
   [signed rg src h okid msg sig r k]: what every producing path did. *)
From Coq Require Import String List NArith ZArith Bool Lia.
From Model Require Import Base PyVal TableTypes ComposeDefs.
From Model Require Import Jws.
From Model Require C05Model C14KeySet C14Spec C06Model C06Spec C15Registry C15Spec.
From Gen Require Import Tables.
From Proofs Require Import JwsProofs.
From Proofs Require C01Proofs C03Proofs C05Proofs C14Proofs ComposeJwsEq ComposeJwsC06.
Import ListNotations.
Open Scope N_scope.

(* the registry an entry point builds: plain (rfc7515) or the rfc7797 subclass *)
Definition rgof (b : bool) (algs : option (list str)) : registry :=
  {| rg_7797 := b; rg_allowed := algs |}.

(* C15's Spec for the header registry of that registry class (default strict mode) *)
Definition hdr_spec (b : bool) (h : list (str * pv)) : bool :=
  if b then C15Spec.header_ok7797 jws7797_default_header_registry true h
  else C15Spec.header_ok jws_default_header_registry true h.

Definition kid_of (h : list (str * pv)) : pv := C14KeySet.hget h s_kid.

Lemma check_header_spec b algs h :
  check_header (rgof b algs) (PDict h) = Ok tt <-> hdr_spec b h = true.
Proof.
  destruct b.
  - exact (ComposeJwsEq.check_header_iff97 algs h).
  - exact (ComposeJwsEq.check_header_iff15 algs h).
Qed.

Lemma recommended_is : jws_recommended = ["HS256"; "RS256"; "ES256"]%string.
Proof. vm_compute. reflexivity. Qed.

Section Pipe.
  Variable json_loads : bytes -> res pv.
  Variable json_dumps : pv -> bytes.
  Variable mac : string -> N -> bytes -> res bytes.
  Variable pk_sign : jws_alg_row -> N -> bytes -> res bytes.
  Variable pk_verify : jws_alg_row -> N -> bytes -> bytes -> res bool.
  Variable ec_sign : jws_alg_row -> N -> bytes -> res (Z * Z).
  Variable ec_verify : jws_alg_row -> N -> bytes -> Z -> Z -> res bool.
  Variable choose : list key -> option key.
  Variable th : key -> str.
  Notation t14 := (to14 th).

  Notation averify := (alg_verify mac pk_verify ec_verify).
  Notation asign := (alg_sign mac pk_sign ec_sign).

  (* ------------------------------------------------------------------ *)
  (* consuming side                                                       *)
  (* ------------------------------------------------------------------ *)
  Definition ran (rg : registry) (src : keysrc) (h : list (str * pv)) (msg sseg : bytes)
             (r : jws_alg_row) (k : key) : Prop :=
    exists algv sig,
      check_header rg (PDict h) = Ok tt /\ dget h s_alg = Some algv /\ get_alg rg algv = Ok r /\
      guess_key src (PDict h) = Ok k /\ check_use k = Ok tt /\ check_key_type r k = Ok tt /\
      b64d sseg = Ok sig /\ averify r k msg sig = Ok true.

  Lemma verified_ran rg src hv msg sseg :
    C01Proofs.verified mac pk_verify ec_verify rg src hv msg sseg -> C01Proofs.key_suits rg src hv ->
    exists h r k, hv = PDict h /\ ran rg src h msg sseg r k.
  Proof.
    intros (algv & r & k & sig & CH & GA & GR & GK & CU & BD & AV)
           (algv' & r' & k' & GA' & GR' & GK' & KT).
    destruct (ComposeJwsEq.check_header_ok_dict _ _ CH) as [h ->].
    rewrite GA in GA'. inversion GA'; subst algv'. rewrite GR in GR'. inversion GR'; subst r'.
    rewrite GK in GK'. inversion GK'; subst k'.
    exists h, r, k. split; [reflexivity|]. exists algv, sig.
    repeat (split; [try assumption|]); try assumption.
    - cbn [py_getitem_str] in GA. destruct (dget h s_alg); inversion GA. reflexivity.
    - unfold check_key_type. rewrite KT, String.eqb_refl. reflexivity.
  Qed.

  (* C15 *)
  Theorem ran_c15 b algs src h msg sseg r k :
    ran (rgof b algs) src h msg sseg r k -> hdr_spec b h = true.
  Proof. intros (algv & sig & CH & _). apply check_header_spec in CH. exact CH. Qed.

  (* C05: the algorithm is the registered row of a name in the effective allow-list,
     never "none" *)
  Theorem ran_c05 rg src h msg sseg r k :
    ran rg src h msg sseg r k ->
    exists s, dget h s_alg = Some (PStr s) /\
      C05Model.find_row ja_name jws_alg_table s = Some r /\
      In (PStr s) (C05Model.effective (allowed_list (rg_allowed rg)) jws_recommended) /\
      ja_family r <> "none"%string /\ s <> asc "none".
  Proof.
    intros (algv & sig & CH & GA & GR & GK & CU & KT & BD & AV).
    destruct (ComposeJwsEq.get_alg_ok_str _ _ _ GR) as [s ->].
    exists s. split; [exact GA|].
    pose proof (proj1 (ComposeJwsEq.get_alg_iff rg s r) GR) as [F I].
    split; [exact F|]. split; [exact I|].
    assert (NF : ja_family r <> "none"%string).
    { intro E. rewrite (C01Proofs.none_never_verifies mac pk_verify ec_verify r k msg sig E) in AV. discriminate. }
    split; [exact NF|]. intro E. subst s. apply NF. exact (C01Proofs.get_alg_none rg r GR).
  Qed.

  Corollary ran_c05_default b src h msg sseg r k algs :
    algs = None \/ algs = Some [] ->
    ran (rgof b algs) src h msg sseg r k ->
    exists s, dget h s_alg = Some (PStr s) /\ In s (map asc ["HS256"; "RS256"; "ES256"]%string).
  Proof.
    intros A R. destruct (ran_c05 _ _ _ _ _ _ _ R) as (s & GA & _ & I & _).
    exists s. split; [exact GA|].
    assert (I' : In (PStr s) (map C05Model.pname jws_recommended)).
    { destruct A as [-> | ->]; exact I. }
    rewrite recommended_is in I'. cbn in I'. cbn.
    repeat (destruct I' as [I'|I']; [inversion I'; auto|]). destruct I'.
  Qed.

  (* C14 *)
  Lemma guess_key_set ks h k :
    guess_key (KSet ks) (PDict h) = Ok k -> get_by_kid ks (kid_of h) = Ok k.
  Proof.
    cbn [guess_key]. unfold hdr_get, py_get_str, kid_of, C14KeySet.hget.
    change C14KeySet.s_kid with s_kid.
    destruct (dget h s_kid); cbn [bind]; auto.
  Qed.

  Lemma get_by_kid_in ks kid k : get_by_kid ks kid = Ok k -> In k ks.
  Proof.
    unfold get_by_kid.
    assert (F : match find (fun k => kid_matches k kid) ks with
                | Some k => Ok k | None => jerr InvalidKeyIdError end = Ok k -> In k ks).
    { destruct (find (fun k => kid_matches k kid) ks) eqn:E; [|discriminate].
      intro H. inversion H; subst. exact (proj1 (find_some _ _ E)). }
    destruct kid; try exact F. destruct ks as [|k0 [|k1 ks]]; try exact F.
    intro H. inversion H. left. reflexivity.
  Qed.

  Theorem ran_c14 rg ks h msg sseg r k :
    ran rg (KSet ks) h msg sseg r k ->
    In k ks /\
    C14KeySet.get_by_kid (map t14 ks) (kid_of h) = Ok (t14 k) /\
    ((kid_of h = PNone /\ map t14 ks = [t14 k]) \/ C14Spec.first_with (map t14 ks) (kid_of h) (t14 k)) /\
    (kid_of h <> PNone -> C14Spec.first_with (map t14 ks) (kid_of h) (t14 k)) /\
    (kid_of h = PNone -> length ks = 1%nat -> ks = [k]).
  Proof.
    intros (algv & sig & CH & GA & GR & GK & _).
    apply guess_key_set in GK.
    assert (G14 : C14KeySet.get_by_kid (map t14 ks) (kid_of h) = Ok (t14 k)).
    { rewrite ComposeJwsEq.get_by_kid_eq, GK. reflexivity. }
    pose proof (proj1 (C14Proofs.lookup_iff _ _ _) G14) as L.
    split; [exact (get_by_kid_in _ _ _ GK)|]. split; [exact G14|]. split; [exact L|]. split.
    - intro N. destruct L as [[E _]|L]; [contradiction|exact L].
    - intros E LN. rewrite E in GK. destruct ks as [|k0 [|k1 ks]]; try discriminate.
      cbn in GK. inversion GK. reflexivity.
  Qed.

  (* C06 *)
  Theorem ran_c06 rg src h msg sseg r k :
    ran rg src h msg sseg r k ->
    exists k6, to06 k = Some k6 /\ (C06Spec.key_wf k6 -> C06Spec.jws_suitable (ja_name r) false k6).
  Proof.
    intros (algv & sig & CH & GA & GR & GK & CU & KT & BD & AV).
    destruct (ComposeJwsC06.get_alg_find _ _ _ GR) as (s & -> & FA).
    exact (ComposeJwsC06.verify_suitable mac pk_verify ec_verify C06Model.JDesCompact r k msg sig s
             eq_refl eq_refl FA CU KT AV).
  Qed.

  (* ---- entry points -> ran ---- *)
  Theorem compact_ran tok src rg o :
    deserialize_compact_rg json_loads mac pk_verify ec_verify tok src rg = Ok o ->
    exists h r k, co_protected o = PDict h /\
      ran rg src h (co_hseg o ++ 46 :: co_pseg o) (co_sseg o) r k.
  Proof.
    intro H. apply C01Proofs.compact_sound_rg in H.
    destruct H as (_ & _ & _ & _ & _ & _ & V & KS). exact (verified_ran _ _ _ _ _ V KS).
  Qed.

  Theorem flat_ran p sg src rg o :
    deserialize_json_rg json_loads mac pk_verify ec_verify (JFlat p sg) src rg = Ok o ->
    exists m h pseg sseg r k,
      jo_members o = [m] /\ member_headers m = Ok h /\ p = Some pseg /\ js_signature sg = Some sseg /\
      ran rg src h (C01Proofs.prot_seg sg ++ 46 :: pseg) sseg r k.
  Proof.
    intro H. apply C01Proofs.flat_sound_rg in H.
    destruct H as (pseg & sseg & m & headers & P & _ & _ & MS & _ & _ & MH & SS & V & KS).
    destruct (verified_ran _ _ _ _ _ V KS) as (h & r & k & E & R). inversion E; subst h.
    exists m, headers, pseg, sseg, r, k. auto 10.
  Qed.

  Definition member_ran rg src pseg (m : member) (sg : jsig) : Prop :=
    exists h sseg r k, member_headers m = Ok h /\ js_signature sg = Some sseg /\
      ran rg src h (C01Proofs.prot_seg sg ++ 46 :: pseg) sseg r k.

  Theorem general_ran p sgs src rg o :
    deserialize_json_rg json_loads mac pk_verify ec_verify (JGen p sgs) src rg = Ok o ->
    sgs <> [] /\ exists pseg, p = Some pseg /\ Forall2 (member_ran rg src pseg) (jo_members o) sgs.
  Proof.
    intro H. apply C01Proofs.general_sound_rg in H.
    destruct H as (NE & pseg & P & _ & _ & _ & F). split; [exact NE|]. exists pseg. split; [exact P|].
    clear NE P. induction F as [|m sg ms sgs0 HV F IH]; [constructor|]. constructor; [|exact IH].
    destruct HV as (headers & sseg & MH & SS & V & KS).
    destruct (verified_ran _ _ _ _ _ V KS) as (h & r & k & E & R). inversion E; subst h.
    exists headers, sseg, r, k. auto.
  Qed.

  (* rfc7797 compact: the registry class follows the presence of "b64" in the
     protected header *)
  Theorem compact97_ran tok src payload algs o :
    deserialize_compact97 json_loads mac pk_verify ec_verify tok src payload algs = Ok o ->
    exists h r k msg, co_protected o = PDict h /\
      ran (rgof (dmem h s_b64) algs) src h msg (co_sseg o) r k.
  Proof.
    unfold deserialize_compact97. intro H. bstep H as x E.
    unfold extract_compact97 in E.
    destruct (split_dot tok) as [|hs [|p [|s [|]]]] eqn:S; try discriminate.
    pose proof (split3_inv _ _ _ _ S) as (T & A & B & C).
    bstep E as protected DH. bstep E as has HAS.
    destruct has; cbn [negb] in E.
    - bstep E as b GB.
      assert (X : x = X97True \/
                  x = X97Obj {| co_protected := protected;
                                co_payload := match payload with Some ((_ :: _) as x) => x | _ => p end;
                                co_hseg := hs; co_pseg := p; co_sseg := s |}).
      { destruct b as [|[|]| | | | | |]; inversion E; subst; auto. }
      destruct X as [->| ->].
      + pose proof (C01Proofs.compact_sound_rg _ _ _ _ _ _ _ _ H) as (T' & A' & _ & _ & D' & _).
        pose proof (C01Proofs.hdr_unique json_loads _ _ _ _ _ _ T A T' A' DH D') as HU.
        destruct (compact_ran _ _ _ _ H) as (h & r & k & EP & R).
        exists h, r, k, (co_hseg o ++ 46 :: co_pseg o). split; [exact EP|].
        rewrite EP in HU. subst protected. cbn [py_in] in HAS. inversion HAS as [HM].
        rewrite HM. exact R.
      + bstep H as u CH. bstep H as k GK. bstep H as u2 CU. bstep H as algv GA.
        bstep H as r GR. bstep H as u3 CKT. bstep H as sig BS. bstep H as okv AV.
        destruct okv; [|discriminate]. inversion H; subst o.
        cbn [co_protected co_payload co_hseg co_pseg co_sseg] in *.
        destruct u, u2, u3.
        destruct (ComposeJwsEq.check_header_ok_dict _ _ CH) as [h ->].
        cbn [py_in] in HAS. inversion HAS as [HM].
        exists h, r, k. eexists. split; [reflexivity|]. rewrite HM.
        exists algv, sig. repeat (split; [try eassumption|]); try eassumption.
        cbn [py_getitem_str] in GA. destruct (dget h s_alg); inversion GA. reflexivity.
    - inversion E; subst x.
      pose proof (C01Proofs.compact_sound_rg _ _ _ _ _ _ _ _ H) as (T' & A' & _ & _ & D' & _).
      pose proof (C01Proofs.hdr_unique json_loads _ _ _ _ _ _ T A T' A' DH D') as HU.
      destruct (compact_ran _ _ _ _ H) as (h & r & k & EP & R).
      exists h, r, k, (co_hseg o ++ 46 :: co_pseg o). split; [exact EP|].
      rewrite EP in HU. subst protected. cbn [py_in] in HAS. inversion HAS as [HM].
      rewrite HM. exact R.
  Qed.

  (* ------------------------------------------------------------------ *)
  (* producing side                                                       *)
  (* ------------------------------------------------------------------ *)
  Definition signed (rg : registry) (src : keysrc) (h : list (str * pv)) (okid : option str)
             (msg sig : bytes) (r : jws_alg_row) (k : key) : Prop :=
    exists algv,
      check_header rg (PDict h) = Ok tt /\ dget h s_alg = Some algv /\ get_alg rg algv = Ok r /\
      guess_key_sign choose src h = Ok (k, okid) /\ check_use k = Ok tt /\
      check_key_type r k = Ok tt /\ asign r k msg = Ok sig.

  Lemma getitem_dget h k v : py_getitem_str (PDict h) k = Ok v -> dget h k = Some v.
  Proof. cbn [py_getitem_str]. destruct (dget h k); intro H; inversion H; reflexivity. Qed.

  Theorem serialize_compact_signed protected payload src rg tok :
    serialize_compact_rg json_dumps mac pk_sign ec_sign choose protected payload src rg = Ok tok ->
    exists okid r k sig,
      signed rg src protected okid
             (json_b64encode json_dumps (set_kid protected okid) ++ 46 :: b64e payload) sig r k /\
      (forall algv, dget protected s_alg = Some algv -> check_alg k algv = Ok tt) /\
      tok = (json_b64encode json_dumps (set_kid protected okid) ++ 46 :: b64e payload) ++ 46 :: b64e sig.
  Proof.
    unfold serialize_compact_rg. intro H.
    bstep H as u CH. bstep H as algv GA. bstep H as r GR. bstep H as kk GK.
    bstep H as u2 CU. bstep H as u3 KT. bstep H as u4 CA. destruct u, u2, u3, u4.
    unfold sign_compact in H. bstep H as sig SG. inversion H; subst tok.
    destruct kk as [k okid]. cbn [fst snd] in *.
    apply getitem_dget in GA.
    exists okid, r, k, sig. split; [|split; [|reflexivity]].
    - exists algv. auto 10.
    - intros a GA'. rewrite GA in GA'. inversion GA'; subst. exact CA.
  Qed.

  Theorem sign_member_signed pseg m rg src sg :
    sign_member json_dumps mac pk_sign ec_sign choose pseg m rg src = Ok sg ->
    exists okid r k sig msg,
      signed rg src (smember_headers m) okid msg sig r k /\ js_signature sg = Some (b64e sig).
  Proof.
    unfold sign_member. intro H.
    bstep H as u CH. bstep H as algv GA. bstep H as r GR. bstep H as kk GK.
    bstep H as u2 CU. bstep H as u3 KT. destruct u, u2, u3.
    bstep H as sig SG. inversion H; subst sg. cbn [js_signature].
    destruct kk as [k okid]. cbn [fst snd] in *.
    apply getitem_dget in GA.
    exists okid, r, k, sig. eexists. split; [|reflexivity].
    exists algv. repeat (split; [eassumption|]). eassumption.
  Qed.

  Theorem sign_flat_signed m payload rg src v :
    sign_flattened_json json_dumps mac pk_sign ec_sign choose m payload rg src = Ok v ->
    exists sg okid r k sig msg,
      v = JFlat (Some (b64e payload)) sg /\
      signed rg src (smember_headers m) okid msg sig r k /\ js_signature sg = Some (b64e sig).
  Proof.
    unfold sign_flattened_json. intro H. bstep H as sg SM. inversion H; subst v.
    destruct (sign_member_signed _ _ _ _ _ SM) as (okid & r & k & sig & msg & S & J).
    exists sg, okid, r, k, sig, msg. auto.
  Qed.

  Definition member_signed rg src (m : smember) (sg : jsig) : Prop :=
    exists okid r k sig msg,
      signed rg src (smember_headers m) okid msg sig r k /\ js_signature sg = Some (b64e sig).

  Theorem sign_general_signed ms payload rg src v :
    sign_general_json json_dumps mac pk_sign ec_sign choose ms payload rg src = Ok v ->
    exists sgs, v = JGen (Some (b64e payload)) sgs /\ Forall2 (member_signed rg src) ms sgs.
  Proof.
    unfold sign_general_json. intro H. bstep H as sgs MR. inversion H; subst v.
    exists sgs. split; [reflexivity|]. clear H.
    revert sgs MR. induction ms as [|m ms IH]; intros sgs MR; cbn [map_res] in MR.
    - inversion MR. constructor.
    - bstep MR as sg SM. bstep MR as t MT. inversion MR; subst sgs.
      constructor; [exact (sign_member_signed _ _ _ _ _ SM) | exact (IH _ MT)].
  Qed.

  (* rfc7797 compact serialization: the b64=false branch has no check_alg and its
     registry is the rfc7797 one; without "b64" the plain registry *)
  Theorem serialize_compact97_signed lenient protected payload src algs tok :
    serialize_compact97 json_dumps mac pk_sign ec_sign choose lenient protected payload src algs = Ok tok ->
    exists okid r k sig msg, signed (rgof (dmem protected s_b64) algs) src protected okid msg sig r k.
  Proof.
    unfold serialize_compact97, dmem. intro H.
    destruct (dget protected s_b64) as [b|] eqn:GB.
    - assert (X : serialize_compact_rg json_dumps mac pk_sign ec_sign choose protected payload src (reg97 algs) = Ok tok \/
                  b <> PBool true).
      { destruct b as [|[|]| | | | | |]; auto; right; discriminate. }
      destruct X as [X|NB].
      + destruct (serialize_compact_signed _ _ _ _ _ X) as (okid & r & k & sig & S & _).
        exists okid, r, k, sig. eexists. exact S.
      + assert (H' : (do _ <- check_header (reg97 algs) (PDict protected);
                      do algv <- py_getitem_str (PDict protected) s_alg;
                      do r <- get_alg (reg97 algs) algv;
                      do kk <- guess_key_sign choose src protected;
                      do _ <- check_use (fst kk);
                      do _ <- check_key_type r (fst kk);
                      do sig <- asign r (fst kk) (json_b64encode json_dumps (set_kid protected (snd kk)) ++ 46 :: payload);
                      do u <- is_urlsafe lenient payload;
                      if u then Ok (json_b64encode json_dumps (set_kid protected (snd kk)) ++ 46 :: payload ++ 46 :: b64e sig)
                      else Ok (json_b64encode json_dumps (set_kid protected (snd kk)) ++ 46 :: 46 :: b64e sig)) = Ok tok).
        { destruct b as [|[|]| | | | | |]; try exact H. congruence. }
        clear H. bstep H' as u CH. bstep H' as algv GA. bstep H' as r GR. bstep H' as kk GK.
        bstep H' as u2 CU. bstep H' as u3 KT. bstep H' as sig SG. destruct u, u2, u3.
        destruct kk as [k okid]. cbn [fst snd] in *. apply getitem_dget in GA.
        exists okid, r, k, sig. eexists. exists algv. repeat (split; [eassumption|]). eassumption.
    - destruct (serialize_compact_signed _ _ _ _ _ H) as (okid & r & k & sig & S & _).
      exists okid, r, k, sig. eexists. exact S.
  Qed.

  (* ---- consequences of [signed] ---- *)
  Theorem signed_c15 b algs src h okid msg sig r k :
    signed (rgof b algs) src h okid msg sig r k -> hdr_spec b h = true.
  Proof. intros (algv & CH & _). apply check_header_spec in CH. exact CH. Qed.

  (* the header that is actually emitted (with the kid of the key picked from a key set) *)
  Theorem signed_c15_emitted b algs src h okid msg sig r k :
    dget h s_kid = None ->
    signed (rgof b algs) src h okid msg sig r k -> hdr_spec b (set_kid h okid) = true.
  Proof.
    intros NK (algv & CH & _). apply (check_header_spec b algs).
    destruct okid as [id|]; [|exact CH]. cbn [set_kid].
    exact (C03Proofs.check_header_set_kid _ _ _ NK CH).
  Qed.

  Theorem signed_c05 rg src h okid msg sig r k :
    signed rg src h okid msg sig r k ->
    exists s, dget h s_alg = Some (PStr s) /\
      C05Model.find_row ja_name jws_alg_table s = Some r /\
      In (PStr s) (C05Model.effective (allowed_list (rg_allowed rg)) jws_recommended).
  Proof.
    intros (algv & CH & GA & GR & _).
    destruct (ComposeJwsEq.get_alg_ok_str _ _ _ GR) as [s ->].
    exists s. split; [exact GA|]. exact (proj1 (ComposeJwsEq.get_alg_iff rg s r) GR).
  Qed.

  (* C14, producing side: with a (truthy) kid the named key, header untouched;
     otherwise a key of the set (random.choice contract), whose kid is written *)
  Hypothesis choose_in : forall l x, choose l = Some x -> In x l.

  Theorem signed_c14 rg ks h okid msg sig r k :
    signed rg (KSet ks) h okid msg sig r k ->
    In k ks /\
    (py_truth (kid_of h) = true ->
       okid = None /\ C14KeySet.get_by_kid (map t14 ks) (kid_of h) = Ok (t14 k) /\
       C14Spec.first_with (map t14 ks) (kid_of h) (t14 k)) /\
    (py_truth (kid_of h) = false ->
       exists id, okid = Some id /\ k_kid k = Some id /\ dget (set_kid h okid) s_kid = Some (PStr id)).
  Proof.
    intros (algv & CH & GA & GR & GK & _).
    cbn [guess_key_sign] in GK. unfold kid_of, C14KeySet.hget. change C14KeySet.s_kid with s_kid.
    destruct (negb (py_truth match dget h s_kid with Some v => v | None => PNone end)) eqn:T.
    - apply negb_true_iff in T. bstep GK as a GA'.
      destruct (choose (pick_candidates ks a)) as [x|] eqn:CH'; [|discriminate].
      destruct (k_kid x) as [id|] eqn:KID; [|discriminate]. inversion GK; subst x okid.
      split; [exact (ComposeJwsEq.pick_candidates_incl _ _ _ (choose_in _ _ CH'))|].
      split; [intro Q; congruence|]. intros _. exists id. split; [reflexivity|]. split; [exact KID|].
      cbn [set_kid]. apply dget_dset_same.
    - apply negb_false_iff in T. bstep GK as k0 GB. inversion GK; subst k0 okid.
      split; [exact (get_by_kid_in _ _ _ GB)|]. split; [|intro Q; congruence]. intros _.
      split; [reflexivity|].
      assert (G14 : C14KeySet.get_by_kid (map t14 ks)
                      match dget h s_kid with Some v => v | None => PNone end = Ok (t14 k)).
      { rewrite ComposeJwsEq.get_by_kid_eq, GB. reflexivity. }
      split; [exact G14|].
      destruct (proj1 (C14Proofs.lookup_iff _ _ _) G14) as [[E _]|L]; [|exact L].
      rewrite E in T. discriminate.
  Qed.

  Theorem signed_c06 (with_check_alg : bool) rg src h okid msg sig r k :
    signed rg src h okid msg sig r k ->
    exists k6, to06 k = Some k6 /\ (C06Spec.key_wf k6 -> C06Spec.jws_suitable (ja_name r) true k6).
  Proof.
    intros (algv & CH & GA & GR & GK & CU & KT & SG).
    destruct (ComposeJwsC06.get_alg_find _ _ _ GR) as (s & -> & FA).
    exact (ComposeJwsC06.sign_suitable mac pk_sign ec_sign C06Model.JSerFlat r k msg sig s
             eq_refl eq_refl FA CU KT (fun X => match Bool.diff_false_true X with end) SG).
  Qed.
End Pipe.
