(* ComposeJwsJwt.v — C09 (jwt.encode / jwt.decode over an abstract transport)
   composed with the JWS pipeline model: the transport is
     transport_encode = serialize_compact (+ the content of the header dict afterwards)
     transport_decode = deserialize_compact followed by .headers(), .payload
   of model/Jws.v with json.dumps / json.loads of the HEADER given by the Gallina
   JSON model (model/Json.v, JwsJson.v).  C09's contract [transport_rt] is
   established at every (header, payload) from C03's round trip, under the
   signature-primitive contracts only; the jwt round trip follows. *)
From Coq Require Import String List NArith ZArith Bool Lia.
From Model Require Import Base PyVal TableTypes.
From Model Require Import Jws.
From Model Require Json JwsJson C09Jwt C09Spec.
From Gen Require Import Tables.
From Proofs Require Import JwsProofs.
From Proofs Require JsonProofs C03Proofs JwsJsonProofs C09Dict C09Proofs.
Import ListNotations.
Open Scope N_scope.

Lemma dset_absent_app {A} (d : list (str * A)) k v : dget d k = None -> dset d k v = d ++ [(k, v)].
Proof.
  induction d as [|[k' v'] d IH]; cbn [dget dset app]; [reflexivity|].
  destruct (str_eqb k' k); [discriminate|]. intro H. rewrite (IH H). reflexivity.
Qed.

Section Jwt.
  Variable mac : string -> N -> bytes -> res bytes.
  Variable pk_sign : jws_alg_row -> N -> bytes -> res bytes.
  Variable pk_verify : jws_alg_row -> N -> bytes -> bytes -> res bool.
  Variable ec_sign : jws_alg_row -> N -> bytes -> res (Z * Z).
  Variable ec_verify : jws_alg_row -> N -> bytes -> Z -> Z -> res bool.
  Variable choose : list key -> option key.

  (* ---------- the JWS transport of jwt.py, over model/Jws.v ---------- *)
  (* the dict handed to serialize_compact is written by guess_key (set_kid)
     exactly when check_header, header["alg"] and get_alg succeeded *)
  Definition jws_tenc (src : keysrc) (algs : option (list str)) (w : C09Jwt.hdr) (p : bytes)
    : res bytes * C09Jwt.hdr :=
    (serialize_compact JwsJson.g_dumps mac pk_sign ec_sign choose w p src algs,
     match (do _ <- check_header (reg15 algs) (PDict w);
            do algv <- py_getitem_str (PDict w) s_alg;
            do _ <- get_alg (reg15 algs) algv;
            guess_key_sign choose src w) with
     | Ok kk => set_kid w (snd kk)
     | Err _ => w
     end).

  Definition jws_tdec (src' : keysrc) (algs : option (list str)) (tok : bytes)
    : res (C09Jwt.hdr * bytes) :=
    do o <- deserialize_compact JwsJson.g_loads mac pk_verify ec_verify tok src' algs;
    match co_protected o with
    | PDict h => Ok (h, co_payload o)
    | _ => Err EType
    end.

  Definition not_none (algs : option (list str)) (w : list (str * pv)) : Prop :=
    forall r, get_alg (reg15 algs) (match dget w s_alg with Some v => v | None => PNone end) = Ok r ->
              fam_of r <> FNone.

  Section Contracts.
  Hypothesis mac_octets : forall h kid msg m, mac h kid msg = Ok m -> bytes_ok m = true.
  Hypothesis pk_correct : forall r kid msg sig,
      pk_sign r kid msg = Ok sig -> bytes_ok sig = true /\ pk_verify r kid msg sig = Ok true.
  Hypothesis ec_correct : forall r k msg rr ss,
      ec_sign r (k_id k) msg = Ok (rr, ss) ->
      (0 <= rr)%Z /\ (0 <= ss)%Z /\
      Z.to_N rr < 256 ^ N.of_nat (ec_len k) /\ Z.to_N ss < 256 ^ N.of_nat (ec_len k) /\
      ec_verify r (k_id k) msg rr ss = Ok true.

  (* ---------- transport_rt at (w, p), from C03's round trip ---------- *)
  Theorem jws_transport_rt_at src src' algs w p tok w' :
    C03Proofs.key_ok choose JwsJson.g_hok (reg15 algs) src src' w ->
    (forall k id, guess_key_sign choose src w = Ok (k, Some id) -> dget w s_kid = None) ->
    bytes_ok p = true -> not_none algs w ->
    jws_tenc src algs w p = (Ok tok, w') ->
    jws_tdec src' algs tok = Ok (w', p) /\
    exists extra, w' = w ++ extra /\ forall k, dmem w k = true -> dmem extra k = false.
  Proof.
    intros KO NK BP NN H. unfold jws_tenc in H.
    pose proof (f_equal fst H) as H1. pose proof (f_equal snd H) as H2. cbn [fst snd] in H1, H2.
    clear H. subst w'.
    destruct (C03Proofs.compact_rt_gen JwsJson.g_loads JwsJson.g_dumps mac pk_sign pk_verify ec_sign ec_verify choose
                mac_octets pk_correct ec_correct JwsJson.g_hok JwsJsonProofs.g_json_rt
                w p src src' (reg15 algs) tok KO BP NN H1) as (o & k & okid & GK & D & P & Q).
    (* the work dict *)
    unfold serialize_compact, serialize_compact_rg in H1.
    bstep H1 as u CH. bstep H1 as algv GA. bstep H1 as r GR. bstep H1 as kk GK'. destruct u.
    rewrite CH, GA. cbn [bind]. rewrite GR. cbn [bind]. rewrite GK. cbn [snd].
    split.
    - unfold jws_tdec, deserialize_compact. rewrite D. cbn [bind]. rewrite Q, P. reflexivity.
    - destruct okid as [id|]; cbn [set_kid].
      + pose proof (NK _ _ GK) as N0. exists [(s_kid, PStr id)].
        split; [apply dset_absent_app; exact N0|].
        intros k0 M. unfold dmem in *. cbn [dget].
        destruct (str_eqb s_kid k0) eqn:E; [|reflexivity].
        apply str_eqb_eq in E. subst k0. rewrite N0 in M. discriminate.
      + exists []. split; [symmetry; apply app_nil_r|]. intros; reflexivity.
  Qed.

  (* a key given directly *)
  Corollary jws_transport_rt_one k k' algs w p tok w' :
    C03Proofs.corresponds k k' -> (0 < ec_len k)%nat ->
    Json.json_ok (PDict w) = true -> bytes_ok p = true -> not_none algs w ->
    jws_tenc (KOne k) algs w p = (Ok tok, w') ->
    jws_tdec (KOne k') algs tok = Ok (w', p) /\ w' = w.
  Proof.
    intros C L OK BP NN H.
    destruct (jws_transport_rt_at (KOne k) (KOne k') algs w p tok w') as [D (extra & W & X)]; try assumption.
    - intros k0 okid CH G. cbn [guess_key_sign] in G. inversion G; subst.
      cbn [set_kid guess_key]. eauto 10.
    - intros k0 id G. cbn [guess_key_sign] in G. discriminate.
    - split; [exact D|].
      unfold jws_tenc in H. clear D W.
      pose proof (f_equal fst H) as H1. pose proof (f_equal snd H) as H2. cbn [fst snd] in H1, H2.
      rewrite <- H2. clear H2.
      unfold serialize_compact, serialize_compact_rg in H1.
      bstep H1 as u CH. bstep H1 as algv GA. bstep H1 as r GR. destruct u.
      rewrite CH, GA. cbn [bind]. rewrite GR. reflexivity.
  Qed.

  (* a key set: the chosen key's kid is appended to the header *)
  Corollary jws_transport_rt_set ks ks' algs w p tok w' :
    (forall l x, choose l = Some x -> In x l) ->
    Forall2 C03Proofs.corresponds_kid ks ks' -> NoDup (map k_kid ks) ->
    (forall k, In k ks -> (0 < ec_len k)%nat) ->
    (forall k id, In k ks -> k_kid k = Some id -> Json.str_ok id = true) ->
    dget w s_kid = None -> Json.json_ok (PDict w) = true -> bytes_ok p = true -> not_none algs w ->
    jws_tenc (KSet ks) algs w p = (Ok tok, w') ->
    jws_tdec (KSet ks') algs tok = Ok (w', p) /\
    exists extra, w' = w ++ extra /\ forall k, dmem w k = true -> dmem extra k = false.
  Proof.
    intros CI F ND HL KS NK OK BP NN H.
    apply (jws_transport_rt_at (KSet ks) (KSet ks') algs w p tok w'); try assumption.
    - intros k okid CH GK.
      destruct (C03Proofs.keyset_resolve choose ks ks' w k okid CI F ND NK GK)
        as (IN & id & k' & -> & KK & FD & C).
      cbn [set_kid]. split; [apply HL; exact IN|].
      split; [apply JwsJsonProofs.json_ok_dset_kid; [exact OK|exact NK|eapply KS; eauto]|].
      split; [apply C03Proofs.check_header_set_kid; assumption|].
      split.
      { cbn [py_getitem_str]. rewrite dget_dset_other by (vm_compute; discriminate). reflexivity. }
      exists k'. split; [|exact C].
      cbn [guess_key hdr_get py_get_str]. rewrite dget_dset_same. cbn [bind get_by_kid]. rewrite FD. reflexivity.
    - intros; exact NK.
  Qed.

  (* ---------- jwt round trip over the JWS pipeline ---------- *)
  Variable json_dumps : pv -> res bytes.      (* claims: json.dumps(...) + to_bytes *)
  Variable json_loads : bytes -> res pv.
  Hypothesis claims_json_rt : forall v b, C09Spec.json_ok v = true -> json_dumps v = Ok b -> json_loads b = Ok v.
  Hypothesis claims_json_octets : forall v b, json_dumps v = Ok b -> bytes_ok b = true.

  Theorem jwt_rt_jws_gen src src' algs h c tok :
    keys_unique (dkeys h) = true -> C09Spec.claims_ok c = true ->
    C03Proofs.key_ok choose JwsJson.g_hok (reg15 algs) src src' (C09Jwt.typ_default h) ->
    (forall k id, guess_key_sign choose src (C09Jwt.typ_default h) = Ok (k, Some id) ->
                  dget (C09Jwt.typ_default h) s_kid = None) ->
    not_none algs (C09Jwt.typ_default h) ->
    C09Jwt.eo_result (C09Jwt.encode json_dumps (jws_tenc src algs) h c) = Ok tok ->
    exists d extra,
      C09Jwt.claims_pv (C09Jwt.eo_claims (C09Jwt.encode json_dumps (jws_tenc src algs) h c)) = Some d /\
      C09Jwt.decode json_loads (jws_tdec src' algs) tok = Ok (C09Spec.spec_header h ++ extra, PDict d) /\
      (forall k, dmem (C09Spec.spec_header h) k = true -> dmem extra k = false).
  Proof.
    intros U O KO NK NN H.
    destruct (C09Proofs.encode_ok_inv json_dumps (jws_tenc src algs) h c tok H)
      as (c' & d & p & w' & K & P & J & T & E).
    destruct (jws_transport_rt_at src src' algs _ p tok w' KO NK (claims_json_octets _ _ J) NN T)
      as [D (extra & W & X)].
    rewrite (C09Dict.typ_default_spec h U) in *. subst w'.
    exists d, extra. rewrite E. cbn [C09Jwt.eo_claims]. split; [exact P|]. split; [|exact X].
    apply C09Proofs.decode_ok_iff. exists p. split; [exact D|]. split; [|reflexivity].
    apply claims_json_rt; [|exact J].
    apply (C09Dict.claims_pv_ok c' d); [|exact P].
    exact (C09Dict.convert_keys_claims_ok _ _ _ _ O K).
  Qed.

  (* a key given directly: exactly the typ-defaulted header and the converted claims *)
  Theorem jwt_rt_jws k k' algs h c tok :
    C03Proofs.corresponds k k' -> (0 < ec_len k)%nat ->
    keys_unique (dkeys h) = true -> Json.json_ok (PDict (C09Jwt.typ_default h)) = true ->
    C09Spec.claims_ok c = true -> not_none algs (C09Jwt.typ_default h) ->
    C09Jwt.eo_result (C09Jwt.encode json_dumps (jws_tenc (KOne k) algs) h c) = Ok tok ->
    exists d,
      C09Jwt.claims_pv (C09Jwt.eo_claims (C09Jwt.encode json_dumps (jws_tenc (KOne k) algs) h c)) = Some d /\
      C09Jwt.decode json_loads (jws_tdec (KOne k') algs) tok = Ok (C09Spec.spec_header h, PDict d).
  Proof.
    intros C L U OK O NN H.
    destruct (C09Proofs.encode_ok_inv json_dumps (jws_tenc (KOne k) algs) h c tok H)
      as (c' & d & p & w' & K & P & J & T & E).
    destruct (jws_transport_rt_one k k' algs _ p tok w' C L OK (claims_json_octets _ _ J) NN T) as [D W].
    rewrite (C09Dict.typ_default_spec h U) in *. subst w'.
    exists d. rewrite E. cbn [C09Jwt.eo_claims]. split; [exact P|].
    apply C09Proofs.decode_ok_iff. exists p. split; [exact D|]. split; [|reflexivity].
    apply claims_json_rt; [|exact J].
    apply (C09Dict.claims_pv_ok c' d); [|exact P].
    exact (C09Dict.convert_keys_claims_ok _ _ _ _ O K).
  Qed.
  End Contracts.
End Jwt.

(* ---------- the unrestricted contract is false for the JWS transport ---------- *)
(* C09's Hypothesis [transport_rt] quantifies over ALL (w, p).  For the JWS
   transport it fails (a) for alg "none" when the caller allows it: encode
   produces a token that decode refuses; (b) for a header carrying a FALSY kid
   with a key set: guess_key overwrites the member in place, so the dict after
   the call is not "w followed by new members". *)
Definition x_mac (h : string) (kid : N) (m : bytes) : res bytes := Ok [1; 2; 3; 4].
Definition x_pks (r : jws_alg_row) (kid : N) (m : bytes) : res bytes := Err EOracleMiss.
Definition x_pkv (r : jws_alg_row) (kid : N) (m s : bytes) : res bool := Err EOracleMiss.
Definition x_ecs (r : jws_alg_row) (kid : N) (m : bytes) : res (Z * Z) := Err EOracleMiss.
Definition x_ecv (r : jws_alg_row) (kid : N) (m : bytes) (a b : Z) : res bool := Err EOracleMiss.
Definition x_choose (l : list key) : option key := hd_error l.
Definition x_key (kid : option str) : key :=
  {| k_id := 1; k_kid := kid; k_kty := "oct"; k_crv := ""; k_bits := 8; k_use := None;
     k_ops := None; k_alg := None; k_private := true |}.

Lemma x_contracts :
  (forall h kid msg m, x_mac h kid msg = Ok m -> bytes_ok m = true) /\
  (forall r kid msg sig, x_pks r kid msg = Ok sig -> bytes_ok sig = true /\ x_pkv r kid msg sig = Ok true) /\
  (forall r k msg rr ss, x_ecs r (k_id k) msg = Ok (rr, ss) ->
      (0 <= rr)%Z /\ (0 <= ss)%Z /\
      Z.to_N rr < 256 ^ N.of_nat (ec_len k) /\ Z.to_N ss < 256 ^ N.of_nat (ec_len k) /\
      x_ecv r (k_id k) msg rr ss = Ok true).
Proof.
  split; [|split].
  - intros h kid msg m H. inversion H. reflexivity.
  - intros r kid msg sig H. discriminate.
  - intros r k msg rr ss H. discriminate.
Qed.

Lemma transport_rt_fails_none :
  let w := [(asc "typ", PStr (asc "JWT")); (s_alg, PStr (asc "none"))] in
  let algs := Some [asc "none"] in
  exists tok w',
    jws_tenc x_mac x_pks x_ecs x_choose (KOne (x_key None)) algs w (asc "{}") = (Ok tok, w') /\
    jws_tdec x_mac x_pkv x_ecv (KOne (x_key None)) algs tok = Err (EJose BadSignatureError).
Proof. cbv zeta. eexists. eexists. split; [vm_compute; reflexivity|]. vm_compute. reflexivity. Qed.

Lemma transport_rt_fails_falsy_kid :
  let w := [(asc "typ", PStr (asc "JWT")); (s_alg, PStr (asc "HS256")); (s_kid, PStr [])] in
  let ks := [x_key (Some (asc "a"))] in
  exists tok,
    jws_tenc x_mac x_pks x_ecs x_choose (KSet ks) None w (asc "{}") =
      (Ok tok, [(asc "typ", PStr (asc "JWT")); (s_alg, PStr (asc "HS256")); (s_kid, PStr (asc "a"))]) /\
    forall extra, [(asc "typ", PStr (asc "JWT")); (s_alg, PStr (asc "HS256")); (s_kid, PStr (asc "a"))]
                  <> w ++ extra.
Proof.
  cbv zeta. eexists. split; [vm_compute; reflexivity|].
  intros extra H. inversion H.
Qed.

(* non-vacuity of jwt_rt_jws: an instance meeting every hypothesis *)
Definition x_dumps (v : pv) : res bytes := Ok (JwsJson.g_dumps v).
Lemma jwt_rt_instance :
  let h := [(s_alg, PStr (asc "HS256"))] in
  exists tok,
    C09Jwt.eo_result (C09Jwt.encode x_dumps (jws_tenc x_mac x_pks x_ecs x_choose (KOne (x_key None)) None) h
                        [(asc "sub", C09Jwt.CV (PStr (asc "a")))]) = Ok tok /\
    C03Proofs.corresponds (x_key None) (x_key None) /\ (0 < ec_len (x_key None))%nat /\
    keys_unique (dkeys h) = true /\ Json.json_ok (PDict (C09Jwt.typ_default h)) = true /\
    C09Jwt.decode JwsJson.g_loads (jws_tdec x_mac x_pkv x_ecv (KOne (x_key None)) None) tok =
      Ok ([(asc "typ", PStr (asc "JWT")); (s_alg, PStr (asc "HS256"))], PDict [(asc "sub", PStr (asc "a"))]).
Proof.
  cbv zeta. eexists. split; [vm_compute; reflexivity|].
  split; [repeat split|]. split; [vm_compute; lia|]. split; [reflexivity|]. split; [vm_compute; reflexivity|]. vm_compute. reflexivity.
Qed.
