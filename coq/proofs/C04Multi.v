(* C04Multi.v — the round trip for n >= 1 recipients of mixed (non-direct) algorithms in the JSON
   serializations: glue of the message layer (C04Proofs.message_rt) with the per-recipient key
   layers, through pre_loop / post_loop / recip_loop. *)
From Coq Require Import Lia ZifyBool.
From Model Require Import JweBase JweCrypto JweMsg.
From Gen Require Import Tables.
From Proofs Require Import B64Proofs C02Proofs C04Proofs.
Open Scope N_scope.

(* ================= recip_loop when every / some recipient yields the CEK ================= *)
Section Loop.
Variable O : oracles.
Variable g : registry.

Lemma set_add_same c : set_add c [c] = [c].
Proof.
  unfold set_add. simpl. assert (B : beqb c c = true) by (apply beqb_eq; reflexivity). rewrite B. reflexivity.
Qed.

Lemma yields_step e o r rest acc cek :
  yields O g e o r cek ->
  recip_loop O g e o (r :: rest) acc = recip_loop O g e o rest (set_add cek acc).
Proof.
  intros [hs [algv [a [H1 [H2 [H3 [H4 H5]]]]]]]. simpl.
  rewrite H1. cbn [bind]. rewrite H2. cbn [bind]. rewrite H3. cbn [bind]. rewrite H4. cbn [bind].
  rewrite H5. reflexivity.
Qed.

(* verify_all_recipients = True (or False): every recipient yields the same CEK *)
Lemma recip_loop_all e o cek : forall rs acc,
  Forall (fun r => yields O g e o r cek) rs -> acc = [] \/ acc = [cek] ->
  recip_loop O g e o rs acc = Ok (match rs with [] => acc | _ => [cek] end).
Proof.
  induction rs as [|r rs IH]; intros acc F A; [reflexivity |].
  inversion F; subst. rewrite (yields_step e o r rs acc cek H1).
  assert (S : set_add cek acc = [cek]) by (destruct A; subst; [reflexivity | apply set_add_same]).
  rewrite S. rewrite (IH [cek] H2 (or_intror eq_refl)). destruct rs; reflexivity.
Qed.

(* a recipient that fails with an error the loop swallows when verify_all_recipients = False *)
Definition fails_quietly (e : jwe_enc_row) (o : jobj) (r : recip) : Prop :=
  exists hs algv a ex,
    headers (j_ser o) (j_prot o) (j_unprot o) (r_header r) = Ok hs /\
    o_check_header O (PDict hs) true = Ok tt /\
    hitem hs "alg" = Ok algv /\ get_alg g algv = Ok a /\
    decrypt_recipient O a e hs r (j_tag o) = Err ex /\ catchable ex = true.

Lemma quiet_step e o r rest acc :
  g_verify_all g = false -> fails_quietly e o r ->
  recip_loop O g e o (r :: rest) acc = recip_loop O g e o rest acc.
Proof.
  intros V [hs [algv [a [ex [H1 [H2 [H3 [H4 [H5 H6]]]]]]]]]. simpl.
  rewrite H1. cbn [bind]. rewrite H2. cbn [bind]. rewrite H3. cbn [bind]. rewrite H4. cbn [bind].
  rewrite H5, H6, V. reflexivity.
Qed.

(* verify_all_recipients = False: some recipients fail, at least one yields the CEK *)
Lemma recip_loop_any e o cek : forall rs acc,
  g_verify_all g = false ->
  Forall (fun r => yields O g e o r cek \/ fails_quietly e o r) rs -> acc = [] \/ acc = [cek] ->
  exists ceks, recip_loop O g e o rs acc = Ok ceks /\ (ceks = acc \/ ceks = [cek]) /\
               (Exists (fun r => yields O g e o r cek) rs -> ceks = [cek]).
Proof.
  induction rs as [|r rs IH]; intros acc V F A.
  - exists acc. split; [reflexivity |]. split; [auto |]. intro X. inversion X.
  - inversion F; subst. destruct H1 as [Y | Q].
    + rewrite (yields_step e o r rs acc cek Y).
      assert (S : set_add cek acc = [cek]) by (destruct A; subst; [reflexivity | apply set_add_same]).
      rewrite S. destruct (IH [cek] V H2 (or_intror eq_refl)) as [ceks [R [D _]]].
      exists ceks. split; [exact R |].
      assert (ceks = [cek]) by (destruct D; assumption). subst. auto.
    + rewrite (quiet_step e o r rs acc V Q).
      destruct (IH acc V H2 A) as [ceks [R [D X]]].
      exists ceks. split; [exact R |]. split.
      * destruct D; auto.
      * intro E. inversion E; subst.
        -- (* r both yields and fails: the two decrypt_recipient results differ *)
           destruct H0 as [hs [algv [a [K1 [K2 [K3 [K4 K5]]]]]]].
           destruct Q as [hs' [algv' [a' [ex [L1 [L2 [L3 [L4 [L5 L6]]]]]]]]].
           rewrite K1 in L1. inversion L1; subst hs'. rewrite K3 in L3. inversion L3; subst algv'.
           rewrite K4 in L4. inversion L4; subst a'. rewrite K5 in L5. discriminate.
        -- apply X. assumption.
Qed.

End Loop.

(* ================= what pre_loop / post_loop did to each recipient (JSON serializations) ========== *)
Section Steps.
Variable O : oracles.
Variable g : registry.

Definition draw_of (ds : list rdraw) : rdraw := match ds with d :: _ => d | [] => no_rdraw end.

(* no recipient names a direct-mode algorithm *)
Definition nodirect (s : ser) (prot : dict) (unprot : pv) (rs : list recip) : Prop :=
  forall r hs algv a, In r rs -> headers s prot unprot (r_header r) = Ok hs -> hitem hs "alg" = Ok algv ->
                      get_alg g algv = Ok a -> ea_direct a = false.

Definition item := (recip * option jwe_alg_row)%type.

Definition pre_rel (s : ser) (prot : dict) (unprot : pv) (dcek : bytes) (r : recip) (d : rdraw) (it : item) : Prop :=
  exists hs algv a,
    headers s prot unprot (r_header r) = Ok hs /\ o_check_header O (PDict hs) false = Ok tt /\
    hitem hs "alg" = Ok algv /\ get_alg g algv = Ok a /\ ea_direct a = false /\
    ((is_agreement a = false /\
      exists r2 ek, encrypt_cek O a s prot unprot r d dcek = Ok (prot, r2, ek) /\ it = (set_ek r2 ek, None))
     \/
     (is_agreement a = true /\
      exists r1 eph epkd, check_key_type a (r_key r) = Ok tt /\ r_eph r = Some (eph, epkd) /\
                          add_header s prot r (s_ "epk") epkd = Ok (prot, r1) /\ it = (r1, Some a))).

Inductive pre_rels (s : ser) (prot : dict) (unprot : pv) (dcek : bytes)
  : list recip -> list rdraw -> list item -> Prop :=
| pr_nil ds : pre_rels s prot unprot dcek [] ds []
| pr_cons r rs ds it its :
    pre_rel s prot unprot dcek r (draw_of ds) it -> pre_rels s prot unprot dcek rs (tl ds) its ->
    pre_rels s prot unprot dcek (r :: rs) ds (it :: its).

Lemma prepare_json_inv s prot unprot r a prot1 r1 :
  s <> Compact -> prepare_recipient_algorithm O g s prot unprot r = Ok (a, prot1, r1) ->
  prot1 = prot /\
  exists hs algv, headers s prot unprot (r_header r) = Ok hs /\ o_check_header O (PDict hs) false = Ok tt /\
                  hitem hs "alg" = Ok algv /\ get_alg g algv = Ok a /\
    ((is_agreement a = false /\ r1 = r) \/
     (is_agreement a = true /\ exists eph epkd, check_key_type a (r_key r) = Ok tt /\ r_eph r = Some (eph, epkd) /\
                                               add_header s prot r (s_ "epk") epkd = Ok (prot, r1))).
Proof.
  intros N P. unfold prepare_recipient_algorithm in P.
  inv_bind P. inv_bind P. inv_bind P. inv_bind P.
  match goal with
  | Hh : headers _ _ _ _ = Ok ?hs, Hc : o_check_header O (PDict ?hs) false = Ok ?u,
    Ha : hitem ?hs "alg" = Ok ?algv, Ga : get_alg g ?algv = Ok ?a' |- _ =>
      destruct u; rename hs into hs0; rename algv into algv0; rename a' into a0;
      rename Hh into HH; rename Hc into HC; rename Ha into HA; rename Ga into GA
  end.
  destruct (is_agreement a0) eqn:AG.
  - inv_bind P. match goal with E : _ = Ok ?pr |- _ => is_var pr; destruct pr as [pp rr] end.
    inversion P; subst. simpl.
    unfold prepare_ephemeral_key in *.
    match goal with E : bind (check_key_type _ _) _ = Ok _ |- _ => apply bind_ok in E; destruct E as [u [CK AH]] end.
    destruct u. destruct (r_eph r) as [[eph epkd]|] eqn:RE; [| discriminate]. simpl in AH.
    pose proof (add_header_json_prot s prot r _ _ prot1 r1 N AH) as [PP _]. subst prot1.
    split; [reflexivity |]. exists hs0, algv0. repeat (split; [assumption |]).
    right. split; [assumption |]. exists eph, epkd. auto.
  - inversion P; subst. split; [reflexivity |]. exists hs0, algv0. repeat (split; [assumption |]).
    left. auto.
Qed.

Lemma pre_loop_inv e s unprot total dcek prot : s <> Compact -> dcek <> [] ->
  forall rs ds cek acc prot' cek' acc',
  nodirect s prot unprot rs ->
  cek = [] \/ cek = dcek ->
  pre_loop O g e s unprot total dcek rs ds prot cek acc = Ok (prot', cek', acc') ->
  prot' = prot /\ cek' = match rs with [] => cek | _ => dcek end /\
  exists its, acc' = acc ++ its /\ pre_rels s prot unprot dcek rs ds its.
Proof.
  intros N DN. induction rs as [|r rs IH]; intros ds cek acc prot' cek' acc' ND CK H.
  - simpl in H. inversion H; subst. split; [reflexivity |]. split; [reflexivity |].
    exists []. rewrite app_nil_r. split; [reflexivity | constructor].
  - simpl in H.
    destruct (prepare_recipient_algorithm O g s prot unprot r) as [[[a prot1] r1]|] eqn:P; [| discriminate].
    cbn [bind] in H. cbv beta iota zeta in H.
    destruct (prepare_json_inv s prot unprot r a prot1 r1 N P) as [P1 [hs [algv [HH [HC [HA [GA CASE]]]]]]].
    subst prot1.
    assert (D : ea_direct a = false) by (eapply (ND r hs algv a); simpl; auto).
    rewrite D in H.
    set (cek1 := match cek with [] => _ | _ :: _ => _ end) in H.
    assert (CK1 : cek1 = dcek).
    { unfold cek1. destruct CK as [-> | ->]; [reflexivity |]. destruct dcek; [contradiction | reflexivity]. }
    rewrite CK1 in H. clear cek1 CK1.
    assert (ND' : nodirect s prot unprot rs).
    { intros r0 hs0 algv0 a0 I. apply ND. simpl. auto. }
    destruct CASE as [[AG R1] | [AG [eph [epkd [CKT [RE AH]]]]]]; rewrite AG in H.
    + subst r1.
      destruct (encrypt_cek O a s prot unprot r (draw_of ds) dcek) as [[[p2 r2] ek]|] eqn:EC;
        [| unfold draw_of in EC; rewrite EC in H; discriminate].
      unfold draw_of in EC. rewrite EC in H. cbn [bind] in H. cbv beta iota zeta in H.
      pose proof (encrypt_cek_json_prot O a s prot unprot r _ dcek p2 r2 ek N EC) as PP. subst p2.
      destruct (IH (tl ds) dcek (acc ++ [(set_ek r2 ek, None)]) prot' cek' acc' ND' (or_intror eq_refl) H)
        as [Q1 [Q2 [its [Q3 Q4]]]].
      split; [exact Q1 |]. split; [destruct rs; exact Q2 |].
      exists ((set_ek r2 ek, None) :: its). split; [rewrite Q3, <- app_assoc; reflexivity |].
      constructor; [| exact Q4].
      exists hs, algv, a. repeat (split; [assumption |]). left. split; [exact AG |].
      exists r2, ek. split; [exact EC | reflexivity].
    + destruct (IH (tl ds) dcek (acc ++ [(r1, Some a)]) prot' cek' acc' ND' (or_intror eq_refl) H)
        as [Q1 [Q2 [its [Q3 Q4]]]].
      split; [exact Q1 |]. split; [destruct rs; exact Q2 |].
      exists ((r1, Some a) :: its). split; [rewrite Q3, <- app_assoc; reflexivity |].
      constructor; [| exact Q4].
      exists hs, algv, a. repeat (split; [assumption |]). right. split; [exact AG |].
      exists r1, eph, epkd. auto.
Qed.

Definition post_rel (e : jwe_enc_row) (s : ser) (prot : dict) (unprot : pv) (cek tag : bytes) (it : item) (r' : recip) : Prop :=
  match it with
  | (r, None) => r' = r
  | (r1, Some a) =>
      exists hs1 auk ek, headers s prot unprot (r_header r1) = Ok hs1 /\
        enc_auk O a e hs1 r1 (if ea_tag_aware a then Some tag else None) = Ok auk /\
        kw_wrap_cek O (key_size_of a) cek auk = Ok ek /\ r' = set_ek r1 ek
  end.

Lemma post_loop_inv e s prot unprot cek tag : forall its rs',
  post_loop O e s prot unprot cek tag its = Ok rs' -> Forall2 (post_rel e s prot unprot cek tag) its rs'.
Proof.
  induction its as [|[r [a|]] its IH]; intros rs' H; simpl in H.
  - inversion H; constructor.
  - inv_bind H. inv_bind H. inv_bind H. inv_bind H. inversion H; subst.
    constructor; [| apply IH; assumption].
    simpl. do 3 eexists. repeat split; eauto.
  - inv_bind H. inversion H; subst. constructor; [reflexivity | apply IH; assumption].
Qed.

End Steps.

(* ================= each processed recipient yields the CEK on the decryption side ================= *)
Section Yields.
Variable O : oracles.
Hypothesis C : contracts O.
Variable g : registry.
Hypothesis CH : forall hs, o_check_header O (PDict hs) true = Ok tt.
Hypothesis BT : forall k iv a m c t, o_gcm_enc O k iv a m = Ok (c, t) -> bytes_ok t = true.

Record recip_ok (r : recip) (d : rdraw) : Prop := {
  ro_wf : hdr_wf (r_header r);
  ro_priv : k_priv (r_key r) = true;
  ro_eph : forall eph epkd, r_eph r = Some (eph, epkd) ->
           o_import O (k_kty (r_key r)) epkd = Ok (pubk eph) /\ k_kty eph = k_kty (r_key r);
  ro_sender : forall sk, r_sender r = Some sk -> k_kty sk = k_kty (r_key r);
  ro_kwiv : bytes_ok (d_kwiv d) = true;
  ro_p2s : bytes_ok (d_p2s d) = true
}.

Lemma headers_total s prot unprot h0 hs0 dd :
  headers s prot unprot h0 = Ok hs0 -> exists hs, headers s prot unprot (PDict dd) = Ok hs.
Proof.
  unfold headers. intro H.
  destruct (match s with
            | Compact => Ok (dupdate [] prot)
            | _ => if py_truth unprot then py_update (dupdate [] prot) unprot else Ok (dupdate [] prot)
            end) as [rv|ex]; [| discriminate].
  cbn [bind]. destruct (py_truth (PDict dd)); simpl; eauto.
Qed.

Lemma add_header_json_hdr s prot r k v p' r' :
  s <> Compact -> add_header s prot r k v = Ok (p', r') -> exists dd, r_header r' = PDict dd.
Proof.
  intros N A. unfold add_header in A. destruct s; [contradiction | |];
    (destruct (py_truth (r_header r));
     [destruct (r_header r); try discriminate; inversion A; subst; simpl; eauto
     | inversion A; subst; simpl; eauto]).
Qed.

Ltac ah_hdr N :=
  repeat match goal with
  | E : add_header _ _ _ _ _ = Ok (_, ?rr) |- _ =>
      lazymatch goal with
      | _ : exists dd, r_header rr = PDict dd |- _ => fail
      | _ => pose proof (add_header_json_hdr _ _ _ _ _ _ _ N E)
      end
  end.

(* the per-recipient header after encrypt_cek: unchanged, or a dict *)
Lemma encrypt_cek_hdr a s prot unprot r d cek p2 r2 ek :
  s <> Compact -> encrypt_cek O a s prot unprot r d cek = Ok (p2, r2, ek) ->
  r_header r2 = r_header r \/ exists dd, r_header r2 = PDict dd.
Proof.
  intros N H. unfold encrypt_cek in H.
  destruct (fam_is (ea_family a) "RSA").
  { inv_bind H. inv_bind H.
    match type of H with (if ?b then _ else _) = _ => destruct b; [discriminate |] end.
    inv_bind H. inversion H; subst. auto. }
  destruct (fam_is (ea_family a) "AESKW").
  { inv_bind H. inv_bind H. inversion H; subst. auto. }
  destruct (fam_is (ea_family a) "AESGCMKW").
  { inv_bind H. inv_bind H. inv_bind H. inv_bind H. inv_bind H.
    match goal with E : add_header _ _ _ _ _ = Ok ?pr |- _ => is_var pr; destruct pr end.
    match goal with E : add_header _ _ _ _ _ = Ok ?pr |- _ => is_var pr; destruct pr end.
    inversion H; subst. cbn [fst snd] in *. right.
    match goal with E : add_header _ _ _ (s_ "tag") _ = Ok _ |- _ => exact (add_header_json_hdr _ _ _ _ _ _ _ N E) end. }
  destruct (fam_is (ea_family a) "PBES2"); [| discriminate].
  inv_bind H. rename x into hs.
  destruct (dmem hs (s_ "p2s")); destruct (dmem hs (s_ "p2c")); cbn [negb] in H.
  - inv_bind H. match goal with E : _ = Ok ?x |- _ => is_var x; destruct x as [[p1 r1] p2sv] end.
    match goal with E : bind (to_bytes_pv _) _ = Ok _ |- _ => inv_bind E; inv_bind E; inversion E; subst p1 r1 p2sv end.
    cbn [bind] in H. cbv beta iota zeta in H.
    inv_bind H. inv_bind H. inv_bind H. inversion H; subst. auto.
  - inv_bind H. match goal with E : _ = Ok ?x |- _ => is_var x; destruct x as [[p1 r1] p2sv] end.
    match goal with E : bind (to_bytes_pv _) _ = Ok _ |- _ => inv_bind E; inv_bind E; inversion E; subst p1 r1 p2sv end.
    inv_bind H. match goal with E : _ = Ok ?x |- _ => is_var x; destruct x as [[pb rb] pc] end.
    match goal with E : bind (add_header _ _ _ _ _) _ = Ok _ |- _ => apply bind_ok in E; destruct E as [prx [AHx Ex]]; inversion Ex; subst; clear Ex end.
    cbv beta iota zeta in H. inv_bind H. inv_bind H. inv_bind H. inversion H; subst.
    right. exact (add_header_json_hdr _ _ _ _ _ _ _ N AHx).
  - inv_bind H. match goal with E : _ = Ok ?x |- _ => is_var x; destruct x as [[p1 r1] p2sv] end.
    match goal with E : bind (add_header _ _ _ _ _) _ = Ok _ |- _ => apply bind_ok in E; destruct E as [prx [AHx Ex]]; inversion Ex; subst; clear Ex end.
    cbn [bind] in H. cbv beta iota zeta in H.
    inv_bind H. inv_bind H. inv_bind H. inversion H; subst.
    right. exact (add_header_json_hdr _ _ _ _ _ _ _ N AHx).
  - inv_bind H. match goal with E : _ = Ok ?x |- _ => is_var x; destruct x as [[p1 r1] p2sv] end.
    match goal with E : bind (add_header _ _ _ _ _) _ = Ok _ |- _ => apply bind_ok in E; destruct E as [prx [AHx Ex]]; inversion Ex; subst; clear Ex end.
    inv_bind H. match goal with E : _ = Ok ?x |- _ => is_var x; destruct x as [[pb rb] pc] end.
    match goal with E : bind (add_header _ _ _ _ _) _ = Ok (pb, rb, pc) |- _ => apply bind_ok in E; destruct E as [pry [AHy Ey]]; inversion Ey; subst; clear Ey end.
    cbv beta iota zeta in H. inv_bind H. inv_bind H. inv_bind H. inversion H; subst.
    right. exact (add_header_json_hdr _ _ _ _ _ _ _ N AHy).
Qed.

(* every row of the algorithm table is of a known family *)
Definition fam_ok (a : jwe_alg_row) : bool :=
  ea_direct a || is_agreement a ||
  fam_is (ea_family a) "RSA"
  || (negb (fam_is (ea_family a) "RSA") && fam_is (ea_family a) "AESKW")
  || (negb (fam_is (ea_family a) "RSA") && negb (fam_is (ea_family a) "AESKW") && fam_is (ea_family a) "AESGCMKW")
  || (negb (fam_is (ea_family a) "RSA") && negb (fam_is (ea_family a) "AESKW")
      && negb (fam_is (ea_family a) "AESGCMKW") && fam_is (ea_family a) "PBES2").

Lemma table_fam_ok : forallb fam_ok jwe_alg_table_drafts = true.
Proof. vm_compute. reflexivity. Qed.

Lemma get_alg_in v a : get_alg g v = Ok a -> In a jwe_alg_table_drafts.
Proof.
  unfold get_alg. intro H. inv_bind H. destruct x as [n|]; [| discriminate].
  destruct (find_alg n) as [r|] eqn:F; [| discriminate].
  inv_bind H. inversion H; subst. unfold find_alg in F. apply find_some in F. tauto.
Qed.

Lemma get_alg_fam v a : get_alg g v = Ok a -> fam_ok a = true.
Proof.
  intro H. apply get_alg_in in H. pose proof table_fam_ok as T. rewrite forallb_forall in T. apply T. exact H.
Qed.

Lemma nonagree_yields s prot unprot r d dcek a hs algv r2 ek :
  s <> Compact -> wf prot -> hdr_wf unprot -> recip_ok r d ->
  headers s prot unprot (r_header r) = Ok hs -> hitem hs "alg" = Ok algv -> get_alg g algv = Ok a ->
  ea_direct a = false -> is_agreement a = false ->
  encrypt_cek O a s prot unprot r d dcek = Ok (prot, r2, ek) ->
  exists hs', headers s prot unprot (r_header r2) = Ok hs' /\ hitem hs' "alg" = Ok algv /\
              decrypt_cek O a hs' (set_ek r2 ek) = Ok dcek.
Proof.
  intros N Wp Wu RO Hh Ha Ga D AG EC.
  destruct RO as [Wh PRIV _ _ BIV BS].
  assert (Hc : s = Compact -> r_header r = PNone) by (intro E; contradiction).
  (* the merged headers of the final recipient exist *)
  assert (HX : exists hs', headers s prot unprot (r_header r2) = Ok hs').
  { destruct (encrypt_cek_hdr a s prot unprot r d dcek prot r2 ek N EC) as [E | [dd E]]; rewrite E.
    - eauto.
    - eapply headers_total; eauto. }
  destruct HX as [hs' H'].
  pose proof (get_alg_fam algv a Ga) as FO. unfold fam_ok in FO. rewrite D, AG in FO. simpl in FO.
  destruct (fam_is (ea_family a) "RSA") eqn:F0.
  { destruct (cek_rt_rsa O C a s prot unprot r d dcek prot r2 ek hs F0 EC PRIV) as [DK [_ R2]]. subst r2.
    rewrite Hh in H'. inversion H'; subst hs'. exists hs. auto. }
  destruct (fam_is (ea_family a) "AESKW") eqn:F1.
  { destruct (cek_rt_aeskw O C a s prot unprot r d dcek prot r2 ek hs F0 F1 EC) as [DK [_ R2]]. subst r2.
    rewrite Hh in H'. inversion H'; subst hs'. exists hs. auto. }
  destruct (fam_is (ea_family a) "AESGCMKW") eqn:F2.
  { destruct (gcmkw_fields_local O a s prot unprot r d dcek prot r2 ek F0 F1 F2 EC) as [tg [[p1 r1] [G [A1 A2]]]].
    simpl in A2.
    assert (NE : s_ "iv" <> s_ "tag") by (vm_compute; discriminate).
    destruct (add_header2 s prot unprot r _ _ _ _ p1 r1 prot r2 hs hs' Wp Wu Wh Hc NE A1 A2 Hh H')
      as [Giv [Gtag [Goth [RK _]]]].
    exists hs'. split; [exact H' |]. split.
    - unfold hitem in *. rewrite (Goth (asc "alg")); [exact Ha | vm_compute; discriminate | vm_compute; discriminate].
    - eapply cek_rt_gcmkw; eauto. }
  simpl in FO.
  { destruct (pbes2_encrypt_inv O a s prot unprot r d dcek prot r2 ek hs hs' F0 F1 F2 FO Wp Wu Wh Hc BS EC Hh H')
      as [sb [p2s [kek [M1 [M2 [TB [BD [CK [KEK [W [RK [Goth _]]]]]]]]]]]].
    exists hs'. split; [exact H' |]. split.
    - unfold hitem in *. rewrite (Goth (asc "alg")); [exact Ha | vm_compute; discriminate | vm_compute; discriminate].
    - eapply (cek_rt_pbes2 O C a hs' (set_ek r2 ek) dcek ek kek p2s sb); eauto.
      + change (r_key (set_ek r2 ek)) with (r_key r2). rewrite RK. exact CK.
      + change (r_key (set_ek r2 ek)) with (r_key r2). rewrite RK. exact KEK. }
Qed.

End Yields.

(* ================= the glue ================= *)
Section Glue.
Variable O : oracles.
Hypothesis C : contracts O.
Variable g : registry.
Hypothesis CH : forall hs, o_check_header O (PDict hs) true = Ok tt.
Hypothesis BT : forall k iv a m c t, o_gcm_enc O k iv a m = Ok (c, t) -> bytes_ok t = true.

Lemma step_yields e ob s prot unprot dcek tag r d it r' :
  s <> Compact -> wf prot -> hdr_wf unprot -> recip_ok O r d ->
  j_ser ob = s -> j_prot ob = prot -> j_unprot ob = unprot -> j_tag ob = tag ->
  pre_rel O g s prot unprot dcek r d it -> post_rel O e s prot unprot dcek tag it r' ->
  yields O g e ob r' dcek.
Proof.
  intros N Wp Wu RO J1 J2 J3 J4 [hs [algv [a [Hh [Hc [Ha [Ga [D CASE]]]]]]]] PO.
  unfold yields. rewrite J1, J2, J3, J4.
  destruct CASE as [[AG [r2 [ek [EC IT]]]] | [AG [r1 [eph [epkd [CKT [RE [AH IT]]]]]]]]; subst it; simpl in PO.
  - subst r'.
    destruct (nonagree_yields O C g BT s prot unprot r d dcek a hs algv r2 ek N Wp Wu RO Hh Ha Ga D AG EC)
      as [hs' [H' [Ha' DK]]].
    exists hs', algv, a. change (r_header (set_ek r2 ek)) with (r_header r2).
    repeat (split; [first [assumption | apply CH] |]).
    unfold decrypt_recipient. rewrite D, AG. exact DK.
  - destruct PO as [hs1 [auk [ek [H1 [EA [W R']]]]]]. subst r'.
    destruct RO as [Wh PRIV IMP SKT _ _].
    assert (Hcc : s = Compact -> r_header r = PNone) by (intro E; contradiction).
    destruct (IMP eph epkd RE) as [IM KT].
    destruct (add_header_wf s prot r (s_ "epk") epkd prot r1 Wp Wh Hcc AH)
      as [Wp1 [Wh1 [Hc1 [RK [RS [REK RPH]]]]]].
    pose proof (add_header_get s prot unprot r (s_ "epk") epkd prot r1 hs1 Wp Wu Wh Hcc AH H1) as Gepk.
    assert (Halg : hitem hs1 "alg" = Ok algv).
    { unfold hitem in *.
      rewrite (add_header_other s prot unprot r (s_ "epk") epkd prot r1 hs hs1 (asc "alg") Wp Wu Wh Hcc AH Hh H1);
        [exact Ha | vm_compute; discriminate]. }
    assert (DA : dec_auk O a e hs1 r1 (if ea_tag_aware a then Some tag else None) = Ok auk).
    { eapply (auk_rt O C a e hs1 r1 _ auk eph epkd); eauto.
      - rewrite RPH. exact RE.
      - rewrite RK. exact IM.
      - rewrite RK. exact PRIV.
      - rewrite RK. exact KT.
      - intros sk Hs. rewrite RK. apply SKT. rewrite <- RS. exact Hs.
      - rewrite RK. exact CKT. }
    exists hs1, algv, a. change (r_header (set_ek r1 ek)) with (r_header r1).
    repeat (split; [first [assumption | apply CH] |]).
    unfold decrypt_recipient. rewrite D, AG.
    assert (DA' : (if ea_tag_aware a then dec_auk O a e hs1 (set_ek r1 ek) (Some tag)
                   else dec_auk O a e hs1 (set_ek r1 ek) None) = Ok auk).
    { rewrite !(dec_auk_set_ek O). destruct (ea_tag_aware a); exact DA. }
    rewrite DA'. cbn [bind need_ek r_ek set_ek].
    apply (kw_rt O C). exact W.
Qed.

Inductive oks : list recip -> list rdraw -> Prop :=
| oks_nil ds : oks [] ds
| oks_cons r rs ds : recip_ok O r (draw_of ds) -> oks rs (tl ds) -> oks (r :: rs) ds.

Lemma all_yield e ob s prot unprot dcek tag : 
  s <> Compact -> wf prot -> hdr_wf unprot ->
  j_ser ob = s -> j_prot ob = prot -> j_unprot ob = unprot -> j_tag ob = tag ->
  forall rs ds its rs',
  oks rs ds -> pre_rels O g s prot unprot dcek rs ds its ->
  Forall2 (post_rel O e s prot unprot dcek tag) its rs' ->
  Forall (fun r' => yields O g e ob r' dcek) rs'.
Proof.
  intros N Wp Wu J1 J2 J3 J4. induction rs as [|r rs IH]; intros ds its rs' OK PR PO.
  - inversion PR; subst. inversion PO; subst. constructor.
  - inversion PR; subst. inversion PO; subst. inversion OK; subst.
    constructor.
    + eapply step_yields; eauto.
    + eapply IH; eauto.
Qed.

(* the encryption of an object for n >= 1 recipients, none of which names a direct-mode algorithm *)
Lemma perform_encrypt_multi_inv o d x :
  e_ser o <> Compact -> d_cek d <> [] -> e_recips o <> [] ->
  nodirect g (e_ser o) (e_prot o) (e_unprot o) (e_recips o) ->
  perform_encrypt O g o d = Ok x ->
  x_prot x = e_prot o /\ x_cek x = d_cek d /\
  exists its, pre_rels O g (e_ser o) (e_prot o) (e_unprot o) (d_cek d) (e_recips o) (d_rec d) its /\
    exists e encv, hitem (e_prot o) "enc" = Ok encv /\ get_enc g encv = Ok e /\
    Forall2 (post_rel O e (e_ser o) (e_prot o) (e_unprot o) (d_cek d) (x_tag x)) its (x_recips x).
Proof.
  intros N DN RN ND H. unfold perform_encrypt in H.
  inv_bind H. rename x0 into encv. inv_bind H. rename x0 into e.
  inv_bind H. destruct x0 as [[prot cek] acc].
  inv_bind H. inv_bind H. inv_bind H.
  match goal with ctg : (bytes * bytes)%type |- _ => destruct ctg as [ct tag] end.
  inv_bind H. inversion H; subst; clear H. simpl.
  match goal with E1 : pre_loop _ _ _ _ _ _ _ _ _ _ _ _ = Ok _ |- _ => rename E1 into PL end.
  match goal with E1 : post_loop _ _ _ _ _ _ _ _ = Ok _ |- _ => rename E1 into QL end.
  destruct (pre_loop_inv O g e (e_ser o) (e_unprot o) (length (e_recips o)) (d_cek d) (e_prot o) N DN
              (e_recips o) (d_rec d) [] [] prot cek acc ND (or_introl eq_refl) PL) as [P1 [P2 [its [P3 P4]]]].
  assert (CE : cek = d_cek d) by (rewrite P2; destruct (e_recips o); [contradiction | reflexivity]).
  clear P2. subst prot cek. simpl in P3. subst acc.
  split; [reflexivity |]. split; [reflexivity |].
  exists its. split; [exact P4 |]. exists e, encv. repeat (split; [assumption |]).
  apply (post_loop_inv O e _ _ _ _ _ _ _ QL).
Qed.

Theorem general_rt o d x :
  e_ser o <> Compact -> e_recips o <> [] ->
  nodirect g (e_ser o) (e_prot o) (e_unprot o) (e_recips o) ->
  wf (e_prot o) -> hdr_wf (e_unprot o) -> oks (e_recips o) (d_rec d) ->
  (forall encv e, hitem (e_prot o) "enc" = Ok encv -> get_enc g encv = Ok e ->
     lenN (d_civ d) * 8 = ee_iv_size e /\ lenN (d_cek d) * 8 = ee_cek_size e /\ ee_cek_size e <> 0) ->
  perform_encrypt O g o d = Ok x ->
  perform_decrypt O g (obj_of o x) = Ok (e_plain o) /\
  (forall r', In r' (x_recips x) -> exists e, yields O g e (obj_of o x) r' (x_cek x)).
Proof.
  intros N RN ND Wp Wu OK SZ H.
  assert (DN : d_cek d <> []).
  { pose proof (perform_encrypt_inv O g o d x H) as [encv [e [m [He [Ge _]]]]].
    destruct (SZ encv e He Ge) as [_ [L NZ]]. intro E. rewrite E in L. simpl in L. congruence. }
  destruct (perform_encrypt_multi_inv o d x N DN RN ND H) as [XP [XC [its [PR [e [encv [He [Ge PO]]]]]]]].
  destruct (SZ encv e He Ge) as [Liv [Lc _]].
  assert (AY : Forall (fun r' => yields O g e (obj_of o x) r' (d_cek d)) (x_recips x)).
  { eapply (all_yield e (obj_of o x) (e_ser o) (e_prot o) (e_unprot o) (d_cek d) (x_tag x)); eauto. }
  split.
  - eapply (message_rt O C g o d x e encv); eauto.
    + rewrite XP. exact He.
    + change (j_recips (obj_of o x)) with (x_recips x).
      rewrite XC. rewrite (recip_loop_all O g e (obj_of o x) (d_cek d) (x_recips x) [] AY (or_introl eq_refl)).
      destruct (x_recips x) eqn:XR; [| reflexivity].
      (* no recipients out of a non-empty input: impossible *)
      exfalso. inversion PO; subst. inversion PR; subst. apply RN. congruence.
    + rewrite XC. exact Lc.
  - intros r' I. exists e. rewrite XC. rewrite Forall_forall in AY. apply AY. exact I.
Qed.

End Glue.

(* ================= any-recipient validation: some recipients fail, one suffices ================= *)
Definition with_recips (ob : jobj) (rs : list recip) : jobj :=
  {| j_ser := j_ser ob; j_prot := j_prot ob; j_unprot := j_unprot ob; j_aad := j_aad ob;
     j_b64prot := j_b64prot ob; j_iv := j_iv ob; j_ct := j_ct ob; j_tag := j_tag ob; j_recips := rs |}.

Section AnyRecipient.
Variable O : oracles.
Hypothesis C : contracts O.
Variable g : registry.

Lemma message_rt_gen o d x e encv rs :
  perform_encrypt O g o d = Ok x ->
  hitem (x_prot x) "enc" = Ok encv -> hitem (e_prot o) "enc" = Ok encv -> get_enc g encv = Ok e ->
  lenN (d_civ d) * 8 = ee_iv_size e ->
  recip_loop O g e (with_recips (obj_of o x) rs) rs [] = Ok [x_cek x] ->
  lenN (x_cek x) * 8 = ee_cek_size e ->
  perform_decrypt O g (with_recips (obj_of o x) rs) = Ok (e_plain o).
Proof.
  intros H He' He G Liv RL Lc.
  pose proof (aad_enc_eq_dec O g _ _ _ H) as A.
  apply perform_encrypt_inv in H.
  destruct H as [encv2 [e2 [m [H1 [H2 [H3 [H4 [H5 [H6 H7]]]]]]]]].
  rewrite He in H1. inversion H1; subst encv2. rewrite G in H2. inversion H2; subst e2.
  remember (with_recips (obj_of o x) rs) as ob eqn:OB.
  assert (Jp : j_prot ob = x_prot x) by (subst; reflexivity).
  assert (Jiv : j_iv ob = x_iv x) by (subst; reflexivity).
  assert (Jct : j_ct ob = x_ct x) by (subst; reflexivity).
  assert (Jtag : j_tag ob = x_tag x) by (subst; reflexivity).
  assert (Jr : j_recips ob = rs) by (subst; reflexivity).
  assert (A' : dec_aad O ob = Ok (x_aadseg x)) by (subst; exact A).
  assert (M : dmem (x_prot x) (s_ "enc") = true).
  { unfold hitem in He'. unfold dmem, s_.
    destruct (dget (x_prot x) (asc "enc")); [reflexivity | discriminate]. }
  assert (CI : check_iv e (x_iv x) = Ok tt).
  { unfold check_iv. rewrite H6, Liv, N.eqb_refl. reflexivity. }
  assert (LC : negb (lenN (x_cek x) * 8 =? ee_cek_size e) = false).
  { rewrite Lc, N.eqb_refl. reflexivity. }
  unfold perform_decrypt, perform_decrypt_inner.
  rewrite Jp, Jiv, Jct, Jtag, Jr, M. cbn [bind].
  rewrite He'. cbn [bind]. rewrite G. cbn [bind]. rewrite CI. cbn [bind].
  rewrite RL. cbn [bind]. rewrite LC. rewrite A'. cbn [bind].
  rewrite (enc_rt O C _ _ _ _ _ _ _ H7). cbn [bind].
  rewrite (zip_rt O C g _ _ _ H3). reflexivity.
Qed.

Lemma yields_with_recips e ob rs r c : yields O g e (with_recips ob rs) r c <-> yields O g e ob r c.
Proof. unfold yields, with_recips; simpl. tauto. Qed.

Hypothesis CH : forall hs, o_check_header O (PDict hs) true = Ok tt.
Hypothesis BT : forall k iv a m c t, o_gcm_enc O k iv a m = Ok (c, t) -> bytes_ok t = true.

(* the token is handed to a party that holds the right key for SOME recipients only: every other
   recipient entry fails with an error the loop swallows under verify_all_recipients = False *)
Theorem general_rt_any o d x rs :
  e_ser o <> Compact -> e_recips o <> [] ->
  nodirect g (e_ser o) (e_prot o) (e_unprot o) (e_recips o) ->
  wf (e_prot o) -> hdr_wf (e_unprot o) -> oks O (e_recips o) (d_rec d) ->
  (forall encv e, hitem (e_prot o) "enc" = Ok encv -> get_enc g encv = Ok e ->
     lenN (d_civ d) * 8 = ee_iv_size e /\ lenN (d_cek d) * 8 = ee_cek_size e /\ ee_cek_size e <> 0) ->
  perform_encrypt O g o d = Ok x ->
  g_verify_all g = false ->
  (forall e, Forall (fun r => In r (x_recips x) \/ fails_quietly O g e (with_recips (obj_of o x) rs) r) rs) ->
  (exists r, In r rs /\ In r (x_recips x)) ->
  perform_decrypt O g (with_recips (obj_of o x) rs) = Ok (e_plain o).
Proof.
  intros N RN ND Wp Wu OK SZ H V FQ [r0 [I0 J0]].
  destruct (general_rt O C g CH BT o d x N RN ND Wp Wu OK SZ H) as [_ Y].
  pose proof (perform_encrypt_inv O g o d x H) as [encv [e [m [He [Ge _]]]]].
  destruct (SZ encv e He Ge) as [Liv [Lc NZ]].
  assert (DN : d_cek d <> []).
  { intro E. rewrite E in Lc. simpl in Lc. congruence. }
  destruct (perform_encrypt_multi_inv O g o d x N DN RN ND H) as [XP [XC _]].
  (* yields is independent of e only through get_enc: re-derive with this e *)
  assert (YE : forall r', In r' (x_recips x) -> yields O g e (obj_of o x) r' (x_cek x)).
  { intros r' I. destruct (general_rt O C g CH BT o d x N RN ND Wp Wu OK SZ H) as [_ Y2].
    destruct (perform_encrypt_multi_inv O g o d x N DN RN ND H) as [_ [_ [its [PR [e2 [encv2 [He2 [Ge2 PO]]]]]]]].
    rewrite He in He2. inversion He2; subst encv2. rewrite Ge in Ge2. inversion Ge2; subst e2.
    assert (AY : Forall (fun r' => yields O g e (obj_of o x) r' (d_cek d)) (x_recips x)).
    { eapply (all_yield O C g CH BT e (obj_of o x) (e_ser o) (e_prot o) (e_unprot o) (d_cek d) (x_tag x)); eauto. }
    rewrite XC. rewrite Forall_forall in AY. apply AY. exact I. }
  assert (F : Forall (fun r => yields O g e (with_recips (obj_of o x) rs) r (x_cek x)
                               \/ fails_quietly O g e (with_recips (obj_of o x) rs) r) rs).
  { specialize (FQ e). rewrite Forall_forall in *. intros r I. destruct (FQ r I) as [J | Q]; [left | right; exact Q].
    apply yields_with_recips. apply YE. exact J. }
  destruct (recip_loop_any O g e (with_recips (obj_of o x) rs) (x_cek x) rs [] V F (or_introl eq_refl))
    as [ceks [RL [_ EX]]].
  assert (CE : ceks = [x_cek x]).
  { apply EX. apply Exists_exists. exists r0. split; [exact I0 |]. apply yields_with_recips. apply YE. exact J0. }
  subst ceks.
  eapply (message_rt_gen o d x e encv rs); eauto.
  - rewrite XP. exact He.
  - rewrite XC. exact Lc.
Qed.

End AnyRecipient.

(* ================= with >= 2 recipients a successful encryption names no direct-mode algorithm ===== *)
Lemma nodirect_of_ok O g o d x :
  e_ser o <> Compact -> (1 < length (e_recips o))%nat -> perform_encrypt O g o d = Ok x ->
  nodirect g (e_ser o) (e_prot o) (e_unprot o) (e_recips o).
Proof.
  intros N L H r hs algv a I Hh Ha Ga.
  destruct (ea_direct a) eqn:D; [exfalso | reflexivity].
  unfold perform_encrypt in H. inv_bind H. inv_bind H. inv_bind H.
  match goal with E : pre_loop _ _ _ _ _ _ _ _ _ _ _ _ = Ok _ |- _ => rename E into PL end.
  eapply direct_single; [exact N | exact L | | exact PL].
  exists r. split; [exact I |]. exists hs, algv, a. auto.
Qed.

(* ================= one recipient, ANY algorithm, ANY serialization (unified statement) ============= *)
Section Single.
Variable O : oracles.
Hypothesis C : contracts O.
Variable g : registry.
Hypothesis CH : forall hs, o_check_header O (PDict hs) true = Ok tt.
Hypothesis BT : forall k iv a m c t, o_gcm_enc O k iv a m = Ok (c, t) -> bytes_ok t = true.

Lemma compact_headers_total prot unprot : exists hs, headers Compact prot unprot PNone = Ok hs.
Proof. unfold headers. simpl. eauto. Qed.

Theorem single_rt o d x r :
  e_recips o = [r] -> perform_encrypt O g o d = Ok x ->
  wf (e_prot o) -> hdr_wf (e_unprot o) -> (e_ser o = Compact -> r_header r = PNone) ->
  recip_ok O r (draw_of (d_rec d)) ->
  (forall encv e, hitem (e_prot o) "enc" = Ok encv -> get_enc g encv = Ok e ->
     lenN (d_civ d) * 8 = ee_iv_size e /\ lenN (d_cek d) * 8 = ee_cek_size e) ->
  perform_decrypt O g (obj_of o x) = Ok (e_plain o).
Proof.
  intros R H Wp Wu Hc RO SZ.
  destruct (perform_encrypt_single_inv O g o d x r R H) as [encv [e [hs [algv [a [He [Ge [Hh [Hck [Ha [Ga K]]]]]]]]]]].
  pose proof RO as [Wh PRIV IMP SKT BIV BS].
  assert (DET : forall hs' algv' a', headers (e_ser o) (e_prot o) (e_unprot o) (r_header r) = Ok hs' ->
                hitem hs' "alg" = Ok algv' -> get_alg g algv' = Ok a' -> a' = a).
  { intros hs' algv' a' X1 X2 X3. rewrite Hh in X1. inversion X1; subst. rewrite Ha in X2. inversion X2; subst.
    rewrite Ga in X3. inversion X3; reflexivity. }
  assert (SZI : forall encv e, hitem (e_prot o) "enc" = Ok encv -> get_enc g encv = Ok e ->
                lenN (d_civ d) * 8 = ee_iv_size e) by (intros ev ee X1 X2; destruct (SZ ev ee X1 X2); assumption).
  pose proof (get_alg_fam g algv a Ga) as FO. unfold fam_ok in FO.
  destruct (ea_direct a) eqn:D; destruct (is_agreement a) eqn:AG.
  - (* direct key agreement *)
    eapply (single_rt_ecdh_direct O C g o d x r); eauto.
    intros hs' algv' a' X1 X2 X3. rewrite (DET hs' algv' a' X1 X2 X3). auto.
  - (* direct encryption *)
    eapply (single_rt_dir O C g o d x r); eauto.
    intros hs' algv' a' X1 X2 X3. rewrite (DET hs' algv' a' X1 X2 X3). auto.
  - (* key agreement with key wrapping *)
    eapply (single_rt_ecdh_kw O C g o d x r); eauto.
    intros hs' algv' a' X1 X2 X3. rewrite (DET hs' algv' a' X1 X2 X3). auto.
  - simpl in FO.
    destruct (K eq_refl eq_refl) as [prot2 [r2 [ek [EC [XP [XR XC]]]]]].
    (* merged headers of the final state exist *)
    assert (HX : exists r' hs', x_recips x = [r'] /\ headers (e_ser o) (x_prot x) (e_unprot o) (r_header r') = Ok hs').
    { exists (set_ek r2 ek). change (r_header (set_ek r2 ek)) with (r_header r2).
      destruct (e_ser o) eqn:S.
      - (* compact: the per-recipient header stays None *)
        assert (RH : r_header r2 = PNone).
        { clear - EC Hc S. unfold encrypt_cek in EC.
          assert (AHN : forall p rr k v p' rr', r_header rr = PNone -> add_header Compact p rr k v = Ok (p', rr') -> r_header rr' = PNone)
            by (intros p rr k v p' rr' E A; unfold add_header in A; inversion A; subst; exact E).
          pose proof (Hc eq_refl) as R0.
          destruct (fam_is (ea_family a) "RSA").
          { inv_bind EC. inv_bind EC.
            match type of EC with (if ?b then _ else _) = _ => destruct b; [discriminate |] end.
            inv_bind EC. inversion EC; subst. exact R0. }
          destruct (fam_is (ea_family a) "AESKW"). { inv_bind EC. inv_bind EC. inversion EC; subst. exact R0. }
          destruct (fam_is (ea_family a) "AESGCMKW").
          { inv_bind EC. inv_bind EC. inv_bind EC. inv_bind EC. inv_bind EC.
            match goal with E : add_header _ _ _ _ _ = Ok ?pr |- _ => is_var pr; destruct pr end.
            match goal with E : add_header _ _ _ _ _ = Ok ?pr |- _ => is_var pr; destruct pr end.
            inversion EC; subst. cbn [fst snd] in *.
            match goal with E1 : add_header _ _ r _ _ = Ok (_, ?ra), E2 : add_header _ _ ?ra _ _ = Ok (_, ?rb) |- _ =>
              exact (AHN _ _ _ _ _ _ (AHN _ _ _ _ _ _ R0 E1) E2) end. }
          destruct (fam_is (ea_family a) "PBES2"); [| discriminate].
          inv_bind EC.
          match goal with Hx : headers _ _ _ _ = Ok ?h |- _ => destruct (dmem h (s_ "p2s")); destruct (dmem h (s_ "p2c")) end;
            cbn [negb] in EC.
          - inv_bind EC. match goal with E : _ = Ok ?y |- _ => is_var y; destruct y as [[p1 r1] p2sv] end.
            match goal with E : bind (to_bytes_pv _) _ = Ok _ |- _ => inv_bind E; inv_bind E; inversion E; subst p1 r1 p2sv end.
            cbn [bind] in EC. cbv beta iota zeta in EC.
            inv_bind EC. inv_bind EC. inv_bind EC. inversion EC; subst. exact R0.
          - inv_bind EC. match goal with E : _ = Ok ?y |- _ => is_var y; destruct y as [[p1 r1] p2sv] end.
            match goal with E : bind (to_bytes_pv _) _ = Ok _ |- _ => inv_bind E; inv_bind E; inversion E; subst p1 r1 p2sv end.
            inv_bind EC. match goal with E : _ = Ok ?y |- _ => is_var y; destruct y as [[pb rb] pc] end.
            match goal with E : bind (add_header _ _ _ _ _) _ = Ok _ |- _ => apply bind_ok in E; destruct E as [prx [AHx Ex]]; inversion Ex; subst; clear Ex end.
            cbv beta iota zeta in EC. inv_bind EC. inv_bind EC. inv_bind EC. inversion EC; subst.
            exact (AHN _ _ _ _ _ _ R0 AHx).
          - inv_bind EC. match goal with E : _ = Ok ?y |- _ => is_var y; destruct y as [[p1 r1] p2sv] end.
            match goal with E : bind (add_header _ _ _ _ _) _ = Ok _ |- _ => apply bind_ok in E; destruct E as [prx [AHx Ex]]; inversion Ex; subst; clear Ex end.
            cbn [bind] in EC. cbv beta iota zeta in EC.
            inv_bind EC. inv_bind EC. inv_bind EC. inversion EC; subst.
            exact (AHN _ _ _ _ _ _ R0 AHx).
          - inv_bind EC. match goal with E : _ = Ok ?y |- _ => is_var y; destruct y as [[p1 r1] p2sv] end.
            match goal with E : bind (add_header _ _ _ _ _) _ = Ok _ |- _ => apply bind_ok in E; destruct E as [prx [AHx Ex]]; inversion Ex; subst; clear Ex end.
            inv_bind EC. match goal with E : _ = Ok ?y |- _ => is_var y; destruct y as [[pb rb] pc] end.
            match goal with E : bind (add_header _ _ _ _ _) _ = Ok (pb, rb, pc) |- _ => apply bind_ok in E; destruct E as [pry [AHy Ey]]; inversion Ey; subst; clear Ey end.
            cbv beta iota zeta in EC. inv_bind EC. inv_bind EC. inv_bind EC. inversion EC; subst.
            exact (AHN _ _ _ _ _ _ (AHN _ _ _ _ _ _ R0 AHx) AHy). }
        rewrite RH. destruct (compact_headers_total (x_prot x) (e_unprot o)) as [hs' X]. exists hs'. auto.
      - assert (N : Flat <> Compact) by discriminate.
        pose proof (encrypt_cek_json_prot O a Flat (e_prot o) (e_unprot o) r _ _ prot2 r2 ek N EC) as PP.
        rewrite XP, PP.
        destruct (encrypt_cek_hdr O a Flat (e_prot o) (e_unprot o) r _ _ prot2 r2 ek N EC) as [E | [dd E]]; rewrite E.
        + eauto.
        + destruct (headers_total Flat (e_prot o) (e_unprot o) _ hs dd Hh) as [hs' X]. eauto.
      - assert (N : General <> Compact) by discriminate.
        pose proof (encrypt_cek_json_prot O a General (e_prot o) (e_unprot o) r _ _ prot2 r2 ek N EC) as PP.
        rewrite XP, PP.
        destruct (encrypt_cek_hdr O a General (e_prot o) (e_unprot o) r _ _ prot2 r2 ek N EC) as [E | [dd E]]; rewrite E.
        + eauto.
        + destruct (headers_total General (e_prot o) (e_unprot o) _ hs dd Hh) as [hs' X]. eauto. }
    destruct (fam_is (ea_family a) "RSA") eqn:F0.
    { eapply (single_rt_kw_rsa O C g o d x r); eauto.
      intros hs' algv' a' X1 X2 X3. rewrite (DET hs' algv' a' X1 X2 X3). auto. }
    destruct (fam_is (ea_family a) "AESKW") eqn:F1.
    { eapply (single_rt_kw_rsa O C g o d x r); eauto.
      intros hs' algv' a' X1 X2 X3. rewrite (DET hs' algv' a' X1 X2 X3). auto. }
    destruct (fam_is (ea_family a) "AESGCMKW") eqn:F2.
    { eapply (single_rt_gcmkw O C g o d x r); eauto.
      - intros hs' algv' a' X1 X2 X3. rewrite (DET hs' algv' a' X1 X2 X3). auto.
      - unfold draw_of in BIV. destruct (d_rec d); [reflexivity | exact BIV]. }
    simpl in FO.
    eapply (single_rt_pbes2 O C g o d x r); eauto;
      try (intros hs' algv' a' X1 X2 X3; rewrite (DET hs' algv' a' X1 X2 X3); repeat split; assumption);
      try (unfold draw_of in BS; destruct (d_rec d); [reflexivity | exact BS]).
Qed.

End Single.

(* ================= the three serializations ================= *)
Section Serializations.
Variable O : oracles.
Hypothesis C : contracts O.
Variable g : registry.
Hypothesis CH : forall hs, o_check_header O (PDict hs) true = Ok tt.
Hypothesis BT : forall k iv a m c t, o_gcm_enc O k iv a m = Ok (c, t) -> bytes_ok t = true.

Theorem compact_rt o d x r :
  e_ser o = Compact -> e_recips o = [r] -> r_header r = PNone ->
  perform_encrypt O g o d = Ok x ->
  wf (e_prot o) -> hdr_wf (e_unprot o) -> recip_ok O r (draw_of (d_rec d)) ->
  (forall encv e, hitem (e_prot o) "enc" = Ok encv -> get_enc g encv = Ok e ->
     lenN (d_civ d) * 8 = ee_iv_size e /\ lenN (d_cek d) * 8 = ee_cek_size e) ->
  perform_decrypt O g (obj_of o x) = Ok (e_plain o) /\
  dec_aad O (obj_of o x) = Ok (x_b64prot x) /\ j_prot (obj_of o x) = x_prot x.
Proof.
  intros S R RH H Wp Wu RO SZ. split.
  - eapply (single_rt O C g CH BT o d x r); eauto.
  - split; [| reflexivity]. rewrite (aad_enc_eq_dec O g o d x H).
    apply perform_encrypt_inv in H. destruct H as [? [? [? [_ [_ [_ [_ [A _]]]]]]]]. rewrite A, S. reflexivity.
Qed.

Theorem flat_rt o d x r :
  e_ser o = Flat -> e_recips o = [r] ->
  perform_encrypt O g o d = Ok x ->
  wf (e_prot o) -> hdr_wf (e_unprot o) -> recip_ok O r (draw_of (d_rec d)) ->
  (forall encv e, hitem (e_prot o) "enc" = Ok encv -> get_enc g encv = Ok e ->
     lenN (d_civ d) * 8 = ee_iv_size e /\ lenN (d_cek d) * 8 = ee_cek_size e) ->
  perform_decrypt O g (obj_of o x) = Ok (e_plain o) /\
  j_unprot (obj_of o x) = e_unprot o /\ j_aad (obj_of o x) = e_aad o /\ j_prot (obj_of o x) = e_prot o.
Proof.
  intros S R H Wp Wu RO SZ. split.
  - eapply (single_rt O C g CH BT o d x r); eauto. intro E. rewrite S in E. discriminate.
  - split; [reflexivity |]. split; [reflexivity |].
    (* the protected header is not touched in a JSON serialization *)
    assert (N : e_ser o <> Compact) by (rewrite S; discriminate).
    unfold obj_of; simpl.
    unfold perform_encrypt in H. inv_bind H. inv_bind H. inv_bind H.
    match goal with y : (dict * bytes * list (recip * option jwe_alg_row))%type |- _ => destruct y as [[prot cek] acc] end.
    inv_bind H. inv_bind H. inv_bind H. inv_bind H. inversion H; subst; simpl.
    match goal with E : pre_loop _ _ _ _ _ _ _ _ _ _ _ _ = Ok _ |- _ => rename E into PL end.
    rewrite R in PL. simpl in PL.
    destruct (prepare_recipient_algorithm O g (e_ser o) (e_prot o) (e_unprot o) r) as [[[a p1] r1]|] eqn:P; [| discriminate].
    destruct (prepare_json_inv O g _ _ _ _ _ _ _ N P) as [P1 _]. subst p1.
    cbn [bind] in PL. cbv beta iota zeta in PL.
    destruct (ea_direct a).
    + simpl in PL. inv_bind PL. inversion PL; subst. reflexivity.
    + destruct (is_agreement a).
      * inversion PL; subst. reflexivity.
      * inv_bind PL. match goal with E : encrypt_cek _ _ _ _ _ _ _ _ = Ok ?y |- _ => destruct y as [[p2 r2] ek];
          pose proof (encrypt_cek_json_prot O a _ _ _ _ _ _ _ _ _ N E) as PP end.
        cbv beta iota zeta in PL. inversion PL; subst. reflexivity.
Qed.

(* general JSON, n >= 2 recipients: that no recipient names a direct-mode algorithm follows from success *)
Theorem general_rt_n o d x :
  e_ser o <> Compact -> (1 < length (e_recips o))%nat ->
  wf (e_prot o) -> hdr_wf (e_unprot o) -> oks O (e_recips o) (d_rec d) ->
  (forall encv e, hitem (e_prot o) "enc" = Ok encv -> get_enc g encv = Ok e ->
     lenN (d_civ d) * 8 = ee_iv_size e /\ lenN (d_cek d) * 8 = ee_cek_size e /\ ee_cek_size e <> 0) ->
  perform_encrypt O g o d = Ok x ->
  perform_decrypt O g (obj_of o x) = Ok (e_plain o) /\
  length (x_recips x) = length (e_recips o) /\
  (forall r', In r' (x_recips x) -> exists e, yields O g e (obj_of o x) r' (x_cek x)).
Proof.
  intros N L Wp Wu OK SZ H.
  pose proof (nodirect_of_ok O g o d x N L H) as ND.
  assert (RN : e_recips o <> []) by (destruct (e_recips o); [simpl in L; lia | discriminate]).
  destruct (general_rt O C g CH BT o d x N RN ND Wp Wu OK SZ H) as [RT Y].
  split; [exact RT |]. split; [| exact Y].
  assert (DN : d_cek d <> []).
  { pose proof (perform_encrypt_inv O g o d x H) as [encv [e [m [He [Ge _]]]]].
    destruct (SZ encv e He Ge) as [_ [Lc NZ]]. intro E. rewrite E in Lc. simpl in Lc. congruence. }
  destruct (perform_encrypt_multi_inv O g o d x N DN RN ND H) as [_ [_ [its [PR [e [encv [_ [_ PO]]]]]]]].
  assert (L1 : length its = length (e_recips o)).
  { clear - PR. induction PR; simpl; [reflexivity | f_equal; assumption]. }
  assert (L2 : length its = length (x_recips x)).
  { clear - PO. induction PO; simpl; [reflexivity | f_equal; assumption]. }
  lia.
Qed.

End Serializations.

(* ================= RSA keys below the size of the table row are refused at encryption time ========= *)
Lemma rsa_small_key_refused O a s prot unprot r d cek bits :
  fam_is (ea_family a) "RSA" = true -> check_key_type a (r_key r) = Ok tt ->
  o_rsa_bits O (k_id (r_key r)) = Ok bits -> bits < key_size_of a ->
  encrypt_cek O a s prot unprot r d cek = Err (EJose InvalidKeyLengthError).
Proof.
  intros F CK B L. unfold encrypt_cek. rewrite F, CK. cbn [bind]. rewrite B. cbn [bind].
  assert (X : (bits <? key_size_of a) = true) by (apply N.ltb_lt; exact L). rewrite X. reflexivity.
Qed.
