(* C01Proofs.v — JWS verification returns only authentically signed content:
   inversion of every accepting path of the Impl model (model/Jws.v). *)
From Coq Require Import Lia ZifyBool.
From Model Require Import Jws.
From Gen Require Import Tables.
From Proofs Require Import B64Proofs IntCodecProofs JwsProofs.
Open Scope N_scope.

Section C01.
  Variable json_loads : bytes -> res pv.
  Variable mac : string -> N -> bytes -> res bytes.
  Variable pk_verify : jws_alg_row -> N -> bytes -> bytes -> res bool.
  Variable ec_verify : jws_alg_row -> N -> bytes -> Z -> Z -> res bool.

  Notation averify := (alg_verify mac pk_verify ec_verify).
  Notation deser_compact := (deserialize_compact json_loads mac pk_verify ec_verify).
  Notation deser_compact_rg := (deserialize_compact_rg json_loads mac pk_verify ec_verify).
  Notation deser_json := (deserialize_json json_loads mac pk_verify ec_verify).
  Notation deser_json_rg := (deserialize_json_rg json_loads mac pk_verify ec_verify).
  Notation deser_compact97 := (deserialize_compact97 json_loads mac pk_verify ec_verify).
  Notation deser_json97 := (deserialize_json97 json_loads mac pk_verify ec_verify).
  Notation vsig := (verify_signature mac pk_verify ec_verify).
  Notation sig2member := (signature_to_member json_loads).

  (* "this signature verified": under the algorithm named in the header, the
     key resolved for that header, a key type that suits the algorithm, over
     exactly [msg] *)
  Definition verified (rg : registry) (src : keysrc) (headers : pv) (msg sseg : bytes) : Prop :=
    exists algv r k sig,
      check_header rg headers = Ok tt /\
      py_getitem_str headers s_alg = Ok algv /\ get_alg rg algv = Ok r /\
      guess_key src headers = Ok k /\ check_use k = Ok tt /\
      b64d sseg = Ok sig /\ averify r k msg sig = Ok true.

  Definition key_suits (rg : registry) (src : keysrc) (headers : pv) : Prop :=
    exists algv r k, py_getitem_str headers s_alg = Ok algv /\ get_alg rg algv = Ok r /\
      guess_key src headers = Ok k /\ k_kty k = ja_key_type r.

  Lemma check_key_type_ok r k u : check_key_type r k = Ok u -> k_kty k = ja_key_type r.
  Proof.
    unfold check_key_type. destruct (String.eqb (k_kty k) (ja_key_type r)) eqn:E; [|discriminate].
    intros _. apply String.eqb_eq. exact E.
  Qed.

  Lemma unit_eq (u : unit) : u = tt. Proof. destruct u; reflexivity. Qed.

  (* ---------------- compact ---------------- *)
  Lemma decode_header_ok h v :
    decode_header json_loads h = Ok v ->
    (exists raw, b64d h = Ok raw /\ json_loads raw = Ok v) /\
    exists d, v = PDict d /\ dmem d s_alg = true.
  Proof.
    unfold decode_header, json_b64decode. intro H.
    destruct (b64d h) as [raw|e] eqn:B; simpl in H.
    - destruct (json_loads raw) as [v'|e] eqn:J; simpl in H.
      + destruct v' as [| | | | | | |d]; try discriminate.
        destruct (dmem d s_alg) eqn:P; [|discriminate].
        inversion H; subst. split; [exists raw; auto|exists d; auto].
      + destruct e; discriminate.
    - destruct e; discriminate.
  Qed.

  Lemma extract_compact_ok tok o :
    extract_compact json_loads tok = Ok o ->
    tok = co_hseg o ++ 46 :: co_pseg o ++ 46 :: co_sseg o /\
    no_dot (co_hseg o) = true /\ no_dot (co_pseg o) = true /\ no_dot (co_sseg o) = true /\
    (exists raw, b64d (co_hseg o) = Ok raw /\ json_loads raw = Ok (co_protected o)) /\
    b64d (co_pseg o) = Ok (co_payload o).
  Proof.
    unfold extract_compact. intro H.
    destruct (split_dot tok) as [|h [|p [|s [|]]]] eqn:S; try discriminate.
    apply split3_inv in S. destruct S as (T & A & B & C).
    binv. destruct (b64d p) as [pl|] eqn:P; [|discriminate]. binv. simpl.
    apply decode_header_ok in E. destruct E as [E _]. auto 10.
  Qed.

  Theorem compact_sound_rg tok src rg o :
    deser_compact_rg tok src rg = Ok o ->
    tok = co_hseg o ++ 46 :: co_pseg o ++ 46 :: co_sseg o /\
    no_dot (co_hseg o) = true /\ no_dot (co_pseg o) = true /\ no_dot (co_sseg o) = true /\
    (exists raw, b64d (co_hseg o) = Ok raw /\ json_loads raw = Ok (co_protected o)) /\
    b64d (co_pseg o) = Ok (co_payload o) /\
    verified rg src (co_protected o) (co_hseg o ++ 46 :: co_pseg o) (co_sseg o) /\
    key_suits rg src (co_protected o).
  Proof.
    unfold deserialize_compact_rg. intro H. binv.
    apply extract_compact_ok in E. destruct E as (T & A & B & C & D & P).
    repeat (split; [assumption|]).
    unfold validate_compact in E0. binv. unfold verify_compact in E0. binv.
    split.
    - unfold verified. do 4 eexists. esplits.
    - unfold key_suits. do 3 eexists. esplits. eapply check_key_type_ok; eassumption.
  Qed.

  (* ---------------- JSON ---------------- *)
  Definition prot_seg (sg : jsig) : bytes :=
    match js_protected sg with Some p => p | None => [] end.

  Lemma member_headers_spec m headers :
    member_headers m = Ok headers ->
    exists a, headers = dupdate a (match m_header m with Some h => h | None => [] end) /\
      ((a = [] /\ match m_protected m with Some v => py_truth v = false | None => True end) \/
       (m_protected m = Some (PDict a) /\ py_truth (PDict a) = true)).
  Proof.
    unfold member_headers. intro H.
    assert (G : forall a : list (str * pv),
               match m_header m with
               | Some h => match h with [] => a | _ => dupdate a h end
               | None => a
               end = dupdate a (match m_header m with Some h => h | None => [] end)).
    { intro a. destruct (m_header m) as [[|]|]; reflexivity. }
    destruct (m_protected m) as [v|].
    - destruct (py_truth v) eqn:TV.
      + destruct v; try discriminate. cbn [bind] in H. inversion H.
        eexists. split; [apply G|]. right. auto.
      + cbn [bind] in H. inversion H. eexists. split; [apply G|]. left. auto.
    - cbn [bind] in H. inversion H. eexists. split; [apply G|]. left. auto.
  Qed.

  Lemma vsig_true m sg pseg rg src :
    vsig m sg pseg rg src = Ok true ->
    exists headers sseg, member_headers m = Ok headers /\ js_signature sg = Some sseg /\
      verified rg src (PDict headers) (prot_seg sg ++ 46 :: pseg) sseg /\
      key_suits rg src (PDict headers).
  Proof.
    unfold verify_signature. intro H. binv.
    match goal with X : of_opt _ _ = Ok _ |- _ => apply of_opt_ok in X end.
    do 2 eexists. split; [eassumption|]. split; [eassumption|]. split.
    - unfold verified, prot_seg. do 4 eexists. esplits.
    - unfold key_suits. do 3 eexists. esplits. eapply check_key_type_ok; eassumption.
  Qed.

  Lemma sig2member_ok sg m :
    sig2member sg = Ok m ->
    m_header m = js_header sg /\
    match js_protected sg with
    | None => m_protected m = None
    | Some seg => exists raw v, b64d seg = Ok raw /\ json_loads raw = Ok v /\ m_protected m = Some v
    end.
  Proof.
    unfold signature_to_member. intro H.
    destruct (js_protected sg) as [seg|] eqn:JP.
    - bstep H as pr P. inversion H; subst m. simpl. split; [reflexivity|].
      destruct (all_ascii seg); [|discriminate]. bstep P as v J.
      destruct (is_dict v); [|discriminate]. inversion P; subst pr.
      unfold json_b64decode in J. bstep J as raw R. eauto 10.
    - binv. simpl. auto.
  Qed.

  Lemma decode_payload_ok p pseg x :
    decode_payload p = Ok (pseg, x) -> p = Some pseg /\ b64d pseg = Ok x.
  Proof.
    unfold decode_payload. intro H. binv. apply of_opt_ok in E.
    destruct (b64d a) eqn:B; [|discriminate]. inversion H; subst. auto.
  Qed.

  Lemma extract_flat_ok p sg o :
    extract_flattened_json json_loads p sg = Ok o ->
    exists pseg m sseg,
      p = Some pseg /\ b64d pseg = Ok (jo_payload o) /\ jo_pseg o = pseg /\
      jo_members o = [m] /\ jo_sigs o = [sg] /\ sig2member sg = Ok m /\
      js_signature sg = Some sseg.
  Proof.
    unfold extract_flattened_json. intro H.
    bstep H as pp DP. bstep H as sseg SS. bstep H as m SM. inversion H; subst; simpl.
    destruct pp as [pseg x]. apply decode_payload_ok in DP. destruct DP as [-> B].
    apply of_opt_ok in SS. exists pseg, m, sseg. simpl. auto 10.
  Qed.

  Theorem flat_sound_rg p sg src rg o :
    deser_json_rg (JFlat p sg) src rg = Ok o ->
    exists pseg sseg m headers,
      p = Some pseg /\ b64d pseg = Ok (jo_payload o) /\ jo_pseg o = pseg /\
      jo_members o = [m] /\ jo_sigs o = [sg] /\ sig2member sg = Ok m /\
      member_headers m = Ok headers /\ js_signature sg = Some sseg /\
      verified rg src (PDict headers) (prot_seg sg ++ 46 :: pseg) sseg /\
      key_suits rg src (PDict headers).
  Proof.
    unfold deserialize_json_rg. intro H.
    bstep H as o' EX. bstep H as b V. destruct b; [|discriminate]. inversion H; subst o'.
    destruct (extract_flat_ok _ _ _ EX) as (pseg & m & sseg0 & P & B & PS & MS & SG & SM & SS0).
    unfold verify_flattened_json in V. rewrite MS, SG in V.
    apply vsig_true in V. destruct V as (headers & sseg & MH & SS & V & KS).
    rewrite PS in V. exists pseg, sseg, m, headers. auto 12.
  Qed.

  Definition sig_verified rg src pseg (m : member) (sg : jsig) : Prop :=
    exists headers sseg, member_headers m = Ok headers /\ js_signature sg = Some sseg /\
      verified rg src (PDict headers) (prot_seg sg ++ 46 :: pseg) sseg /\
      key_suits rg src (PDict headers).

  Lemma verify_each_all rg src pseg : forall sgs ms,
    map_res sig2member sgs = Ok ms ->
    verify_each mac pk_verify ec_verify ms sgs pseg rg src = Ok true ->
    Forall2 (sig_verified rg src pseg) ms sgs.
  Proof.
    induction sgs as [|sg sgs IH]; intros ms M V; simpl in M.
    - inversion M; subst. constructor.
    - bstep M as m SM. bstep M as t MT. inversion M; subst ms. simpl in V.
      bstep V as b VS. destruct b; [|discriminate]. constructor.
      + apply vsig_true in VS. exact VS.
      + apply IH; assumption.
  Qed.

  Theorem general_sound_rg p sgs src rg o :
    deser_json_rg (JGen p sgs) src rg = Ok o ->
    sgs <> [] /\
    exists pseg,
      p = Some pseg /\ b64d pseg = Ok (jo_payload o) /\ jo_sigs o = sgs /\
      map_res sig2member sgs = Ok (jo_members o) /\
      Forall2 (sig_verified rg src pseg) (jo_members o) sgs.
  Proof.
    unfold deserialize_json_rg. intro H.
    bstep H as o' EX. bstep H as b V. destruct b; [|discriminate]. inversion H; subst o'.
    unfold extract_general_json in EX. bstep EX as pp DP. bstep EX as ms MS.
    inversion EX; subst o. simpl in *.
    destruct pp as [pseg x]. apply decode_payload_ok in DP. destruct DP as [-> B].
    unfold verify_general_json in V. simpl in V.
    destruct sgs as [|sg sgs]; [discriminate|].
    split; [discriminate|].
    exists pseg. simpl. repeat split; try assumption.
    apply verify_each_all; assumption.
  Qed.

  (* ---------------- the algorithm wrappers ---------------- *)
  Lemma fam_of_fam r f : ja_family r = f ->
    fam_of r = (if String.eqb f "none" then FNone else if String.eqb f "HMAC" then FHmac
      else if String.eqb f "RSA" then FRsa else if String.eqb f "PSS" then FPss
      else if String.eqb f "EC" then FEc else if String.eqb f "EdDSA" then FEd else FUnknown).
  Proof. intros <-. reflexivity. Qed.
  Theorem none_never_verifies r k msg sig :
    ja_family r = "none"%string -> averify r k msg sig = Ok false.
  Proof. intro F. unfold alg_verify, fam_of. rewrite F. reflexivity. Qed.

  (* the row that get_alg returns for "none" (when allowed at all) is of that family *)
  Lemma get_alg_none rg r : get_alg rg (PStr (asc "none")) = Ok r -> ja_family r = "none"%string.
  Proof.
    unfold get_alg. destruct (find_alg (asc "none")) as [r'|] eqn:F; [|discriminate].
    vm_compute in F. inversion F; subst. intro H. binv. reflexivity.
  Qed.

  Theorem verified_not_none rg src headers msg sseg :
    verified rg src headers msg sseg -> py_getitem_str headers s_alg <> Ok (PStr (asc "none")).
  Proof.
    intros (algv & r & k & sig & _ & G & A & _ & _ & _ & V) N.
    rewrite N in G. inversion G; subst. apply get_alg_none in A.
    rewrite (none_never_verifies r k msg sig A) in V. discriminate.
  Qed.

  (* an ECDSA signature whose length is not 2L is refused whatever the primitive says *)
  Theorem ec_length r k msg sig :
    ja_family r = "EC"%string -> length sig <> (2 * ec_len k)%nat ->
    forall ecv', alg_verify mac pk_verify ecv' r k msg sig <> Ok true /\
                 alg_verify mac pk_verify ecv' r k msg sig = averify r k msg sig.
  Proof.
    intros F L ecv'. unfold alg_verify. rewrite (fam_of_fam r _ F). cbv beta iota.
    change (if String.eqb "EC" "none" then FNone else _) with FEc. cbv beta iota.
    destruct (mistyped FEc k); [split; [discriminate|reflexivity]|].
    destruct (negb (String.eqb (k_crv k) (ja_curve r))); [split; [discriminate|reflexivity]|].
    destruct (Nat.eqb (length sig) (2 * ec_len k)) eqn:E.
    - apply Nat.eqb_eq in E. contradiction.
    - cbn [negb]. split; [discriminate|reflexivity].
  Qed.

  (* accepted ECDSA signatures are the fixed-width R||S handed to the primitive *)
  Theorem ec_accept_inv r k msg sig :
    ja_family r = "EC"%string -> averify r k msg sig = Ok true ->
    k_crv k = ja_curve r /\ length sig = (2 * ec_len k)%nat /\
    exists rr ss, decode_int (firstn (ec_len k) sig) = Ok rr /\
                  decode_int (skipn (ec_len k) sig) = Ok ss /\
                  ec_verify r (k_id k) msg rr ss = Ok true.
  Proof.
    intros F. unfold alg_verify. rewrite (fam_of_fam r _ F).
    change (if String.eqb "EC" "none" then FNone else _) with FEc. cbv beta iota.
    destruct (mistyped FEc k); [discriminate|].
    destruct (String.eqb (k_crv k) (ja_curve r)) eqn:C; cbn [negb]; [|discriminate].
    destruct (Nat.eqb (length sig) (2 * ec_len k)) eqn:E; cbn [negb]; [|discriminate].
    intro H. bstep H as rr R. bstep H as ss S. bstep H as u CK.
    apply String.eqb_eq in C. apply Nat.eqb_eq in E. eauto 10.
  Qed.

  (* the curve gate: an ES* algorithm never accepts with a key on another curve *)
  Theorem ec_curve_gate r k msg sig :
    ja_family r = "EC"%string -> averify r k msg sig = Ok true -> k_crv k = ja_curve r.
  Proof. intros F H. exact (proj1 (ec_accept_inv r k msg sig F H)). Qed.

  (* RSASSA-PSS / PKCS1-v1_5 / EdDSA: the verdict is the primitive's, asked with the ROW of the
     algorithm table (hash, MGF hash and salt length are those of the row, see pss_rows_fixed) *)
  Theorem pk_accept_inv r k msg sig :
    (fam_of r = FPss \/ fam_of r = FRsa \/ fam_of r = FEd) ->
    averify r k msg sig = Ok true -> pk_verify r (k_id k) msg sig = Ok true.
  Proof.
    unfold alg_verify. intros [F|[F|F]]; rewrite F; intro H; bstep H as u CK.
    - destruct (mistyped FRsa k); [discriminate|exact H].
    - destruct (mistyped FRsa k); [discriminate|exact H].
    - destruct (mistyped FEd k); [discriminate|]. destruct (ed_curve_ok k); [exact H|discriminate].
  Qed.

  Theorem hmac_accept_inv r k msg sig :
    ja_family r = "HMAC"%string -> averify r k msg sig = Ok true ->
    mac (ja_hash r) (k_id k) msg = Ok sig.
  Proof.
    intros F. unfold alg_verify. rewrite (fam_of_fam r _ F).
    change (if String.eqb "HMAC" "none" then FNone else _) with FHmac. cbv beta iota. intro H.
    bstep H as u CK. destruct (mistyped FHmac k); [discriminate|].
    bstep H as m M. inversion H as [Q]. apply beqb_eq in Q. subst. assumption.
  Qed.

  (* ---------------- rfc7797 compact ---------------- *)
  Lemma hdr_unique tok h p s o v :
    tok = h ++ 46 :: p ++ 46 :: s -> no_dot h = true ->
    tok = co_hseg o ++ 46 :: co_pseg o ++ 46 :: co_sseg o -> no_dot (co_hseg o) = true ->
    decode_header json_loads h = Ok v ->
    (exists raw, b64d (co_hseg o) = Ok raw /\ json_loads raw = Ok (co_protected o)) ->
    co_protected o = v.
  Proof.
    intros T A T' A' DH (raw & R1 & R2).
    rewrite T in T'. apply seg_pair_injective in T'; try assumption. destruct T' as [HH _].
    rewrite <- HH in R1.
    apply decode_header_ok in DH. destruct DH as [(raw' & R1' & R2') _]. congruence.
  Qed.

  Theorem compact97_sound tok src payload algs o :
    deser_compact97 tok src payload algs = Ok o ->
    tok = co_hseg o ++ 46 :: co_pseg o ++ 46 :: co_sseg o /\
    no_dot (co_hseg o) = true /\
    (exists raw, b64d (co_hseg o) = Ok raw /\ json_loads raw = Ok (co_protected o)) /\
    ( (* the RFC 7515 formula *)
      (b64d (co_pseg o) = Ok (co_payload o) /\
       (py_in (PStr s_b64) (co_protected o) = Ok false \/
        py_getitem_str (co_protected o) s_b64 = Ok (PBool true)) /\
       exists rg, verified rg src (co_protected o) (co_hseg o ++ 46 :: co_pseg o) (co_sseg o))
      \/
      (* the unencoded formula: only with "b64" in the PROTECTED header, not true *)
      (py_in (PStr s_b64) (co_protected o) = Ok true /\
       py_getitem_str (co_protected o) s_b64 <> Ok (PBool true) /\
       co_payload o = (match payload with Some ((_ :: _) as x) => x | _ => co_pseg o end) /\
       verified (reg97 algs) src (co_protected o) (co_hseg o ++ 46 :: co_payload o) (co_sseg o)) ).
  Proof.
    unfold deserialize_compact97. intro H. bstep H as x E.
    unfold extract_compact97 in E.
    destruct (split_dot tok) as [|h [|p [|s [|]]]] eqn:S; try discriminate.
    pose proof (split3_inv _ _ _ _ S) as (T & A & B & C).
    bstep E as protected DH. bstep E as has HAS.
    destruct has; cbn [negb] in E.
    - bstep E as b GB.
      assert (X : (b = PBool true /\ x = X97True) \/
                  (b <> PBool true /\
                   x = X97Obj {| co_protected := protected;
                                 co_payload := match payload with Some ((_ :: _) as x) => x | _ => p end;
                                 co_hseg := h; co_pseg := p; co_sseg := s |})).
      { destruct b as [|[|]| | | | | |]; inversion E; subst;
          solve [left; auto | right; split; [discriminate|reflexivity]]. }
      destruct X as [[-> ->]|[NB ->]].
      + apply compact_sound_rg in H. destruct H as (T' & A' & B' & C' & D' & P' & V' & _).
        repeat (split; [assumption|]). left. split; [assumption|].
        rewrite (hdr_unique _ _ _ _ _ _ T A T' A' DH D') in *.
        split; [right; assumption|]. eexists; eassumption.
      + bstep H as u CH. bstep H as k GK. bstep H as u2 CU. bstep H as algv GA.
        bstep H as r GR. bstep H as u3 CKT. bstep H as sig BS. bstep H as okv AV.
        destruct okv; [|discriminate]. inversion H; subst o. cbn [co_protected co_payload co_hseg co_pseg co_sseg] in *.
        destruct u, u2.
        apply decode_header_ok in DH. destruct DH as [DH _].
        repeat (split; [assumption|]). right.
        split; [assumption|]. split; [intro Q; rewrite Q in GB; inversion GB; congruence|].
        split; [reflexivity|]. unfold verified. do 4 eexists. esplits.
    - inversion E; subst x.
      apply compact_sound_rg in H. destruct H as (T' & A' & B' & C' & D' & P' & V' & _).
      repeat (split; [assumption|]). left. split; [assumption|].
      rewrite (hdr_unique _ _ _ _ _ _ T A T' A' DH D') in *.
      split; [left; assumption|]. eexists; eassumption.
  Qed.

  (* the payload RETURNED is exactly the payload that was VERIFIED, for every payload
     argument: the signing input handed to alg_verify is built from co_payload o *)
  Theorem compact97_payload_is_verified tok src payload algs o :
    deser_compact97 tok src payload algs = Ok o ->
    exists rg enc,
      verified rg src (co_protected o) (co_hseg o ++ 46 :: enc) (co_sseg o) /\
      ( (* b64 = false: the returned octets themselves are what the signature covers *)
        (enc = co_payload o /\ py_getitem_str (co_protected o) s_b64 <> Ok (PBool true) /\
         py_in (PStr s_b64) (co_protected o) = Ok true)
        \/
        (* otherwise: their BASE64URL text, which is the received payload segment *)
        (enc = co_pseg o /\ b64d enc = Ok (co_payload o)) ).
  Proof.
    intro H. apply compact97_sound in H. destruct H as (_ & _ & _ & [(P & _ & (rg & V))|(HB & NB & _ & V)]).
    - exists rg, (co_pseg o). split; [exact V|]. right. auto.
    - exists (reg97 algs), (co_payload o). split; [exact V|]. left. auto.
  Qed.

  (* ---------------- rfc7797 JSON (fixed code) ---------------- *)
  Theorem json97_sound_fixed p sg src algs o :
    deser_json97 true (JFlat p sg) src algs = Ok o ->
    (* RFC 7515 formula: the payload returned is the decoding of the signed segment *)
    (exists pseg sseg m headers rg,
        p = Some pseg /\ b64d pseg = Ok (jo_payload o) /\ sig2member sg = Ok m /\
        member_headers m = Ok headers /\ js_signature sg = Some sseg /\
        verified rg src (PDict headers) (prot_seg sg ++ 46 :: pseg) sseg)
    \/
    (* unencoded formula *)
    (exists sseg m headers b,
        p = Some (jo_payload o) /\ sig2member sg = Ok m /\ member_headers m = Ok headers /\
        js_signature sg = Some sseg /\
        verified (reg97 algs) src (PDict headers) (prot_seg sg ++ 46 :: jo_payload o) sseg /\
        dget headers s_b64 = Some b /\ b <> PBool true /\
        (* ... honoured only from the protected header whenever there is one *)
        match js_protected sg with
        | Some seg => exists raw d, b64d seg = Ok raw /\ json_loads raw = Ok (PDict d) /\
                                    dget d s_b64 = Some b
        | None => True
        end).
  Proof.
    unfold deserialize_json97. intro H. bstep H as x EX.
    unfold extract_json97 in EX. bstep EX as m SM. bstep EX as u FX. bstep EX as headers MH.
    destruct (dmem headers s_b64) eqn:HB; cbn [negb] in EX.
    - (* b64 in the merged header *)
      bstep EX as payload PP. bstep EX as sseg0 SS0. inversion EX; subst x. clear EX.
      apply of_opt_ok in PP. apply of_opt_ok in SS0.
      cbn [jo_members jo_sigs jo_pseg jo_payload] in H.
      bstep H as headers' MH'. rewrite MH in MH'. inversion MH'; subst headers'. clear MH'.
      bstep H as b GB.
      assert (DG : dget headers s_b64 = Some b).
      { unfold py_getitem_str in GB. destruct (dget headers s_b64); inversion GB; reflexivity. }
      assert (X : (b = PBool true /\ deser_json_rg (JFlat p sg) src (reg97 algs) = Ok o) \/
                  (b <> PBool true /\
                   exists okv, vsig m sg payload (reg97 algs) src = Ok okv /\
                     (if okv then Ok {| jo_flat := true; jo_members := [m]; jo_payload := payload;
                                        jo_sigs := [sg]; jo_pseg := payload |}
                      else jerr BadSignatureError) = Ok o)).
      { destruct b as [|[|]| | | | | |];
          try (right; split; [discriminate|]; apply bind_ok in H; destruct H as (okv & V & H); eauto).
        left. auto. }
      destruct X as [[-> H']|[NB (okv & V & H')]].
      + left. apply flat_sound_rg in H'.
        destruct H' as (pseg & sseg & m' & headers' & P & B & _ & _ & _ & SM' & MH' & SS & V & _).
        exists pseg, sseg, m', headers', (reg97 algs). auto 10.
      + right. destruct okv; [|discriminate]. inversion H'; subst o. cbn [jo_payload].
        apply vsig_true in V. destruct V as (headers' & sseg & MH' & SS & V & _).
        rewrite MH in MH'. inversion MH'; subst headers'.
        exists sseg, m, headers, b. repeat (split; [assumption|]).
        destruct (js_protected sg) as [seg|] eqn:JP; [|exact I].
        cbn [andb] in FX. destruct (unprotected_b64 (js_header sg)) eqn:UB; [discriminate|].
        pose proof (sig2member_ok _ _ SM) as [MHd MP]. rewrite JP in MP.
        destruct MP as (raw & v & R1 & R2 & MP).
        destruct (member_headers_spec _ _ MH) as (a & HA & [[-> _]|[MP' _]]).
        * (* falsy protected header: the merged header is the unprotected one, which has no b64 *)
          exfalso. rewrite HA, MHd, dmem_dupdate in HB.
          unfold unprotected_b64 in UB. destruct (js_header sg); [rewrite UB in HB|]; discriminate.
        * rewrite MP in MP'. inversion MP'; subst v.
          exists raw, a. repeat (split; [assumption|]).
          rewrite HA, MHd in DG. rewrite dget_dupdate_absent in DG; [exact DG|].
          unfold unprotected_b64 in UB. destruct (js_header sg); [exact UB|reflexivity].
    - (* no b64 at all: plain RFC 7515 *)
      inversion EX; subst x. left. apply flat_sound_rg in H.
      destruct H as (pseg & sseg & m' & headers' & P & B & _ & _ & _ & SM' & MH' & SS & V & _).
      exists pseg, sseg, m', headers', (reg15 algs). auto 10.
  Qed.
End C01.

(* every PSS row of the table of /repo: MGF1 with the hash of the row and salt = its digest size *)
Definition digest_size (h : string) : string :=
  if String.eqb h "sha256" then "32" else if String.eqb h "sha384" then "48" else if String.eqb h "sha512" then "64" else "?".
Definition pss_row_fixed (r : jws_alg_row) : bool :=
  if String.eqb (ja_family r) "PSS"
  then String.eqb (ja_pad r) ("PSS:mgf=" ++ ja_hash r ++ ":salt=" ++ digest_size (ja_hash r))
       && (String.eqb (ja_hash r) "sha256" || String.eqb (ja_hash r) "sha384" || String.eqb (ja_hash r) "sha512")
  else true.
Lemma pss_rows_fixed : forallb pss_row_fixed jws_alg_table = true.
Proof. vm_compute. reflexivity. Qed.

(* ---------------- oct keys: the material is exactly the octets given ---------------- *)
Theorem oct_import_exact :
  (forall a, import_oct a = a) /\
  (forall a b, import_oct a = import_oct b -> a = b) /\
  (forall a, length (import_oct a) = length a).
Proof. repeat split; auto. Qed.

(* hence octet strings that differ (e.g. in a leading whitespace octet) are different HMAC keys:
   the MAC oracle is asked with different material *)
Theorem oct_import_distinct a b : a <> b -> import_oct a <> import_oct b.
Proof. unfold import_oct. auto. Qed.

(* ---------------- refutation for the code before fix01 ---------------- *)
(* A world in which the flattened JWS
     {"protected": b64("{alg:HS256}"), "payload": "aGVsbG8", "signature": b64(T)}
   is valid (T = MAC over "<protected>.aGVsbG8").  Adding the UNPROTECTED header
   {"b64": false, "crit": ["b64"]} makes the pre-fix model return the text
   "aGVsbG8" as payload; the fixed model refuses it. *)
Definition w_hdr : bytes := asc "{""alg"":""HS256""}".
Definition w_loads (b : bytes) : res pv :=
  if beqb b w_hdr then Ok (PDict [(s_alg, PStr (asc "HS256"))]) else Err EValue.
Definition w_tag : bytes := [1; 2; 3; 4].
Definition w_mac (h : string) (kid : N) (m : bytes) : res bytes :=
  if beqb m (b64e w_hdr ++ 46 :: asc "aGVsbG8") then Ok w_tag else Ok [0].
Definition w_pkv (r : jws_alg_row) (kid : N) (m s : bytes) : res bool := Err EOracleMiss.
Definition w_ecv (r : jws_alg_row) (kid : N) (m : bytes) (a b : Z) : res bool := Err EOracleMiss.
Definition w_key : key :=
  {| k_id := 1; k_kid := None; k_kty := "oct"; k_crv := ""; k_bits := 0; k_use := None;
     k_ops := None; k_alg := None; k_private := true |}.
Definition w_sig (h : option (list (str * pv))) : jsig :=
  {| js_protected := Some (b64e w_hdr); js_header := h; js_signature := Some (b64e w_tag) |}.
Definition w_unprot : list (str * pv) := [(s_b64, PBool false); (s_crit, PList [PStr s_b64])].

Lemma b64_unprotected_refuted_v0 :
  (* the original token is valid and carries the payload "hello" *)
  (exists o, deserialize_json97 w_loads w_mac w_pkv w_ecv false
               (JFlat (Some (asc "aGVsbG8")) (w_sig None)) (KOne w_key) None = Ok o /\
             jo_payload o = asc "hello") /\
  (* with the unprotected b64=false the never-signed octets "aGVsbG8" come back as verified *)
  (exists o, deserialize_json97 w_loads w_mac w_pkv w_ecv false
               (JFlat (Some (asc "aGVsbG8")) (w_sig (Some w_unprot))) (KOne w_key) None = Ok o /\
             jo_payload o = asc "aGVsbG8" /\
             json_b64decode w_loads (b64e w_hdr) = Ok (PDict [(s_alg, PStr (asc "HS256"))])) /\
  (* the fixed model refuses it *)
  deserialize_json97 w_loads w_mac w_pkv w_ecv true
    (JFlat (Some (asc "aGVsbG8")) (w_sig (Some w_unprot))) (KOne w_key) None = Err EValue.
Proof.
  split; [|split].
  - eexists. split; vm_compute; reflexivity.
  - eexists. split; [|split]; vm_compute; reflexivity.
  - vm_compute. reflexivity.
Qed.

(* residual of fix01 (kept because tests/jws/test_rfc7797.py demands it): with
   NO protected header at all the switch is still read from the unprotected one *)
Definition w_mac2 (h : string) (kid : N) (m : bytes) : res bytes :=
  if beqb m (46 :: asc "aGVsbG8") then Ok w_tag else Ok [0].
Definition w_sig2 (h : list (str * pv)) : jsig :=
  {| js_protected := None; js_header := Some h; js_signature := Some (b64e w_tag) |}.
Lemma b64_unprotected_residual_fixed :
  (exists o, deserialize_json97 w_loads w_mac2 w_pkv w_ecv true
               (JFlat (Some (asc "aGVsbG8")) (w_sig2 [(s_alg, PStr (asc "HS256"))])) (KOne w_key) None = Ok o /\
             jo_payload o = asc "hello") /\
  (exists o, deserialize_json97 w_loads w_mac2 w_pkv w_ecv true
               (JFlat (Some (asc "aGVsbG8")) (w_sig2 ((s_alg, PStr (asc "HS256")) :: w_unprot))) (KOne w_key) None = Ok o /\
             jo_payload o = asc "aGVsbG8").
Proof.
  split; eexists; (split; vm_compute; reflexivity).
Qed.

(* ---------------- tampering, under an ideal signature scheme ---------------- *)
Section Tamper.
  Variable json_loads : bytes -> res pv.
  Variable mac : string -> N -> bytes -> res bytes.
  Variable pk_verify : jws_alg_row -> N -> bytes -> bytes -> res bool.
  Variable ec_verify : jws_alg_row -> N -> bytes -> Z -> Z -> res bool.
  (* [Issued kid msg]: the holder of key [kid] produced a signature / MAC over [msg] *)
  Variable Issued : N -> bytes -> Prop.
  (* ideal scheme: nothing verifies that was not issued (unforgeability, as an explicit premise) *)
  Hypothesis Ideal : forall r k msg sig,
      alg_verify mac pk_verify ec_verify r k msg sig = Ok true -> Issued (k_id k) msg.
  (* the honest signer only signs JWS signing inputs of (header octets, payload) pairs it chose *)
  Variable Signed : N -> bytes -> bytes -> Prop.
  Hypothesis Honest : forall kid msg, Issued kid msg ->
      exists hdr pl, Signed kid hdr pl /\ bytes_ok hdr = true /\ bytes_ok pl = true /\
                     msg = b64e hdr ++ 46 :: b64e pl.

  Theorem signing_input_injective hdr1 pl1 hdr2 pl2 :
    bytes_ok hdr1 = true -> bytes_ok pl1 = true -> bytes_ok hdr2 = true -> bytes_ok pl2 = true ->
    b64e hdr1 ++ 46 :: b64e pl1 = b64e hdr2 ++ 46 :: b64e pl2 -> hdr1 = hdr2 /\ pl1 = pl2.
  Proof.
    intros A B C D E.
    apply seg_pair_injective in E; try (apply b64e_no_dot; assumption).
    destruct E as [E1 E2]. split; apply b64e_injective; assumption.
  Qed.

  (* received segments: equal signing input => equal segments => equal decoded octets *)
  Theorem received_segments_determined h p hdr pl x y :
    no_dot h = true -> bytes_ok hdr = true ->
    h ++ 46 :: p = b64e hdr ++ 46 :: b64e pl ->
    b64d h = Ok x -> b64d p = Ok y -> bytes_ok pl = true -> x = hdr /\ y = pl.
  Proof.
    intros A B E X Y C.
    apply seg_pair_injective in E; [|assumption|apply b64e_no_dot; assumption].
    destruct E as [-> ->]. rewrite b64_roundtrip in X, Y by assumption.
    inversion X; inversion Y; auto.
  Qed.

  Theorem tamper_compact tok src algs o :
    deserialize_compact json_loads mac pk_verify ec_verify tok src algs = Ok o ->
    exists k hdr,
      guess_key src (co_protected o) = Ok k /\
      Signed (k_id k) hdr (co_payload o) /\ json_loads hdr = Ok (co_protected o).
  Proof.
    intro H. apply compact_sound_rg in H.
    destruct H as (T & A & B & C & (raw & R1 & R2) & P & V & _).
    destruct V as (algv & r & k & sig & _ & _ & _ & G & _ & _ & V).
    apply Ideal in V. apply Honest in V. destruct V as (hdr & pl & S & Bh & Bp & M).
    destruct (received_segments_determined _ _ _ _ _ _ A Bh M R1 P Bp) as [-> ->].
    exists k, hdr. auto.
  Qed.

  Theorem tamper_json_member rg src pseg m sg payload :
    sig_verified mac pk_verify ec_verify rg src pseg m sg ->
    signature_to_member json_loads sg = Ok m ->
    b64d pseg = Ok payload -> no_dot (prot_seg sg) = true ->
    exists headers k hdr,
      member_headers m = Ok headers /\ guess_key src (PDict headers) = Ok k /\
      Signed (k_id k) hdr payload /\
      match js_protected sg with
      | Some seg => b64d seg = Ok hdr /\ exists v, json_loads hdr = Ok v /\ m_protected m = Some v
      | None => hdr = []
      end.
  Proof.
    intros (headers & sseg & MH & SS & V & _) SM P ND.
    destruct V as (algv & r & k & sig & _ & _ & _ & G & _ & _ & V).
    apply Ideal in V. apply Honest in V. destruct V as (hdr & pl & S & Bh & Bp & M).
    apply seg_pair_injective in M; [|assumption|apply b64e_no_dot; assumption].
    destruct M as [M1 M2]. subst pseg. rewrite b64_roundtrip in P by assumption.
    inversion P; subst payload.
    exists headers, k, hdr. repeat split; try assumption.
    apply sig2member_ok in SM. destruct SM as [_ SM]. unfold prot_seg in M1.
    destruct (js_protected sg) as [seg|].
    - destruct SM as (raw & v & R1 & R2 & MP). subst seg.
      rewrite b64_roundtrip in R1 by assumption. inversion R1; subst raw.
      split; [apply b64_roundtrip; assumption|eauto].
    - destruct hdr as [|a [|b [|c hdr]]]; [reflexivity|discriminate..].
  Qed.
End Tamper.
