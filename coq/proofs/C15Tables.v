(* C15Tables.v — facts about the registries of /repo (Gen.Tables, regenerated on
   every run) and the instances of the generic lemmas for them.  Expected
   literals are transcribed from the text of property C15 / RFC 7515-7518, 7797. *)
From Model Require Import Base PyVal TableTypes C15Registry C15Spec C15Cases.
From Gen Require Import Tables.
From Proofs Require Import C15Proofs.
Open Scope N_scope.
Open Scope string_scope.

Definition sig (r : list hparam) : list (string * vkind * bool) :=
  map (fun p => (hp_name p, hp_kind p, hp_required p)) r.

Definition jws_expected : list (string * vkind * bool) :=
  [("alg", VStr, true); ("jku", VUrl, false); ("jwk", VJwk, false); ("kid", VStr, false);
   ("x5u", VUrl, false); ("x5c", VListStr, false); ("x5t", VStr, false);
   ("x5t#S256", VStr, false); ("typ", VStr, false); ("cty", VStr, false);
   ("crit", VListStr, false)].

Lemma jws_registry_is : sig jws_header_registry = jws_expected /\
                        sig jws_default_header_registry = jws_expected.
Proof. split; vm_compute; reflexivity. Qed.

Lemma jwe_registry_is :
  sig jwe_header_registry = ("enc", VStr, true) :: ("zip", VStr, false) :: jws_expected.
Proof. vm_compute. reflexivity. Qed.

Lemma jws7797_registry_is :
  sig jws7797_default_header_registry = ("b64", VBool, false) :: jws_expected.
Proof. vm_compute. reflexivity. Qed.

Lemma validator_kinds_is :
  validator_kinds = [("str", VStr); ("list[str]", VListStr); ("int", VInt); ("bool", VBool);
                     ("url", VUrl); ("jwk", VJwk); ("none", VNone)].
Proof. vm_compute. reflexivity. Qed.

(* algorithm-specific parameters, per algorithm family *)
Definition more_expected (family : string) : list (string * vkind * bool) :=
  if String.eqb family "ECDHES" then [("epk", VJwk, true); ("apu", VStr, false); ("apv", VStr, false)]
  else if String.eqb family "ECDH1PU" then
         [("epk", VJwk, true); ("apu", VStr, false); ("apv", VStr, false); ("skid", VStr, false)]
  else if String.eqb family "PBES2" then [("p2s", VStr, true); ("p2c", VInt, true)]
  else if String.eqb family "AESGCMKW" then [("iv", VStr, true); ("tag", VStr, true)]
  else [].

Definition sig_eqb (a b : list (string * vkind * bool)) : bool :=
  list_eqb (fun x y =>
    match x, y with
    | (n, k, r), (n', k', r') =>
        String.eqb n n' && Bool.eqb r r' &&
        match k, k' with
        | VStr, VStr | VUrl, VUrl | VInt, VInt | VBool, VBool | VListStr, VListStr
        | VJwk, VJwk | VNone, VNone => true
        | _, _ => false
        end
    end) a b.

Definition more_ok (tbl : list jwe_alg_row) : bool :=
  forallb (fun r => sig_eqb (sig (ea_more r)) (more_expected (ea_family r))) tbl.

Lemma more_tables_ok : more_ok jwe_alg_table = true /\ more_ok jwe_alg_table_drafts = true.
Proof. split; vm_compute; reflexivity. Qed.

Definition families (tbl : list jwe_alg_row) (f : string) : list string :=
  map ea_name (filter (fun r => String.eqb (ea_family r) f) tbl).

Lemma families_are :
  families jwe_alg_table "ECDHES" = ["ECDH-ES"; "ECDH-ES+A128KW"; "ECDH-ES+A192KW"; "ECDH-ES+A256KW"] /\
  families jwe_alg_table "PBES2" = ["PBES2-HS256+A128KW"; "PBES2-HS384+A192KW"; "PBES2-HS512+A256KW"] /\
  families jwe_alg_table "AESGCMKW" = ["A128GCMKW"; "A192GCMKW"; "A256GCMKW"] /\
  families jwe_alg_table_drafts "ECDH1PU" = ["ECDH-1PU"; "ECDH-1PU+A128KW"; "ECDH-1PU+A192KW"; "ECDH-1PU+A256KW"].
Proof. vm_compute. repeat split; reflexivity. Qed.

Lemma defaults_strict : jws_default_instance_strict = true /\ jwe_default_instance_strict = true.
Proof. split; vm_compute; reflexivity. Qed.

(* side conditions of the generic lemmas, for the three default registries *)
Lemma defaults_unique :
  reg_update [] jws_default_header_registry = jws_default_header_registry /\
  reg_update [] jws7797_default_header_registry = jws7797_default_header_registry /\
  reg_update [] jwe_header_registry = jwe_header_registry.
Proof. vm_compute. repeat split; reflexivity. Qed.

Lemma defaults_have_alg rk : reg_has_alg (reg_update [] (default_reg rk)) = true.
Proof. destruct rk; vm_compute; reflexivity. Qed.

Lemma jwe_default_has_enc : reg_has (reg_update [] jwe_header_registry) enc_name is_VStr true = true.
Proof. vm_compute. reflexivity. Qed.

Lemma jws7797_default_has_b64 :
  reg_has (reg_update [] jws7797_default_header_registry) b64_name is_VBool false = true.
Proof. vm_compute. reflexivity. Qed.

Lemma defaults_known rk : reg_known (reg_update [] (default_reg rk)) = true.
Proof. destruct rk; vm_compute; reflexivity. Qed.

Lemma tables_known d : tbl_known (alg_tbl d) = true.
Proof. destruct d; vm_compute; reflexivity. Qed.

Lemma mk_has_alg rk extra :
  ~ In alg_name (reg_names extra) -> reg_has_alg (mk_registry (default_reg rk) extra) = true.
Proof. intro N. apply mk_registry_has; [apply defaults_have_alg | exact N]. Qed.

Lemma mk_known rk extra :
  reg_known extra = true -> reg_known (mk_registry (default_reg rk) extra) = true.
Proof. intro K. apply reg_known_update; [apply defaults_known | exact K]. Qed.

(* ---------- the three entry points, for every caller registry ---------- *)
Lemma run_check_iff rk c cm h :
  run_check rk c cm h = Ok tt <-> run_spec rk c cm h = true.
Proof.
  destruct rk; unfold run_check, run_spec.
  - apply jws_iff.
  - apply jws7797_iff.
  - apply jwe_iff.
Qed.

Lemma run_check_err rk c cm h e :
  reg_known (c_extra c) = true -> ~ In alg_name (reg_names (c_extra c)) ->
  run_check rk c cm h = Err e ->
  e = EValue \/ (e = EJose UnsupportedAlgorithmError /\ exists d, rk = RJwe d).
Proof.
  intros K N. pose proof (mk_known rk _ K) as K'. pose proof (mk_has_alg rk _ N) as A.
  destruct rk; unfold run_check; intro H.
  - left. exact (jws_err _ _ _ _ K' H).
  - left. exact (jws7797_err _ _ _ _ K' H).
  - destruct (jwe_err _ _ _ _ _ _ _ _ K' (tables_known drafts) A H) as [E|E]; eauto.
Qed.

Lemma run_check_err_any rk c cm h e :
  reg_known (c_extra c) = true ->
  run_check rk c cm h = Err e ->
  e = EValue \/ (exists d, rk = RJwe d /\
                 (e = EJose UnsupportedAlgorithmError \/ (e = EKey /\ dget h alg_name = None))).
Proof.
  intros K. pose proof (mk_known rk _ K) as K'.
  destruct rk; unfold run_check; intro H.
  - left. exact (jws_err _ _ _ _ K' H).
  - left. exact (jws7797_err _ _ _ _ K' H).
  - destruct (jwe_err_any _ _ _ _ _ _ _ _ K' (tables_known drafts) H) as [E|[E|E]]; eauto.
Qed.

Lemma ex_alg_optional_escape :
  let c := {| c_extra := [hp "alg" VStr false]; c_strict := true; c_allowed := None |} in
  run_check (RJwe false) c false [(enc_name, PStr (asc "A128GCM"))] = Err EKey.
Proof. vm_compute. reflexivity. Qed.

(* ---------- caller-registered parameters ---------- *)
Lemma caller_enforced_jws extra strict h p :
  NoDup (reg_names extra) -> In p extra ->
  jws_check_header (mk_registry jws_default_header_registry extra) strict h = Ok tt ->
  (hp_required p = true -> exists v, dget h (pname p) = Some v) /\
  (forall v, dget h (pname p) = Some v -> json_type_ok (hp_kind p) v = true).
Proof.
  intros ND Hp H.
  apply jws_iff in H.
  apply header_ok_iff_P in H. destruct H as [Rq [T _]].
  pose proof (reg_update_extra extra (reg_update [] jws_default_header_registry) p ND Hp) as I.
  split.
  - intro R. exact (Rq p I R).
  - intros v G. exact (T p v I G).
Qed.

Lemma ex_caller :
  let extra := [hp "x-int" VInt true; hp "x-ch" (VChoices ["a"; "b"]%string) false] in
  let reg := mk_registry jws_default_header_registry extra in
  NoDup (reg_names extra) /\
  jws_check_header reg true [(asc "alg", PStr (asc "HS256")); (asc "x-int", PInt 3)] = Ok tt /\
  jws_check_header reg true [(asc "alg", PStr (asc "HS256")); (asc "x-int", PInt 3);
                             (asc "x-ch", PList [PStr (asc "b"); PStr (asc "a")])] = Ok tt /\
  jws_check_header reg true [(asc "alg", PStr (asc "HS256"))] = Err EValue /\
  jws_check_header reg false [(asc "alg", PStr (asc "HS256")); (asc "x-int", PBool true)] = Err EValue /\
  jws_check_header reg false [(asc "alg", PStr (asc "HS256")); (asc "x-int", PInt 3);
                              (asc "x-ch", PStr (asc "c"))] = Err EValue.
Proof.
  cbv zeta. split.
  - vm_compute. repeat constructor; simpl; intuition discriminate.
  - vm_compute. repeat split; reflexivity.
Qed.

Lemma alg_present rk extra strict h :
  ~ In alg_name (reg_names extra) ->
  header_ok (mk_registry (default_reg rk) extra) strict h = true ->
  exists s, dget h alg_name = Some (PStr s).
Proof. intros N H. exact (reg_has_str_present _ _ _ _ (mk_has_alg rk extra N) H). Qed.

Lemma enc_present extra strict h :
  ~ In enc_name (reg_names extra) ->
  header_ok (mk_registry jwe_header_registry extra) strict h = true ->
  exists s, dget h enc_name = Some (PStr s).
Proof.
  intros N H.
  exact (reg_has_str_present _ _ _ _
           (mk_registry_has jwe_header_registry extra enc_name is_VStr true jwe_default_has_enc N) H).
Qed.

Lemma b64_is_bool extra strict h v :
  ~ In b64_name (reg_names extra) ->
  header_ok7797 (mk_registry jws7797_default_header_registry extra) strict h = true ->
  dget h b64_name = Some v ->
  (exists b, v = PBool b) /\ exists l, dget h crit_name = Some (PList l) /\ In (PStr b64_name) l.
Proof.
  intros N H G. unfold header_ok7797 in H. apply andb_true_iff in H. destruct H as [H B].
  split.
  - exact (reg_has_bool_typed _ _ _ _ _
             (mk_registry_has jws7797_default_header_registry extra b64_name is_VBool false
                jws7797_default_has_b64 N) H G).
  - apply b64_ok_iff in B. apply B. eauto.
Qed.

Lemma reg_set_nodup r p : NoDup (reg_names r) -> NoDup (reg_names (reg_set r p)).
Proof.
  induction r as [|q r IH]; simpl; intro H.
  - constructor; [intros [] | constructor].
  - inversion H as [|x l Hn Hd]; subst.
    destruct (str_eqb (pname q) (pname p)) eqn:E; simpl.
    + apply str_eqb_eq in E. constructor; [rewrite <- E; exact Hn | exact Hd].
    + constructor; [|exact (IH Hd)].
      intro X. apply reg_set_names in X. destruct X as [X|X]; [contradiction|].
      rewrite X, str_eqb_refl in E. discriminate.
Qed.

Lemma mk_registry_nodup default extra : NoDup (reg_names (mk_registry default extra)).
Proof.
  unfold mk_registry, reg_update.
  assert (G : forall e r, NoDup (reg_names r) -> NoDup (reg_names (fold_left reg_set e r))).
  { induction e as [|p e IH]; simpl; intros r H; [exact H|]. apply IH. apply reg_set_nodup. exact H. }
  apply G. apply G. constructor.
Qed.

(* a caller-registered parameter (whose name is not already bound in the
   header) can be added, well-typed, to any accepted header *)
Lemma caller_accepted default extra strict h p v :
  In p extra -> NoDup (reg_names extra) ->
  pname p <> crit_name ->
  header_ok (mk_registry default extra) strict h = true ->
  dmem h (pname p) = false -> json_type_ok (hp_kind p) v = true ->
  header_ok (mk_registry default extra) strict (h ++ [(pname p, v)])%list = true.
Proof.
  intros Hp ND NC H M T.
  pose proof (mk_registry_nodup default extra) as NDm.
  pose proof (reg_update_extra extra (reg_update [] default) p ND Hp) as I.
  apply header_ok_add; auto.
  - intros q Hq E.
    assert (q = p).
    { clear -NDm Hq I E. unfold mk_registry in *.
      induction (reg_update (reg_update [] default) extra) as [|x r IH]; [contradiction|].
      simpl in NDm. inversion NDm as [|y l Hn Hd]; subst.
      destruct Hq as [Hq|Hq]; destruct I as [I|I]; subst; auto.
      - exfalso. apply Hn. rewrite E. unfold reg_names. apply in_map. exact I.
      - exfalso. apply Hn. rewrite <- E. unfold reg_names. apply in_map. exact Hq. }
    subst q. exact T.
  - exists p. split; [exact I | reflexivity].
Qed.


Lemma ex_error_classes_hyp :
  let c := {| c_extra := [hp "x-int" VInt true; hp "kid" VInt false]; c_strict := true;
              c_allowed := Some ["A128KW"%string] |} in
  reg_known (c_extra c) = true /\ ~ In alg_name (reg_names (c_extra c)) /\
  run_check RJws c false [(asc "alg", PStr (asc "HS256"))] = Err EValue /\
  run_check (RJwe false) c true [(asc "alg", PStr (asc "dir")); (asc "enc", PStr (asc "A128GCM"));
                                 (asc "x-int", PInt 1)] = Err (EJose UnsupportedAlgorithmError) /\
  run_check (RJwe false) c true [(asc "alg", PStr (asc "A128KW")); (asc "enc", PStr (asc "A128GCM"));
                                 (asc "x-int", PInt 1); (asc "kid", PInt 7)] = Ok tt.
Proof.
  cbv zeta. split; [vm_compute; reflexivity|]. split.
  - vm_compute. intuition discriminate.
  - vm_compute. repeat split; reflexivity.
Qed.

Lemma ex_choice_forms :
  let extra := [hp "c-any" (VChoices ["a"; "b"]%string) false; hp "c-one" (VChoiceStr ["a"; "b"]%string) false;
                hp "c-list" (VChoiceList ["a"; "b"]%string) false] in
  let reg := mk_registry jws_default_header_registry extra in
  let h v := [(asc "alg", PStr (asc "HS256")); v] in
  jws_check_header reg true (h (asc "c-any", PStr (asc "a"))) = Ok tt /\
  jws_check_header reg true (h (asc "c-any", PList [PStr (asc "a"); PStr (asc "b")])) = Ok tt /\
  jws_check_header reg true (h (asc "c-one", PStr (asc "b"))) = Ok tt /\
  jws_check_header reg true (h (asc "c-one", PList [PStr (asc "b")])) = Err EValue /\
  jws_check_header reg true (h (asc "c-one", PList [])) = Err EValue /\
  jws_check_header reg true (h (asc "c-list", PList [PStr (asc "b")])) = Ok tt /\
  jws_check_header reg true (h (asc "c-list", PList [])) = Ok tt /\
  jws_check_header reg true (h (asc "c-list", PStr (asc "b"))) = Err EValue /\
  jws_check_header reg true (h (asc "c-list", PList [PStr (asc "b"); PStr (asc "c")])) = Err EValue.
Proof. vm_compute. repeat split; reflexivity. Qed.

(* ---------- entry points: a normal return means every header was checked ---------- *)
Lemma checked_member_ok step e c parts :
  checked_member step e c parts = Ok tt ->
  run_check (entry_rk e) c (entry_cm e) (entry_header e parts) = Ok tt.
Proof.
  unfold checked_member.
  destruct (run_check (entry_rk e) c (entry_cm e) (entry_header e parts)) as [[]|x]; simpl; [reflexivity | discriminate].
Qed.

Lemma members_loop_ok step e c ms :
  members_loop step e c ms = Ok tt ->
  forall parts, In parts ms -> run_check (entry_rk e) c (entry_cm e) (entry_header e parts) = Ok tt.
Proof.
  induction ms as [|m r IH]; simpl; intros H parts I; [contradiction|].
  destruct (checked_member step e c m) as [[]|x] eqn:C; simpl in H; [|discriminate].
  destruct I as [I|I]; [subst; exact (checked_member_ok _ _ _ _ C) | exact (IH H parts I)].
Qed.

Lemma generic_run_ok pre step post e c ms :
  generic_run pre step post e c ms = Ok tt ->
  forall parts, In parts ms -> run_check (entry_rk e) c (entry_cm e) (entry_header e parts) = Ok tt.
Proof.
  unfold generic_run. destruct pre as [[]|x]; simpl; [|discriminate].
  destruct (members_loop step e c ms) as [[]|x] eqn:M; simpl; [|discriminate].
  intros _. exact (members_loop_ok _ _ _ _ M).
Qed.

(* jws.validate_compact: whatever the verdict, a normal return means the header was checked *)
Lemma validate_compact_checks step verify c parts b :
  validate_compact_run step verify c parts = Ok b ->
  run_check RJws c false (merge_parts parts) = Ok tt.
Proof.
  unfold validate_compact_run. intro H.
  destruct (checked_member step JwsValidateCompact c parts) as [[]|x] eqn:C; simpl in H; [|discriminate].
  exact (checked_member_ok _ _ _ _ C).
Qed.

Lemma deserialize_compact_checks pre step verify c parts :
  deserialize_compact_run pre step verify c parts = Ok tt ->
  run_check RJws c false (merge_parts parts) = Ok tt.
Proof.
  unfold deserialize_compact_run. destruct pre as [[]|x]; simpl; [|discriminate].
  destruct (validate_compact_run step verify c parts) as [b|x] eqn:V; simpl; [|discriminate].
  intros _. exact (validate_compact_checks _ _ _ _ _ V).
Qed.

Lemma entry_run_checks_impl pre step verify post e c ms :
  entry_run pre step verify post e c ms = Ok tt ->
  forall parts, In parts ms ->
    run_check (entry_rk e) c (entry_cm e) (entry_header e parts) = Ok tt.
Proof.
  intros H parts I.
  destruct e; try exact (generic_run_ok _ _ _ _ _ _ H parts I);
    destruct ms as [|p [|q r]]; try discriminate H;
    destruct I as [I|[]]; subst parts; simpl in H.
  - destruct (validate_compact_run step verify c p) as [b|x] eqn:V; simpl in H; [|discriminate].
    exact (validate_compact_checks _ _ _ _ _ V).
  - exact (deserialize_compact_checks _ _ _ _ _ H).
  - unfold jwt_decode_jws_run in H.
    destruct (deserialize_compact_run pre step verify c p) as [[]|x] eqn:D; simpl in H; [|discriminate].
    exact (deserialize_compact_checks _ _ _ _ _ D).
Qed.

Lemma entry_run_checks pre step verify post e c ms :
  entry_run pre step verify post e c ms = Ok tt ->
  forall parts, In parts ms ->
    run_spec (entry_rk e) c (entry_cm e) (entry_header e parts) = true.
Proof.
  intros H parts I. apply run_check_iff. exact (entry_run_checks_impl _ _ _ _ _ _ _ H parts I).
Qed.

(* and a header that violates the spec makes the entry point fail, whatever the rest does *)
Lemma entry_run_rejects pre step verify post e c ms parts :
  In parts ms -> run_spec (entry_rk e) c (entry_cm e) (entry_header e parts) = false ->
  exists x, entry_run pre step verify post e c ms = Err x.
Proof.
  intros I S. destruct (entry_run pre step verify post e c ms) as [[]|x] eqn:H; [|eauto].
  rewrite (entry_run_checks _ _ _ _ _ _ _ H parts I) in S. discriminate.
Qed.

Lemma validate_compact_spec step verify c parts b :
  validate_compact_run step verify c parts = Ok b ->
  run_spec RJws c false (merge_parts parts) = true.
Proof. intro H. apply run_check_iff. exact (validate_compact_checks _ _ _ _ _ H). Qed.

Lemma ex_validate_compact :
  let c := default_cfg RJws in
  validate_compact_run (fun _ => Ok tt) (Ok true) c
    [[(asc "alg", PStr (asc "HS256")); (asc "kid", PStr (asc "k"))]] = Ok true /\
  validate_compact_run (fun _ => Ok tt) (Ok true) c
    [[(asc "alg", PStr (asc "HS256")); (asc "kid", PInt 123)]] = Err EValue /\
  entry_run_valid JwsValidateCompact c [[[(asc "alg", PStr (asc "HS256")); (asc "foo", PInt 1)]]] = Err EValue /\
  entry_run_valid JwtEncodeJws c [[[(asc "alg", PStr (asc "HS256")); (asc "typ", PInt 1)]]] = Err EValue /\
  entry_run_valid JwtEncodeJws c [[[(asc "alg", PStr (asc "HS256"))]]] = Ok tt.
Proof. vm_compute. repeat split; reflexivity. Qed.

Lemma consume_checks pre step verify post e c ms :
  entry_consuming e = true ->
  entry_run pre step verify post e c ms = Ok tt ->
  forall parts, In parts ms ->
    run_spec (entry_rk e) c (entry_cm e) (merge_parts parts) = true.
Proof.
  intros C H parts I. pose proof (entry_run_checks _ _ _ _ _ _ _ H parts I) as X.
  destruct e; try discriminate C; exact X.
Qed.

(* ---------- object histories: the header checked is the merge of the CURRENT fields ---------- *)
Lemma history_checks pre step verify post d c o es :
  encrypt_json_history pre step verify post d c o es = Ok tt ->
  forall parts, In parts (obj_members (final_state o es)) ->
    run_spec (RJwe d) c false (merge_parts parts) = true.
Proof.
  unfold encrypt_json_history, encrypt_json_obj. intros H parts I.
  exact (entry_run_checks _ _ _ _ (JweEncryptJson d) _ _ H parts I).
Qed.

Lemma history_final_only pre step verify post d c o1 es1 o2 es2 :
  final_state o1 es1 = final_state o2 es2 ->
  encrypt_json_history pre step verify post d c o1 es1 =
  encrypt_json_history pre step verify post d c o2 es2.
Proof. unfold encrypt_json_history. intro E. rewrite E. reflexivity. Qed.

Lemma history_is_fresh pre step verify post d c o es :
  encrypt_json_history pre step verify post d c o es =
  encrypt_json_obj pre step verify post d c (final_state o es).
Proof. reflexivity. Qed.

Lemma history_rejects pre step verify post d c o es parts :
  In parts (obj_members (final_state o es)) ->
  run_spec (RJwe d) c false (merge_parts parts) = false ->
  exists x, encrypt_json_history pre step verify post d c o es = Err x.
Proof.
  intros I S. unfold encrypt_json_history, encrypt_json_obj.
  exact (entry_run_rejects _ _ _ _ (JweEncryptJson d) _ _ parts I S).
Qed.

Lemma ex_history :
  let c := default_cfg (RJwe false) in
  let o := {| o_protected := [(asc "enc", PStr (asc "A128GCM"))]; o_unprotected := None;
              o_recipients := [Some [(asc "alg", PStr (asc "A128KW"))]] |} in
  let run := encrypt_json_history (Ok tt) (fun _ => Ok tt) (Ok true) (Ok tt) false c o in
  run [] = Ok tt /\
  run [ESetP (asc "bogus") (PInt 1)] = Err EValue /\
  run [ESetR 0 (asc "kid") (PInt 123)] = Err EValue /\
  run [ERebindU (Some [(asc "crit", PList [PStr (asc "kid")])])] = Err EValue /\
  run [ERebindU (Some [(asc "crit", PList [PStr (asc "kid")])]); EAddHeader 0 (asc "kid") (PStr (asc "k"))] = Ok tt /\
  run [ESetP (asc "bogus") (PInt 1); EDelP (asc "bogus")] = Ok tt /\
  run [EAddRecipient false (Some [(asc "alg", PInt 1)])] = Err EValue.
Proof. vm_compute. repeat split; reflexivity. Qed.
