(* C16Refuted.v — (1) the contracts of the primitives as one predicate [prims_ok] and the entry
   theorems restated over it; (2) a concrete world satisfying the contracts (non-vacuity);
   (3) for every guard of model/C16Model.v: without that guard the model escapes with a
   class outside {JoseError, ValueError} — the minimal witnesses of the defects that
   fix01..fix12 removed from /repo (they become regressions if a guard disappears). *)
From Coq Require Import String List ZArith NArith Bool Lia.
From Model Require Import Base PyVal TableTypes B64 C16Model.
From Gen Require Import Tables.
From Proofs Require Import B64Proofs C16Proofs.
Import ListNotations.
Open Scope N_scope.

Definition prims_ok (P : prims) : Prop :=
  (forall b e, p_json_loads P b = Err e -> e = EValue \/ e = ERuntime) /\
  (forall row k m s, In row jws_alg_table -> k_kty k = ja_key_type row ->
     (ja_family row = "EdDSA"%string -> ed_curve k = true) -> safe (p_jws_verify P (ja_name row) k m s)) /\
  (forall n ct tag cek iv aad, safe (p_enc_decrypt P n ct tag cek iv aad)) /\
  (forall b e, p_inflate P b = Err e -> e = EZlib \/ e = EJose ExceededSizeError) /\
  (forall a k ek, safe (p_rsa_decrypt P a k ek)) /\
  (forall kek ek, safe (p_aes_unwrap P kek ek)) /\
  (forall k iv tag ek, safe (p_gcm_unwrap P k iv tag ek)) /\
  (forall a k s c, (1 <= c <= 2147483647)%Z -> safe (p_pbkdf2 P a k s c)) /\
  (forall kty d priv, safe (p_import_epk P kty d priv)) /\
  (forall k e, safe (p_ecdh P k e)) /\
  (forall s f n, safe (p_concat_kdf P s f n)).

Ltac use_ok H :=
  destruct H as (H1 & H2 & H3 & H4 & H5 & H6 & H7 & H8 & H9 & H10 & H11).

Lemma jws_deserialize_compact_ok P g reg ka v : prims_ok P -> g_kid_repr g = true ->
  needs_jws_compact g = true -> jws_reg_wf reg = true -> safe (jws_deserialize_compact g P reg ka v).
Proof. intro H. use_ok H. apply jws_deserialize_compact_safe; assumption. Qed.

Lemma jws_extract_then_validate_ok P g reg ka value : prims_ok P -> g_kid_repr g = true ->
  needs_jws_compact g = true -> jws_reg_wf reg = true ->
  match jws_extract_compact g P value with
  | Ok o => safe (jws_validate g P reg ka true (cs_protected o) (cs_hseg o ++ 46 :: cs_pseg o) (cs_sseg o))
  | Err e => allowed_exn e = true
  end.
Proof. intro H. use_ok H. apply jws_extract_then_validate_safe; assumption. Qed.

Lemma jwt_decode_jws_ok P g reg ka v : prims_ok P -> g_kid_repr g = true ->
  needs_jws_compact g = true -> g_rec_claims g = true -> jws_reg_wf reg = true ->
  safe (jwt_decode_jws g P reg ka v).
Proof. intro H. use_ok H. apply jwt_decode_jws_safe; assumption. Qed.

Lemma r7797_deserialize_compact_ok P g reg0 reg7 ka v : prims_ok P -> g_kid_repr g = true ->
  needs_7797_compact g = true -> jws_reg_wf reg0 = true -> jws_reg_wf reg7 = true ->
  safe (r7797_deserialize_compact g P reg0 reg7 ka v).
Proof. intro H. use_ok H. apply r7797_deserialize_compact_safe; assumption. Qed.

Lemma jws_deserialize_json_ok P g reg ka value : prims_ok P -> g_kid_repr g = true ->
  needs_jws_json g = true -> jws_reg_wf reg = true -> jws_documented_shape value = true ->
  safe (jws_deserialize_json g P reg ka value).
Proof. intro H. use_ok H. apply jws_deserialize_json_safe; assumption. Qed.

Lemma r7797_deserialize_json_ok P g reg0 reg7 ka value : prims_ok P -> g_kid_repr g = true ->
  needs_7797_json g = true -> jws_reg_wf reg0 = true -> jws_reg_wf reg7 = true ->
  jws_documented_shape value = true -> safe (r7797_deserialize_json g P reg0 reg7 ka value).
Proof. intro H. use_ok H. apply r7797_deserialize_json_safe; assumption. Qed.

Lemma jwe_decrypt_compact_ok P g reg ka sa v : prims_ok P -> g_kid_repr g = true ->
  needs_jwe_compact g = true -> jwe_reg_wf2 reg = true -> safe (jwe_decrypt_compact g P reg ka sa v).
Proof. intro H. use_ok H. eapply jwe_decrypt_compact_safe; eassumption. Qed.

Lemma jwt_decode_jwe_ok P g reg ka v : prims_ok P -> g_kid_repr g = true ->
  needs_jwe_compact g = true -> g_rec_claims g = true -> jwe_reg_wf2 reg = true ->
  safe (jwt_decode_jwe g P reg ka v).
Proof. intro H. use_ok H. eapply jwt_decode_jwe_safe; eassumption. Qed.

Lemma jwe_decrypt_json_ok P g reg ka sa data : prims_ok P -> g_kid_repr g = true ->
  needs_jwe_json g = true -> jwe_reg_wf2 reg = true -> jwe_documented_shape data = true ->
  safe (jwe_decrypt_json g P reg ka sa data).
Proof. intro H. use_ok H. eapply jwe_decrypt_json_safe; eassumption. Qed.

(* every entry's guard requirement holds for the fixed code *)
Lemma all_guards_suffice :
  needs_jws_compact all_guards = true /\ needs_7797_compact all_guards = true /\
  needs_jws_json all_guards = true /\ needs_7797_json all_guards = true /\
  needs_jwe_compact all_guards = true /\ needs_jwe_json all_guards = true /\
  g_rec_claims all_guards = true /\ g_kid_repr all_guards = true.
Proof. vm_compute. auto 10. Qed.

(* the library's own registries are well-formed worlds (ties the theorems to gen/Tables.v) *)
Lemma default_regs_wf :
  jws_reg_wf default_jws_reg = true /\ jws_reg_wf default_7797_reg = true /\
  jwe_reg_wf2 default_jwe_reg = true.
Proof. vm_compute. auto. Qed.

(* ------------------------------------------------------------------ *)
(* a concrete world                                                     *)
(* ------------------------------------------------------------------ *)
Definition wverify (a : string) (k : key) (m s : bytes) : res bool :=
  if String.eqb (k_kty k) "RSA" && String.eqb a "HS256" then Err EType else Ok true.

Definition wprims (json : bytes -> res pv) : prims :=
  {| p_json_loads := json;
     p_jws_verify := wverify;
     p_enc_decrypt := fun _ _ _ _ _ _ => Ok [];
     p_inflate := fun _ => Err EZlib;
     p_rsa_decrypt := fun _ _ _ => Err (EJose DecodeError);
     p_aes_unwrap := fun _ _ => Err (EJose DecodeError);
     p_gcm_unwrap := fun _ _ _ _ => Err (EJose DecodeError);
     p_pbkdf2 := fun _ _ _ c => if ((1 <=? c) && (c <=? 2147483647))%Z then Ok []
                                else if (c =? 0)%Z then Err EValue else Err EOverflow;
     p_import_epk := fun _ _ _ => Ok tt;
     p_ecdh := fun _ _ => Err EValue;
     p_concat_kdf := fun _ _ _ => Err EValue |}.

Lemma hs256_is_oct :
  forallb (fun r => negb (String.eqb (ja_name r) "HS256" && String.eqb (ja_key_type r) "RSA")) jws_alg_table = true.
Proof. vm_compute. reflexivity. Qed.

Lemma wprims_ok json :
  (forall b e, json b = Err e -> e = EValue \/ e = ERuntime) -> prims_ok (wprims json).
Proof.
  intro J. unfold prims_ok, wprims; cbn [p_json_loads p_jws_verify p_enc_decrypt p_inflate p_rsa_decrypt
    p_aes_unwrap p_gcm_unwrap p_pbkdf2 p_import_epk p_ecdh p_concat_kdf].
  repeat split; try exact J; intros; try exact I; try reflexivity.
  - unfold wverify. destruct (String.eqb (k_kty k) "RSA" && String.eqb (ja_name row) "HS256") eqn:E; [|exact I].
    apply andb_true_iff in E. destruct E as [E1 E2]. apply String.eqb_eq in E1.
    pose proof hs256_is_oct as T. rewrite forallb_forall in T. specialize (T row H).
    rewrite E2 in T. rewrite <- H0, E1 in T. discriminate.
  - inversion H; auto.
  - assert (X : ((1 <=? c)%Z && (c <=? 2147483647)%Z) = true)
      by (apply andb_true_iff; split; apply Z.leb_le; lia).
    rewrite X. exact I.
Qed.

Definition jconst (v : res pv) : bytes -> res pv := fun _ => v.
Lemma jconst_ok v : (forall e, v = Err e -> e = EValue \/ e = ERuntime) ->
  forall b e, jconst v b = Err e -> e = EValue \/ e = ERuntime.
Proof. intros H b e E. apply H. exact E. Qed.

(* keys and registries of the witnesses *)
Definition mk (kty crv : string) (raw : bytes) : key :=
  {| k_kty := kty; k_crv := crv; k_kid := PNone; k_use := PNone; k_raw := raw; k_private := true; k_opfail := [] |}.
Definition k_oct : key := mk "oct" "" (repeat 0 16).
Definition k_rsa : key := mk "RSA" "" [].
Definition k_ec : key := mk "EC" "P-256" [].
Definition k_x25519 : key := mk "OKP" "X25519" [].
Definition jws_all : jws_reg :=
  {| jr_hreg := jws_default_instance_header_registry; jr_strict := true; jr_allowed := map ja_name jws_alg_table; jr_7797 := false |}.
Definition r7797_all : jws_reg :=
  {| jr_hreg := jws7797_default_header_registry; jr_strict := true; jr_allowed := map ja_name jws_alg_table; jr_7797 := true |}.
Definition jwe_all : jwe_reg :=
  {| er_hreg := jwe_default_instance_header_registry; er_strict := true;
     er_allowed := map ea_name jwe_alg_table_drafts ++ map ee_name jwe_enc_table_drafts ++ map ez_name jwe_zip_table_drafts;
     er_verify_all := true; er_drafts := true |}.

Lemma witness_regs_wf : jws_reg_wf jws_all = true /\ jws_reg_wf r7797_all = true /\ jwe_reg_wf2 jwe_all = true.
Proof. vm_compute. auto. Qed.

Definition D (l : list (string * pv)) : pv := PDict (map (fun kv => (asc (fst kv), snd kv)) l).
Definition T (s : string) : pv := PStr (asc s).
Definition tok (s : string) : cinput := CBytes (asc s).

(* all guards except number i *)
Definition all_but (i : nat) : guards :=
  guards_of (map (fun j => negb (Nat.eqb i j)) (seq 0 23)).


Definition allowed_exn_of {A} (m : res A) : bool :=
  match m with Err e => allowed_exn e | Ok _ => false end.
Definition is_err {A} (m : res A) (e : exn) : bool :=
  match m with Err e' => exn_eqb e' e | Ok _ => false end.

(* ------------------------------------------------------------------ *)
(* refutations: one per guard (index in [guards_list])                  *)
(* ------------------------------------------------------------------ *)
Local Open Scope string_scope.
Definition W (v : pv) : prims := wprims (jconst (Ok v)).
Lemma W_ok v : prims_ok (W v).
Proof. apply wprims_ok, jconst_ok. intros e H. discriminate. Qed.

(* 0: protected header "alg" (a JSON string) in a compact JWS -> TypeError in validate_registry_header *)
Lemma r00_header_not_object_jws_compact :
  is_err (jws_deserialize_compact (all_but 0) (W (T "alg")) default_jws_reg (AKey k_oct) (tok "ImFsZyI.e30.e30")) EType = true.
Proof. vm_compute. reflexivity. Qed.

(* 1: protected header "algenc" in a compact JWE -> TypeError in _perform_decrypt *)
Lemma r01_header_not_object_jwe_compact :
  is_err (jwe_decrypt_compact (all_but 1) (W (T "algenc")) default_jwe_reg (AKey k_oct) SNone (tok "ImFsZ2VuYyI....")) EType = true.
Proof. vm_compute. reflexivity. Qed.

Definition flat_jws : pv := D [("payload", T ""); ("protected", T "MQ"); ("signature", T "")].
(* 2: protected header 1 in a flattened JSON JWS -> TypeError in HeaderMember.headers *)
Lemma r02_header_not_object_jws_json :
  jws_documented_shape flat_jws = true /\
  is_err (jws_deserialize_json (all_but 2) (W (PInt 1)) default_jws_reg (AKey k_oct) flat_jws) EType = true.
Proof. vm_compute. auto. Qed.

(* 3: the same through rfc7797.deserialize_json *)
Lemma r03_header_not_object_7797_json :
  is_err (r7797_deserialize_json (all_but 3) (W (PInt 1)) default_jws_reg default_7797_reg (AKey k_oct) flat_jws) EType = true.
Proof. vm_compute. reflexivity. Qed.

Definition flat_jwe : pv :=
  D [("protected", T "e30"); ("iv", T "AAAAAAAAAAAAAAAA"); ("ciphertext", T ""); ("tag", T "")].
(* 4: protected header 1 in a flattened JSON JWE -> TypeError in Recipient.headers *)
Lemma r04_header_not_object_jwe_json :
  jwe_documented_shape flat_jwe = true /\
  is_err (jwe_decrypt_json (all_but 4) (W (PInt 1)) default_jwe_reg (AKeySet [k_oct]) SNone flat_jwe) EType = true.
Proof. vm_compute. auto. Qed.

(* 5: "crit": 0 -> TypeError in check_crit_header *)
Lemma r05_crit_not_iterable :
  is_err (jws_deserialize_compact (all_but 5) (W (D [("alg", T "HS256"); ("crit", PInt 0)])) default_jws_reg
            (AKey k_oct) (tok "e30.e30.e30")) EType = true.
Proof. vm_compute. reflexivity. Qed.

(* 6: JSON JWE whose protected header has no "enc" -> KeyError in _perform_decrypt *)
Lemma r06_enc_missing :
  is_err (jwe_decrypt_json (all_but 6) (W (D [])) default_jwe_reg (AKey k_oct) SNone flat_jwe) EKey = true.
Proof. vm_compute. reflexivity. Qed.

(* 7: "enc": [] -> TypeError (unhashable) in JWERegistry._check_algorithm *)
Lemma r07_enc_unhashable :
  is_err (jwe_decrypt_compact (all_but 7) (W (D [("alg", T "dir"); ("enc", PList [])])) default_jwe_reg
            (AKey k_oct) SNone (tok "e30..AAAAAAAAAAAAAAAA..")) EType = true.
Proof. vm_compute. reflexivity. Qed.

(* 8: JWSRegistry.get_alg with an unhashable name (function level: the registries validate "alg" first) *)
Lemma r08_jws_get_alg_unhashable :
  is_err (jws_get_alg (all_but 8) default_jws_reg (PList [])) EType = true.
Proof. vm_compute. reflexivity. Qed.

Definition epk_ec (crv : string) (extra : list (string * pv)) : pv :=
  D ([("kty", T "EC"); ("crv", T crv); ("x", T "AA"); ("y", T "AA")] ++ extra).
Definition ecdh_header (epk : pv) : pv := D [("alg", T "ECDH-ES"); ("enc", T "A128GCM"); ("epk", epk)].

(* 9: epk with an unregistered EC curve -> KeyError in ECBinding.import_public_key *)
Lemma r09_epk_unknown_ec_curve :
  is_err (jwe_decrypt_compact (all_but 9) (W (ecdh_header (epk_ec "P-999" []))) default_jwe_reg (AKey k_ec) SNone
            (tok "e30..AAAAAAAAAAAAAAAA..")) EKey = true.
Proof. vm_compute. reflexivity. Qed.

(* 10: the same for an OKP recipient key *)
Lemma r10_epk_unknown_okp_curve :
  is_err (jwe_decrypt_compact (all_but 10)
            (W (ecdh_header (D [("kty", T "OKP"); ("crv", T "X999"); ("x", T "AA")]))) default_jwe_reg (AKey k_x25519) SNone
            (tok "e30..AAAAAAAAAAAAAAAA..")) EKey = true.
Proof. vm_compute. reflexivity. Qed.

(* 11: PBES2 with "p2c": -1 -> OverflowError from the KDF *)
Lemma r11_p2c_negative :
  is_err (jwe_decrypt_compact (all_but 11)
            (W (D [("alg", T "PBES2-HS256+A128KW"); ("enc", T "A128GCM"); ("p2s", T "AA"); ("p2c", PInt (-1)%Z)]))
            jwe_all (AKey k_oct) SNone (tok "e30..AAAAAAAAAAAAAAAA..")) EOverflow = true.
Proof. vm_compute. reflexivity. Qed.

(* 12: corrupt DEFLATE data under a valid tag -> zlib.error *)
Lemma r12_corrupt_deflate :
  is_err (jwe_decrypt_compact (all_but 12) (W (D [("alg", T "dir"); ("enc", T "A128GCM"); ("zip", T "DEF")]))
            default_jwe_reg (AKey k_oct) SNone (tok "e30..AAAAAAAAAAAAAAAA..")) EZlib = true.
Proof. vm_compute. reflexivity. Qed.

(* 13: EdDSA token verified with an X25519 key -> AssertionError *)
Lemma r13_eddsa_with_x25519 :
  is_err (jws_deserialize_compact (all_but 13) (W (D [("alg", T "EdDSA")])) jws_all (AKey k_x25519)
            (tok "e30.e30.e30")) EAssert = true.
Proof. vm_compute. reflexivity. Qed.

(* 14: rfc7797 b64=false with an RSA key for HS256 -> TypeError inside hmac *)
Lemma r14_rfc7797_wrong_key_kind :
  is_err (r7797_deserialize_compact (all_but 14)
            (W (D [("alg", T "HS256"); ("b64", PBool false); ("crit", PList [T "b64"])]))
            default_jws_reg default_7797_reg (AKey k_rsa) (tok "e30.e30.e30")) EType = true.
Proof. vm_compute. reflexivity. Qed.

(* 15: key wrapping recipient without "encrypted_key" -> AssertionError *)
Lemma r15_missing_encrypted_key :
  is_err (jwe_decrypt_json (all_but 15) (W (D [("alg", T "A128KW"); ("enc", T "A128GCM")])) default_jwe_reg
            (AKey k_oct) SNone flat_jwe) EAssert = true.
Proof. vm_compute. reflexivity. Qed.

(* 16: header JSON nested too deeply -> RecursionError *)
Definition Wrec : prims := wprims (jconst (Err ERuntime)).
Lemma Wrec_ok : prims_ok Wrec.
Proof. apply wprims_ok, jconst_ok. intros e H. inversion H. auto. Qed.
Lemma r16_header_recursion :
  is_err (jws_deserialize_compact (all_but 16) Wrec default_jws_reg (AKey k_oct) (tok "e30.e30.e30")) ERuntime = true.
Proof. vm_compute. reflexivity. Qed.

(* 17: signed claims nested too deeply -> RecursionError in jwt.decode *)
Definition jclaims : bytes -> res pv :=
  fun b => if beqb b (asc "{}") then Ok (D [("alg", T "HS256")]) else Err ERuntime.
Lemma jclaims_ok : prims_ok (wprims jclaims).
Proof. apply wprims_ok. intros b e H. unfold jclaims in H. destruct (beqb b (asc "{}")); inversion H; auto. Qed.
Lemma r17_claims_recursion :
  is_err (jwt_decode_jws (all_but 17) (wprims jclaims) default_jws_reg (AKey k_oct) (tok "e30.W10.e30")) ERuntime = true.
Proof. vm_compute. reflexivity. Qed.

(* 18: JWK with "use": [] and "key_ops": [] -> TypeError (unhashable) in validate_dict_key_use_operations.
   Function level: since 7fefb53 the validator of "use" (in_choices(.., False) = VChoiceStr in gen/Tables.v)
   refuses a list before this function is reached through import_key, so the guard is a second line of
   defence for direct callers of validate_dict_key_use_operations. *)
Lemma r18_use_list :
  is_err (validate_use_ops (all_but 18) (D [("use", PList []); ("key_ops", PList [])])) EType = true /\
  is_err (validate_use_ops all_guards (D [("use", PList []); ("key_ops", PList [])])) EValue = true.
Proof. vm_compute. auto. Qed.

(* with every guard the same witnesses are rejected with an allowed class *)
Definition witnesses_fixed : list bool := [
  allowed_exn_of (jws_deserialize_compact all_guards (W (T "alg")) default_jws_reg (AKey k_oct) (tok "ImFsZyI.e30.e30"));
  allowed_exn_of (jwe_decrypt_compact all_guards (W (T "algenc")) default_jwe_reg (AKey k_oct) SNone (tok "ImFsZ2VuYyI...."));
  allowed_exn_of (jws_deserialize_json all_guards (W (PInt 1)) default_jws_reg (AKey k_oct) flat_jws);
  allowed_exn_of (jwe_decrypt_json all_guards (W (PInt 1)) default_jwe_reg (AKeySet [k_oct]) SNone flat_jwe);
  allowed_exn_of (jwe_decrypt_json all_guards (W (D [])) default_jwe_reg (AKey k_oct) SNone flat_jwe);
  allowed_exn_of (jwe_decrypt_compact all_guards (W (ecdh_header (epk_ec "P-999" []))) default_jwe_reg (AKey k_ec) SNone (tok "e30..AAAAAAAAAAAAAAAA.."));
  allowed_exn_of (jwe_decrypt_compact all_guards (W (D [("alg", T "dir"); ("enc", T "A128GCM"); ("zip", T "DEF")])) default_jwe_reg (AKey k_oct) SNone (tok "e30..AAAAAAAAAAAAAAAA.."));
  allowed_exn_of (jwt_decode_jws all_guards (wprims jclaims) default_jws_reg (AKey k_oct) (tok "e30.W10.e30"))
].
Lemma witnesses_fixed_ok : forallb (fun b => b) witnesses_fixed = true.
Proof. vm_compute. reflexivity. Qed.

(* ------------------------------------------------------------------ *)
(* round 2: ECDH-1PU / sender keys                                      *)
(* ------------------------------------------------------------------ *)
Definition pu_header : pv := D [("alg", T "ECDH-1PU"); ("enc", T "A128GCM"); ("epk", epk_ec "P-256" [])].

(* 19: an ECDH-1PU token decrypted without a sender key -> AssertionError *)
Lemma r19_1pu_without_sender :
  is_err (jwe_decrypt_compact (all_but 19) (W pu_header) jwe_all (AKey k_ec) SNone (tok "e30..AAAAAAAAAAAAAAAA..")) EAssert = true /\
  is_err (jwt_decode_jwe (all_but 19) (W pu_header) jwe_all (AKey k_ec) (tok "e30..AAAAAAAAAAAAAAAA..")) EAssert = true.
Proof. vm_compute. auto. Qed.

(* 20: ECDH-1PU with an EC recipient key and an RSA sender key (chosen by "skid" from a key set)
   -> AttributeError (key.curve_name) in ECKey.exchange_derive_key *)
Definition k_rsa_kid : key :=
  {| k_kty := "RSA"; k_crv := ""; k_kid := T "rsa"; k_use := PNone; k_raw := []; k_private := true; k_opfail := [] |}.
Definition pu_header_skid : pv :=
  D [("alg", T "ECDH-1PU"); ("enc", T "A128GCM"); ("epk", epk_ec "P-256" []); ("skid", T "rsa")].
Lemma r20_1pu_rsa_sender :
  is_err (jwe_decrypt_compact (all_but 20) (W pu_header_skid) jwe_all (AKey k_ec) (SSet [k_ec; k_rsa_kid])
            (tok "e30..AAAAAAAAAAAAAAAA..")) EAttr = true.
Proof. vm_compute. reflexivity. Qed.

(* 21: ECDH-1PU with an RSA recipient key: without check_key_type the code imports the epk with
   RSAKey.import_key and then calls the missing RSAKey.exchange_derive_key (AttributeError on /repo before
   fix15, witness in c16.meta.json).  The model does not contain RSA / oct key import: it leaves its
   fragment here (EOracleMiss, not an allowed class), with the guard it raises InvalidKeyTypeError. *)
Lemma r21_1pu_rsa_recipient :
  is_err (jwe_decrypt_compact (all_but 21) (W pu_header) jwe_all (AKey k_rsa) (SKey k_ec)
            (tok "e30..AAAAAAAAAAAAAAAA..")) EOracleMiss = true /\
  is_err (jwe_decrypt_compact all_guards (W pu_header) jwe_all (AKey k_rsa) (SKey k_ec)
            (tok "e30..AAAAAAAAAAAAAAAA..")) (EJose InvalidKeyTypeError) = true.
Proof. vm_compute. auto. Qed.

(* callable keys: what guess_key raises *)
Lemma callable_keys :
  guess_key all_guards (ACall (AKey k_oct)) (Ok (PDict [])) = Ok k_oct /\
  guess_key all_guards (ACall (AText k_oct)) (Ok (PDict [])) = Ok k_oct /\
  guess_key all_guards (ACall AOther) (Ok (PDict [])) = Err EValue /\
  guess_key all_guards (ACall (ACall (AKey k_oct))) (Ok (PDict [])) = Err EValue /\
  guess_key all_guards AOther (Ok (PDict [])) = Err EValue /\
  guess_key all_guards (ACall (AKeySet [])) (Ok (PDict [])) = Err (EJose InvalidKeyIdError).
Proof. vm_compute. auto 10. Qed.

(* 22: a KeySet and a "kid" nested deeper than repr can follow -> RecursionError while formatting the
   message of InvalidKeyIdError (the JWE paths select the key before the header is validated) *)
Fixpoint nest (n : nat) : pv := match n with O => PList [] | Datatypes.S k => PList [nest k] end.
Definition flat_jwe_deep_kid : pv :=
  D [("protected", T "e30"); ("iv", T "AAAAAAAAAAAAAAAA"); ("ciphertext", T ""); ("tag", T "");
     ("unprotected", D [("kid", nest 101)])].
Lemma r22_deep_kid :
  jwe_documented_shape flat_jwe_deep_kid = true /\
  is_err (jwe_decrypt_json (all_but 22) (W (D [("alg", T "dir"); ("enc", T "A128GCM")])) default_jwe_reg
            (AKeySet [k_oct; k_ec]) SNone flat_jwe_deep_kid) ERuntime = true /\
  is_err (jwe_decrypt_json all_guards (W (D [("alg", T "dir"); ("enc", T "A128GCM")])) default_jwe_reg
            (AKeySet [k_oct; k_ec]) SNone flat_jwe_deep_kid) (EJose InvalidKeyIdError) = true.
Proof. vm_compute. auto. Qed.

(* ------------------------------------------------------------------ *)
(* every guard is necessary                                             *)
(* ------------------------------------------------------------------ *)
Definition escapes {A} (m : res A) : bool := match m with Err e => negb (allowed_exn e) | Ok _ => false end.

(* entry i: an input on which the model with every guard except i escapes *)
Definition escape_witnesses : list bool := [
  escapes (jws_deserialize_compact (all_but 0) (W (T "alg")) default_jws_reg (AKey k_oct) (tok "ImFsZyI.e30.e30"));
  escapes (jwe_decrypt_compact (all_but 1) (W (T "algenc")) default_jwe_reg (AKey k_oct) SNone (tok "ImFsZ2VuYyI...."));
  escapes (jws_deserialize_json (all_but 2) (W (PInt 1)) default_jws_reg (AKey k_oct) flat_jws);
  escapes (r7797_deserialize_json (all_but 3) (W (PInt 1)) default_jws_reg default_7797_reg (AKey k_oct) flat_jws);
  escapes (jwe_decrypt_json (all_but 4) (W (PInt 1)) default_jwe_reg (AKeySet [k_oct]) SNone flat_jwe);
  escapes (jws_deserialize_compact (all_but 5) (W (D [("alg", T "HS256"); ("crit", PInt 0)])) default_jws_reg (AKey k_oct) (tok "e30.e30.e30"));
  escapes (jwe_decrypt_json (all_but 6) (W (D [])) default_jwe_reg (AKey k_oct) SNone flat_jwe);
  escapes (jwe_decrypt_compact (all_but 7) (W (D [("alg", T "dir"); ("enc", PList [])])) default_jwe_reg (AKey k_oct) SNone (tok "e30..AAAAAAAAAAAAAAAA.."));
  escapes (jws_get_alg (all_but 8) default_jws_reg (PList []));
  escapes (jwe_decrypt_compact (all_but 9) (W (ecdh_header (epk_ec "P-999" []))) default_jwe_reg (AKey k_ec) SNone (tok "e30..AAAAAAAAAAAAAAAA.."));
  escapes (jwe_decrypt_compact (all_but 10) (W (ecdh_header (D [("kty", T "OKP"); ("crv", T "X999"); ("x", T "AA")]))) default_jwe_reg (AKey k_x25519) SNone (tok "e30..AAAAAAAAAAAAAAAA.."));
  escapes (jwe_decrypt_compact (all_but 11) (W (D [("alg", T "PBES2-HS256+A128KW"); ("enc", T "A128GCM"); ("p2s", T "AA"); ("p2c", PInt (-1)%Z)])) jwe_all (AKey k_oct) SNone (tok "e30..AAAAAAAAAAAAAAAA.."));
  escapes (jwe_decrypt_compact (all_but 12) (W (D [("alg", T "dir"); ("enc", T "A128GCM"); ("zip", T "DEF")])) default_jwe_reg (AKey k_oct) SNone (tok "e30..AAAAAAAAAAAAAAAA.."));
  escapes (jws_deserialize_compact (all_but 13) (W (D [("alg", T "EdDSA")])) jws_all (AKey k_x25519) (tok "e30.e30.e30"));
  escapes (r7797_deserialize_compact (all_but 14) (W (D [("alg", T "HS256"); ("b64", PBool false); ("crit", PList [T "b64"])])) default_jws_reg default_7797_reg (AKey k_rsa) (tok "e30.e30.e30"));
  escapes (jwe_decrypt_json (all_but 15) (W (D [("alg", T "A128KW"); ("enc", T "A128GCM")])) default_jwe_reg (AKey k_oct) SNone flat_jwe);
  escapes (jws_deserialize_compact (all_but 16) Wrec default_jws_reg (AKey k_oct) (tok "e30.e30.e30"));
  escapes (jwt_decode_jws (all_but 17) (wprims jclaims) default_jws_reg (AKey k_oct) (tok "e30.W10.e30"));
  escapes (validate_use_ops (all_but 18) (D [("use", PList []); ("key_ops", PList [])]));
  escapes (jwe_decrypt_compact (all_but 19) (W pu_header) jwe_all (AKey k_ec) SNone (tok "e30..AAAAAAAAAAAAAAAA.."));
  escapes (jwe_decrypt_compact (all_but 20) (W pu_header_skid) jwe_all (AKey k_ec) (SSet [k_ec; k_rsa_kid]) (tok "e30..AAAAAAAAAAAAAAAA.."));
  escapes (jwe_decrypt_compact (all_but 21) (W pu_header) jwe_all (AKey k_rsa) (SKey k_ec) (tok "e30..AAAAAAAAAAAAAAAA.."));
  escapes (jwe_decrypt_json (all_but 22) (W (D [("alg", T "dir"); ("enc", T "A128GCM")])) default_jwe_reg (AKeySet [k_oct; k_ec]) SNone flat_jwe_deep_kid)
].

Lemma guards_are_necessary :
  length escape_witnesses = length (guards_list all_guards) /\
  forall i, (i < length (guards_list all_guards))%nat -> nth i escape_witnesses false = true.
Proof.
  split; [reflexivity|]. intros i Hi.
  assert (F : forallb (fun b => b) escape_witnesses = true) by (vm_compute; reflexivity).
  rewrite forallb_forall in F. apply F. apply nth_In.
  change (length escape_witnesses) with (length (guards_list all_guards)). exact Hi.
Qed.

(* ------------------------------------------------------------------ *)
(* the classes each primitive's contract allows, as a table             *)
(* ------------------------------------------------------------------ *)
Definition J (c : jcls) := EJose c.
Definition contract_classes : list (string * list exn) := [
  ("json.loads", [EValue; ERuntime]);                                   (* JSONDecodeError / UnicodeDecodeError; RecursionError *)
  ("alg.verify", [EValue; J UnsupportedKeyOperationError]);             (* with a key of the algorithm's type *)
  ("enc.decrypt", [EValue; J DecodeError]);
  ("zlib", [EZlib; J ExceededSizeError]);
  ("rsa.decrypt", [J DecodeError]);
  ("aes_key_unwrap", [J DecodeError; EValue]);
  ("gcm.unwrap", [EValue; J DecodeError]);
  ("pbkdf2", [EValue]);                                                 (* for a count in 1..2^31-1 *)
  ("import_epk", [EValue]);
  ("ecdh", [EValue]);
  ("concat_kdf", [EValue])
].
Definition classes_of (name : string) : list exn :=
  match find (fun p => String.eqb (fst p) name) contract_classes with Some (_, l) => l | None => [] end.
Definition within {A} (name : string) (m : res A) : Prop :=
  match m with Err e => existsb (exn_eqb e) (classes_of name) = true | Ok _ => True end.

(* a world whose primitives stay within the table satisfies the contract of the theorems *)
Definition prims_in_classes (P : prims) : Prop :=
  (forall b, within "json.loads" (p_json_loads P b)) /\
  (forall row k m s, In row jws_alg_table -> k_kty k = ja_key_type row ->
     (ja_family row = "EdDSA"%string -> ed_curve k = true) -> within "alg.verify" (p_jws_verify P (ja_name row) k m s)) /\
  (forall n ct tag cek iv aad, within "enc.decrypt" (p_enc_decrypt P n ct tag cek iv aad)) /\
  (forall b, within "zlib" (p_inflate P b)) /\
  (forall a k ek, within "rsa.decrypt" (p_rsa_decrypt P a k ek)) /\
  (forall kek ek, within "aes_key_unwrap" (p_aes_unwrap P kek ek)) /\
  (forall k iv tag ek, within "gcm.unwrap" (p_gcm_unwrap P k iv tag ek)) /\
  (forall a k s c, (1 <= c <= 2147483647)%Z -> within "pbkdf2" (p_pbkdf2 P a k s c)) /\
  (forall kty d priv, within "import_epk" (p_import_epk P kty d priv)) /\
  (forall k e, within "ecdh" (p_ecdh P k e)) /\
  (forall s f n, within "concat_kdf" (p_concat_kdf P s f n)).

Lemma within_safe {A} name (m : res A) :
  forallb allowed_exn (classes_of name) = true -> within name m -> safe m.
Proof.
  intros F W. destruct m as [a|e]; [exact I|]. cbn in W |- *.
  apply existsb_exists in W. destruct W as [x [Ix Ex]].
  rewrite forallb_forall in F. specialize (F x Ix).
  destruct e, x; try discriminate; try exact F; try reflexivity.
Qed.

Lemma contract_classes_ok P : prims_in_classes P -> prims_ok P.
Proof.
  intros (H1 & H2 & H3 & H4 & H5 & H6 & H7 & H8 & H9 & H10 & H11).
  unfold prims_ok. repeat split.
  - intros b e E. specialize (H1 b). rewrite E in H1. cbn in H1.
    destruct e; try discriminate; auto.
  - intros. eapply within_safe; [|apply H2; assumption]. reflexivity.
  - intros. eapply within_safe; [|apply H3]. reflexivity.
  - intros b e E. specialize (H4 b). rewrite E in H4. cbn in H4.
    destruct e as [c| | | | | | | | | |]; try discriminate; auto. destruct c; try discriminate. auto.
  - intros. eapply within_safe; [|apply H5]. reflexivity.
  - intros. eapply within_safe; [|apply H6]. reflexivity.
  - intros. eapply within_safe; [|apply H7]. reflexivity.
  - intros. eapply within_safe; [|apply H8; assumption]. reflexivity.
  - intros. eapply within_safe; [|apply H9]. reflexivity.
  - intros. eapply within_safe; [|apply H10]. reflexivity.
  - intros. eapply within_safe; [|apply H11]. reflexivity.
Qed.
