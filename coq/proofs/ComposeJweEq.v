(* ComposeJweEq.v — JWE side: the functions of joserfc modelled both in the JWE
   pipeline model (model/JweMsg.v, JweKeys.v, JweCrypto.v) and in a per-property
   model are equal on all inputs, up to the translations of
   model/ComposeJweDefs.v:
     JWERegistry.get_alg / get_enc / get_zip, registry selection   vs C05Model
     Recipient.headers() (merge order)                             vs C15 merge_parts, C14 headers
     KeySet.get_by_kid, guess_key, _guess_sender_key               vs C14KeySet
     check_use("enc"), check_key_type, check_op_key, RSA size,
       exchange_derive_key, ECDH-1PU _check_enc                    vs C06Model
     the zip step of perform_encrypt                               vs C17Zip *)
From Coq Require Import String List NArith ZArith Bool Lia.
From Model Require Import Base PyVal TableTypes ComposeDefs.
From Model Require Import JweKeys ComposeJweDefs.
From Model Require C05Model C06Model C06Spec C14KeySet C14Spec C15Registry C17Zip.
From Gen Require Import Tables.
From Proofs Require JwsProofs C05Proofs C14Proofs C15Proofs ComposeJwsEq ComposeJwsC06.
Import ListNotations.
Open Scope N_scope.

Notation unsupported := (Err (EJose UnsupportedAlgorithmError)).

(* ================================================================== *)
(* C05 : the allow-list gate                                            *)
(* ================================================================== *)
Lemma gate_eq {R} (f : R -> string) (tbl : list R) g v :
  (do n <- name_of v;
   match n with
   | Some s => match find (fun r => str_eqb (asc (f r)) s) tbl with
               | Some r => do _ <- check_allowed g s; Ok r
               | None => unsupported
               end
   | None => unsupported
   end)
  = C05Model.get_row f tbl (allowed_pv (g_allowed g)) jwe_recommended_drafts v.
Proof.
  unfold C05Model.get_row, C05Model.check_algorithm.
  destruct v; try reflexivity.
  cbn [name_of bind is_str negb]. rewrite C05Proofs.py_in_keys_str. cbn [bind].
  rewrite ComposeJwsEq.str_mem_row_names, ComposeJwsEq.find_row_find.
  destruct (find (fun r => str_eqb (asc (f r)) s) tbl) as [r|]; [|reflexivity].
  cbn [negb]. unfold check_allowed, in_strs.
  destruct (g_allowed g) as [[|a al]|]; cbn [allowed_pv py_truth map].
  - cbn [py_in bind]. rewrite ComposeJwsEq.contains_pnames.
    destruct (existsb (fun x => str_eqb (asc x) s) jwe_recommended_drafts); reflexivity.
  - cbn [py_in bind]. change (PStr a :: map PStr al) with (map PStr (a :: al)).
    rewrite ComposeJwsEq.contains_strs. destruct (str_mem s (a :: al)); reflexivity.
  - cbn [py_in bind]. rewrite ComposeJwsEq.contains_pnames.
    destruct (existsb (fun x => str_eqb (asc x) s) jwe_recommended_drafts); reflexivity.
Qed.

(* the JWE pipeline model is the process state after the drafts are registered *)
Theorem jwe_get_alg_eq g v :
  get_alg g v = C05Model.jwe_get_alg C05Model.w0_drafts (allowed_pv (g_allowed g)) v.
Proof. exact (gate_eq ea_name jwe_alg_table_drafts g v). Qed.
Theorem jwe_get_enc_eq g v :
  get_enc g v = C05Model.jwe_get_enc C05Model.w0_drafts (allowed_pv (g_allowed g)) v.
Proof. exact (gate_eq ee_name jwe_enc_table_drafts g v). Qed.
Theorem jwe_get_zip_eq g v :
  get_zip g v = C05Model.jwe_get_zip C05Model.w0_drafts (allowed_pv (g_allowed g)) v.
Proof. exact (gate_eq ez_name jwe_zip_table_drafts g v). Qed.

(* registry selection of jwe.py: a non-empty algorithms= wins over registry= *)
Theorem jwe_select_eq algs reg :
  C05Model.jwe_select C05Model.w0_drafts (allowed_pv algs) (option_map allowed_pv reg)
  = allowed_pv (jwe_sel algs reg).
Proof.
  unfold C05Model.jwe_select, jwe_sel.
  destruct algs as [[|a l]|]; cbn [allowed_pv py_truth map]; destruct reg as [[r|]|]; reflexivity.
Qed.

(* the gate cannot tell the selected value from allowed_pv (jwe_sel ...) *)
Theorem jwe_select_gate_eq algs reg v vall :
  let g := {| g_allowed := jwe_sel algs reg; g_verify_all := vall |} in
  get_alg g v = C05Model.jwe_get_alg C05Model.w0_drafts
                  (C05Model.jwe_select C05Model.w0_drafts (allowed_pv algs) (option_map allowed_pv reg)) v /\
  get_enc g v = C05Model.jwe_get_enc C05Model.w0_drafts
                  (C05Model.jwe_select C05Model.w0_drafts (allowed_pv algs) (option_map allowed_pv reg)) v /\
  get_zip g v = C05Model.jwe_get_zip C05Model.w0_drafts
                  (C05Model.jwe_select C05Model.w0_drafts (allowed_pv algs) (option_map allowed_pv reg)) v.
Proof.
  cbv zeta. rewrite jwe_get_alg_eq, jwe_get_enc_eq, jwe_get_zip_eq. cbn [g_allowed].
  rewrite (jwe_select_eq algs reg). repeat split; reflexivity.
Qed.

(* the standard tables: what the gate of the state after import accepts, the gate of
   the drafts state accepts with the same row (registration only adds) *)
Lemma find_row_app {R} (f : R -> string) a b n :
  C05Model.find_row f (a ++ b) n =
  match C05Model.find_row f a n with Some r => Some r | None => C05Model.find_row f b n end.
Proof. induction a as [|x a IH]; simpl; [reflexivity|]. destruct (str_eqb _ n); [reflexivity|exact IH]. Qed.

Lemma tables_extend :
  jwe_alg_table_drafts = jwe_alg_table ++ skipn (length jwe_alg_table) jwe_alg_table_drafts /\
  jwe_enc_table_drafts = jwe_enc_table ++ skipn (length jwe_enc_table) jwe_enc_table_drafts /\
  jwe_zip_table_drafts = jwe_zip_table ++ skipn (length jwe_zip_table) jwe_zip_table_drafts /\
  forallb (fun x => existsb (String.eqb x) jwe_recommended_drafts) jwe_recommended = true.
Proof. repeat split; vm_compute; reflexivity. Qed.

Lemma effective_mono a n :
  In (PStr n) (C05Model.effective a jwe_recommended) -> In (PStr n) (C05Model.effective a jwe_recommended_drafts).
Proof.
  destruct a as [[|x l]|]; cbn [C05Model.effective]; auto;
    intro H; apply in_map_iff in H; destruct H as (s & E & I); apply in_map_iff;
    pose proof (proj2 (proj2 (proj2 tables_extend))) as F; rewrite forallb_forall in F;
    specialize (F s I); apply existsb_exists in F; destruct F as (s' & I' & E');
    apply String.eqb_eq in E'; subst s'; exists s; auto.
Qed.

Theorem jwe_gate_standard_to_drafts a n :
  (forall m, C05Model.jwe_get_alg C05Model.w0 (C05Model.pv_of_allowed a) (PStr n) = Ok m ->
             C05Model.jwe_get_alg C05Model.w0_drafts (C05Model.pv_of_allowed a) (PStr n) = Ok m) /\
  (forall m, C05Model.jwe_get_enc C05Model.w0 (C05Model.pv_of_allowed a) (PStr n) = Ok m ->
             C05Model.jwe_get_enc C05Model.w0_drafts (C05Model.pv_of_allowed a) (PStr n) = Ok m) /\
  (forall m, C05Model.jwe_get_zip C05Model.w0 (C05Model.pv_of_allowed a) (PStr n) = Ok m ->
             C05Model.jwe_get_zip C05Model.w0_drafts (C05Model.pv_of_allowed a) (PStr n) = Ok m).
Proof.
  destruct (C05Proofs.gate_all_four C05Model.w0 a n) as (_ & A0 & E0 & Z0).
  destruct (C05Proofs.gate_all_four C05Model.w0_drafts a n) as (_ & A1 & E1 & Z1).
  destruct tables_extend as (TA & TE & TZ & _).
  split; [|split]; intros m H.
  - apply A0 in H. destruct H as [F I]. apply A1. split; [|apply effective_mono; exact I].
    cbn [C05Model.w_alg C05Model.w0_drafts C05Model.w0] in *. rewrite TA, find_row_app, F. reflexivity.
  - apply E0 in H. destruct H as [F I]. apply E1. split; [|apply effective_mono; exact I].
    cbn [C05Model.w_enc C05Model.w0_drafts C05Model.w0] in *. rewrite TE, find_row_app, F. reflexivity.
  - apply Z0 in H. destruct H as [F I]. apply Z1. split; [|apply effective_mono; exact I].
    cbn [C05Model.w_zip C05Model.w0_drafts C05Model.w0] in *. rewrite TZ, find_row_app, F. reflexivity.
Qed.

(* ================================================================== *)
(* headers: Recipient.headers() = merge in the order protected <        *)
(* unprotected < per-recipient (C15 merge_parts, C14 headers)            *)
(* ================================================================== *)
Theorem headers_merge s prot u h :
  headers s prot (optd u) (optd h) = Ok (C15Registry.merge_parts (ser_parts s prot u h)).
Proof.
  unfold headers, C15Registry.merge_parts, ser_parts.
  destruct s; destruct u as [[|ku u]|]; destruct h as [[|kh h]|]; reflexivity.
Qed.

Lemma guest_headers_json s prot u h : s <> Compact ->
  C14KeySet.headers (guest_of s prot u h) = C15Registry.merge_parts (ser_parts s prot u h).
Proof. destruct s; [congruence| |]; intros _; reflexivity. Qed.

Lemma guest_headers_compact prot u : keys_unique (dkeys prot) = true ->
  C14KeySet.headers (guest_of Compact prot u None) = C15Registry.merge_parts (ser_parts Compact prot u None).
Proof.
  intro U. unfold guest_of, C14KeySet.headers, C15Registry.merge_parts, ser_parts.
  cbn [gkind_of C14KeySet.g_kind C14KeySet.g_prot C14KeySet.tr fold_left].
  change (dupdate (dupdate [] prot) []) with (dupdate [] prot).
  symmetry. apply ComposeJwsEq.dupdate_nil_unique. exact U.
Qed.

Definition guest_side (s : ser) (prot : dict) (h : option (list (str * pv))) : Prop :=
  s = Compact -> h = None /\ keys_unique (dkeys prot) = true.

Lemma guest_headers s prot u h : guest_side s prot h ->
  C14KeySet.headers (guest_of s prot u h) = C15Registry.merge_parts (ser_parts s prot u h).
Proof.
  intro G. destruct s.
  - destruct (G eq_refl) as [-> U]. apply guest_headers_compact. exact U.
  - apply guest_headers_json. discriminate.
  - apply guest_headers_json. discriminate.
Qed.

(* ================================================================== *)
(* C14 : key sets                                                       *)
(* ================================================================== *)
Section C14.
  Variable mat : C14KeySet.key -> key.
  Variable use : C14KeySet.key -> pv.
  Notation kk := (kk_of mat use).

  Theorem jwe_get_by_kid_eq ks kid :
    JweKeys.get_by_kid (map kk ks) kid = rmap kk (C14KeySet.get_by_kid ks kid).
  Proof.
    assert (F : find_kid (map kk ks) kid =
                rmap kk (match find (fun k => py_eq (C14KeySet.kid_pv k) kid) ks with
                         | Some k => Ok k | None => Err (EJose InvalidKeyIdError) end)).
    { induction ks as [|k ks IH]; [reflexivity|].
      cbn [map find_kid find kk_of kk_kid]. destruct (py_eq (C14KeySet.kid_pv k) kid); [reflexivity|exact IH]. }
    unfold JweKeys.get_by_kid, C14KeySet.get_by_kid.
    destruct kid; try exact F. destruct ks as [|k [|k2 ks]]; try exact F. reflexivity.
  Qed.

  (* guess_key(key, recipient), use_random = False; a callable is its result (c14_callable) *)
  Theorem jwe_guess_key_eq tbl ch src x idx s prot u h :
    guest_side s prot h -> ksrc0_of mat use src = Some x ->
    JweKeys.guess_key (KPlain x) idx (headers s prot (optd u) (optd h)) =
    rmap (fun kg => kk (fst kg))
         (C14KeySet.guess_key tbl ch (C14KeySet.KFDirect src) (guest_of s prot u h) false).
  Proof.
    intros G X. rewrite headers_merge.
    destruct src as [k|ks|]; cbn [ksrc0_of] in X; inversion X; subst x;
      cbn [JweKeys.guess_key src_at bind C14KeySet.guess_key C14KeySet.resolve rmap fst]; [reflexivity|].
    rewrite andb_false_r, (guest_headers s prot u h G), jwe_get_by_kid_eq.
    change (hget (C15Registry.merge_parts (ser_parts s prot u h)) "kid")
      with (C14KeySet.hget (C15Registry.merge_parts (ser_parts s prot u h)) C14KeySet.s_kid).
    destruct (C14KeySet.get_by_kid ks _); reflexivity.
  Qed.

  (* the only key source C14 has and JweKeys has not: an object that is neither a key
     nor a key set (ValueError "Invalid key" in guess_key) *)
  Lemma ksrc0_of_other : ksrc0_of mat use C14KeySet.KSOther = None.
  Proof. reflexivity. Qed.

  (* _guess_sender_key, use_random = False: C14 resolves, JweKeys adds check_use("enc") *)
  Definition sksrc0_of (sk : C14KeySet.sksrc) : ksrc0 :=
    match sk with
    | C14KeySet.SKKey k => KOne (kk k)
    | C14KeySet.SKSet ks => KSet (map kk ks)
    end.

  Theorem jwe_guess_sender_eq tbl ch sk s prot u h :
    guest_side s prot h ->
    guess_sender (sksrc0_of sk) (headers s prot (optd u) (optd h)) =
    do k <- rmap (fun kg => kk (fst kg))
                 (C14KeySet.guess_sender_key tbl ch sk (guest_of s prot u h) false);
    do _ <- check_use_enc k; Ok k.
  Proof.
    intro G. rewrite headers_merge. unfold guess_sender.
    destruct sk as [k|ks]; cbn [sksrc0_of C14KeySet.guess_sender_key rmap bind fst]; [reflexivity|].
    rewrite (guest_headers s prot u h G).
    change (hget (C15Registry.merge_parts (ser_parts s prot u h)) "skid")
      with (C14KeySet.hget (C15Registry.merge_parts (ser_parts s prot u h)) C14KeySet.s_skid).
    destruct (py_truth (C14KeySet.hget (C15Registry.merge_parts (ser_parts s prot u h)) C14KeySet.s_skid)).
    - rewrite jwe_get_by_kid_eq. destruct (C14KeySet.get_by_kid ks _); reflexivity.
    - reflexivity.
  Qed.

  Theorem jwe_sender_given_eq o :
    JweKeys.sender_given (option_map sksrc0_of o) = option_map sksrc0_of (C14KeySet.sender_given o).
  Proof. destruct o as [[k|[|k ks]]|]; reflexivity. Qed.
End C14.

(* ================================================================== *)
(* C06 : key gates                                                      *)
(* ================================================================== *)
Theorem jwe_check_use_eq kk k6 :
  C06Model.k_use k6 = Some (kk_use kk) -> check_use_enc kk = C06Model.check_use "enc" k6.
Proof. intro U. unfold check_use_enc, C06Model.check_use. rewrite U. reflexivity. Qed.

(* a key without "use" member: key.get("use") is None on both sides *)
Theorem jwe_check_use_eq_absent kk k6 :
  C06Model.k_use k6 = None -> kk_use kk = PNone -> check_use_enc kk = C06Model.check_use "enc" k6.
Proof. intros U N. unfold check_use_enc, C06Model.check_use. rewrite U, N. reflexivity. Qed.

Lemma existsb_ext {A} (f g : A -> bool) l : (forall x, f x = g x) -> existsb f l = existsb g l.
Proof. intro E. induction l as [|x l IH]; simpl; [reflexivity|]. rewrite E, IH. reflexivity. Qed.

Theorem jwe_check_key_type_eq a k use k6 : krel k use k6 ->
  JweCrypto.check_key_type a k = C06Model.jwe_check_key_type a k6.
Proof.
  intro R. unfold JweCrypto.check_key_type, C06Model.jwe_check_key_type, C06Model.mem_str.
  rewrite <- (kr_kty _ _ _ R).
  rewrite (existsb_ext _ (String.eqb (C06Model.kty_str (C06Model.k_kty k6)))); [reflexivity|].
  intro t. rewrite ComposeJwsC06.str_eqb_asc. apply String.eqb_sym.
Qed.

(* JWEKeyWrapping.check_op_key, for an algorithm that declares a key size (every key
   wrapping row of /repo) *)
Theorem jwe_check_op_key_eq a k use k6 sz : krel k use k6 ->
  C06Model.k_kty k6 = C06Model.KOct -> ea_key_size a = Some sz ->
  JweCrypto.check_op_key (key_size_of a) (k_id k) = C06Model.check_op_key a (C06Model.native_of k6 false).
Proof.
  intros R K S. unfold JweCrypto.check_op_key, C06Model.check_op_key, C06Model.native_of, key_size_of.
  rewrite K, S, (kr_bits _ _ _ R K). reflexivity.
Qed.

(* without a declared size the two differ on the empty key (no such row exists) *)
Lemma jwe_check_op_key_differs :
  let a := {| ea_name := "X"; ea_family := "AESKW"; ea_direct := false; ea_tag_aware := false;
              ea_key_types := ["oct"%string]; ea_key_size := None; ea_recommended := false; ea_more := [];
              ea_wrap := ""; ea_hash := ""; ea_p2c := 0; ea_pad := "" |} in
  JweCrypto.check_op_key (key_size_of a) [] = Ok tt /\
  C06Model.check_op_key a (C06Model.NBytes 0) = Err (EJose InvalidKeyLengthError) /\
  forallb (fun r => if String.eqb (ea_family r) "AESKW" || String.eqb (ea_family r) "AESGCMKW"
                       || String.eqb (ea_family r) "PBES2" || String.eqb (ea_family r) "RSA"
                    then match ea_key_size r with Some _ => true | None => false end else true)
          jwe_alg_table_drafts = true.
Proof. cbv zeta. repeat split; vm_compute; reflexivity. Qed.

(* RSA: "A key of size 2048 bits or larger MUST be used" (encryption side) *)
Theorem jwe_rsa_size_eq a priv bits sz : ea_key_size a = Some sz ->
  (if bits <? key_size_of a then Err (EJose InvalidKeyLengthError) else Ok tt) =
  C06Model.rsa_size_gate a (C06Model.NRsa priv bits).
Proof. intro S. unfold C06Model.rsa_size_gate, key_size_of. rewrite S. reflexivity. Qed.

(* ECDH-1PU _check_enc *)
Theorem jwe_check_enc_1pu_eq a e : JweCrypto.check_enc_1pu a e = C06Model.check_enc_1pu a e.
Proof.
  unfold JweCrypto.check_enc_1pu, C06Model.check_enc_1pu, C06Model.enc_is_cbc, fam_is.
  change (@nil N) with (asc ""). rewrite !ComposeJwsC06.str_eqb_asc. reflexivity.
Qed.

(* exchange_derive_key: the gate of JweCrypto.exchange, for the key types that have the
   method (EC, OKP) *)
Lemma exchange_unfold O self other :
  exchange O self other =
  if exch_gate self other then o_ecdh O (k_id self) (k_id other) else Err (EJose InvalidExchangeKeyError).
Proof. reflexivity. Qed.

Lemma str_eqb_asc_l a s : str_eqb (asc a) s = str_eqb s (asc a).
Proof. apply C15Proofs.str_eqb_sym. Qed.

Theorem jwe_exchange_gate_eq self us s6 other uo o6 :
  krel self us s6 -> krel other uo o6 ->
  C06Model.k_kty s6 = C06Model.KEc \/ C06Model.k_kty s6 = C06Model.KOkp ->
  C06Model.exchange_derive_key s6 o6 =
  if exch_gate self other then Ok tt else Err (EJose InvalidExchangeKeyError).
Proof.
  intros RS RO KS.
  destruct RS as [SK SC SP _ _ _]. destruct RO as [OK OC OP OO _ _].
  unfold exch_gate, C06Model.exchange_derive_key, C06Model.get_op_key, C06Model.check_key_op.
  rewrite OO. cbn [bind].
  assert (FD : exists rv, C06Model.find_op "deriveKey" = Some rv /\ C06Model.op_needs_private rv = false)
    by (eexists; split; vm_compute; reflexivity).
  destruct FD as (rv & FD & PD). rewrite FD, PD. cbn [andb bind].
  rewrite <- SK, <- SC, <- OK, <- OC, <- SP. unfold s_.
  rewrite !ComposeJwsC06.str_eqb_asc.
  destruct KS as [KS|KS]; rewrite KS; cbn [C06Model.kty_str String.eqb Ascii.eqb Bool.eqb].
  - destruct (C06Model.k_kty o6) eqn:KO; cbn [C06Model.kty_str String.eqb Ascii.eqb Bool.eqb bind andb];
      try reflexivity.
    unfold C06Model.curve_name. rewrite KO. cbn [bind].
    destruct (C06Model.k_priv s6); [|reflexivity]. cbn [andb].
    destruct (String.eqb (C06Model.k_crv s6) (C06Model.k_crv o6)); reflexivity.
  - unfold C06Model.native_of.
    destruct (C06Model.k_kty o6) eqn:KO; cbn [C06Model.kty_str String.eqb Ascii.eqb Bool.eqb andb];
      rewrite ?andb_false_r; cbn [orb]; try reflexivity.
    destruct (C06Model.k_priv s6); cbn [andb]; [|reflexivity].
    destruct (String.eqb (C06Model.k_crv s6) (C06Model.k_crv o6)) eqn:E.
    + apply String.eqb_eq in E. rewrite <- E. cbn [andb]. rewrite !andb_diag. reflexivity.
    + cbn [andb].
      destruct (String.eqb (C06Model.k_crv s6) "X25519") eqn:E1;
      destruct (String.eqb (C06Model.k_crv o6) "X25519") eqn:F1;
      destruct (String.eqb (C06Model.k_crv s6) "X448") eqn:E2;
      destruct (String.eqb (C06Model.k_crv o6) "X448") eqn:F2; cbn [andb orb]; try reflexivity; exfalso;
      repeat match goal with H : String.eqb _ _ = true |- _ => apply String.eqb_eq in H end;
      try congruence;
      match goal with
      | A : C06Model.k_crv s6 = ?c, B : C06Model.k_crv o6 = ?c |- _ =>
          rewrite A, B, String.eqb_refl in E; discriminate
      end.
Qed.

(* for a key type without the method the classes differ (AttributeError in C06 and /repo,
   InvalidExchangeKeyError in JweCrypto.exchange); unreachable: check_key_type comes first *)
Lemma jwe_exchange_differs O :
  let self := {| k_kty := s_ "oct"; k_crv := []; k_priv := true; k_id := [1] |} in
  let s6 := {| C06Model.k_kty := C06Model.KOct; C06Model.k_crv := ""; C06Model.k_bits := 8;
               C06Model.k_priv := true; C06Model.k_use := None; C06Model.k_ops := None; C06Model.k_alg := None |} in
  exchange O self self = Err (EJose InvalidExchangeKeyError) /\
  C06Model.exchange_derive_key s6 s6 = Err EAttr.
Proof. cbv zeta. split; reflexivity. Qed.

(* ================================================================== *)
(* C17 : the zip step of perform_encrypt                                *)
(* ================================================================== *)
Lemma strip_zlib_slice z : strip_zlib z = C17Zip.py_slice_2_m4 z.
Proof. unfold strip_zlib, C17Zip.py_slice_2_m4. f_equal. lia. Qed.

Section C17Enc.
  Variable O : oracles.
  Variable zcomp : bytes -> bytes.
  Hypothesis deflate_is_zlib : forall m, o_deflate O m = Ok (zcomp m).

  Theorem zip_compress_c17 m : zip_compress O m = Ok (C17Zip.compress zcomp m).
  Proof. unfold zip_compress, C17Zip.compress. rewrite deflate_is_zlib. cbn [bind]. rewrite strip_zlib_slice. reflexivity. Qed.

  Theorem zip_plain_c17 g prot m :
    zip_plain O g prot m =
    if dmem prot (s_ "zip") then do _ <- get_zip g (hget prot "zip"); Ok (C17Zip.compress zcomp m) else Ok m.
  Proof. unfold zip_plain. destruct (dmem prot (s_ "zip")); [|reflexivity]. rewrite zip_compress_c17. reflexivity. Qed.
End C17Enc.
