(* ComposeJwsEntry.v — the corollaries of ComposeJwsPipe.v spelled out per entry
   point of model/Jws.v (statements used by props/ComposeJws.v). *)
From Coq Require Import String List NArith ZArith Bool Lia.
From Model Require Import Base PyVal TableTypes ComposeDefs.
From Model Require Import Jws.
From Model Require C05Model C14KeySet C14Spec C06Model C06Spec C15Registry C15Spec.
From Gen Require Import Tables.
From Proofs Require Import JwsProofs.
From Proofs Require C01Proofs C03Proofs ComposeJwsEq ComposeJwsC06.
From Proofs Require Import ComposeJwsPipe.
Import ListNotations.
Open Scope N_scope.

Notation jws_header_ok := (C15Spec.header_ok jws_default_header_registry true).

Section Entry.
  Variable json_loads : bytes -> res pv.
  Variable json_dumps : pv -> bytes.
  Variable mac : string -> N -> bytes -> res bytes.
  Variable pk_sign : jws_alg_row -> N -> bytes -> res bytes.
  Variable pk_verify : jws_alg_row -> N -> bytes -> bytes -> res bool.
  Variable ec_sign : jws_alg_row -> N -> bytes -> res (Z * Z).
  Variable ec_verify : jws_alg_row -> N -> bytes -> Z -> Z -> res bool.
  Variable choose : list key -> option key.
  Variable th : key -> str.
  Notation t14 := (to14 th).
  Notation ran := (ran mac pk_verify ec_verify).
  Notation signed := (signed mac pk_sign ec_sign choose).
  Notation deser_compact := (deserialize_compact json_loads mac pk_verify ec_verify).
  Notation deser_json := (deserialize_json json_loads mac pk_verify ec_verify).
  Notation deser_compact97 := (deserialize_compact97 json_loads mac pk_verify ec_verify).
  Notation ser_compact := (serialize_compact json_dumps mac pk_sign ec_sign choose).
  Notation ser_compact97 := (serialize_compact97 json_dumps mac pk_sign ec_sign choose).
  Notation sign_flat := (sign_flattened_json json_dumps mac pk_sign ec_sign choose).
  Notation sign_general := (sign_general_json json_dumps mac pk_sign ec_sign choose).

  (* ---------------- C15 ---------------- *)
  Theorem c15_compact tok src algs o :
    deser_compact tok src algs = Ok o ->
    exists h, co_protected o = PDict h /\ jws_header_ok h = true.
  Proof.
    intro H. destruct (compact_ran _ _ _ _ _ _ _ _ H) as (h & r & k & E & R).
    exists h. split; [exact E|]. exact (ran_c15 _ _ _ false algs _ _ _ _ _ _ R).
  Qed.

  Theorem c15_flat p sg src algs o :
    deser_json (JFlat p sg) src algs = Ok o ->
    exists m h, jo_members o = [m] /\ member_headers m = Ok h /\ jws_header_ok h = true.
  Proof.
    intro H. destruct (flat_ran _ _ _ _ _ _ _ _ _ H) as (m & h & pseg & sseg & r & k & M & MH & _ & _ & R).
    exists m, h. split; [exact M|]. split; [exact MH|]. exact (ran_c15 _ _ _ false algs _ _ _ _ _ _ R).
  Qed.

  Theorem c15_general p sgs src algs o :
    deser_json (JGen p sgs) src algs = Ok o ->
    jo_members o <> [] /\
    Forall (fun m => exists h, member_headers m = Ok h /\ jws_header_ok h = true) (jo_members o).
  Proof.
    intro H. destruct (general_ran _ _ _ _ _ _ _ _ _ H) as (NE & pseg & _ & F).
    split.
    - intro E. rewrite E in F. inversion F. subst. contradiction.
    - clear NE H. induction F as [|m sg ms sgs0 (h & sseg & r & k & MH & _ & R) F IH]; [constructor|]. constructor; [|exact IH].
      exists h. split; [exact MH|]. exact (ran_c15 _ _ _ false algs _ _ _ _ _ _ R).
  Qed.

  Theorem c15_compact97 tok src payload algs o :
    deser_compact97 tok src payload algs = Ok o ->
    exists h, co_protected o = PDict h /\ hdr_spec (dmem h s_b64) h = true.
  Proof.
    intro H. destruct (compact97_ran _ _ _ _ _ _ _ _ _ H) as (h & r & k & msg & E & R).
    exists h. split; [exact E|]. exact (ran_c15 _ _ _ _ algs _ _ _ _ _ _ R).
  Qed.

  Theorem c15_serialize_compact protected payload src algs tok :
    ser_compact protected payload src algs = Ok tok -> jws_header_ok protected = true.
  Proof.
    intro H. destruct (serialize_compact_signed _ _ _ _ _ _ _ _ _ _ H) as (okid & r & k & sig & S & _).
    exact (signed_c15 _ _ _ _ false algs _ _ _ _ _ _ _ S).
  Qed.

  Theorem c15_serialize_flat m payload algs src v :
    sign_flat m payload (reg15 algs) src = Ok v -> jws_header_ok (smember_headers m) = true.
  Proof.
    intro H. destruct (sign_flat_signed _ _ _ _ _ _ _ _ _ _ H) as (sg & okid & r & k & sig & msg & _ & S & _).
    exact (signed_c15 _ _ _ _ false algs _ _ _ _ _ _ _ S).
  Qed.

  Theorem c15_serialize_general ms payload algs src v :
    sign_general ms payload (reg15 algs) src = Ok v ->
    Forall (fun m => jws_header_ok (smember_headers m) = true) ms.
  Proof.
    intro H. destruct (sign_general_signed _ _ _ _ _ _ _ _ _ _ H) as (sgs & _ & F). clear H.
    induction F as [|m sg ms0 sgs0 (okid & r & k & sig & msg & S & _) F IH]; [constructor|]. constructor; [|exact IH].
    exact (signed_c15 _ _ _ _ false algs _ _ _ _ _ _ _ S).
  Qed.

  Theorem c15_serialize_compact97 lenient protected payload src algs tok :
    ser_compact97 lenient protected payload src algs = Ok tok ->
    hdr_spec (dmem protected s_b64) protected = true.
  Proof.
    intro H. destruct (serialize_compact97_signed _ _ _ _ _ _ _ _ _ _ _ H) as (okid & r & k & sig & msg & S).
    exact (signed_c15 _ _ _ _ _ algs _ _ _ _ _ _ _ S).
  Qed.

  (* ---------------- C05 ---------------- *)
  Theorem c05_compact tok src algs o :
    deser_compact tok src algs = Ok o ->
    exists h s r, co_protected o = PDict h /\ dget h s_alg = Some (PStr s) /\
      C05Model.find_row ja_name jws_alg_table s = Some r /\
      In (PStr s) (C05Model.effective (allowed_list algs) jws_recommended) /\
      ja_family r <> "none"%string /\ s <> asc "none".
  Proof.
    intro H. destruct (compact_ran _ _ _ _ _ _ _ _ H) as (h & r & k & E & R).
    destruct (ran_c05 _ _ _ _ _ _ _ _ _ _ R) as (s & GA & F & I & NF & NS).
    exists h, s, r. auto 10.
  Qed.

  Theorem c05_compact_default tok src algs o :
    algs = None \/ algs = Some [] ->
    deser_compact tok src algs = Ok o ->
    exists h s, co_protected o = PDict h /\ dget h s_alg = Some (PStr s) /\
      In s (map asc ["HS256"; "RS256"; "ES256"]%string).
  Proof.
    intros A H. destruct (compact_ran _ _ _ _ _ _ _ _ H) as (h & r & k & E & R).
    destruct (ran_c05_default _ _ _ false _ _ _ _ _ _ algs A R) as (s & GA & I).
    exists h, s. auto.
  Qed.

  Theorem c05_none_compact tok src algs o :
    deser_compact tok src algs = Ok o ->
    py_getitem_str (co_protected o) s_alg <> Ok (PStr (asc "none")).
  Proof.
    intro H. destruct (c05_compact _ _ _ _ H) as (h & s & r & E & GA & _ & _ & _ & NS).
    rewrite E. cbn [py_getitem_str]. rewrite GA. intro Q. inversion Q. contradiction.
  Qed.

  Theorem c05_serialize_compact protected payload src algs tok :
    ser_compact protected payload src algs = Ok tok ->
    exists s r, dget protected s_alg = Some (PStr s) /\
      C05Model.find_row ja_name jws_alg_table s = Some r /\
      In (PStr s) (C05Model.effective (allowed_list algs) jws_recommended).
  Proof.
    intro H. destruct (serialize_compact_signed _ _ _ _ _ _ _ _ _ _ H) as (okid & r & k & sig & S & _).
    destruct (signed_c05 _ _ _ _ _ _ _ _ _ _ _ _ S) as (s & GA & F & I). exists s, r. auto.
  Qed.

  (* ---------------- C14 ---------------- *)
  Theorem c14_compact tok ks algs o :
    deser_compact tok (KSet ks) algs = Ok o ->
    exists h r k sig,
      co_protected o = PDict h /\ b64d (co_sseg o) = Ok sig /\
      alg_verify mac pk_verify ec_verify r k (co_hseg o ++ 46 :: co_pseg o) sig = Ok true /\
      In k ks /\
      C14KeySet.get_by_kid (map t14 ks) (kid_of h) = Ok (t14 k) /\
      ((kid_of h = PNone /\ map t14 ks = [t14 k]) \/ C14Spec.first_with (map t14 ks) (kid_of h) (t14 k)) /\
      (kid_of h <> PNone -> C14Spec.first_with (map t14 ks) (kid_of h) (t14 k)) /\
      (kid_of h = PNone -> length ks = 1%nat -> ks = [k]).
  Proof.
    intro H. destruct (compact_ran _ _ _ _ _ _ _ _ H) as (h & r & k & E & R).
    destruct (ran_c14 _ _ _ th _ _ _ _ _ _ _ R) as (I & G & L & N & S).
    destruct R as (algv & sig & _ & _ & _ & _ & _ & _ & BD & AV).
    exists h, r, k, sig. auto 12.
  Qed.

  Hypothesis choose_in : forall l x, choose l = Some x -> In x l.

  Theorem c14_serialize_compact protected payload ks algs tok :
    ser_compact protected payload (KSet ks) algs = Ok tok ->
    exists okid k hseg sseg,
      tok = hseg ++ 46 :: b64e payload ++ 46 :: sseg /\
      hseg = json_b64encode json_dumps (set_kid protected okid) /\
      In k ks /\
      (py_truth (kid_of protected) = true ->
         okid = None /\ C14Spec.first_with (map t14 ks) (kid_of protected) (t14 k)) /\
      (py_truth (kid_of protected) = false ->
         exists id, okid = Some id /\ k_kid k = Some id /\
                    dget (set_kid protected okid) s_kid = Some (PStr id)).
  Proof.
    intro H. destruct (serialize_compact_signed _ _ _ _ _ _ _ _ _ _ H) as (okid & r & k & sig & S & _ & T).
    destruct (signed_c14 _ _ _ _ th choose_in _ _ _ _ _ _ _ _ S) as (I & A & B).
    exists okid, k. eexists. eexists. split; [rewrite T, <- app_assoc; reflexivity|].
    split; [reflexivity|]. split; [exact I|]. split; [|exact B].
    intro Q. destruct (A Q) as (X & _ & Y). auto.
  Qed.

  (* ---------------- C06 ---------------- *)
  Theorem c06_compact tok src algs o :
    deser_compact tok src algs = Ok o ->
    exists h r k sig k6,
      co_protected o = PDict h /\ guess_key src (PDict h) = Ok k /\ b64d (co_sseg o) = Ok sig /\
      alg_verify mac pk_verify ec_verify r k (co_hseg o ++ 46 :: co_pseg o) sig = Ok true /\
      to06 k = Some k6 /\ (C06Spec.key_wf k6 -> C06Spec.jws_suitable (ja_name r) false k6).
  Proof.
    intro H. destruct (compact_ran _ _ _ _ _ _ _ _ H) as (h & r & k & E & R).
    destruct (ran_c06 _ _ _ _ _ _ _ _ _ _ R) as (k6 & T & W).
    destruct R as (algv & sig & _ & _ & _ & GK & _ & _ & BD & AV).
    exists h, r, k, sig, k6. auto 10.
  Qed.

  Theorem c06_serialize_compact protected payload src algs tok :
    ser_compact protected payload src algs = Ok tok ->
    exists okid r k k6,
      guess_key_sign choose src protected = Ok (k, okid) /\
      to06 k = Some k6 /\ (C06Spec.key_wf k6 -> C06Spec.jws_suitable (ja_name r) true k6).
  Proof.
    intro H. destruct (serialize_compact_signed _ _ _ _ _ _ _ _ _ _ H) as (okid & r & k & sig & S & _).
    destruct (signed_c06 _ _ _ _ true _ _ _ _ _ _ _ _ S) as (k6 & T & W).
    destruct S as (algv & _ & _ & _ & GK & _).
    exists okid, r, k, k6. auto.
  Qed.
End Entry.
