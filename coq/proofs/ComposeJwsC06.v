(* ComposeJwsC06.v — an accepting run of the algorithm models of model/Jws.v
   (alg_sign / alg_verify after check_use / check_key_type / check_alg) is an
   accepting run of C06's [jws_run] on the translated key, with the standard
   primitive behaviour [prim_std]; hence C06's theorem [p_c06_jws] (success =>
   jws_suitable) applies to the key the pipeline used. *)
From Coq Require Import String List NArith ZArith Bool Lia.
From Model Require Import Base PyVal TableTypes ComposeDefs.
From Model Require Jws C06Model C06Spec.
From Gen Require Import Tables.
From Proofs Require JwsProofs C06Proofs ComposeJwsEq.
Import ListNotations.
Open Scope N_scope.

(* ---------- names: code-point strings vs Coq strings ---------- *)
Lemma N_of_ascii_inj a b : N_of_ascii a = N_of_ascii b -> a = b.
Proof. intro H. rewrite <- (ascii_N_embedding a), <- (ascii_N_embedding b), H. reflexivity. Qed.

Lemma str_eqb_asc a : forall b, str_eqb (asc a) (asc b) = String.eqb a b.
Proof.
  induction a as [|x a IH]; destruct b as [|y b]; try reflexivity.
  cbn [asc]. unfold str_eqb in *. cbn [list_eqb String.eqb].
  rewrite IH. destruct (Ascii.eqb x y) eqn:E.
  - apply Ascii.eqb_eq in E. subst. rewrite N.eqb_refl. reflexivity.
  - destruct (N.eqb (N_of_ascii x) (N_of_ascii y)) eqn:F; [|reflexivity].
    apply N.eqb_eq, N_of_ascii_inj in F. subst. rewrite Ascii.eqb_refl in E. discriminate.
Qed.

Lemma find_alg_find_jws s r : Jws.find_alg s = Some r ->
  In r jws_alg_table /\ asc (ja_name r) = s /\ C06Model.find_jws (ja_name r) = Some r.
Proof.
  unfold Jws.find_alg, C06Model.find_jws. intro H.
  pose proof (find_some _ _ H) as [I E]. apply str_eqb_eq in E.
  split; [exact I|]. split; [exact E|].
  rewrite <- H. apply ComposeJwsEq.find_ext'. intro x. rewrite <- E. symmetry. apply str_eqb_asc.
Qed.

Lemma get_alg_find rg v r : Jws.get_alg rg v = Ok r -> exists s, v = PStr s /\ Jws.find_alg s = Some r.
Proof.
  unfold Jws.get_alg. destruct v; try discriminate.
  destruct (Jws.find_alg s) as [r'|] eqn:FA; [|discriminate].
  intro H. cbv zeta in H.
  match type of H with (if ?c then _ else _) = _ => destruct c end; [|discriminate].
  inversion H. subst. exists s. split; [reflexivity|exact FA].
Qed.

(* ---------- table facts ---------- *)
Lemma find_op_verify : exists rv, C06Model.find_op "verify" = Some rv /\ C06Model.op_needs_private rv = false.
Proof. eexists. split; vm_compute; reflexivity. Qed.
Lemma find_op_sign : exists rv, C06Model.find_op "sign" = Some rv /\ C06Model.op_needs_private rv = true.
Proof. eexists. split; vm_compute; reflexivity. Qed.

Lemma ec_rows_have_curve r : In r jws_alg_table -> String.eqb (ja_family r) "EC" = true ->
  exists c, C06Model.find_curve (ja_curve r) = Some c.
Proof.
  intros I E.
  assert (F : forallb (fun r => if String.eqb (ja_family r) "EC"
                                then match C06Model.find_curve (ja_curve r) with Some _ => true | None => false end
                                else true) jws_alg_table = true) by (vm_compute; reflexivity).
  rewrite forallb_forall in F. specialize (F r I). rewrite E in F.
  destruct (C06Model.find_curve (ja_curve r)) as [c|]; [eauto|discriminate].
Qed.

Lemma kty_str_inv t : (C06Model.kty_str t = "oct"%string -> t = C06Model.KOct) /\
                      (C06Model.kty_str t = "RSA"%string -> t = C06Model.KRsa) /\
                      (C06Model.kty_str t = "EC"%string -> t = C06Model.KEc) /\
                      (C06Model.kty_str t = "OKP"%string -> t = C06Model.KOkp).
Proof. destruct t; repeat split; intro H; try reflexivity; discriminate. Qed.

Section Sim.
  Variable mac : string -> N -> bytes -> res bytes.
  Variable pk_sign : jws_alg_row -> N -> bytes -> res bytes.
  Variable pk_verify : jws_alg_row -> N -> bytes -> bytes -> res bool.
  Variable ec_sign : jws_alg_row -> N -> bytes -> res (Z * Z).
  Variable ec_verify : jws_alg_row -> N -> bytes -> Z -> Z -> res bool.

  Lemma mistyped_eqb k s (e1 : exn) :
    (if String.eqb (Jws.k_kty k) s then @None exn else Some e1) = None -> Jws.k_kty k = s.
  Proof. destruct (String.eqb (Jws.k_kty k) s) eqn:E; [intros _; apply String.eqb_eq; exact E | discriminate]. Qed.

  (* verification *)
  Lemma verify_sim r k k6 msg sig :
    In r jws_alg_table -> to06 k = Some k6 ->
    Jws.alg_verify mac pk_verify ec_verify r k msg sig = Ok true ->
    exists siglen, C06Model.jws_verify C06Model.prim_std r k6 true siglen = Ok true.
  Proof.
    intros I T H.
    destruct (ComposeJwsEq.to06_fields _ _ T) as (K & C & _).
    destruct find_op_verify as (rv & FV & PV).
    assert (GOK : Jws.check_key_op k "verify" = Ok tt ->
                  C06Model.get_op_key "verify" k6 = Ok (C06Model.native_of k6 false)).
    { intro E. unfold C06Model.get_op_key.
      rewrite <- (ComposeJwsEq.check_key_op_eq k k6 "verify" T (proj2 ComposeJwsEq.find_op_sign_verify)).
      rewrite E. cbn [bind]. rewrite FV, PV. reflexivity. }
    unfold Jws.alg_verify, Jws.fam_of in H. unfold C06Model.jws_verify.
    destruct (String.eqb (ja_family r) "none") eqn:F0; [discriminate|].
    destruct (String.eqb (ja_family r) "HMAC") eqn:F1.
    { (* HMAC *)
      apply JwsProofs.bind_ok in H. destruct H as (u & E & H). destruct u.
      destruct (Jws.mistyped Jws.FHmac k) eqn:M; [discriminate|].
      apply mistyped_eqb in M. rewrite <- K in M.
      exists 0. rewrite (GOK E). cbn [bind].
      destruct (kty_str_inv (C06Model.k_kty k6)) as (X & _).
      unfold C06Model.native_of. rewrite (X M). reflexivity. }
    assert (RS : forall X Y : res bool,
               match (if String.eqb (ja_family r) "RSA" then Jws.FRsa
                      else if String.eqb (ja_family r) "PSS" then Jws.FPss
                      else if String.eqb (ja_family r) "EC" then Jws.FEc
                      else if String.eqb (ja_family r) "EdDSA" then Jws.FEd else Jws.FUnknown) with
               | Jws.FRsa | Jws.FPss => X | _ => Y end =
               if String.eqb (ja_family r) "RSA" || String.eqb (ja_family r) "PSS" then X else Y).
    { intros X Y. destruct (String.eqb (ja_family r) "RSA"); [reflexivity|].
      destruct (String.eqb (ja_family r) "PSS"); [reflexivity|]. cbn [orb].
      destruct (String.eqb (ja_family r) "EC"); [reflexivity|].
      destruct (String.eqb (ja_family r) "EdDSA"); reflexivity. }
    destruct (String.eqb (ja_family r) "RSA" || String.eqb (ja_family r) "PSS") eqn:F2.
    { (* RSA / PSS *)
      assert (H' : (do _ <- Jws.check_key_op k "verify";
                    match Jws.mistyped Jws.FRsa k with
                    | Some e => Err e
                    | None => pk_verify r (Jws.k_id k) msg sig
                    end) = Ok true).
      { apply orb_true_iff in F2. destruct F2 as [F2|F2].
        - rewrite F2 in H. exact H.
        - destruct (String.eqb (ja_family r) "RSA"); [exact H|]. rewrite F2 in H. exact H. }
      clear H. apply JwsProofs.bind_ok in H'. destruct H' as (u & E & H). destruct u.
      destruct (Jws.mistyped Jws.FRsa k) eqn:M; [discriminate|].
      unfold Jws.mistyped in M.
      destruct (String.eqb (Jws.k_kty k) "RSA") eqn:KR;
        [|destruct (String.eqb (Jws.k_kty k) "oct"); discriminate].
      apply String.eqb_eq in KR. rewrite <- K in KR.
      exists 0. rewrite (GOK E). cbn [bind].
      destruct (kty_str_inv (C06Model.k_kty k6)) as (_ & X & _).
      unfold C06Model.native_of. rewrite (X KR). reflexivity. }
    apply orb_false_iff in F2. destruct F2 as [F2a F2b]. rewrite F2a, F2b in H.
    destruct (String.eqb (ja_family r) "EC") eqn:F3.
    { (* EC *)
      destruct (Jws.mistyped Jws.FEc k) eqn:M; [discriminate|].
      unfold Jws.mistyped in M.
      destruct (String.eqb (Jws.k_kty k) "EC") eqn:KE;
        [|destruct (String.eqb (Jws.k_kty k) "OKP"); discriminate].
      apply String.eqb_eq in KE. rewrite <- K in KE.
      destruct (kty_str_inv (C06Model.k_kty k6)) as (_ & _ & X & _). specialize (X KE).
      destruct (negb (String.eqb (Jws.k_crv k) (ja_curve r))) eqn:CV; [discriminate|].
      apply negb_false_iff in CV.
      destruct (negb (Nat.eqb (length sig) (2 * Jws.ec_len k))) eqn:LN; [discriminate|].
      apply JwsProofs.bind_ok in H. destruct H as (rr & _ & H).
      apply JwsProofs.bind_ok in H. destruct H as (ss & _ & H).
      apply JwsProofs.bind_ok in H. destruct H as (u & E & H). destruct u.
      destruct (ec_rows_have_curve r I F3) as (c & FC).
      exists (2 * ((cv_bits c + 7) / 8)).
      unfold C06Model.ec_check_key, C06Model.curve_name, C06Model.curve_key_size.
      rewrite X, C. cbn [bind]. rewrite CV. cbn [bind].
      apply String.eqb_eq in CV. rewrite CV, FC. cbn [bind].
      rewrite N.eqb_refl. cbn [negb]. rewrite (GOK E). cbn [bind].
      unfold C06Model.native_of. rewrite X. reflexivity. }
    destruct (String.eqb (ja_family r) "EdDSA") eqn:F4; [|discriminate].
    { (* EdDSA *)
      apply JwsProofs.bind_ok in H. destruct H as (u & E & H). destruct u.
      destruct (Jws.mistyped Jws.FEd k) eqn:M; [discriminate|].
      apply mistyped_eqb in M. rewrite <- K in M.
      destruct (kty_str_inv (C06Model.k_kty k6)) as (_ & _ & _ & X). specialize (X M).
      destruct (Jws.ed_curve_ok k) eqn:ED; [|discriminate].
      exists 0. rewrite (GOK E). cbn [bind].
      unfold C06Model.native_of. rewrite X. unfold C06Model.ed_assert. rewrite C.
      unfold Jws.ed_curve_ok in ED. rewrite ED. reflexivity. }
  Qed.

  (* signing *)
  Lemma sign_sim r k k6 msg sig :
    In r jws_alg_table -> to06 k = Some k6 ->
    Jws.alg_sign mac pk_sign ec_sign r k msg = Ok sig ->
    C06Model.jws_sign C06Model.prim_std r k6 = Ok tt.
  Proof.
    intros I T H.
    destruct (ComposeJwsEq.to06_fields _ _ T) as (K & C & _).
    destruct find_op_sign as (rv & FV & PV).
    assert (GOK : Jws.check_key_op k "sign" = Ok tt ->
                  C06Model.get_op_key "sign" k6 = Ok (C06Model.native_of k6 true)).
    { intro E. unfold C06Model.get_op_key.
      rewrite <- (ComposeJwsEq.check_key_op_eq k k6 "sign" T (proj1 ComposeJwsEq.find_op_sign_verify)).
      rewrite E. cbn [bind]. rewrite FV, PV. reflexivity. }
    unfold Jws.alg_sign, Jws.fam_of in H. unfold C06Model.jws_sign.
    destruct (String.eqb (ja_family r) "none") eqn:F0; [reflexivity|].
    destruct (String.eqb (ja_family r) "HMAC") eqn:F1.
    { apply JwsProofs.bind_ok in H. destruct H as (u & E & H). destruct u.
      destruct (Jws.mistyped Jws.FHmac k) eqn:M; [discriminate|].
      apply mistyped_eqb in M. rewrite <- K in M.
      rewrite (GOK E). cbn [bind].
      destruct (kty_str_inv (C06Model.k_kty k6)) as (X & _).
      unfold C06Model.native_of. rewrite (X M). reflexivity. }
    destruct (String.eqb (ja_family r) "RSA" || String.eqb (ja_family r) "PSS") eqn:F2.
    { assert (H' : (do _ <- Jws.check_key_op k "sign";
                    match Jws.mistyped Jws.FRsa k with
                    | Some e => Err e
                    | None => pk_sign r (Jws.k_id k) msg
                    end) = Ok sig).
      { apply orb_true_iff in F2. destruct F2 as [F2|F2].
        - rewrite F2 in H. exact H.
        - destruct (String.eqb (ja_family r) "RSA"); [exact H|]. rewrite F2 in H. exact H. }
      clear H. apply JwsProofs.bind_ok in H'. destruct H' as (u & E & H). destruct u.
      destruct (Jws.mistyped Jws.FRsa k) eqn:M; [discriminate|].
      unfold Jws.mistyped in M.
      destruct (String.eqb (Jws.k_kty k) "RSA") eqn:KR;
        [|destruct (String.eqb (Jws.k_kty k) "oct"); discriminate].
      apply String.eqb_eq in KR. rewrite <- K in KR.
      rewrite (GOK E). cbn [bind].
      destruct (kty_str_inv (C06Model.k_kty k6)) as (_ & X & _).
      unfold C06Model.native_of. rewrite (X KR). reflexivity. }
    apply orb_false_iff in F2. destruct F2 as [F2a F2b]. rewrite F2a, F2b in H.
    destruct (String.eqb (ja_family r) "EC") eqn:F3.
    { destruct (Jws.mistyped Jws.FEc k) eqn:M; [discriminate|].
      unfold Jws.mistyped in M.
      destruct (String.eqb (Jws.k_kty k) "EC") eqn:KE;
        [|destruct (String.eqb (Jws.k_kty k) "OKP"); discriminate].
      apply String.eqb_eq in KE. rewrite <- K in KE.
      destruct (kty_str_inv (C06Model.k_kty k6)) as (_ & _ & X & _). specialize (X KE).
      destruct (negb (String.eqb (Jws.k_crv k) (ja_curve r))) eqn:CV; [discriminate|].
      apply negb_false_iff in CV.
      apply JwsProofs.bind_ok in H. destruct H as (u & E & H). destruct u.
      destruct (ec_rows_have_curve r I F3) as (c & FC).
      unfold C06Model.ec_check_key, C06Model.curve_name, C06Model.curve_key_size.
      rewrite X, C. cbn [bind]. rewrite CV. cbn [bind]. rewrite (GOK E). cbn [bind].
      apply String.eqb_eq in CV. rewrite CV, FC.
      unfold C06Model.native_of. rewrite X. reflexivity. }
    destruct (String.eqb (ja_family r) "EdDSA") eqn:F4; [|discriminate].
    { apply JwsProofs.bind_ok in H. destruct H as (u & E & H). destruct u.
      destruct (Jws.mistyped Jws.FEd k) eqn:M; [discriminate|].
      apply mistyped_eqb in M. rewrite <- K in M.
      destruct (kty_str_inv (C06Model.k_kty k6)) as (_ & _ & _ & X). specialize (X M).
      destruct (Jws.ed_curve_ok k) eqn:ED; [|discriminate].
      rewrite (GOK E). cbn [bind].
      unfold C06Model.native_of. rewrite X. unfold C06Model.ed_assert. rewrite C.
      unfold Jws.ed_curve_ok in ED. rewrite ED. reflexivity. }
  Qed.

  (* the whole gate sequence of an entry point, on a key given directly *)
  Lemma jws_run_verify_sim e r k k6 msg sig s :
    C06Model.jws_is_sign e = false ->
    Jws.find_alg s = Some r -> to06 k = Some k6 ->
    Jws.check_use k = Ok tt -> Jws.check_key_type r k = Ok tt ->
    Jws.alg_verify mac pk_verify ec_verify r k msg sig = Ok true ->
    exists siglen, C06Model.jws_run C06Model.prim_std e C06Model.SrcKey (ja_name r) k6 true siglen = Ok tt.
  Proof.
    intros SG FA T U KT V.
    destruct (find_alg_find_jws _ _ FA) as (I & _ & FJ).
    destruct (verify_sim r k k6 msg sig I T V) as (siglen & VS).
    exists siglen. unfold C06Model.jws_run. rewrite FJ, SG. cbn [C06Model.guess_key bind].
    rewrite <- (ComposeJwsEq.check_use_eq k k6 T), U. cbn [bind].
    rewrite <- (ComposeJwsEq.check_key_type_eq r k k6 T), KT.
    assert (AG : C06Model.jws_has_alg_gate e = false) by (destruct e; try reflexivity; discriminate).
    rewrite AG. unfold C06Model.when. rewrite VS.
    destruct (C06Model.jws_has_type_gate e); reflexivity.
  Qed.

  Lemma jws_run_sign_sim e r k k6 msg sig s :
    C06Model.jws_is_sign e = true ->
    Jws.find_alg s = Some r -> to06 k = Some k6 ->
    Jws.check_use k = Ok tt -> Jws.check_key_type r k = Ok tt ->
    (C06Model.jws_has_alg_gate e = true -> Jws.check_alg k (PStr s) = Ok tt) ->
    Jws.alg_sign mac pk_sign ec_sign r k msg = Ok sig ->
    C06Model.jws_run C06Model.prim_std e C06Model.SrcKey (ja_name r) k6 true 0 = Ok tt.
  Proof.
    intros SG FA T U KT CA V.
    destruct (find_alg_find_jws _ _ FA) as (I & NM & FJ).
    pose proof (sign_sim r k k6 msg sig I T V) as VS.
    unfold C06Model.jws_run. rewrite FJ, SG. cbn [C06Model.guess_key bind].
    rewrite <- (ComposeJwsEq.check_use_eq k k6 T), U. cbn [bind].
    rewrite <- (ComposeJwsEq.check_key_type_eq r k k6 T), KT.
    unfold C06Model.when.
    destruct (C06Model.jws_has_alg_gate e) eqn:AG.
    - rewrite <- (ComposeJwsEq.check_alg_eq k k6 (ja_name r) T), NM, (CA eq_refl).
      destruct (C06Model.jws_has_type_gate e); cbn [bind]; exact VS.
    - destruct (C06Model.jws_has_type_gate e); cbn [bind]; exact VS.
  Qed.

  (* C06's characterisation, on the key the pipeline used *)
  Theorem verify_suitable e r k msg sig s :
    C06Model.jws_is_sign e = false -> C06Model.jws_has_type_gate e = true ->
    Jws.find_alg s = Some r ->
    Jws.check_use k = Ok tt -> Jws.check_key_type r k = Ok tt ->
    Jws.alg_verify mac pk_verify ec_verify r k msg sig = Ok true ->
    exists k6, to06 k = Some k6 /\ (C06Spec.key_wf k6 -> C06Spec.jws_suitable (ja_name r) false k6).
  Proof.
    intros SG TG FA U KT V.
    destruct (find_alg_find_jws _ _ FA) as (I & _ & _).
    destruct (to06 k) as [k6|] eqn:T.
    - exists k6. split; [reflexivity|]. intro W.
      destruct (jws_run_verify_sim e r k k6 msg sig s SG FA T U KT V) as (siglen & R).
      rewrite <- SG. exact (C06Proofs.p_c06_jws _ e _ _ _ _ _ W TG R).
    - rewrite (ComposeJwsEq.check_key_type_none r k I T) in KT. discriminate.
  Qed.

  Theorem sign_suitable e r k msg sig s :
    C06Model.jws_is_sign e = true -> C06Model.jws_has_type_gate e = true ->
    Jws.find_alg s = Some r ->
    Jws.check_use k = Ok tt -> Jws.check_key_type r k = Ok tt ->
    (C06Model.jws_has_alg_gate e = true -> Jws.check_alg k (PStr s) = Ok tt) ->
    Jws.alg_sign mac pk_sign ec_sign r k msg = Ok sig ->
    exists k6, to06 k = Some k6 /\ (C06Spec.key_wf k6 -> C06Spec.jws_suitable (ja_name r) true k6).
  Proof.
    intros SG TG FA U KT CA V.
    destruct (find_alg_find_jws _ _ FA) as (I & _ & _).
    destruct (to06 k) as [k6|] eqn:T.
    - exists k6. split; [reflexivity|]. intro W.
      pose proof (jws_run_sign_sim e r k k6 msg sig s SG FA T U KT CA V) as R.
      rewrite <- SG. exact (C06Proofs.p_c06_jws _ e _ _ _ _ _ W TG R).
    - rewrite (ComposeJwsEq.check_key_type_none r k I T) in KT. discriminate.
  Qed.
End Sim.
