(* C09Proofs.v — jwt.encode / jwt.decode over an abstract transport and JSON
   codec (Section variables with their contracts as Hypotheses). *)
From Coq Require Import Lia ZifyBool.
From Model Require Import Base PyVal C09Jwt C09Spec.
From Gen Require Import TablesC09.
From Proofs Require Import C09Calendar C09Dict.
Open Scope Z_scope.

Lemma nd_keys_is k : str_mem k nd_keys = str_mem k lit_nd_keys.
Proof.
  unfold nd_keys, lit_nd_keys. cbn [str_mem].
  destruct (str_eqb (asc "exp") k), (str_eqb (asc "iat") k), (str_eqb (asc "nbf") k); reflexivity.
Qed.

Section JwtProofs.
  Variable json_dumps : pv -> res bytes.
  Variable json_loads : bytes -> res pv.
  Variable transport_encode : hdr -> bytes -> res bytes * hdr.
  Variable transport_decode : bytes -> res (hdr * bytes).

  Notation enc := (encode json_dumps transport_encode).
  Notation dec := (decode json_loads transport_decode).

  Lemma encode_header_unchanged h c : eo_header (enc h c) = h.
  Proof.
    unfold encode. destruct (convert_claims json_dumps c) as [c' [p|e]]; [|reflexivity].
    destruct (transport_encode (typ_default h) p). reflexivity.
  Qed.

  Lemma encode_claims_after h c : eo_claims (enc h c) = fst (convert_keys nd_keys c).
  Proof.
    unfold encode, convert_claims.
    destruct (convert_keys nd_keys c) as [c' [e|]]; [reflexivity|]. cbn [fst].
    destruct (claims_pv c') as [d|]; [|reflexivity].
    destruct (json_dumps (PDict d)) as [p|e]; [|reflexivity].
    destruct (transport_encode (typ_default h) p). reflexivity.
  Qed.

  Lemma encode_ok_inv h c tok : eo_result (enc h c) = Ok tok ->
    exists c' d p w',
      convert_keys nd_keys c = (c', None) /\ claims_pv c' = Some d /\
      json_dumps (PDict d) = Ok p /\ transport_encode (typ_default h) p = (Ok tok, w') /\
      enc h c = mkeo (Ok tok) h w' c'.
  Proof.
    unfold encode, convert_claims.
    destruct (convert_keys nd_keys c) as [c' [e|]] eqn:K; [discriminate|].
    destruct (claims_pv c') as [d|] eqn:P; [|discriminate].
    destruct (json_dumps (PDict d)) as [p|e] eqn:J; [|discriminate].
    destruct (transport_encode (typ_default h) p) as [r w'] eqn:T. cbn [eo_result].
    intros ->. exists c', d, p, w'. repeat split; try reflexivity; assumption.
  Qed.

  (* the transport is not reached when the claims cannot be serialized *)
  Lemma encode_err_before_transport h c e :
    snd (convert_claims json_dumps c) = Err e ->
    enc h c = mkeo (Err e) h (typ_default h) (fst (convert_keys nd_keys c)).
  Proof.
    unfold encode, convert_claims.
    destruct (convert_keys nd_keys c) as [c' [e'|]]; cbn [fst snd].
    - intro H. injection H as ->. reflexivity.
    - destruct (claims_pv c') as [d|].
      + destruct (json_dumps (PDict d)) as [p|e']; [discriminate|].
        intro H. injection H as ->. reflexivity.
      + intro H. injection H as <-. reflexivity.
  Qed.

  Lemma decode_ok_iff tok h v :
    dec tok = Ok (h, v) <->
    exists p, transport_decode tok = Ok (h, p) /\ json_loads p = Ok v /\ is_dict v = true.
  Proof.
    unfold decode. split.
    - destruct (transport_decode tok) as [[h' p]|e] eqn:T; [|discriminate].
      destruct (json_loads p) as [v'|e] eqn:J; [|destruct (is_payload_error e); discriminate].
      destruct (is_dict v') eqn:D; [|discriminate].
      intro H. injection H as <- <-. exists p. repeat split; assumption.
    - intros (p & -> & -> & ->). reflexivity.
  Qed.

  Lemma decode_transport_error tok e : transport_decode tok = Err e -> dec tok = Err e.
  Proof. unfold decode. intros ->. reflexivity. Qed.

  Lemma decode_invalid_payload tok h p :
    transport_decode tok = Ok (h, p) ->
    (json_loads p = Err EValue \/ json_loads p = Err EType \/ json_loads p = Err ERuntime \/
     exists v, json_loads p = Ok v /\ is_dict v = false) ->
    dec tok = Err (EJose InvalidPayloadError).
  Proof.
    unfold decode. intros -> [-> | [-> | [-> | (v & -> & ->)]]]; reflexivity.
  Qed.

  Lemma decode_error_classes tok e : dec tok = Err e ->
    transport_decode tok = Err e \/
    (exists h p, transport_decode tok = Ok (h, p) /\
       (e = EJose InvalidPayloadError \/ (json_loads p = Err e /\ is_payload_error e = false))).
  Proof.
    unfold decode. destruct (transport_decode tok) as [[h p]|e']; [|intro H; left; injection H as ->; reflexivity].
    intro H. right. exists h, p. split; [reflexivity|].
    destruct (json_loads p) as [v|e2].
    - destruct (is_dict v); [discriminate|]. injection H as <-. left. reflexivity.
    - destruct (is_payload_error e2) eqn:P; injection H as <-; [left; reflexivity|right; split; [reflexivity|exact P]].
  Qed.

  (* ---- contracts of the external parts ---- *)
  Hypothesis json_rt : forall v b, json_ok v = true -> json_dumps v = Ok b -> json_loads b = Ok v.
  Hypothesis transport_rt : forall w p tok w',
    transport_encode w p = (Ok tok, w') ->
    transport_decode tok = Ok (w', p) /\
    exists extra, w' = w ++ extra /\ forall k, dmem w k = true -> dmem extra k = false.

  Lemma encode_token_header h c tok :
    keys_unique (dkeys h) = true -> eo_result (enc h c) = Ok tok ->
    exists p extra,
      transport_decode tok = Ok (spec_header h ++ extra, p) /\
      eo_work (enc h c) = spec_header h ++ extra /\
      (forall k, dmem (spec_header h) k = true -> dmem extra k = false) /\
      dget (spec_header h ++ extra) lit_typ =
        Some (match dget h lit_typ with Some v => v | None => lit_JWT end) /\
      (forall k v, dget h k = Some v -> dget (spec_header h ++ extra) k = Some v).
  Proof.
    intros U H. destruct (encode_ok_inv h c tok H) as (c' & d & p & w' & _ & _ & _ & T & E).
    destruct (transport_rt _ _ _ _ T) as [D (extra & W & X)].
    rewrite (typ_default_spec h U) in *. subst w'.
    exists p, extra. rewrite E. cbn [eo_work].
    split; [exact D|]. split; [reflexivity|]. split; [exact X|]. split.
    - rewrite dget_app, spec_header_typ. reflexivity.
    - intros k v G. rewrite dget_app, (spec_header_members h k v G). reflexivity.
  Qed.

  Lemma encode_decode_rt h c tok :
    keys_unique (dkeys h) = true -> claims_ok c = true -> eo_result (enc h c) = Ok tok ->
    exists d extra,
      claims_pv (eo_claims (enc h c)) = Some d /\
      dec tok = Ok (spec_header h ++ extra, PDict d) /\
      (forall k, dmem (spec_header h) k = true -> dmem extra k = false).
  Proof.
    intros U O H. destruct (encode_ok_inv h c tok H) as (c' & d & p & w' & K & P & J & T & E).
    destruct (transport_rt _ _ _ _ T) as [D (extra & W & X)].
    rewrite (typ_default_spec h U) in *. subst w'.
    exists d, extra. rewrite E. cbn [eo_claims]. split; [exact P|]. split; [|exact X].
    apply decode_ok_iff. exists p. split; [exact D|]. split; [|reflexivity].
    apply json_rt; [|exact J].
    apply (claims_pv_ok c' d); [|exact P]. exact (convert_keys_claims_ok _ _ _ _ O K).
  Qed.

  (* member by member: what the decoded claims are *)
  Lemma encode_claims_members h c tok d :
    eo_result (enc h c) = Ok tok -> claims_pv (eo_claims (enc h c)) = Some d ->
    dkeys d = dkeys c /\
    forall k, dget d k = match dget c k with Some x => spec_claim lit_nd_keys k x | None => None end.
  Proof.
    intros H P. destruct (encode_ok_inv h c tok H) as (c' & d' & p & w' & K & P' & _ & _ & E).
    rewrite E in P. cbn [eo_claims] in P. rewrite P' in P. injection P as ->.
    destruct (convert_keys_ok _ _ _ K) as [KK CP]. destruct (claims_pv_spec _ _ P') as [DK DP].
    split; [congruence|]. intro k. rewrite DP. specialize (CP k). unfold conv_point in CP.
    destruct (dget c k) as [[v|t|ob]|] eqn:G.
    - rewrite CP. reflexivity.
    - unfold spec_claim. rewrite <- nd_keys_is. destruct (str_mem k nd_keys).
      + destruct CP as (n & N & ->). rewrite N. reflexivity.
      + rewrite CP. reflexivity.
    - rewrite CP. reflexivity.
    - rewrite CP. reflexivity.
  Qed.
End JwtProofs.

Lemma decode_object_only jl td tok h v : decode jl td tok = Ok (h, v) -> is_dict v = true.
Proof. intro H. apply decode_ok_iff in H. destruct H as (p & _ & _ & D). exact D. Qed.

Lemma decode_ok_transport jl td tok h v : decode jl td tok = Ok (h, v) ->
  exists p, td tok = Ok (h, p) /\ jl p = Ok v /\ is_dict v = true.
Proof. intro H. apply decode_ok_iff in H. exact H. Qed.

Lemma decode_independent_of_parser jl1 jl2 td tok e :
  td tok = Err e -> decode jl1 td tok = decode jl2 td tok.
Proof. intro H. rewrite !(decode_transport_error _ td tok e H). reflexivity. Qed.

Lemma header_claims_instances :
  spec_header [(asc "alg", PStr (asc "HS256")); (asc "kid", PStr (asc "k1"))] =
    [(asc "typ", PStr (asc "JWT")); (asc "alg", PStr (asc "HS256")); (asc "kid", PStr (asc "k1"))] /\
  typ_default [(asc "alg", PStr (asc "HS256")); (asc "typ", PStr (asc "at+jwt")); (asc "kid", PStr (asc "k1"))] =
    [(asc "typ", PStr (asc "at+jwt")); (asc "alg", PStr (asc "HS256")); (asc "kid", PStr (asc "k1"))] /\
  claims_ok [(asc "exp", CDt (mkdt 2024 3 1 6 15 0 5 (Some 20700))); (asc "sub", CV (PStr (asc "a")))] = true /\
  convert_keys nd_keys [(asc "exp", CDt (mkdt 2024 3 1 6 15 0 5 (Some 20700))); (asc "x", CDt (mkdt 2024 3 1 0 0 0 0 None))]
    = ([(asc "exp", CV (PInt 1709253000)); (asc "x", CDt (mkdt 2024 3 1 0 0 0 0 None))], None).
Proof. vm_compute. repeat split; reflexivity. Qed.

Section JwtGProofs.
  Variable json_dumps : claims -> res bytes.
  Variable json_loads : bytes -> res pv.
  Variable transport_encode : hdr -> bytes -> res bytes * hdr.
  Variable transport_decode : bytes -> res (hdr * bytes).

  Notation enc := (encode_g json_dumps transport_encode).
  Notation dec := (decode json_loads transport_decode).

  Lemma encode_g_header_unchanged h c : eo_header (enc h c) = h.
  Proof.
    unfold encode_g. destruct (convert_claims_g json_dumps c) as [c' [p|e]]; [|reflexivity].
    destruct (transport_encode (typ_default h) p). reflexivity.
  Qed.

  Lemma encode_g_claims_after h c : eo_claims (enc h c) = fst (convert_keys nd_keys c).
  Proof.
    unfold encode_g, convert_claims_g.
    destruct (convert_keys nd_keys c) as [c' [e|]]; [reflexivity|]. cbn [fst].
    destruct (json_dumps c') as [p|e]; [|reflexivity].
    destruct (transport_encode (typ_default h) p). reflexivity.
  Qed.

  Lemma encode_g_ok_inv h c tok : eo_result (enc h c) = Ok tok ->
    exists c' p w',
      convert_keys nd_keys c = (c', None) /\
      json_dumps c' = Ok p /\ transport_encode (typ_default h) p = (Ok tok, w') /\
      enc h c = mkeo (Ok tok) h w' c'.
  Proof.
    unfold encode_g, convert_claims_g.
    destruct (convert_keys nd_keys c) as [c' [e|]] eqn:K; [discriminate|].
    destruct (json_dumps c') as [p|e] eqn:J; [|discriminate].
    destruct (transport_encode (typ_default h) p) as [r w'] eqn:T. cbn [eo_result].
    intros ->. exists c', p, w'. repeat split; try reflexivity; assumption.
  Qed.

  (* the transport is not reached when the claims cannot be serialized *)
  Lemma encode_g_err_before_transport h c e :
    snd (convert_claims_g json_dumps c) = Err e ->
    enc h c = mkeo (Err e) h (typ_default h) (fst (convert_keys nd_keys c)).
  Proof.
    unfold encode_g, convert_claims_g.
    destruct (convert_keys nd_keys c) as [c' [e'|]]; cbn [fst snd].
    - intro H. injection H as ->. reflexivity.
    - destruct (json_dumps c') as [p|e']; [discriminate|].
      intro H. injection H as ->. reflexivity.
  Qed.

  (* ---- contracts of the external parts ---- *)
  Hypothesis json_rt : forall c d b,
    claims_pv c = Some d -> json_ok (PDict d) = true -> json_dumps c = Ok b -> json_loads b = Ok (PDict d).
  Hypothesis transport_rt : forall w p tok w',
    transport_encode w p = (Ok tok, w') ->
    transport_decode tok = Ok (w', p) /\
    exists extra, w' = w ++ extra /\ forall k, dmem w k = true -> dmem extra k = false.

  Lemma encode_g_token_header h c tok :
    keys_unique (dkeys h) = true -> eo_result (enc h c) = Ok tok ->
    exists p extra,
      transport_decode tok = Ok (spec_header h ++ extra, p) /\
      eo_work (enc h c) = spec_header h ++ extra /\
      (forall k, dmem (spec_header h) k = true -> dmem extra k = false) /\
      dget (spec_header h ++ extra) lit_typ =
        Some (match dget h lit_typ with Some v => v | None => lit_JWT end) /\
      (forall k v, dget h k = Some v -> dget (spec_header h ++ extra) k = Some v).
  Proof.
    intros U H. destruct (encode_g_ok_inv h c tok H) as (c' & p & w' & _ & _ & T & E).
    destruct (transport_rt _ _ _ _ T) as [D (extra & W & X)].
    rewrite (typ_default_spec h U) in *. subst w'.
    exists p, extra. rewrite E. cbn [eo_work].
    split; [exact D|]. split; [reflexivity|]. split; [exact X|]. split.
    - rewrite dget_app, spec_header_typ. reflexivity.
    - intros k v G. rewrite dget_app, (spec_header_members h k v G). reflexivity.
  Qed.

  Lemma encode_g_decode_rt h c tok d :
    keys_unique (dkeys h) = true -> claims_ok c = true -> eo_result (enc h c) = Ok tok ->
    claims_pv (eo_claims (enc h c)) = Some d ->
    exists extra,
      dec tok = Ok (spec_header h ++ extra, PDict d) /\
      (forall k, dmem (spec_header h) k = true -> dmem extra k = false).
  Proof.
    intros U O H P. destruct (encode_g_ok_inv h c tok H) as (c' & p & w' & K & J & T & E).
    destruct (transport_rt _ _ _ _ T) as [D (extra & W & X)].
    rewrite (typ_default_spec h U) in *. subst w'.
    rewrite E in P. cbn [eo_claims] in P.
    exists extra. split; [|exact X].
    apply decode_ok_iff. exists p. split; [exact D|]. split; [|reflexivity].
    apply (json_rt c' d p P); [|exact J].
    apply (claims_pv_ok c' d); [|exact P]. exact (convert_keys_claims_ok _ _ _ _ O K).
  Qed.

  (* member by member: what the decoded claims are *)
  Lemma encode_g_claims_members h c tok d :
    eo_result (enc h c) = Ok tok -> claims_pv (eo_claims (enc h c)) = Some d ->
    dkeys d = dkeys c /\
    forall k, dget d k = match dget c k with Some x => spec_claim lit_nd_keys k x | None => None end.
  Proof.
    intros H P. destruct (encode_g_ok_inv h c tok H) as (c' & p & w' & K & _ & _ & E).
    rewrite E in P. cbn [eo_claims] in P.
    destruct (convert_keys_ok _ _ _ K) as [KK CP]. destruct (claims_pv_spec _ _ P) as [DK DP].
    split; [congruence|]. intro k. rewrite DP. specialize (CP k). unfold conv_point in CP.
    destruct (dget c k) as [[v|t|ob]|] eqn:G.
    - rewrite CP. reflexivity.
    - unfold spec_claim. rewrite <- nd_keys_is. destruct (str_mem k nd_keys).
      + destruct CP as (n & N & ->). rewrite N. reflexivity.
      + rewrite CP. reflexivity.
    - rewrite CP. reflexivity.
    - rewrite CP. reflexivity.
  Qed.
End JwtGProofs.

(* the default-encoder model is the instance lift_dumps of the general one *)
Lemma encode_is_g jd te h c : encode jd te h c = encode_g (lift_dumps jd) te h c.
Proof. reflexivity. Qed.

(* ---------- jwt.encode / jwt.decode with their optional arguments ---------- *)
Section ApiProofs.
  Variable json_dumps : option N -> claims -> res bytes.
  Variable json_loads : option N -> bytes -> res pv.
  Variable jws_encode jwe_encode : hdr -> bytes -> targs -> res bytes * hdr.
  Variable jws_decode jwe_decode : bytes -> targs -> res (hdr * bytes).
  Notation jenc := (jwt_encode json_dumps jws_encode jwe_encode).
  Notation jdec := (jwt_decode json_loads jws_decode jwe_decode).

  Lemma api_header_unchanged h c a e : eo_header (jenc h c a e) = h.
  Proof. apply encode_g_header_unchanged. Qed.

  Lemma api_object_only tok a d h v : jdec tok a d = Ok (h, v) -> is_dict v = true.
  Proof. apply decode_object_only. Qed.

  (* the transport chosen by isinstance(registry, JWERegistry) gets key, algorithms and
     registry unchanged; the other transport is not consulted *)
  Lemma api_decode_iff tok a d h v :
    jdec tok a d = Ok (h, v) <->
    exists p, (if reg_is_jwe (ta_reg a) then jwe_decode tok a else jws_decode tok a) = Ok (h, p) /\
              json_loads d p = Ok v /\ is_dict v = true.
  Proof.
    unfold jwt_decode. rewrite decode_ok_iff. unfold select_decode.
    destruct (reg_is_jwe (ta_reg a)); reflexivity.
  Qed.

  Lemma api_transport_error tok a d e :
    (if reg_is_jwe (ta_reg a) then jwe_decode tok a else jws_decode tok a) = Err e ->
    jdec tok a d = Err e.
  Proof.
    intro H. unfold jwt_decode. apply decode_transport_error. unfold select_decode.
    destruct (reg_is_jwe (ta_reg a)); exact H.
  Qed.

  Lemma api_invalid_payload tok a d h p :
    (if reg_is_jwe (ta_reg a) then jwe_decode tok a else jws_decode tok a) = Ok (h, p) ->
    (json_loads d p = Err EValue \/ json_loads d p = Err EType \/ json_loads d p = Err ERuntime \/
     exists v, json_loads d p = Ok v /\ is_dict v = false) ->
    jdec tok a d = Err (EJose InvalidPayloadError).
  Proof.
    intros H J. unfold jwt_decode. apply (decode_invalid_payload _ _ tok h p); [|exact J].
    unfold select_decode. destruct (reg_is_jwe (ta_reg a)); exact H.
  Qed.

  (* round trip for one choice of optional arguments: the contracts are those of the
     selected transport with these arguments and of the encoder / decoder pair in use *)
  Lemma api_rt h c a e d tok dd :
    (forall c' d' b, claims_pv c' = Some d' -> json_ok (PDict d') = true ->
       json_dumps e c' = Ok b -> json_loads d b = Ok (PDict d')) ->
    (forall w p t w', select_encode jws_encode jwe_encode a w p = (Ok t, w') ->
       select_decode jws_decode jwe_decode a t = Ok (w', p) /\
       exists extra, w' = w ++ extra /\ forall k, dmem w k = true -> dmem extra k = false) ->
    keys_unique (dkeys h) = true -> claims_ok c = true ->
    eo_result (jenc h c a e) = Ok tok ->
    claims_pv (eo_claims (jenc h c a e)) = Some dd ->
    exists extra,
      jdec tok a d = Ok (spec_header h ++ extra, PDict dd) /\
      (forall k, dmem (spec_header h) k = true -> dmem extra k = false).
  Proof.
    intros J T. unfold jwt_encode, jwt_decode.
    apply (encode_g_decode_rt (json_dumps e) (json_loads d) _ _ J T).
  Qed.
End ApiProofs.

(* ---------- the decoded header is the header in the token ---------- *)
Section WireHeader.
  Variable json_loads : bytes -> res pv.
  Variable transport_decode : bytes -> res (hdr * bytes).
  (* the JSON object in the first segment of a compact token *)
  Variable wire_header : bytes -> option hdr.
  (* contract (C01/C03 for JWS, C02/C04 for JWE): an accepted token's header is the parsed
     protected segment - the verifying side adds nothing *)
  Hypothesis transport_header_is_wire :
    forall tok h p, transport_decode tok = Ok (h, p) -> wire_header tok = Some h.

  Lemma decode_header_is_wire tok h v :
    decode json_loads transport_decode tok = Ok (h, v) -> wire_header tok = Some h.
  Proof.
    intro H. apply decode_ok_iff in H. destruct H as (p & T & _ & _).
    exact (transport_header_is_wire tok h p T).
  Qed.
End WireHeader.

Lemma api_decode_header_is_wire
  (json_loads : option N -> bytes -> res pv)
  (jws_decode jwe_decode : bytes -> targs -> res (hdr * bytes))
  (wire_header : bytes -> option hdr) :
  (forall tok a h p, jws_decode tok a = Ok (h, p) -> wire_header tok = Some h) ->
  (forall tok a h p, jwe_decode tok a = Ok (h, p) -> wire_header tok = Some h) ->
  forall tok a d h v,
    jwt_decode json_loads jws_decode jwe_decode tok a d = Ok (h, v) -> wire_header tok = Some h.
Proof.
  intros HS HE tok a d h v H. apply api_decode_iff in H. destruct H as (p & T & _ & _).
  destruct (reg_is_jwe (ta_reg a)); [exact (HE _ _ _ _ T) | exact (HS _ _ _ _ T)].
Qed.

(* ---------- the JWE transport keeps the protected header it was given ---------- *)
Lemma api_jwe_header_kept
  (json_dumps : option N -> claims -> res bytes)
  (jws_encode jwe_encode : hdr -> bytes -> targs -> res bytes * hdr)
  (jwe_decode : bytes -> targs -> res (hdr * bytes)) (a : targs) :
  reg_is_jwe (ta_reg a) = true ->
  (forall w p tok w', jwe_encode w p a = (Ok tok, w') ->
     jwe_decode tok a = Ok (w', p) /\
     exists extra, w' = w ++ extra /\ forall k, dmem w k = true -> dmem extra k = false) ->
  forall h c e tok,
    keys_unique (dkeys h) = true ->
    eo_result (jwt_encode json_dumps jws_encode jwe_encode h c a e) = Ok tok ->
    exists p extra,
      jwe_decode tok a = Ok (spec_header h ++ extra, p) /\
      eo_work (jwt_encode json_dumps jws_encode jwe_encode h c a e) = spec_header h ++ extra /\
      (forall k, dmem (spec_header h) k = true -> dmem extra k = false) /\
      dget (spec_header h ++ extra) lit_typ =
        Some (match dget h lit_typ with Some v => v | None => lit_JWT end) /\
      (forall k v, dget h k = Some v -> dget (spec_header h ++ extra) k = Some v).
Proof.
  intros J T h c e tok U H. unfold jwt_encode in *.
  apply (encode_g_token_header (json_dumps e) (select_encode jws_encode jwe_encode a) (fun t => jwe_decode t a)); try assumption.
  intros w p t w' E. unfold select_encode in E. rewrite J in E. exact (T w p t w' E).
Qed.

(* ---------- forged tokens ---------- *)
Lemma api_forged_never_decodes
  (json_loads : option N -> bytes -> res pv)
  (jws_decode jwe_decode : bytes -> targs -> res (hdr * bytes))
  (forged : bytes -> targs -> Prop) :
  (forall tok a, forged tok a -> exists e, jws_decode tok a = Err e) ->
  (forall tok a, forged tok a -> exists e, jwe_decode tok a = Err e) ->
  forall tok a d, forged tok a ->
    exists e, jwt_decode json_loads jws_decode jwe_decode tok a d = Err e /\
              (if reg_is_jwe (ta_reg a) then jwe_decode tok a else jws_decode tok a) = Err e.
Proof.
  intros HS HE tok a d F.
  destruct (reg_is_jwe (ta_reg a)) eqn:R.
  - destruct (HE tok a F) as [e E]. exists e. split; [|exact E].
    apply api_transport_error. rewrite R. exact E.
  - destruct (HS tok a F) as [e E]. exists e. split; [|exact E].
    apply api_transport_error. rewrite R. exact E.
Qed.

(* ---------- non-vacuity: a concrete transport + JSON codec meeting both
   contracts on which encode succeeds ---------- *)
Definition toy_hdr : hdr := [(asc "typ", PStr (asc "JWT")); (asc "alg", PStr (asc "none"))].
Definition toy_payload : bytes := [123; 125]%N.
Definition toy_token : bytes := asc "e30.e30.".
Definition toy_dumps (v : pv) : res bytes :=
  match v with PDict [] => Ok toy_payload | _ => Err EType end.
Definition toy_loads (b : bytes) : res pv :=
  if beqb b toy_payload then Ok (PDict []) else Err EValue.
Definition toy_tenc (w : hdr) (p : bytes) : res bytes * hdr :=
  match w with
  | [(k1, PStr v1); (k2, PStr v2)] =>
      if str_eqb k1 (asc "typ") && str_eqb v1 (asc "JWT") && str_eqb k2 (asc "alg")
         && str_eqb v2 (asc "none") && beqb p toy_payload
      then (Ok toy_token, w) else (Err EValue, w)
  | _ => (Err EValue, w)
  end.
Definition toy_tdec (t : bytes) : res (hdr * bytes) :=
  if beqb t toy_token then Ok (toy_hdr, toy_payload) else Err (EJose BadSignatureError).

Lemma toy_json_rt : forall v b, json_ok v = true -> toy_dumps v = Ok b -> toy_loads b = Ok v.
Proof.
  intros v b _ H. destruct v as [| | | | | |l|d]; try discriminate.
  destruct d; [|discriminate]. injection H as <-. reflexivity.
Qed.

Lemma toy_transport_rt : forall w p tok w',
  toy_tenc w p = (Ok tok, w') ->
  toy_tdec tok = Ok (w', p) /\
  exists extra, w' = w ++ extra /\ forall k, dmem w k = true -> dmem extra k = false.
Proof.
  intros w p tok w' H. unfold toy_tenc in H.
  destruct w as [|[k1 [| | | |v1| | |]] [|[k2 [| | | |v2| | |]] [|? ?]]]; try discriminate.
  destruct (str_eqb k1 (asc "typ") && str_eqb v1 (asc "JWT") && str_eqb k2 (asc "alg")
            && str_eqb v2 (asc "none") && beqb p toy_payload) eqn:E; [|discriminate].
  injection H as <- <-.
  repeat (apply andb_true_iff in E; destruct E as [E ?]).
  apply str_eqb_eq in E. repeat match goal with X : str_eqb _ _ = true |- _ => apply str_eqb_eq in X end.
  match goal with X : beqb _ _ = true |- _ => apply beqb_eq in X end. subst.
  split; [reflexivity|]. exists []. split; [reflexivity|]. intros; reflexivity.
Qed.

Lemma toy_encode_ok :
  eo_result (encode toy_dumps toy_tenc [(asc "alg", PStr (asc "none"))] []) = Ok toy_token /\
  decode toy_loads toy_tdec toy_token = Ok (toy_hdr, PDict []).
Proof. vm_compute. split; reflexivity. Qed.

Lemma toy_all :
  (forall v b, json_ok v = true -> toy_dumps v = Ok b -> toy_loads b = Ok v) /\
  (forall w p tok w', toy_tenc w p = (Ok tok, w') ->
     toy_tdec tok = Ok (w', p) /\
     exists extra, w' = w ++ extra /\ forall k, dmem w k = true -> dmem extra k = false) /\
  eo_result (encode toy_dumps toy_tenc [(asc "alg", PStr (asc "none"))] []) = Ok toy_token /\
  decode toy_loads toy_tdec toy_token = Ok (toy_hdr, PDict []).
Proof. exact (conj toy_json_rt (conj toy_transport_rt toy_encode_ok)). Qed.

Lemma hostile_decoder_instance :
  jwt_decode (fun _ _ => Ok (PList [PStr (asc "sub"); PStr (asc "admin")]))
             (fun t _ => Ok (toy_hdr, toy_payload)) (fun _ _ => Err EValue)
             toy_token (mkta 1 None None) (Some 5%N) = Err (EJose InvalidPayloadError) /\
  jwt_decode (fun _ _ => Ok (PDict [(asc "sub", PStr (asc "a"))]))
             (fun _ _ => Err EValue) (fun t _ => Ok (toy_hdr, toy_payload))
             toy_token (mkta 1 None (Some (true, 2%N))) None = Ok (toy_hdr, PDict [(asc "sub", PStr (asc "a"))]).
Proof. vm_compute. split; reflexivity. Qed.

Lemma wire_header_instance :
  (forall tok (a : targs) h p, (fun t (_ : targs) => toy_tdec t) tok a = Ok (h, p) ->
     (fun t => if beqb t toy_token then Some toy_hdr else None) tok = Some h) /\
  jwt_decode (fun _ => toy_loads) (fun t _ => toy_tdec t) (fun t _ => toy_tdec t)
             toy_token (mkta 1 None None) None = Ok (toy_hdr, PDict []).
Proof.
  split.
  - intros tok a h p. cbv beta. unfold toy_tdec. destruct (beqb tok toy_token); [|discriminate].
    intro H. injection H as <- _. reflexivity.
  - vm_compute. reflexivity.
Qed.

Lemma jwe_header_kept_instance :
  spec_header [(asc "alg", PStr (asc "dir")); (asc "enc", PStr (asc "A128GCM")); (asc "zip", PStr (asc "DEF"))] =
    [(asc "typ", PStr (asc "JWT")); (asc "alg", PStr (asc "dir")); (asc "enc", PStr (asc "A128GCM")); (asc "zip", PStr (asc "DEF"))] /\
  reg_is_jwe (ta_reg (mkta 1 None (Some (true, 1%N)))) = true.
Proof. vm_compute. split; reflexivity. Qed.

Lemma forged_instance :
  jwt_decode (fun _ => toy_loads) (fun t _ => toy_tdec t) (fun t _ => toy_tdec t)
             (asc "e30.e30.AA") (mkta 1 None None) None = Err (EJose BadSignatureError).
Proof. vm_compute. reflexivity. Qed.
