(* JsonProofs.v — json_loads (json_print v) = v for float-free values
   (strings of Unicode scalar values, unique dict keys), and the header
   round trip json_b64decode (json_b64encode h) = h. *)
From Coq Require Import Lia ZifyBool Decimal DecimalFacts DecimalN.
From Model Require Import Base PyVal B64 Json.
From Proofs Require Import B64Proofs.
Open Scope N_scope.
Ltac Zify.zify_post_hook ::= Z.to_euclidean_division_equations.

(* ---------- decimal integers ---------- *)
Definition nondigit_start (s : list N) : Prop :=
  match s with [] => True | c :: _ => is_digit c = false end.

Lemma read_digits_uint_chars u rest :
  nondigit_start rest -> read_digits (uint_chars u ++ rest) = (u, rest).
Proof.
  intro H. induction u as [|u IH|u IH|u IH|u IH|u IH|u IH|u IH|u IH|u IH|u IH];
    try (cbn [uint_chars app read_digits]; rewrite IH; reflexivity).
  cbn [uint_chars app]. destruct rest as [|c r]; [reflexivity|].
  cbn [read_digits]. cbn in H. rewrite H. reflexivity.
Qed.

Lemma to_uint_norm n : N.to_uint n = unorm (N.to_uint n).
Proof.
  pose proof (Unsigned.to_of (N.to_uint n)) as H.
  rewrite Unsigned.of_to in H. exact H.
Qed.

Lemma to_uint_not_nil n : N.to_uint n <> Nil.
Proof.
  intro E. pose proof (to_uint_norm n) as H. rewrite E in H. discriminate H.
Qed.

Lemma to_uint_D0 n u : N.to_uint n = D0 u -> u = Nil /\ n = 0.
Proof.
  intro E. pose proof (to_uint_norm n) as H. rewrite E in H.
  unfold unorm in H. cbn [nzhead] in H.
  destruct (nzhead u) eqn:Z.
  - injection H as H. split; [exact H|].
    rewrite <- (Unsigned.of_to n), E, H. reflexivity.
  - exfalso. injection H as H. subst u. exact (nzhead_nonzero _ _ Z).
  - discriminate H.
  - discriminate H.
  - discriminate H.
  - discriminate H.
  - discriminate H.
  - discriminate H.
  - discriminate H.
  - discriminate H.
  - discriminate H.
Qed.

Lemma parse_nat_print_N n rest :
  nondigit_start rest -> parse_nat (print_N n ++ rest) = POk (n, rest).
Proof.
  intro H. unfold parse_nat, print_N. rewrite (read_digits_uint_chars _ _ H).
  pose proof (Unsigned.of_to n) as OT.
  destruct (N.to_uint n) as [|u|u|u|u|u|u|u|u|u|u] eqn:E;
    try (cbv beta iota; rewrite OT; reflexivity).
  - exfalso. exact (to_uint_not_nil _ E).
  - destruct (to_uint_D0 _ _ E) as [-> ->]. reflexivity.
Qed.

Definition follow_ok (s : list N) : Prop :=
  match s with [] => True | c :: _ => c = 44 \/ c = 93 \/ c = 125 end.

Lemma follow_nondigit s : follow_ok s -> nondigit_start s /\ starts_float s = false.
Proof.
  destruct s as [|c r]; cbn; [tauto|].
  intros [-> | [-> | ->]]; split; reflexivity.
Qed.

Lemma print_N_head n : exists c t, print_N n = c :: t /\ is_digit c = true.
Proof.
  unfold print_N. pose proof (to_uint_not_nil n) as H.
  destruct (N.to_uint n); try contradiction; cbn [uint_chars]; eexists; eexists; split; reflexivity.
Qed.

Lemma is_digit_not_minus c : is_digit c = true -> (c =? 45) = false.
Proof. unfold is_digit. intro H. lia. Qed.

Lemma parse_number_print_Z z rest :
  follow_ok rest -> parse_number (print_Z z ++ rest) = POk (PInt z, rest).
Proof.
  intro F. destruct (follow_nondigit _ F) as [ND SF].
  unfold print_Z. destruct (z <? 0)%Z eqn:Neg.
  - cbn [app parse_number]. change (45 =? 45) with true. cbv beta iota.
    rewrite (parse_nat_print_N _ _ ND), SF. f_equal. f_equal. f_equal. lia.
  - destruct (print_N_head (Z.to_N z)) as (c & t & E & D).
    pose proof (parse_nat_print_N (Z.to_N z) rest ND) as P.
    rewrite E in *. cbn [app] in *. cbn [parse_number].
    rewrite (is_digit_not_minus _ D). rewrite P, SF. f_equal. f_equal. f_equal. lia.
Qed.

(* ---------- \uXXXX ---------- *)
Lemma hexdig_ok d : d < 16 -> hexval1 (hexdig d) = Some d.
Proof.
  intro H. destruct d as [|p]; [reflexivity|].
  do 5 (destruct p as [p|p|]; try reflexivity; try (exfalso; lia)).
Qed.

Lemma parse_hex4_hex4 c r : c < 65536 -> parse_hex4 (hex4 c ++ r) = Some (c, r).
Proof.
  intro H. unfold hex4. cbn [app parse_hex4].
  rewrite !hexdig_ok by (apply N.mod_lt; discriminate).
  f_equal. f_equal. lia.
Qed.

Lemma scalar_bmp c : scalar_cp c = true -> c < 65536 -> ((55296 <=? c) && (c <=? 56319)) = false.
Proof. unfold scalar_cp. intros H L. lia. Qed.

Lemma parse_uescape_bmp c rest :
  scalar_cp c = true -> c < 65536 -> parse_uescape (hex4 c ++ rest) = Some (c, rest).
Proof.
  intros S L. unfold parse_uescape. rewrite (parse_hex4_hex4 _ _ L), (scalar_bmp _ S L). reflexivity.
Qed.

Lemma parse_uescape_astral c rest :
  scalar_cp c = true -> 65536 <= c ->
  parse_uescape (hex4 (55296 + (c - 65536) / 1024) ++ uesc (56320 + (c - 65536) mod 1024) ++ rest) = Some (c, rest).
Proof.
  intros S L. unfold scalar_cp in S.
  assert (V : c - 65536 < 1048576) by lia.
  set (v := c - 65536) in *.
  assert (Hh : 55296 + v / 1024 < 65536) by lia.
  assert (Hl : 56320 + v mod 1024 < 65536) by lia.
  unfold parse_uescape. rewrite (parse_hex4_hex4 _ _ Hh).
  replace ((55296 <=? 55296 + v / 1024) && (55296 + v / 1024 <=? 56319)) with true by lia.
  unfold uesc. cbn [app]. change ((92 =? 92) && (117 =? 117)) with true. cbv beta iota.
  rewrite (parse_hex4_hex4 _ _ Hl).
  replace ((56320 <=? 56320 + v mod 1024) && (56320 + v mod 1024 <=? 57343)) with true by lia.
  f_equal. f_equal. subst v. lia.
Qed.

(* one escaped code point is read back in one step *)
Lemma parse_str_esc_char c f rest acc :
  scalar_cp c = true ->
  parse_str (S f) (esc_char c ++ rest) acc = parse_str f rest (c :: acc).
Proof.
  intro S. unfold esc_char.
  destruct (c =? 34) eqn:E1; [apply N.eqb_eq in E1; subst; reflexivity|].
  destruct (c =? 92) eqn:E2; [apply N.eqb_eq in E2; subst; reflexivity|].
  destruct (c =? 10) eqn:E3; [apply N.eqb_eq in E3; subst; reflexivity|].
  destruct (c =? 13) eqn:E4; [apply N.eqb_eq in E4; subst; reflexivity|].
  destruct (c =? 9) eqn:E5; [apply N.eqb_eq in E5; subst; reflexivity|].
  destruct (c =? 8) eqn:E6; [apply N.eqb_eq in E6; subst; reflexivity|].
  destruct (c =? 12) eqn:E7; [apply N.eqb_eq in E7; subst; reflexivity|].
  destruct ((32 <=? c) && (c <=? 126)) eqn:E8.
  - cbn [app parse_str]. rewrite E1, E2. replace (c <? 32) with false by lia. reflexivity.
  - destruct (c <? 65536) eqn:E9.
    + unfold uesc. cbn [app parse_str]. change (92 =? 34) with false. change (92 =? 92) with true.
      change (117 =? 117) with true. cbv beta iota.
      rewrite (parse_uescape_bmp _ _ S) by lia. reflexivity.
    + unfold uesc at 1. cbn [app parse_str]. change (92 =? 34) with false. change (92 =? 92) with true.
      change (117 =? 117) with true. cbv beta iota.
      rewrite <- app_assoc.
      rewrite (parse_uescape_astral _ _ S) by lia. reflexivity.
Qed.

Lemma parse_str_escaped s : forall f rest acc,
  str_ok s = true -> (length s < f)%nat ->
  parse_str f (flat_map esc_char s ++ 34 :: rest) acc = POk (rev acc ++ s, rest).
Proof.
  induction s as [|c s IH]; intros f rest acc OK L.
  - destruct f as [|f]; [inversion L|]. cbn. rewrite app_nil_r. reflexivity.
  - destruct f as [|f]; [inversion L|].
    cbn [str_ok forallb] in OK. apply andb_true_iff in OK. destruct OK as [OKc OKs].
    cbn [flat_map]. rewrite <- app_assoc. rewrite (parse_str_esc_char _ _ _ _ OKc).
    rewrite IH; [|exact OKs|cbn in L; lia].
    cbn [rev]. rewrite <- app_assoc. reflexivity.
Qed.

Lemma esc_char_nonempty c : (1 <= length (esc_char c))%nat.
Proof.
  unfold esc_char, uesc, hex4.
  repeat match goal with |- context [if ?b then _ else _] => destruct b end; cbn; try rewrite app_length; cbn; lia.
Qed.

Lemma flat_map_esc_length s : (length s <= length (flat_map esc_char s))%nat.
Proof.
  induction s as [|c s IH]; cbn [flat_map length]; [lia|].
  rewrite app_length. pose proof (esc_char_nonempty c). lia.
Qed.

Lemma parse_string_print s rest :
  str_ok s = true -> parse_string (flat_map esc_char s ++ 34 :: rest) = POk (s, rest).
Proof.
  intro OK. unfold parse_string. apply (parse_str_escaped s _ rest [] OK).
  rewrite app_length. pose proof (flat_map_esc_length s). cbn [length]. lia.
Qed.

(* ---------- nested induction on values ---------- *)
Section PvInd.
  Variable P : pv -> Prop.
  Hypothesis HN : P PNone.
  Hypothesis HB : forall b, P (PBool b).
  Hypothesis HI : forall z, P (PInt z).
  Hypothesis HF : forall f, P (PFloat f).
  Hypothesis HS : forall s, P (PStr s).
  Hypothesis HY : forall s, P (PBytes s).
  Hypothesis HL : forall l, Forall P l -> P (PList l).
  Hypothesis HD : forall d, Forall (fun kv => P (snd kv)) d -> P (PDict d).
  Fixpoint pv_ind' (v : pv) : P v :=
    match v with
    | PNone => HN | PBool b => HB b | PInt z => HI z | PFloat f => HF f
    | PStr s => HS s | PBytes s => HY s
    | PList l => HL l ((fix go (l : list pv) : Forall P l :=
                          match l with
                          | [] => Forall_nil _
                          | x :: r => Forall_cons _ (pv_ind' x) (go r)
                          end) l)
    | PDict d => HD d ((fix go (d : list (str * pv)) : Forall (fun kv => P (snd kv)) d :=
                          match d with
                          | [] => Forall_nil _
                          | kv :: r => Forall_cons _ (pv_ind' (snd kv)) (go r)
                          end) d)
    end.
End PvInd.

(* the first character of a printed value: not whitespace, not a closing bracket *)
Definition head_ok (s : list N) : Prop :=
  exists c t, s = c :: t /\ is_ws c = false /\ (c =? 93) = false /\ (c =? 125) = false.

Lemma json_print_head v : json_ok v = true -> head_ok (json_print v).
Proof.
  unfold head_ok. destruct v as [|[|]|z|f|s|s|l|d]; cbn [json_ok json_print]; intro H;
    try discriminate H; try (eexists; eexists; split; [reflexivity|repeat split; reflexivity]).
  unfold print_Z. destruct (z <? 0)%Z.
  - eexists; eexists; split; [reflexivity|repeat split; reflexivity].
  - destruct (print_N_head (Z.to_N z)) as (c & t & E & D). rewrite E.
    exists c, t. unfold is_digit in D. unfold is_ws. repeat split; lia.
Qed.

Lemma skip_ws_head s : head_ok s -> skip_ws s = s.
Proof. intros (c & t & -> & W & _). cbn. rewrite W. reflexivity. Qed.

Lemma skip_ws_follow s : s <> [] -> follow_ok s -> skip_ws s = s.
Proof.
  destruct s as [|c r]; [contradiction|]. cbn.
  intros _ [-> | [-> | ->]]; reflexivity.
Qed.

(* ---------- arrays ---------- *)
Lemma join_cons2 sep (x y : list N) l : join sep (x :: y :: l) = x ++ sep ++ join sep (y :: l).
Proof. reflexivity. Qed.

Lemma parse_elems_ok (pvalue : list N -> pres (pv * list N)) (l : list pv) :
  l <> [] ->
  Forall (fun x => forall rest, follow_ok rest -> pvalue (json_print x ++ rest) = POk (x, rest)) l ->
  forall n acc rest, (length l <= n)%nat ->
    parse_elems pvalue n (join [44] (map json_print l) ++ 93 :: rest) acc = POk (PList (rev acc ++ l), rest).
Proof.
  induction l as [|x l IH]; [contradiction|]. intros _ F n acc rest L.
  inversion F as [|x' l' Hx Hl]; subst.
  destruct n as [|n]; [cbn in L; lia|].
  destruct l as [|y l].
  - cbn [map join parse_elems]. rewrite Hx by (cbn; tauto).
    cbn [skip_ws]. change (is_ws 93) with false. cbv beta iota.
    cbn [rev]. reflexivity.
  - cbn [map]. rewrite join_cons2. rewrite <- !app_assoc. cbn [app parse_elems].
    rewrite Hx by (cbn; tauto).
    cbn [skip_ws]. change (is_ws 44) with false. cbv beta iota.
    change (json_print y :: map json_print l) with (map json_print (y :: l)).
    rewrite IH; [|discriminate|exact Hl|cbn in L; cbn; lia].
    cbn [rev]. rewrite <- app_assoc. reflexivity.
Qed.

(* ---------- objects ---------- *)
Lemma dset_fresh {A} (acc : list (str * A)) k v :
  str_mem k (map fst acc) = false -> dset acc k v = acc ++ [(k, v)].
Proof.
  induction acc as [|[k' v'] acc IH]; cbn [dset map fst str_mem app]; [reflexivity|].
  intro H. apply orb_false_iff in H. destruct H as [H1 H2].
  rewrite H1. rewrite IH by exact H2. reflexivity.
Qed.

Lemma keys_unique_app_cons (a : list str) k r :
  keys_unique (a ++ k :: r) = true -> str_mem k a = false /\ keys_unique ((a ++ [k]) ++ r) = true.
Proof.
  intro H. split.
  - induction a as [|x a IH]; [reflexivity|].
    cbn in H. apply andb_true_iff in H. destruct H as [H1 H2].
    cbn. rewrite (IH H2), orb_false_r.
    destruct (str_eqb x k) eqn:E; [|reflexivity].
    apply str_eqb_eq in E. subst x.
    apply negb_true_iff in H1.
    assert (str_mem k (a ++ k :: r) = true) as C.
    { apply str_mem_In. apply in_or_app. right. left. reflexivity. }
    congruence.
  - rewrite <- app_assoc. exact H.
Qed.

Definition member_text (kv : str * pv) : list N := print_str (fst kv) ++ 58 :: json_print (snd kv).

Lemma member_text_shape k x tail :
  member_text (k, x) ++ tail = 34 :: flat_map esc_char k ++ 34 :: 58 :: json_print x ++ tail.
Proof.
  unfold member_text, print_str. cbn [fst snd app]. rewrite <- !app_assoc. reflexivity.
Qed.

Lemma parse_member_last (pvalue : list N -> pres (pv * list N)) n k x rest acc :
  str_ok k = true -> pvalue (json_print x ++ 125 :: rest) = POk (x, 125 :: rest) ->
  parse_members pvalue (S n) (member_text (k, x) ++ 125 :: rest) acc = POk (PDict (dset acc k x), rest).
Proof.
  intros Hk Hx. rewrite member_text_shape. cbn [parse_members skip_ws].
  change (is_ws 34) with false. cbv beta iota.
  rewrite (parse_string_print _ _ Hk).
  cbn [skip_ws]. change (is_ws 58) with false. cbv beta iota.
  rewrite Hx. cbn [skip_ws]. change (is_ws 125) with false. cbv beta iota. reflexivity.
Qed.

Lemma parse_member_more (pvalue : list N -> pres (pv * list N)) n k x rest acc :
  str_ok k = true -> pvalue (json_print x ++ 44 :: rest) = POk (x, 44 :: rest) ->
  parse_members pvalue (S n) (member_text (k, x) ++ 44 :: rest) acc = parse_members pvalue n rest (dset acc k x).
Proof.
  intros Hk Hx. rewrite member_text_shape. cbn [parse_members skip_ws].
  change (is_ws 34) with false. cbv beta iota.
  rewrite (parse_string_print _ _ Hk).
  cbn [skip_ws]. change (is_ws 58) with false. cbv beta iota.
  rewrite Hx. cbn [skip_ws]. change (is_ws 44) with false. cbv beta iota. reflexivity.
Qed.

Lemma parse_members_ok (pvalue : list N -> pres (pv * list N)) (d : list (str * pv)) :
  d <> [] ->
  Forall (fun kv => str_ok (fst kv) = true /\
                    forall rest, follow_ok rest -> pvalue (json_print (snd kv) ++ rest) = POk (snd kv, rest)) d ->
  forall n acc rest, (length d <= n)%nat ->
    keys_unique (map fst acc ++ map fst d) = true ->
    parse_members pvalue n (join [44] (map member_text d) ++ 125 :: rest) acc = POk (PDict (acc ++ d), rest).
Proof.
  induction d as [|[k x] d IH]; [contradiction|]. intros _ F n acc rest L U.
  inversion F as [|kv' d' [Hk Hx] Hd]; subst. cbn [fst snd] in *.
  destruct n as [|n]; [cbn in L; lia|].
  cbn [map] in U. destruct (keys_unique_app_cons _ _ _ U) as [Fresh U'].
  destruct d as [|[k2 y] d].
  - cbn [map join].
    rewrite (parse_member_last _ _ _ _ _ _ Hk) by (apply Hx; cbn; tauto).
    rewrite (dset_fresh _ _ _ Fresh). reflexivity.
  - cbn [map]. rewrite join_cons2. rewrite <- !app_assoc. cbn [app].
    rewrite (parse_member_more _ _ _ _ _ _ Hk) by (apply Hx; cbn; tauto).
    rewrite (dset_fresh _ _ _ Fresh).
    change (member_text (k2, y) :: map member_text d) with (map member_text ((k2, y) :: d)).
    rewrite IH; [|discriminate|exact Hd|cbn in L; cbn; lia|].
    + rewrite <- app_assoc. reflexivity.
    + rewrite map_app. cbn [map fst]. exact U'.
Qed.

(* ---------- structure of json_ok / depth ---------- *)
Lemma json_ok_list l : json_ok (PList l) = true -> Forall (fun x => json_ok x = true) l.
Proof.
  induction l as [|x l IH]; intro H; [constructor|].
  cbn [json_ok] in H. apply andb_true_iff in H. destruct H as [H1 H2].
  constructor; [exact H1|apply IH; exact H2].
Qed.

Lemma json_ok_dict_members d :
  (fix go (d : list (str * pv)) : bool :=
     match d with [] => true | (k, x) :: r => str_ok k && json_ok x && go r end) d = true ->
  Forall (fun kv => str_ok (fst kv) = true /\ json_ok (snd kv) = true) d.
Proof.
  induction d as [|[k x] d IH]; intro H; [constructor|].
  apply andb_true_iff in H. destruct H as [H12 H3]. apply andb_true_iff in H12. destruct H12 as [H1 H2].
  constructor; [split; assumption|apply IH; exact H3].
Qed.

Lemma depth_list l f : (depth (PList l) < S f)%nat -> Forall (fun x => (depth x < f)%nat) l.
Proof.
  induction l as [|x l IH]; intro H; [constructor|].
  cbn [depth] in H. constructor.
  - lia.
  - apply IH. cbn [depth]. lia.
Qed.

Lemma depth_dict d f : (depth (PDict d) < S f)%nat -> Forall (fun kv => (depth (snd kv) < f)%nat) d.
Proof.
  induction d as [|[k x] d IH]; intro H; [constructor|].
  cbn [depth] in H. constructor.
  - cbn [snd]. lia.
  - apply IH. cbn [depth]. lia.
Qed.

Lemma json_print_nonempty v : (1 <= length (json_print v))%nat.
Proof.
  destruct v as [|[|]|z|f|s|s|l|d]; cbn [json_print]; unfold print_str; cbn [length]; try lia.
  unfold print_Z. destruct (z <? 0)%Z; [cbn [length]; lia|].
  destruct (print_N_head (Z.to_N z)) as (c & t & E & _). rewrite E. cbn [length]. lia.
Qed.

Lemma join_length sep (l : list (list N)) :
  Forall (fun x => (1 <= length x)%nat) l -> (length l <= length (join sep l))%nat.
Proof.
  induction l as [|x l IH]; intro F; [cbn; lia|].
  inversion F as [|x' l' Hx Hl]; subst. specialize (IH Hl).
  destruct l as [|y l]; [cbn; lia|].
  rewrite join_cons2, !app_length. cbn [length] in *. lia.
Qed.

Lemma join_elem_length sep (l : list (list N)) x : In x l -> (length x <= length (join sep l))%nat.
Proof.
  induction l as [|y l IH]; intro H; [contradiction|].
  destruct l as [|z l].
  - destruct H as [->|[]]. cbn. lia.
  - rewrite join_cons2, !app_length. destruct H as [->|H]; [lia|]. specialize (IH H). lia.
Qed.

Lemma join_head sep (x : list N) l tail : head_ok x -> head_ok (join sep (x :: l) ++ tail).
Proof.
  intros (c & t & -> & H). destruct l as [|y l].
  - cbn [join]. exists c, (t ++ tail). split; [reflexivity|exact H].
  - rewrite join_cons2. exists c, ((t ++ sep ++ join sep (y :: l)) ++ tail). split; [reflexivity|exact H].
Qed.

Lemma parse_value_number f s c t :
  s = c :: t -> (c =? 45) || is_digit c = true -> parse_value (S f) s = parse_number s.
Proof.
  intros -> H. unfold is_digit in H.
  assert (c = 45 \/ c = 48 \/ c = 49 \/ c = 50 \/ c = 51 \/ c = 52 \/ c = 53 \/ c = 54 \/ c = 55 \/ c = 56 \/ c = 57) as C by lia.
  repeat (destruct C as [-> | C]; [reflexivity|]). subst c. reflexivity.
Qed.

(* ---------- the round trip ---------- *)
Theorem parse_value_print v :
  json_ok v = true -> forall fuel rest, (depth v < fuel)%nat -> follow_ok rest ->
  parse_value fuel (json_print v ++ rest) = POk (v, rest).
Proof.
  induction v as [|b|z|fl|s|s|l IH|d IH] using pv_ind'; intros OK fuel rest D F;
    (destruct fuel as [|f]; [cbn [depth] in D; lia|]); try discriminate OK.
  - reflexivity.
  - destruct b; reflexivity.
  - cbn [json_print]. unfold print_Z in *. destruct (z <? 0)%Z eqn:Neg.
    + rewrite (parse_value_number f _ 45 (print_N (Z.abs_N z) ++ rest)) by reflexivity.
      pose proof (parse_number_print_Z z rest F) as P. unfold print_Z in P. rewrite Neg in P. exact P.
    + destruct (print_N_head (Z.to_N z)) as (c & t & E & Dg).
      pose proof (parse_number_print_Z z rest F) as P. unfold print_Z in P. rewrite Neg in P.
      rewrite E in *. cbn [app] in *.
      rewrite (parse_value_number f _ c (t ++ rest)); [exact P|reflexivity|rewrite Dg; apply orb_true_r].
  - cbn [json_print json_ok] in *. unfold print_str. cbn [app]. rewrite <- app_assoc. cbn [app].
    cbn [parse_value skip_ws]. change (is_ws 34) with false. cbv beta iota.
    rewrite (parse_string_print _ _ OK). reflexivity.
  - (* list *)
    pose proof (json_ok_list _ OK) as OKl. pose proof (depth_list _ _ D) as Dl.
    destruct l as [|x l].
    + reflexivity.
    + cbn [json_print app]. rewrite <- app_assoc. cbn [app].
      cbn [parse_value skip_ws]. change (is_ws 91) with false. cbv beta iota.
      assert (HO : head_ok (join [44] (map json_print (x :: l)) ++ 93 :: rest)).
      { cbn [map]. apply join_head. apply json_print_head. inversion OKl; assumption. }
      rewrite (skip_ws_head _ HO).
      destruct HO as (c & t & E & _ & N93 & _). rewrite E. rewrite N93. rewrite <- E.
      assert (L : (length (x :: l) <= S (length t))%nat).
      { assert (length (c :: t) = length (join [44] (map json_print (x :: l)) ++ 93 :: rest)) as EL by (rewrite E; reflexivity).
        cbn [length] in EL. rewrite app_length in EL.
        pose proof (join_length [44] (map json_print (x :: l))) as JL.
        rewrite map_length in JL. cbn [length] in *.
        assert (Forall (fun x0 : list N => (1 <= length x0)%nat) (map json_print (x :: l))) as FN.
        { apply Forall_forall. intros y Hy. apply in_map_iff in Hy. destruct Hy as (w & <- & _). apply json_print_nonempty. }
        specialize (JL FN). lia. }
      rewrite (parse_elems_ok (parse_value f) (x :: l)); [reflexivity|discriminate| |exact L].
      apply Forall_forall. intros y Hy rest' F'.
      rewrite Forall_forall in IH, OKl, Dl.
      apply IH; [exact Hy|apply OKl; exact Hy|apply Dl; exact Hy|exact F'].
  - (* dict *)
    cbn [json_ok] in OK. apply andb_true_iff in OK. destruct OK as [U OKm].
    pose proof (json_ok_dict_members _ OKm) as OKd. pose proof (depth_dict _ _ D) as Dd.
    destruct d as [|kv d].
    + reflexivity.
    + cbn [json_print app].
      change (map (fun kv0 : str * pv => print_str (fst kv0) ++ 58 :: json_print (snd kv0)) (kv :: d))
        with (map member_text (kv :: d)).
      rewrite <- app_assoc. cbn [app].
      cbn [parse_value skip_ws]. change (is_ws 123) with false. cbv beta iota.
      assert (HO : head_ok (join [44] (map member_text (kv :: d)) ++ 125 :: rest)).
      { cbn [map]. apply join_head. unfold member_text, print_str. cbn [app].
        eexists; eexists; split; [reflexivity|repeat split; reflexivity]. }
      rewrite (skip_ws_head _ HO).
      destruct HO as (c & t & E & _ & _ & N125). rewrite E. rewrite N125. rewrite <- E.
      assert (L : (length (kv :: d) <= S (length t))%nat).
      { assert (length (c :: t) = length (join [44] (map member_text (kv :: d)) ++ 125 :: rest)) as EL by (rewrite E; reflexivity).
        cbn [length] in EL. rewrite app_length in EL.
        pose proof (join_length [44] (map member_text (kv :: d))) as JL.
        rewrite map_length in JL. cbn [length] in *.
        assert (Forall (fun x0 : list N => (1 <= length x0)%nat) (map member_text (kv :: d))) as FN.
        { apply Forall_forall. intros y Hy. apply in_map_iff in Hy. destruct Hy as (w & <- & _).
          unfold member_text, print_str. cbn [app length]. lia. }
        specialize (JL FN). lia. }
      rewrite (parse_members_ok (parse_value f) (kv :: d)); [reflexivity|discriminate| |exact L|exact U].
      apply Forall_forall. intros y Hy.
      rewrite Forall_forall in IH, OKd, Dd. split; [apply OKd; exact Hy|].
      intros rest' F'. apply IH; [exact Hy|apply OKd; exact Hy|apply Dd; exact Hy|exact F'].
Qed.

(* ---------- depth is bounded by the length of the text ---------- *)
Lemma depth_le_length v : (depth v <= length (json_print v))%nat.
Proof.
  induction v as [|b|z|fl|s|s|l IH|d IH] using pv_ind';
    try (pose proof (json_print_nonempty PNone); cbn [depth]; 
         match goal with |- (1 <= length (json_print ?v))%nat => apply json_print_nonempty end).
  - cbn [depth json_print length]. rewrite app_length. cbn [length].
    assert ((fix go (l0 : list pv) : nat := match l0 with [] => 0%nat | x :: r => Nat.max (depth x) (go r) end) l
            <= length (join [44%N] (map json_print l)))%nat as B.
    { induction l as [|x l IHl]; [cbn; lia|].
      inversion IH as [|x' l' Hx Hl]; subst. specialize (IHl Hl).
      assert (length (json_print x) <= length (join [44%N] (map json_print (x :: l))))%nat
        by (apply join_elem_length; left; reflexivity).
      assert (length (join [44%N] (map json_print l)) <= length (join [44%N] (map json_print (x :: l))))%nat.
      { destruct l as [|y l]; [cbn; lia|]. cbn [map]. rewrite join_cons2, !app_length. cbn [map] in *. lia. }
      lia. }
    lia.
  - cbn [depth json_print length]. rewrite app_length. cbn [length].
    change (map (fun kv0 : str * pv => print_str (fst kv0) ++ 58 :: json_print (snd kv0)) d) with (map member_text d).
    assert ((fix go (d0 : list (str * pv)) : nat := match d0 with [] => 0%nat | (_, x) :: r => Nat.max (depth x) (go r) end) d
            <= length (join [44%N] (map member_text d)))%nat as B.
    { induction d as [|[k x] d IHd]; [cbn; lia|].
      inversion IH as [|x' l' Hx Hl]; subst. specialize (IHd Hl). cbn [snd] in Hx.
      assert (length (member_text (k, x)) <= length (join [44%N] (map member_text ((k, x) :: d))))%nat
        by (apply join_elem_length; left; reflexivity).
      assert (length (json_print x) <= length (member_text (k, x)))%nat
        by (unfold member_text; cbn [fst snd]; rewrite app_length; cbn [length]; lia).
      assert (length (join [44%N] (map member_text d)) <= length (join [44%N] (map member_text ((k, x) :: d))))%nat.
      { destruct d as [|y d]; [cbn; lia|]. cbn [map]. rewrite join_cons2, !app_length. cbn [map] in *. lia. }
      lia. }
    lia.
Qed.

Theorem json_loads_print v : json_ok v = true -> json_loads (json_print v) = POk v.
Proof.
  intro OK. unfold json_loads.
  pose proof (parse_value_print v OK (S (length (json_print v))) [] ) as P.
  rewrite app_nil_r in P. rewrite P; [reflexivity| |exact I].
  pose proof (depth_le_length v). lia.
Qed.

(* ---------- the printed text is ASCII, so it is an octet string ---------- *)
Definition ascii (l : list N) : Prop := forallb (fun b => b <? 128) l = true.

Lemma ascii_app a b : ascii a -> ascii b -> ascii (a ++ b).
Proof. unfold ascii. intros. rewrite forallb_app. apply andb_true_iff; split; assumption. Qed.

Lemma ascii_uint u : ascii (uint_chars u).
Proof. unfold ascii. induction u; cbn [uint_chars forallb]; try rewrite IHu; reflexivity. Qed.

Lemma hexdig_ascii d : d < 16 -> hexdig d <? 128 = true.
Proof. unfold hexdig. intro. destruct (d <? 10); lia. Qed.

Lemma ascii_uesc c : ascii (uesc c).
Proof.
  unfold ascii, uesc, hex4. cbn [forallb].
  rewrite !hexdig_ascii by (apply N.mod_lt; discriminate). reflexivity.
Qed.

Lemma ascii_esc_char c : ascii (esc_char c).
Proof.
  unfold esc_char.
  repeat match goal with |- context [if ?b then _ else _] => destruct b eqn:? end;
    try reflexivity; try apply ascii_uesc; try (apply ascii_app; apply ascii_uesc).
  unfold ascii. cbn [forallb]. replace (c <? 128) with true by lia. reflexivity.
Qed.

Lemma ascii_print_str s : ascii (print_str s).
Proof.
  unfold print_str. change (34 :: flat_map esc_char s ++ [34]) with ([34] ++ flat_map esc_char s ++ [34]).
  apply ascii_app; [reflexivity|]. apply ascii_app; [|reflexivity].
  induction s as [|c s IH]; [reflexivity|]. cbn [flat_map]. apply ascii_app; [apply ascii_esc_char|exact IH].
Qed.

Lemma ascii_join sep l : ascii sep -> Forall ascii l -> ascii (join sep l).
Proof.
  intros S F. induction l as [|x l IH]; [reflexivity|].
  inversion F as [|x' l' Hx Hl]; subst. destruct l as [|y l]; [exact Hx|].
  rewrite join_cons2. apply ascii_app; [exact Hx|]. apply ascii_app; [exact S|]. apply IH. exact Hl.
Qed.

Lemma ascii_json_print v : ascii (json_print v).
Proof.
  induction v as [|b|z|fl|s|s|l IH|d IH] using pv_ind'; try reflexivity.
  - destruct b; reflexivity.
  - cbn [json_print]. unfold print_Z, print_N. destruct (z <? 0)%Z.
    + change (45 :: uint_chars (N.to_uint (Z.abs_N z))) with ([45] ++ uint_chars (N.to_uint (Z.abs_N z))).
      apply ascii_app; [reflexivity|apply ascii_uint].
    + apply ascii_uint.
  - apply ascii_print_str.
  - cbn [json_print]. change (91 :: join [44] (map json_print l) ++ [93]) with ([91] ++ join [44] (map json_print l) ++ [93]).
    apply ascii_app; [reflexivity|]. apply ascii_app; [|reflexivity].
    apply ascii_join; [reflexivity|]. apply Forall_forall. intros y Hy.
    apply in_map_iff in Hy. destruct Hy as (w & <- & Hw). rewrite Forall_forall in IH. apply IH. exact Hw.
  - cbn [json_print].
    change (123 :: join [44] (map (fun kv => print_str (fst kv) ++ 58 :: json_print (snd kv)) d) ++ [125])
      with ([123] ++ join [44] (map (fun kv => print_str (fst kv) ++ 58 :: json_print (snd kv)) d) ++ [125]).
    apply ascii_app; [reflexivity|]. apply ascii_app; [|reflexivity].
    apply ascii_join; [reflexivity|]. apply Forall_forall. intros y Hy.
    apply in_map_iff in Hy. destruct Hy as (w & <- & Hw). rewrite Forall_forall in IH.
    apply ascii_app; [apply ascii_print_str|].
    change (58 :: json_print (snd w)) with ([58] ++ json_print (snd w)).
    apply ascii_app; [reflexivity|apply IH; exact Hw].
Qed.

Lemma ascii_bytes_ok l : ascii l -> bytes_ok l = true.
Proof.
  unfold ascii, bytes_ok. intro H. rewrite forallb_forall in *. intros x Hx. specialize (H x Hx). lia.
Qed.

(* util.json_b64decode (util.json_b64encode h) = h *)
Theorem json_b64_roundtrip h : json_ok h = true -> json_b64decode (json_b64encode h) = Ok (POk h).
Proof.
  intro OK. unfold json_b64decode, json_b64encode.
  rewrite b64_roundtrip by (apply ascii_bytes_ok; apply ascii_json_print).
  rewrite (json_loads_print _ OK). reflexivity.
Qed.

(* the encoded header segment is plain base64url text: no '.', '=', '+', '/' *)
Theorem json_b64encode_alphabet h : forallb in_alphabet (json_b64encode h) = true.
Proof. unfold json_b64encode. apply b64e_alphabet. apply ascii_bytes_ok. apply ascii_json_print. Qed.

(* lone surrogates are where Python's own json round trip fails: recorded *)
Example json_surrogate_pair_not_roundtrip :
  json_loads (json_print (PStr [55357; 56832])) = POk (PStr [128512]).
Proof. vm_compute. reflexivity. Qed.

Example json_ok_nontrivial :
  json_ok (PDict [(asc "alg", PStr (asc "HS256")); (asc "crit", PList [PStr [233; 128512; 34; 10]]);
                  (asc "n", PInt (-12)%Z); (asc "o", PDict [(asc "", PNone); (asc "b", PBool true)])]) = true.
Proof. vm_compute. reflexivity. Qed.
