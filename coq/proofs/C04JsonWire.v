(* C04JsonWire.v — the JSON serializations at the API level: jwe.decrypt_json applied to the dict that
   jwe.encrypt_json returned (represent_*_json followed by extract_*_json), composed with C04Multi. *)
From Coq Require Import Lia ZifyBool.
From Model Require Import JweBase JweCrypto JweMsg.
From Gen Require Import Tables.
From Proofs Require Import B64Proofs C02Proofs C04Proofs C04Multi C04Wire.
Open Scope N_scope.

(* evaluate comparisons of literal member names *)
Ltac keycmp :=
  repeat match goal with
  | |- context [str_eqb ?a ?b] =>
      let v := eval vm_compute in (str_eqb a b) in
      match v with
      | true => change (str_eqb a b) with true
      | false => change (str_eqb a b) with false
      end
  end.
Ltac look := repeat (progress (unfold dmem; cbn [dget app fst snd py_in py_getitem_str py_get_str bind]; keycmp; cbn iota)).

(* ---------- falsy headers are interchangeable ---------- *)
Definition hequiv (a b : pv) : Prop := a = b \/ (py_truth a = false /\ py_truth b = false).

Lemma headers_hdr_equiv s p u h1 h2 : hequiv h1 h2 -> headers s p u h1 = headers s p u h2.
Proof.
  intros [-> | [A B]]; [reflexivity |]. unfold headers. rewrite A, B. reflexivity.
Qed.

Lemma headers_unprot_equiv s p u1 u2 h : hequiv u1 u2 -> headers s p u1 h = headers s p u2 h.
Proof.
  intros [-> | [A B]]; [reflexivity |]. unfold headers. destruct s; [reflexivity | |]; rewrite A, B; reflexivity.
Qed.

Definition same_dec' (a b : recip) : Prop :=
  hequiv (r_header a) (r_header b) /\ r_ek a = r_ek b /\ r_key a = r_key b /\ r_sender a = r_sender b.

Lemma decrypt_recipient_ext' O a e hs r1 r2 tag :
  r_ek r1 = r_ek r2 -> r_key r1 = r_key r2 -> r_sender r1 = r_sender r2 ->
  decrypt_recipient O a e hs r1 tag = decrypt_recipient O a e hs r2 tag.
Proof. intros H2 H3 H4. destruct r1, r2. simpl in *. subst. reflexivity. Qed.

Lemma recip_loop_ext_list O g e o1 o2 :
  j_ser o1 = j_ser o2 -> j_prot o1 = j_prot o2 -> j_tag o1 = j_tag o2 -> hequiv (j_unprot o1) (j_unprot o2) ->
  forall rs1 rs2, Forall2 same_dec' rs1 rs2 ->
  forall acc, recip_loop O g e o1 rs1 acc = recip_loop O g e o2 rs2 acc.
Proof.
  intros S P T U. induction 1 as [|r1 r2 rs1 rs2 SD F IH]; intro acc; [reflexivity |].
  destruct SD as [H1 [H2 [H3 H4]]]. simpl.
  rewrite <- S, <- P, <- T.
  rewrite (headers_unprot_equiv (j_ser o1) (j_prot o1) (j_unprot o2) (j_unprot o1) (r_header r2)).
  2: { destruct U as [-> | [A B]]; [left; reflexivity | right; auto]. }
  rewrite <- (headers_hdr_equiv (j_ser o1) (j_prot o1) (j_unprot o1) _ _ H1).
  destruct (headers (j_ser o1) (j_prot o1) (j_unprot o1) (r_header r1)) as [hs|]; [| reflexivity].
  cbn [bind]. destruct (o_check_header O (PDict hs) true); [| reflexivity]. cbn [bind].
  destruct (hitem hs "alg") as [algv|]; [| reflexivity]. cbn [bind].
  destruct (get_alg g algv) as [arow|]; [| reflexivity]. cbn [bind].
  rewrite (decrypt_recipient_ext' O arow e hs r1 r2 (j_tag o1) H2 H3 H4).
  destruct (decrypt_recipient O arow e hs r2 (j_tag o1)).
  - apply IH.
  - destruct (catchable e0); [| reflexivity]. destruct (g_verify_all g); [reflexivity | apply IH].
Qed.

(* ---------- one recipient item: represent then extract ---------- *)
Lemma extract_recipient_members r' ek k sender :
  r_ek r' = Some ek -> bytes_ok ek = true ->
  exists r'', extract_recipient (PDict (recip_members r')) k sender = Ok r'' /\
              hequiv (r_header r'') (r_header r') /\ r_ek r'' = Some ek /\ r_key r'' = k /\ r_sender r'' = sender.
Proof.
  intros EK B. unfold extract_recipient, recip_members. rewrite EK.
  destruct (py_truth (r_header r')) eqn:T; destruct ek as [|b0 ek'].
  - look. eexists. split; [reflexivity |]. simpl. repeat split; auto. left; reflexivity.
  - look. unfold seg_bytes. look. cbn [to_bytes_pv]. rewrite (utf8_b64e _ B). cbn [bind].
    rewrite (b64_roundtrip _ B). cbn [bind].
    eexists. split; [reflexivity |]. simpl. repeat split; auto. left; reflexivity.
  - look. eexists. split; [reflexivity |]. simpl. repeat split; auto. right. auto.
  - look. unfold seg_bytes. look. cbn [to_bytes_pv]. rewrite (utf8_b64e _ B). cbn [bind].
    rewrite (b64_roundtrip _ B). cbn [bind].
    eexists. split; [reflexivity |]. simpl. repeat split; auto. right. auto.
Qed.

Lemma extract_recipients_members sender dflt : forall rs' keys,
  keys = map r_key rs' ->
  Forall (fun r' => exists ek, r_ek r' = Some ek /\ bytes_ok ek = true /\ r_sender r' = sender) rs' ->
  exists rs'', extract_recipients (map (fun r => PDict (recip_members r)) rs') keys dflt sender = Ok rs'' /\
               Forall2 same_dec' rs'' rs'.
Proof.
  induction rs' as [|r' rs' IH]; intros keys K F.
  - exists []. split; [reflexivity | constructor].
  - inversion F; subst. destruct H1 as [ek [EK [B SN]]]. simpl.
    destruct (extract_recipient_members r' ek (r_key r') sender EK B) as [r'' [X [H1 [H2' [H3 H4]]]]].
    rewrite X. cbn [bind].
    destruct (IH (map r_key rs') eq_refl H2) as [rs'' [Y F2]]. simpl tl. rewrite Y. cbn [bind].
    exists (r'' :: rs''). split; [reflexivity |]. constructor; [| exact F2].
    unfold same_dec'. rewrite EK, SN. auto.
Qed.

Lemma ascii_b64e x : bytes_ok x = true -> ascii_enc (b64e x) = Ok (b64e x).
Proof.
  intro B. unfold ascii_enc.
  assert (F : forallb (fun c => c <? 128) (b64e x) = true).
  { pose proof (b64e_alphabet x B) as A. rewrite forallb_forall in *. intros c I.
    specialize (A c I). apply in_alphabet_spec in A. lia. }
  rewrite F. reflexivity.
Qed.

Definition aad_equiv (a b : option bytes) : Prop :=
  a = b \/ ((a = None \/ a = Some []) /\ (b = None \/ b = Some [])).

Lemma aad_of_equiv s p a b : aad_equiv a b -> aad_of s p a = aad_of s p b.
Proof.
  intros [-> | [[-> | ->] [-> | ->]]]; destruct s; reflexivity.
Qed.

Section JsonWire.
Variable O : oracles.
Hypothesis JL : forall v t a, o_dumps O v = Ok t -> ascii_enc t = Ok a -> o_loads O a = Ok v.

(* what extract_*_json reads out of what represent_*_json wrote *)
Lemma extract_represent o x data dflt sender t a :
  e_ser o <> Compact ->
  (e_ser o = Flat -> exists r', x_recips x = [r']) ->
  represent_json O o x = Ok data ->
  o_dumps O (PDict (x_prot x)) = Ok t -> ascii_enc t = Ok a ->
  bytes_ok (x_iv x) = true -> bytes_ok (x_ct x) = true -> bytes_ok (x_tag x) = true ->
  (forall l, e_aad o = Some l -> bytes_ok l = true) ->
  Forall (fun r' => exists ek, r_ek r' = Some ek /\ bytes_ok ek = true /\ r_sender r' = sender) (x_recips x) ->
  exists ob, extract_json O data (map r_key (x_recips x)) dflt sender = Ok ob /\
    j_ser ob = e_ser o /\ j_prot ob = x_prot x /\ hequiv (j_unprot ob) (e_unprot o) /\
    j_b64prot ob = Some (b64e a) /\ j_iv ob = x_iv x /\ j_ct ob = x_ct x /\ j_tag ob = x_tag x /\
    aad_equiv (j_aad ob) (e_aad o) /\ Forall2 same_dec' (j_recips ob) (x_recips x).
Proof.
  intros N FL RJ DU AS Biv Bct Btag Baad FR.
  assert (Ba : bytes_ok a = true) by (eapply ascii_bytes_ok; eauto).
  unfold represent_json in RJ. unfold json_b64encode in RJ. rewrite DU in RJ. cbn [bind] in RJ.
  rewrite AS in RJ. cbn [bind] in RJ.
  assert (DEC : forall d : unit, json_b64decode O (PStr (b64e a)) = Ok (PDict (x_prot x))).
  { intros _. unfold json_b64decode. cbn [to_bytes_ascii]. rewrite (ascii_b64e a Ba). cbn [bind].
    rewrite (b64_roundtrip a Ba). cbn [bind]. apply (JL _ _ _ DU AS). }
  pose proof (DEC tt) as DEC'. clear DEC.
  assert (U : forall y, bytes_ok y = true -> to_bytes_pv (PStr (b64e y)) = Ok (b64e y))
    by (intros y By; cbn [to_bytes_pv]; apply utf8_b64e; exact By).
  destruct (e_ser o) eqn:S; [contradiction | |].
  - (* flattened *)
    destruct (FL eq_refl) as [r' XR]. rewrite XR in *.
    inversion FR as [|? ? FR1 _]; subst. destruct FR1 as [ek [EK [Bek SN]]].
    inversion RJ; subst data. clear RJ.
    unfold recip_members. rewrite EK.
    destruct (e_aad o) as [[|ax al]|] eqn:EA; destruct (py_truth (e_unprot o)) eqn:TU;
      destruct (py_truth (r_header r')) eqn:TH; destruct ek as [|e0 ek'];
      unfold extract_json, extract_recipient, seg_bytes; look;
      rewrite ?DEC'; look; rewrite ?U by (first [assumption | apply (Baad _ eq_refl)]); look;
      rewrite ?(b64_roundtrip _ Biv), ?(b64_roundtrip _ Bct), ?(b64_roundtrip _ Btag); look;
      rewrite ?(b64_roundtrip _ (Baad _ eq_refl)); look;
      rewrite ?(b64_roundtrip _ Bek); look;
      (eexists; split; [reflexivity |]; simpl;
       repeat split; try reflexivity;
       try (left; reflexivity); try (right; split; [reflexivity | assumption]);
       try (right; auto; fail);
       try (constructor; [| constructor]; unfold same_dec'; simpl; rewrite SN;
            repeat split; auto; first [left; reflexivity | right; auto])).
  - (* general *)
    inversion RJ; subst data. clear RJ.
    destruct (extract_recipients_members sender dflt (x_recips x) (map r_key (x_recips x)) eq_refl FR) as [rs'' [XR F2]].
    destruct (e_aad o) as [[|ax al]|] eqn:EA; destruct (py_truth (e_unprot o)) eqn:TU;
      unfold extract_json, seg_bytes; look;
      rewrite ?DEC'; look; rewrite ?U by (first [assumption | apply (Baad _ eq_refl)]); look;
      rewrite ?(b64_roundtrip _ Biv), ?(b64_roundtrip _ Bct), ?(b64_roundtrip _ Btag); look;
      rewrite ?(b64_roundtrip _ (Baad _ eq_refl)); look;
      cbn [py_iter bind]; rewrite XR; look;
      (eexists; split; [reflexivity |]; simpl;
       repeat split; try reflexivity; try exact F2;
       try (left; reflexivity); try (right; split; [reflexivity | assumption]);
       try (right; auto; fail)).
Qed.

End JsonWire.

(* ---------- keys survive pre_loop / post_loop ---------- *)
Lemma step_kept O g e s prot unprot dcek tag r d it r' :
  pre_rel O g s prot unprot dcek r d it -> post_rel O e s prot unprot dcek tag it r' -> kept s r r'.
Proof.
  intros [hs [algv [a [_ [_ [_ [_ [_ CASE]]]]]]]] PO.
  destruct CASE as [[_ [r2 [ek [EC IT]]]] | [_ [r1 [eph [epkd [_ [_ [AH IT]]]]]]]]; subst it; simpl in PO.
  - subst r'. apply kept_set_ek. eapply encrypt_cek_kept; eauto.
  - destruct PO as [hs1 [auk [ek [_ [_ [_ R']]]]]]. subst r'. apply kept_set_ek. eapply kept_add; eauto.
Qed.

Lemma steps_kept O g e s prot unprot dcek tag : forall rs ds its rs',
  pre_rels O g s prot unprot dcek rs ds its -> Forall2 (post_rel O e s prot unprot dcek tag) its rs' ->
  Forall2 (kept s) rs rs'.
Proof.
  induction rs as [|r rs IH]; intros ds its rs' PR PO.
  - inversion PR; subst. inversion PO; subst. constructor.
  - inversion PR; subst. inversion PO; subst. constructor.
    + eapply step_kept; eauto.
    + eapply IH; eauto.
Qed.

Lemma step_ek O g e s prot unprot dcek tag r d it r' :
  pre_rel O g s prot unprot dcek r d it -> post_rel O e s prot unprot dcek tag it r' -> exists ek, r_ek r' = Some ek.
Proof.
  intros [hs [algv [a [_ [_ [_ [_ [_ CASE]]]]]]]] PO.
  destruct CASE as [[_ [r2 [ek [EC IT]]]] | [_ [r1 [eph [epkd [_ [_ [AH IT]]]]]]]]; subst it; simpl in PO.
  - subst r'. exists ek. reflexivity.
  - destruct PO as [hs1 [auk [ek [_ [_ [_ R']]]]]]. subst r'. exists ek. reflexivity.
Qed.

Lemma forall2_len {A B} (R : A -> B -> Prop) l l' : Forall2 R l l' -> length l = length l'.
Proof. induction 1; simpl; [reflexivity | f_equal; assumption]. Qed.

Section JsonRt.
Variable O : oracles.
Hypothesis C : contracts O.
Variable g : registry.
Hypothesis CH : forall hs, o_check_header O (PDict hs) true = Ok tt.
Hypothesis BT : forall k iv a m c t, o_gcm_enc O k iv a m = Ok (c, t) -> bytes_ok t = true.
Hypothesis JL : forall v t a, o_dumps O v = Ok t -> ascii_enc t = Ok a -> o_loads O a = Ok v.

Theorem json_wire_rt o d data dflt sender :
  e_ser o <> Compact -> e_recips o <> [] -> (e_ser o = Flat -> exists r, e_recips o = [r]) ->
  nodirect g (e_ser o) (e_prot o) (e_unprot o) (e_recips o) ->
  wf (e_prot o) -> hdr_wf (e_unprot o) -> oks O (e_recips o) (d_rec d) ->
  (forall r, In r (e_recips o) -> r_sender r = sender) ->
  (forall encv e, hitem (e_prot o) "enc" = Ok encv -> get_enc g encv = Ok e ->
     lenN (d_civ d) * 8 = ee_iv_size e /\ lenN (d_cek d) * 8 = ee_cek_size e /\ ee_cek_size e <> 0) ->
  (forall l, e_aad o = Some l -> bytes_ok l = true) ->
  (forall x, perform_encrypt O g o d = Ok x ->
     bytes_ok (x_iv x) = true /\ bytes_ok (x_ct x) = true /\ bytes_ok (x_tag x) = true /\
     (forall r' ek, In r' (x_recips x) -> r_ek r' = Some ek -> bytes_ok ek = true)) ->
  encrypt_json O g o d = Ok data ->
  exists ob, decrypt_json O g data (map r_key (e_recips o)) dflt sender = Ok (e_plain o, ob) /\
             length (j_recips ob) = length (e_recips o).
Proof.
  intros N RN FL ND Wp Wu OK SND SZ Baad OUT ENC.
  unfold encrypt_json in ENC. inv_bind ENC. rename E into PE.
  destruct (OUT x PE) as [Biv [Bct [Btag Bek]]].
  destruct (general_rt O C g CH BT o d x N RN ND Wp Wu OK SZ PE) as [RT _].
  assert (DN : d_cek d <> []).
  { pose proof (perform_encrypt_inv O g o d x PE) as [encv [e [m [He [Ge _]]]]].
    destruct (SZ encv e He Ge) as [_ [Lc NZ]]. intro E. rewrite E in Lc. simpl in Lc. congruence. }
  destruct (perform_encrypt_multi_inv O g o d x N DN RN ND PE) as [XP [XC [its [PR [e [encv [He [Ge PO]]]]]]]].
  pose proof (steps_kept O g e _ _ _ _ _ _ _ _ _ PR PO) as KP.
  assert (KEYS : map r_key (e_recips o) = map r_key (x_recips x)).
  { clear - KP. induction KP as [|a b l l' [K1 _] F IH]; simpl; [reflexivity | rewrite K1, IH; reflexivity]. }
  assert (FR : Forall (fun r' => exists ek, r_ek r' = Some ek /\ bytes_ok ek = true /\ r_sender r' = sender) (x_recips x)).
  { assert (EKS : Forall (fun r' => exists ek, r_ek r' = Some ek) (x_recips x)).
    { clear - PR PO. revert PR PO. generalize (d_rec d). generalize (x_recips x). generalize (e_recips o).
      intros rs rs' ds PR. revert rs'. induction PR; intros rs' PO; inversion PO; subst; constructor.
      - eapply step_ek; eauto.
      - apply IHPR. assumption. }
    rewrite Forall_forall in *. intros r' I. destruct (EKS r' I) as [ek EK].
    exists ek. split; [exact EK |]. split; [apply (Bek r' ek I EK) |].
    (* the sender key is kept *)
    clear - KP I SND. revert SND. induction KP as [|a b l l' [_ [K2 _]] F IH]; intro SND; [destruct I |].
    destruct I as [<- | I]; [rewrite K2; apply SND; simpl; auto | apply IH; [exact I | intros r J; apply SND; simpl; auto]]. }
  pose proof (perform_encrypt_inv O g o d x PE) as [_ [_ [_ [_ [_ [_ [JB _]]]]]]].
  unfold json_b64encode in JB. inv_bind JB. rename x0 into t. inv_bind JB. rename x0 into a. inversion JB as [B64].
  assert (FLX : e_ser o = Flat -> exists r', x_recips x = [r']).
  { intro S. destruct (FL S) as [r R]. rewrite R in KP. inversion KP as [|? ? ? ? ? F2]; subst. inversion F2; subst. eauto. }
  destruct (extract_represent O JL o x data dflt sender t a N FLX ENC E E0 Biv Bct Btag Baad FR)
    as [ob [EX [J1 [J2 [J3 [J4 [J5 [J6 [J7 [J8 J9]]]]]]]]]].
  exists ob. split.
  - unfold decrypt_json. rewrite KEYS, EX. cbn [bind].
    assert (PD : perform_decrypt O g ob = perform_decrypt O g (obj_of o x)).
    { unfold perform_decrypt, perform_decrypt_inner.
      change (j_prot (obj_of o x)) with (x_prot x). change (j_iv (obj_of o x)) with (x_iv x).
      change (j_ct (obj_of o x)) with (x_ct x). change (j_tag (obj_of o x)) with (x_tag x).
      change (j_recips (obj_of o x)) with (x_recips x).
      rewrite J2, J5, J6, J7.
      assert (DA : dec_aad O ob = dec_aad O (obj_of o x)).
      { unfold dec_aad. rewrite J4, J1. change (j_b64prot (obj_of o x)) with (Some (x_b64prot x)).
        change (j_ser (obj_of o x)) with (e_ser o). change (j_aad (obj_of o x)) with (e_aad o).
        cbn [bind]. rewrite B64. rewrite (aad_of_equiv _ _ _ _ J8). reflexivity. }
      rewrite DA.
      assert (RLE : forall e0, recip_loop O g e0 ob (j_recips ob) [] = recip_loop O g e0 (obj_of o x) (x_recips x) []).
      { intro e0. apply recip_loop_ext_list; simpl; auto. }
      destruct (if dmem (x_prot x) (s_ "enc") then Ok tt else Err (EJose MissingEncryptionError)); [| reflexivity].
      cbn [bind]. destruct (hitem (x_prot x) "enc") as [encv0|]; [| reflexivity]. cbn [bind].
      destruct (get_enc g encv0) as [e0|]; [| reflexivity]. cbn [bind].
      destruct (check_iv e0 (x_iv x)); [| reflexivity]. cbn [bind].
      rewrite (RLE e0). reflexivity. }
    rewrite PD, RT. reflexivity.
  - pose proof (forall2_len _ _ _ J9) as L1. pose proof (forall2_len _ _ _ KP) as L2. congruence.
Qed.

End JsonRt.

(* ---------- the three sites that look at the aad use ONE emptiness test ----------
   perform_encrypt (aad_of), represent_*_json (the "aad" member) and _perform_decrypt (aad_of): an empty aad
   (Some []) is treated exactly like an absent one (None) at all three *)
Lemma aad_empty_is_absent s p : aad_of s p (Some []) = aad_of s p None /\ aad_of s p None = p.
Proof. destruct s; split; reflexivity. Qed.

Lemma represent_aad_member O o x data :
  e_ser o <> Compact -> represent_json O o x = Ok data ->
  py_in (PStr (s_ "aad")) data =
    Ok (match e_aad o with Some (_ :: _) => true | _ => false end).
Proof.
  intros N RJ. unfold represent_json in RJ. inv_bind RJ.
  destruct (e_ser o); [contradiction | |].
  - destruct (x_recips x) as [|r' rs]; [discriminate |]. inversion RJ; subst data. clear RJ.
    unfold recip_members.
    destruct (e_aad o) as [[|ax al]|]; destruct (py_truth (e_unprot o)); destruct (py_truth (r_header r'));
      destruct (r_ek r') as [[|e0 ek]|]; look; reflexivity.
  - inversion RJ; subst data. clear RJ.
    destruct (e_aad o) as [[|ax al]|]; destruct (py_truth (e_unprot o)); look; reflexivity.
Qed.
