(* ComposeJweJwt.v — C09 (jwt.encode / jwt.decode over an abstract transport)
   composed with the JWE pipeline model: transport_encode = encrypt_compact (+ the
   protected-header dict after the call), transport_decode = decrypt_compact
   followed by .headers(), .plaintext (model/ComposeJweDefs.v: jwe_tenc, jwe_tdec).
   C09's contract [transport_rt] is established at (w, p) from C04's compact wire
   round trip (c04_compact_wire_rt) under the inverse-pair contracts; what
   perform_encrypt writes into the header (epk / iv, tag / p2s, p2c) are NEW
   members when the header did not carry them. *)
From Coq Require Import String List NArith ZArith Bool Lia.
From Model Require Import Base PyVal TableTypes.
From Model Require Import JweKeys ComposeJweDefs.
From Model Require C09Jwt C09Spec.
From Gen Require Import Tables.
From Proofs Require JwsProofs C02Proofs C04Proofs C04Multi C04Wire C09Dict C09Proofs ComposeJwePipe.
Import ListNotations.
Open Scope N_scope.

Ltac bst H x E := apply JwsProofs.bind_ok in H; destruct H as (x & E & H).

(* ---------- w' = w followed by new members ---------- *)
Lemma extends_refl w : extends w w.
Proof. exists []. split; [symmetry; apply app_nil_r|]. intros; reflexivity. Qed.

Lemma dset_absent_app' {A} (d : list (str * A)) k v : dget d k = None -> dset d k v = d ++ [(k, v)].
Proof.
  induction d as [|[k' v'] d IH]; cbn [dget dset app]; [reflexivity|].
  destruct (str_eqb k' k); [discriminate|]. intro H. rewrite (IH H). reflexivity.
Qed.

Lemma extends_dset w k v : dget w k = None -> extends w (dset w k v).
Proof.
  intro N. exists [(k, v)]. split; [apply dset_absent_app'; exact N|].
  intros k0 M. unfold dmem in *. cbn [dget]. destruct (str_eqb k k0) eqn:E; [|reflexivity].
  apply str_eqb_eq in E. subst k0. rewrite N in M. discriminate.
Qed.

Lemma dmem_app {A} (a b : list (str * A)) k : dmem (a ++ b) k = dmem a k || dmem b k.
Proof.
  unfold dmem. induction a as [|[k' v] a IH]; cbn [app dget]; [reflexivity|].
  destruct (str_eqb k' k); [reflexivity|exact IH].
Qed.

Lemma extends_trans a b c : extends a b -> extends b c -> extends a c.
Proof.
  intros (e1 & -> & D1) (e2 & -> & D2). exists (e1 ++ e2). split; [symmetry; apply app_assoc|].
  intros k M. rewrite dmem_app, (D1 k M). cbn [orb]. apply D2. rewrite dmem_app, M. reflexivity.
Qed.

Definition fresh (w : dict) : Prop :=
  dget w (s_ "epk") = None /\ dget w (s_ "iv") = None /\ dget w (s_ "tag") = None.

Section Jwt.
  Variable O : oracles.
  Variable g : registry.

  Lemma compact_headers_dmem prot unprot hs k :
    headers Compact prot unprot PNone = Ok hs -> dmem hs k = dmem prot k.
  Proof.
    unfold headers. cbn [py_truth bind]. intro H. inversion H.
    rewrite JwsProofs.dmem_dupdate. reflexivity.
  Qed.

  Lemma dmem_false_dget {A} (d : list (str * A)) k : dmem d k = false -> dget d k = None.
  Proof. unfold dmem. destruct (dget d k); [discriminate|reflexivity]. Qed.

  Lemma add_header_compact prot r k v : add_header Compact prot r k v = Ok (dset prot k v, r).
  Proof. reflexivity. Qed.

  (* what encrypt_cek writes into a compact protected header *)
  Lemma encrypt_cek_extends a prot unprot r d cek prot2 r2 ek :
    r_header r = PNone -> fresh prot ->
    encrypt_cek O a Compact prot unprot r d cek = Ok (prot2, r2, ek) -> extends prot prot2.
  Proof.
    intros RH (FE & FI & FT) H. unfold encrypt_cek in H.
    destruct (fam_is (ea_family a) "RSA").
    { bst H u CK. bst H bits RB. destruct (bits <? key_size_of a); [discriminate|].
      bst H ek' RE. inversion H; subst. apply extends_refl. }
    destruct (fam_is (ea_family a) "AESKW").
    { bst H u CK. bst H ek' KW. inversion H; subst. apply extends_refl. }
    destruct (fam_is (ea_family a) "AESGCMKW").
    { bst H u CK. bst H u2 CO. bst H et GE. bst H pr AH1. bst H pr2 AH2.
      inversion H; subst prot2 r2 ek. clear H.
      rewrite add_header_compact in AH1. inversion AH1; subst pr. cbn [fst snd] in AH2.
      rewrite add_header_compact in AH2. inversion AH2; subst pr2. cbn [fst].
      eapply extends_trans; [apply extends_dset; exact FI|].
      apply extends_dset. rewrite dget_dset_other by (vm_compute; discriminate). exact FT. }
    destruct (fam_is (ea_family a) "PBES2"); [|discriminate].
    bst H hs HS. rewrite RH in HS.
    bst H st1 S1. destruct st1 as [[prot1 r1] p2s]. bst H st2 S2. destruct st2 as [[prot3 r3] p2c].
    bst H u CK. bst H kek PK. bst H ek' KW. inversion H; subst prot2 r2 ek. clear H.
    assert (E1 : extends prot prot1 /\ (dmem hs (s_ "p2c") = false -> dget prot1 (s_ "p2c") = None)).
    { destruct (negb (dmem hs (s_ "p2s"))) eqn:M.
      - bst S1 pr AH. rewrite add_header_compact in AH. inversion AH; subst pr. inversion S1; subst prot1 r1 p2s.
        apply negb_true_iff in M. rewrite (compact_headers_dmem _ _ _ _ HS) in M.
        split; [apply extends_dset, dmem_false_dget; exact M|].
        intro M2. rewrite dget_dset_other by (vm_compute; discriminate).
        rewrite (compact_headers_dmem _ _ _ _ HS) in M2. apply dmem_false_dget. exact M2.
      - bst S1 sb TB. bst S1 p BD. inversion S1; subst prot1 r1 p2s. split; [apply extends_refl|].
        intro M2. rewrite (compact_headers_dmem _ _ _ _ HS) in M2. apply dmem_false_dget. exact M2. }
    destruct E1 as [E1 N2].
    eapply extends_trans; [exact E1|].
    destruct (negb (dmem hs (s_ "p2c"))) eqn:M.
    - bst S2 pr AH.
      assert (AH' : add_header Compact prot1 r1 (s_ "p2c") (PInt (Z.of_N (ea_p2c a))) = Ok pr) by exact AH.
      rewrite add_header_compact in AH'. inversion AH'; subst pr. inversion S2; subst prot3 r3 p2c.
      apply extends_dset, N2. apply negb_true_iff. exact M.
    - inversion S2; subst. apply extends_refl.
  Qed.

  Section Contracts.
  Hypothesis C : C04Proofs.contracts O.
  (* the premises of c04_compact_wire_rt about the oracle record *)
  Hypothesis CH : forall hs, o_check_header O (PDict hs) true = Ok tt.
  Hypothesis BT : forall k iv a m c t, o_gcm_enc O k iv a m = Ok (c, t) -> bytes_ok t = true.
  Hypothesis JL : forall v t a, o_dumps O v = Ok t -> ascii_enc t = Ok a -> o_loads O a = Ok v.

  (* the protected header after perform_encrypt, one compact recipient *)
  Theorem x_prot_extends w p r d x :
    r_header r = PNone -> fresh w ->
    perform_encrypt O g (jwe_eobj w p r) d = Ok x -> extends w (x_prot x).
  Proof.
    intros RH FR PE. destruct FR as (FE & FI & FT).
    destruct (C04Proofs.perform_encrypt_single_inv O g (jwe_eobj w p r) d x r eq_refl PE)
      as (encv & e & hs & algv & a & _ & _ & HS & _ & HA & GA & K1).
    destruct (ea_direct a) eqn:D; destruct (is_agreement a) eqn:AG.
    - destruct (C04Proofs.perform_encrypt_ecdh_direct_inv O g (jwe_eobj w p r) d x r eq_refl PE)
        as (encv' & e' & hs' & algv' & a' & _ & _ & HS' & _ & HA' & GA' & K).
      rewrite HS in HS'. inversion HS'; subst hs'. rewrite HA in HA'. inversion HA'; subst algv'.
      rewrite GA in GA'. inversion GA'; subst a'.
      destruct (K AG D) as (eph & epkd & prot1 & r1 & hs1 & _ & _ & AH & _ & _ & _ & XP & _).
      cbn [jwe_eobj e_ser e_prot] in AH. rewrite add_header_compact in AH. injection AH as A1 A2.
      rewrite XP, <- A1. apply extends_dset. exact FE.
    - destruct (C04Proofs.perform_encrypt_dir_inv O g (jwe_eobj w p r) d x r eq_refl PE)
        as (encv' & e' & hs' & algv' & a' & _ & _ & HS' & _ & HA' & GA' & K).
      rewrite HS in HS'. inversion HS'; subst hs'. rewrite HA in HA'. inversion HA'; subst algv'.
      rewrite GA in GA'. inversion GA'; subst a'.
      destruct (K AG D) as (_ & _ & XP & _). rewrite XP. apply extends_refl.
    - destruct (C04Proofs.perform_encrypt_ecdh_kw_inv O g (jwe_eobj w p r) d x r eq_refl PE)
        as (encv' & e' & hs' & algv' & a' & _ & _ & HS' & _ & HA' & GA' & K).
      rewrite HS in HS'. inversion HS'; subst hs'. rewrite HA in HA'. inversion HA'; subst algv'.
      rewrite GA in GA'. inversion GA'; subst a'.
      destruct (K AG D) as (eph & epkd & prot1 & r1 & hs1 & auk & ek & _ & _ & AH & _ & _ & _ & _ & XP & _).
      cbn [jwe_eobj e_ser e_prot] in AH. rewrite add_header_compact in AH. injection AH as A1 A2.
      rewrite XP, <- A1. apply extends_dset. exact FE.
    - destruct (K1 eq_refl eq_refl) as (prot2 & r2 & ek & EC & XP & _).
      rewrite XP. cbn [jwe_eobj e_ser e_prot e_unprot] in EC.
      exact (encrypt_cek_extends _ _ _ _ _ _ _ _ _ RH (conj FE (conj FI FT)) EC).
  Qed.

  (* the side conditions of C04's compact wire round trip at (w, p) *)
  Record rt_side (w : dict) (p : bytes) (r : recip) (d : edraw) : Prop := {
    sd_hdr : r_header r = PNone;
    sd_wf : C04Proofs.wf w;
    sd_recip : C04Multi.recip_ok O r (C04Multi.draw_of (d_rec d));
    sd_sizes : forall encv e, hitem w "enc" = Ok encv -> get_enc g encv = Ok e ->
                 lenN (d_civ d) * 8 = ee_iv_size e /\ lenN (d_cek d) * 8 = ee_cek_size e;
    sd_out : forall x, perform_encrypt O g (jwe_eobj w p r) d = Ok x ->
               bytes_ok (x_iv x) = true /\ bytes_ok (x_ct x) = true /\ bytes_ok (x_tag x) = true /\
               (forall r' ek, In r' (x_recips x) -> r_ek r' = Some ek -> bytes_ok ek = true) /\
               dmem (x_prot x) (s_ "alg") = true /\ dmem (x_prot x) (s_ "enc") = true
  }.

  Theorem jwe_transport_rt_at w p r d tok w' :
    rt_side w p r d -> fresh w ->
    jwe_tenc O g r d w p = (Ok tok, w') ->
    jwe_tdec O g (r_key r) (r_sender r) tok = Ok (w', p) /\ extends w w'.
  Proof.
    intros [RH WF RO SZ OUT] FR H. unfold jwe_tenc in H.
    pose proof (f_equal fst H) as H1. pose proof (f_equal snd H) as H2. cbn [fst snd] in H1, H2. clear H.
    destruct (C04Wire.compact_wire_rt O C g CH BT JL (jwe_eobj w p r) d tok r
                eq_refl eq_refl RH WF I RO SZ OUT H1) as (ob & DC & x & PE & JP & _).
    rewrite PE in H2. subst w'.
    split.
    - unfold jwe_tdec. cbn [jwe_eobj e_plain] in DC. rewrite DC. cbn [bind fst snd]. rewrite JP. reflexivity.
    - exact (x_prot_extends w p r d x RH FR PE).
  Qed.

  (* ---------- jwt round trip over the JWE pipeline ---------- *)
  Variable json_dumps : pv -> res bytes.
  Variable json_loads : bytes -> res pv.
  Hypothesis claims_json_rt : forall v b, C09Spec.json_ok v = true -> json_dumps v = Ok b -> json_loads b = Ok v.

  Theorem jwt_rt_jwe r d h c tok :
    keys_unique (dkeys h) = true -> C09Spec.claims_ok c = true ->
    fresh (C09Jwt.typ_default h) ->
    (forall p, json_dumps (PDict (match C09Jwt.claims_pv (fst (C09Jwt.convert_keys TablesC09.nd_keys c)) with
                                  | Some dd => dd | None => [] end)) = Ok p ->
               rt_side (C09Jwt.typ_default h) p r d) ->
    C09Jwt.eo_result (C09Jwt.encode json_dumps (jwe_tenc O g r d) h c) = Ok tok ->
    exists dd extra,
      C09Jwt.claims_pv (C09Jwt.eo_claims (C09Jwt.encode json_dumps (jwe_tenc O g r d) h c)) = Some dd /\
      C09Jwt.decode json_loads (jwe_tdec O g (r_key r) (r_sender r)) tok
        = Ok (C09Spec.spec_header h ++ extra, PDict dd) /\
      (forall k, dmem (C09Spec.spec_header h) k = true -> dmem extra k = false).
  Proof.
    intros U OK FR SD H.
    destruct (C09Proofs.encode_ok_inv json_dumps (jwe_tenc O g r d) h c tok H)
      as (c' & dd & p & w' & K & P & J & T & E).
    assert (SD' : rt_side (C09Jwt.typ_default h) p r d).
    { apply SD. rewrite K. cbn [fst]. rewrite P. exact J. }
    destruct (jwe_transport_rt_at _ p r d tok w' SD' FR T) as [D (extra & W & X)].
    rewrite (C09Dict.typ_default_spec h U) in *. subst w'.
    exists dd, extra. rewrite E. cbn [C09Jwt.eo_claims]. split; [exact P|]. split; [|exact X].
    apply C09Proofs.decode_ok_iff. exists p. split; [exact D|]. split; [|reflexivity].
    apply claims_json_rt; [|exact J].
    apply (C09Dict.claims_pv_ok c' dd); [|exact P].
    exact (C09Dict.convert_keys_claims_ok _ _ _ _ OK K).
  Qed.
  End Contracts.
End Jwt.
