(* ComposeJweC06.v — C06's [jwe_suitable] transferred to the key-management step of the JWE
   pipeline model, consuming side, for the families where the gate equalities of
   ComposeJweEq.v suffice: dir, A*KW, A*GCMKW.  A CEK-yielding run of decrypt_recipient is an
   accepting run of C06's [jwe_run] (EDecCompact, key given directly, standard primitives) on
   the related key, hence C06's theorem p_c06_jwe applies. *)
From Coq Require Import String List NArith ZArith Bool Lia.
From Model Require Import Base PyVal TableTypes.
From Model Require Import JweKeys ComposeJweDefs.
From Model Require C06Model C06Spec.
From Gen Require Import Tables.
From Proofs Require JwsProofs C06Proofs ComposeJwsEq ComposeJwsC06 ComposeJweEq.
Import ListNotations.
Open Scope N_scope.

Ltac bst H x E := apply JwsProofs.bind_ok in H; destruct H as (x & E & H).

Lemma fam_is_eqb f x : fam_is f x = String.eqb f x.
Proof. unfold fam_is. apply ComposeJwsC06.str_eqb_asc. Qed.

(* the row the pipeline's get_alg / get_enc found is the row C06's lookup finds *)
Lemma find_alg_find_jwe alg a : JweMsg.find_alg (asc alg) = Some a -> C06Model.find_jwe alg = Some a.
Proof.
  unfold JweMsg.find_alg, C06Model.find_jwe. intro H. rewrite <- H.
  apply ComposeJwsEq.find_ext'. intro r. symmetry. apply ComposeJwsC06.str_eqb_asc.
Qed.
Lemma find_enc_find_enc enc e : JweMsg.find_enc (asc enc) = Some e -> C06Model.find_enc enc = Some e.
Proof.
  unfold JweMsg.find_enc, C06Model.find_enc. intro H. rewrite <- H.
  apply ComposeJwsEq.find_ext'. intro r. symmetry. apply ComposeJwsC06.str_eqb_asc.
Qed.

Lemma find_op_unwrap : exists rv, C06Model.find_op "unwrapKey" = Some rv /\ C06Model.op_needs_private rv = true.
Proof. eexists. split; vm_compute; reflexivity. Qed.

(* every dir / A*KW / A*GCMKW row of /repo is an oct-key algorithm; the wrapping ones declare a size *)
Lemma kw_rows_table :
  forallb (fun r => if String.eqb (ea_family r) "dir" || String.eqb (ea_family r) "AESKW"
                       || String.eqb (ea_family r) "AESGCMKW"
                    then match ea_key_types r with [t] => String.eqb t "oct" | _ => false end
                         && (String.eqb (ea_family r) "dir" ||
                             match ea_key_size r with Some _ => true | None => false end)
                    else true) jwe_alg_table_drafts = true.
Proof. vm_compute. reflexivity. Qed.

Section C06.
  Variable O : oracles.

  Lemma oct_key a k use k6 : krel k use k6 -> ea_key_types a = ["oct"%string] ->
    JweCrypto.check_key_type a k = Ok tt -> C06Model.k_kty k6 = C06Model.KOct.
  Proof.
    intros R T H. rewrite (ComposeJweEq.jwe_check_key_type_eq a k use k6 R) in H.
    unfold C06Model.jwe_check_key_type, C06Model.mem_str in H. rewrite T in H. cbn [existsb] in H.
    destruct (C06Model.k_kty k6); try reflexivity; cbn in H; discriminate.
  Qed.

  (* decrypt_recipient -> jwe_decrypt_alg, the three families *)
  Lemma decrypt_sim a e hs r tag cek use k6 ek :
    krel (r_key r) use k6 -> C06Spec.key_wf k6 ->
    ea_key_types a = ["oct"%string] ->
    (ea_family a = "dir"%string \/
     ((ea_family a = "AESKW"%string \/ ea_family a = "AESGCMKW"%string) /\ exists sz, ea_key_size a = Some sz)) ->
    decrypt_recipient O a e hs r tag = Ok cek ->
    C06Model.jwe_decrypt_alg C06Model.prim_std a e k6 None ek = Ok tt.
  Proof.
    intros R W T F H.
    assert (AG : is_agreement a = false).
    { unfold is_agreement. rewrite !fam_is_eqb.
      destruct F as [F|[[F|F] _]]; rewrite F; reflexivity. }
    unfold decrypt_recipient in H. rewrite AG in H. unfold C06Model.jwe_decrypt_alg.
    destruct F as [F|[F (sz & SZ)]].
    - (* dir *)
      rewrite F. cbn [String.eqb Ascii.eqb Bool.eqb].
      assert (DC : dir_compute_cek a (ee_cek_size e) r = Ok cek).
      { destruct (ea_direct a).
        - rewrite fam_is_eqb, F in H. cbn [String.eqb Ascii.eqb Bool.eqb] in H.
          destruct (r_ek r) as [[|b l]|]; try discriminate; exact H.
        - unfold decrypt_cek in H. rewrite !fam_is_eqb, F in H. cbn in H. discriminate. }
      unfold dir_compute_cek in DC. bst DC u CK. destruct u.
      pose proof (oct_key _ _ _ _ R T CK) as KO.
      rewrite <- (ComposeJweEq.jwe_check_key_type_eq a (r_key r) use k6 R), CK. cbn [bind].
      rewrite (kr_bits _ _ _ R KO).
      destruct (lenN (k_id (r_key r)) * 8 =? ee_cek_size e); [reflexivity|discriminate].
    - (* AESKW / AESGCMKW *)
      assert (ND : ea_direct a = false).
      { destruct (ea_direct a); [|reflexivity]. exfalso.
        rewrite fam_is_eqb in H. destruct F as [F|F]; rewrite F in H; cbn [String.eqb Ascii.eqb Bool.eqb] in H;
          destruct (r_ek r) as [[|b l]|]; discriminate. }
      rewrite ND in H. unfold decrypt_cek in H. rewrite !fam_is_eqb in H.
      destruct find_op_unwrap as (rv & FU & PU).
      assert (CKO : JweCrypto.check_key_type a (r_key r) = Ok tt /\
                    JweCrypto.check_op_key (key_size_of a) (k_id (r_key r)) = Ok tt).
      { destruct F as [F|F]; rewrite F in H; cbn [String.eqb Ascii.eqb Bool.eqb] in H.
        - bst H u CK. destruct u. bst H ekk NE. unfold kw_unwrap_cek in H. bst H u2 CO. destruct u2. auto.
        - bst H u CK. destruct u. bst H u2 CO. destruct u2. auto. }
      destruct CKO as [CK CO].
      pose proof (oct_key _ _ _ _ R T CK) as KO.
      assert (PR : C06Model.k_priv k6 = true) by (destruct W as (_ & _ & P & _); exact (P KO)).
      assert (GOK : C06Model.get_op_key "unwrapKey" k6 = Ok (C06Model.NBytes (C06Model.k_bits k6))).
      { unfold C06Model.get_op_key, C06Model.check_key_op. rewrite (kr_ops _ _ _ R). cbn [bind].
        rewrite FU, PU, PR. cbn [negb andb bind]. unfold C06Model.native_of. rewrite KO. reflexivity. }
      assert (COK : C06Model.check_op_key a (C06Model.NBytes (C06Model.k_bits k6)) = Ok tt).
      { unfold C06Model.check_op_key. rewrite SZ, (kr_bits _ _ _ R KO).
        unfold JweCrypto.check_op_key, key_size_of in CO. rewrite SZ in CO.
        destruct (lenN (k_id (r_key r)) * 8 =? sz); [reflexivity|discriminate]. }
      rewrite <- (ComposeJweEq.jwe_check_key_type_eq a (r_key r) use k6 R), CK.
      destruct F as [F|F]; rewrite F; cbn [String.eqb Ascii.eqb Bool.eqb bind]; rewrite GOK; cbn [bind];
        rewrite COK; reflexivity.
  Qed.

  (* (a) consuming side: a CEK-yielding key-management step means a suitable key *)
  Theorem jwe_suitable_kw_decrypt alg enc a e hs r tag cek use k6 ek :
    JweMsg.find_alg (asc alg) = Some a -> JweMsg.find_enc (asc enc) = Some e ->
    ea_key_types a = ["oct"%string] ->
    (ea_family a = "dir"%string \/
     ((ea_family a = "AESKW"%string \/ ea_family a = "AESGCMKW"%string) /\ exists sz, ea_key_size a = Some sz)) ->
    krel (r_key r) use k6 -> C06Spec.key_wf k6 ->
    C06Model.check_use "enc" k6 = Ok tt ->
    decrypt_recipient O a e hs r tag = Ok cek ->
    C06Spec.jwe_suitable alg false (C06Proofs.cek_of enc) k6 None ek.
  Proof.
    intros FA FE T F R W U H.
    pose proof (decrypt_sim a e hs r tag cek use k6 ek R W T F H) as S.
    assert (RUN : C06Model.jwe_run C06Model.prim_std C06Model.EDecCompact C06Model.SrcKey alg enc k6 None ek true = Ok tt).
    { unfold C06Model.jwe_run. rewrite (find_enc_find_enc _ _ FE), (find_alg_find_jwe _ _ FA).
      cbn [C06Model.eff_sender C06Model.jwe_is_jwt C06Model.jwe_attach C06Model.jwe_preattached
           C06Model.jwe_sender_first C06Model.jwe_is_enc C06Model.guess_key bind C06Model.sender_use_gate].
      rewrite U. cbn [bind]. rewrite S. reflexivity. }
    exact (C06Proofs.p_c06_jwe _ C06Model.EDecCompact _ _ _ _ None _ _ W ltac:(intros s X; discriminate X) RUN).
  Qed.
  (* (b), as far as it follows: with an unsuitable key the step yields no CEK *)
  Theorem jwe_unsuitable_kw_decrypt_fails alg enc a e hs r tag use k6 ek :
    JweMsg.find_alg (asc alg) = Some a -> JweMsg.find_enc (asc enc) = Some e ->
    ea_key_types a = ["oct"%string] ->
    (ea_family a = "dir"%string \/
     ((ea_family a = "AESKW"%string \/ ea_family a = "AESGCMKW"%string) /\ exists sz, ea_key_size a = Some sz)) ->
    krel (r_key r) use k6 -> C06Spec.key_wf k6 ->
    C06Model.check_use "enc" k6 = Ok tt ->
    ~ C06Spec.jwe_suitable alg false (C06Proofs.cek_of enc) k6 None ek ->
    exists x, decrypt_recipient O a e hs r tag = Err x.
  Proof.
    intros FA FE T F R W U NS.
    destruct (decrypt_recipient O a e hs r tag) as [cek|x] eqn:H; [|eauto].
    exfalso. apply NS. exact (jwe_suitable_kw_decrypt alg enc a e hs r tag cek use k6 ek FA FE T F R W U H).
  Qed.
End C06.
