(* B64Proofs.v — proofs about model/B64.v (C19 statements). *)
From Model Require Import Base B64 IntCodec.
From Coq Require Import ZArith NArith List Bool Lia ZifyBool ZifyN ZifyNat.
Import ListNotations.
Open Scope N_scope.

Ltac Zify.zify_post_hook ::= Z.to_euclidean_division_equations.

(* ------------------------------------------------------------------ *)
(* alphabet <-> sextet facts                                           *)
(* ------------------------------------------------------------------ *)

Lemma in_alphabet_spec c :
  in_alphabet c = true <->
  (65 <= c <= 90 \/ 97 <= c <= 122 \/ 48 <= c <= 57 \/ c = 45 \/ c = 95).
Proof.
  unfold in_alphabet, dec_char.
  destruct ((65 <=? c) && (c <=? 90)) eqn:E1; [split; [lia|reflexivity]|].
  destruct ((97 <=? c) && (c <=? 122)) eqn:E2; [split; [lia|reflexivity]|].
  destruct ((48 <=? c) && (c <=? 57)) eqn:E3; [split; [lia|reflexivity]|].
  destruct (c =? 45) eqn:E4; [split; [lia|reflexivity]|].
  destruct (c =? 95) eqn:E5; [split; [lia|reflexivity]|].
  split; [discriminate|lia].
Qed.

Lemma dec_char_lt c v : dec_char c = Some v -> v < 64.
Proof.
  unfold dec_char.
  destruct ((65 <=? c) && (c <=? 90)) eqn:E1; [intros H; inversion H; lia|].
  destruct ((97 <=? c) && (c <=? 122)) eqn:E2; [intros H; inversion H; lia|].
  destruct ((48 <=? c) && (c <=? 57)) eqn:E3; [intros H; inversion H; lia|].
  destruct (c =? 45) eqn:E4; [intros H; inversion H; lia|].
  destruct (c =? 95) eqn:E5; [intros H; inversion H; lia|].
  discriminate.
Qed.

Lemma sweep_dec_enc :
  forallb (fun v => match dec_char (enc_char v) with
                    | Some w => w =? v | None => false end)
          (map N.of_nat (seq 0 64)) = true.
Proof. vm_compute; reflexivity. Qed.

Lemma lt64_in_seq v : v < 64 -> In v (map N.of_nat (seq 0 64)).
Proof.
  intros H. apply in_map_iff. exists (N.to_nat v). split; [lia|].
  apply in_seq. lia.
Qed.

Lemma dec_enc v : v < 64 -> dec_char (enc_char v) = Some v.
Proof.
  intros H. pose proof sweep_dec_enc as S.
  rewrite forallb_forall in S. specialize (S v (lt64_in_seq v H)).
  destruct (dec_char (enc_char v)) as [w|]; [|discriminate].
  apply N.eqb_eq in S. congruence.
Qed.

Lemma enc_alpha v : v < 64 -> in_alphabet (enc_char v) = true.
Proof. intros H. unfold in_alphabet. rewrite (dec_enc v H). reflexivity. Qed.

Lemma alpha_ne61 c : in_alphabet c = true -> (c =? 61) = false.
Proof. intros H. apply in_alphabet_spec in H. lia. Qed.

Lemma alpha_ne_plus_slash c :
  in_alphabet c = true -> ((c =? 43) || (c =? 47)) = false.
Proof. intros H. apply in_alphabet_spec in H. lia. Qed.

Lemma enc_ne61 v : v < 64 -> (enc_char v =? 61) = false.
Proof. intros H. apply alpha_ne61, enc_alpha, H. Qed.

Lemma alpha_no_plus_slash s :
  forallb in_alphabet s = true ->
  existsb (fun c => (c =? 43) || (c =? 47)) s = false.
Proof.
  induction s as [|c s IH]; [reflexivity|].
  cbn [forallb existsb]. intros H. apply andb_true_iff in H. destruct H as [H1 H2].
  rewrite (alpha_ne_plus_slash c H1), (IH H2). reflexivity.
Qed.

(* ------------------------------------------------------------------ *)
(* induction three octets at a time                                    *)
(* ------------------------------------------------------------------ *)

Lemma list_ind3 {A} (P : list A -> Prop) :
  P [] -> (forall a, P [a]) -> (forall a b, P [a; b]) ->
  (forall a b c r, P r -> P (a :: b :: c :: r)) ->
  forall l, P l.
Proof.
  intros H0 H1 H2 H3.
  assert (G : forall l, P l /\ (forall a, P (a :: l)) /\ (forall a b, P (a :: b :: l))).
  { induction l as [|x l [IH0 [IH1 IH2]]].
    - repeat split; auto.
    - repeat split; auto. }
  intros l. apply G.
Qed.

Lemma b64e_1 a : b64e [a] = [enc_char (a / 4); enc_char ((a mod 4) * 16)].
Proof. reflexivity. Qed.
Lemma b64e_2 a b :
  b64e [a; b] = [enc_char (a / 4); enc_char ((a mod 4) * 16 + b / 16);
                 enc_char ((b mod 16) * 4)].
Proof. reflexivity. Qed.
Lemma b64e_3 a b c r :
  b64e (a :: b :: c :: r) =
  enc_char (a / 4) :: enc_char ((a mod 4) * 16 + b / 16)
  :: enc_char ((b mod 16) * 4 + c / 64) :: enc_char (c mod 64) :: b64e r.
Proof. reflexivity. Qed.

Lemma bytes_ok_cons a l : bytes_ok (a :: l) = true <-> a < 256 /\ bytes_ok l = true.
Proof.
  unfold bytes_ok. cbn [forallb]. rewrite andb_true_iff, N.ltb_lt. reflexivity.
Qed.

(* ------------------------------------------------------------------ *)
(* encoder: alphabet and length                                        *)
(* ------------------------------------------------------------------ *)

Theorem b64e_alphabet x : bytes_ok x = true -> forallb in_alphabet (b64e x) = true.
Proof.
  induction x as [|a|a b|a b c r IH] using list_ind3; intros H.
  - reflexivity.
  - apply bytes_ok_cons in H. destruct H as [Ha _].
    rewrite b64e_1. cbn [forallb].
    rewrite !enc_alpha by lia. reflexivity.
  - apply bytes_ok_cons in H. destruct H as [Ha H].
    apply bytes_ok_cons in H. destruct H as [Hb _].
    rewrite b64e_2. cbn [forallb].
    rewrite !enc_alpha by lia. reflexivity.
  - apply bytes_ok_cons in H. destruct H as [Ha H].
    apply bytes_ok_cons in H. destruct H as [Hb H].
    apply bytes_ok_cons in H. destruct H as [Hc H].
    rewrite b64e_3. cbn [forallb].
    rewrite !enc_alpha by lia. rewrite (IH H). reflexivity.
Qed.

(* 4*floor(n/3) + (0|2|3) *)
Theorem b64e_length x :
  length (b64e x) = (4 * (length x / 3) + match (length x mod 3) with 0 => 0 | 1 => 2 | _ => 3 end)%nat.
Proof.
  induction x as [|a|a b|a b c r IH] using list_ind3.
  - reflexivity.
  - reflexivity.
  - reflexivity.
  - rewrite b64e_3.
    change (length (a :: b :: c :: r)) with (3 + length r)%nat.
    cbn [length]. rewrite IH.
    replace ((3 + length r) / 3)%nat with (1 + length r / 3)%nat by lia.
    replace ((3 + length r) mod 3)%nat with (length r mod 3)%nat by lia.
    lia.
Qed.

(* ------------------------------------------------------------------ *)
(* decoder: the strict wrapper                                         *)
(* ------------------------------------------------------------------ *)

Lemma a2b_strict_ne61 c l :
  (c =? 61) = false -> a2b_strict (c :: l) = a2b_loop (c :: l) 0 0 0 false [].
Proof.
  intros H. unfold a2b_strict.
  destruct c as [|p]; [reflexivity|].
  do 6 (try (destruct p as [p|p|]; try reflexivity)).
  discriminate H.
Qed.

Lemma a2b_strict_cases l :
  a2b_strict l = Err EValue \/ a2b_strict l = a2b_loop l 0 0 0 false [].
Proof.
  destruct l as [|c l]; [right; reflexivity|].
  destruct (c =? 61) eqn:E.
  - apply N.eqb_eq in E. subst c. left. reflexivity.
  - right. apply a2b_strict_ne61, E.
Qed.

Lemma a2b_strict_61 l : a2b_strict (61 :: l) = Err EValue.
Proof. reflexivity. Qed.

(* ------------------------------------------------------------------ *)
(* decoder: stepping over encoded sextets                              *)
(* ------------------------------------------------------------------ *)

Lemma step_gen c v rest qp left pads acc :
  (c =? 61) = false -> dec_char c = Some v ->
  a2b_loop (c :: rest) qp left pads false acc =
  match qp with
  | 0%nat => a2b_loop rest 1 v 0 false acc
  | 1%nat => a2b_loop rest 2 (v mod 16) 0 false ((left * 4 + v / 16) :: acc)
  | 2%nat => a2b_loop rest 3 (v mod 4) 0 false ((left * 16 + v / 4) :: acc)
  | _ => a2b_loop rest 0 0 0 false ((left * 64 + v) :: acc)
  end.
Proof. intros H1 H2. cbn [a2b_loop]. rewrite H1, H2. reflexivity. Qed.

Lemma step_enc v rest qp left pads acc :
  v < 64 ->
  a2b_loop (enc_char v :: rest) qp left pads false acc =
  match qp with
  | 0%nat => a2b_loop rest 1 v 0 false acc
  | 1%nat => a2b_loop rest 2 (v mod 16) 0 false ((left * 4 + v / 16) :: acc)
  | 2%nat => a2b_loop rest 3 (v mod 4) 0 false ((left * 16 + v / 4) :: acc)
  | _ => a2b_loop rest 0 0 0 false ((left * 64 + v) :: acc)
  end.
Proof. intros H. apply step_gen; [apply enc_ne61, H | apply dec_enc, H]. Qed.

Lemma pad_count_add4 n : pad_count (4 + n) = pad_count n.
Proof.
  unfold pad_count.
  replace ((4 + n) mod 4)%nat with (n mod 4)%nat by lia. reflexivity.
Qed.

Lemma pad2_end left acc : a2b_loop [61; 61] 2 left 0 false acc = Ok (rev acc).
Proof. reflexivity. Qed.
Lemma pad1_end left acc : a2b_loop [61] 3 left 0 false acc = Ok (rev acc).
Proof. reflexivity. Qed.

Lemma loop_b64e x :
  forall acc, bytes_ok x = true ->
  a2b_loop (b64e x ++ repeat 61 (pad_count (length (b64e x)))) 0 0 0 false acc
  = Ok (rev acc ++ x).
Proof.
  induction x as [|a|a b|a b c r IH] using list_ind3; intros acc H.
  - cbn. rewrite app_nil_r. reflexivity.
  - apply bytes_ok_cons in H. destruct H as [Ha _].
    rewrite b64e_1.
    change (repeat 61 (pad_count (length [enc_char (a / 4); enc_char (a mod 4 * 16)])))
      with [61; 61].
    cbn [app].
    rewrite step_enc by lia. rewrite step_enc by lia.
    rewrite pad2_end. cbn [rev].
    replace (a / 4 * 4 + a mod 4 * 16 / 16) with a by lia. reflexivity.
  - apply bytes_ok_cons in H. destruct H as [Ha H].
    apply bytes_ok_cons in H. destruct H as [Hb _].
    rewrite b64e_2.
    change (repeat 61 (pad_count (length [enc_char (a / 4); enc_char (a mod 4 * 16 + b / 16);
                                          enc_char (b mod 16 * 4)])))
      with [61].
    cbn [app].
    rewrite step_enc by lia. rewrite step_enc by lia. rewrite step_enc by lia.
    rewrite pad1_end. cbn [rev].
    replace (a / 4 * 4 + (a mod 4 * 16 + b / 16) / 16) with a by lia.
    replace ((a mod 4 * 16 + b / 16) mod 16 * 16 + b mod 16 * 4 / 4) with b by lia.
    rewrite <- app_assoc. reflexivity.
  - apply bytes_ok_cons in H. destruct H as [Ha H].
    apply bytes_ok_cons in H. destruct H as [Hb H].
    apply bytes_ok_cons in H. destruct H as [Hc H].
    rewrite b64e_3.
    change (length (enc_char (a / 4) :: enc_char (a mod 4 * 16 + b / 16)
                    :: enc_char (b mod 16 * 4 + c / 64) :: enc_char (c mod 64) :: b64e r))
      with (4 + length (b64e r))%nat.
    rewrite pad_count_add4.
    cbn [app].
    rewrite step_enc by lia. rewrite step_enc by lia.
    rewrite step_enc by lia. rewrite step_enc by lia.
    rewrite IH by exact H. cbn [rev].
    replace (a / 4 * 4 + (a mod 4 * 16 + b / 16) / 16) with a by lia.
    replace ((a mod 4 * 16 + b / 16) mod 16 * 16 + (b mod 16 * 4 + c / 64) / 4) with b by lia.
    replace ((b mod 16 * 4 + c / 64) mod 4 * 64 + c mod 64) with c by lia.
    rewrite <- !app_assoc. reflexivity.
Qed.

Lemma b64e_head_ne61 x :
  bytes_ok x = true ->
  match b64e x with [] => True | c :: _ => (c =? 61) = false end.
Proof.
  intros H. pose proof (b64e_alphabet x H) as A.
  destruct (b64e x) as [|c s]; [exact I|].
  cbn [forallb] in A. apply andb_true_iff in A. apply alpha_ne61, A.
Qed.

Theorem b64_roundtrip x : bytes_ok x = true -> b64d (b64e x) = Ok x.
Proof.
  intros H. unfold b64d.
  rewrite (alpha_no_plus_slash _ (b64e_alphabet x H)).
  pose proof (loop_b64e x [] H) as L. cbn [rev app] in L.
  pose proof (b64e_head_ne61 x H) as N.
  destruct (b64e x) as [|c s] eqn:E.
  - exact L.
  - cbn [app] in *. rewrite a2b_strict_ne61 by exact N. exact L.
Qed.

Theorem b64e_injective x y : bytes_ok x = true -> bytes_ok y = true -> b64e x = b64e y -> x = y.
Proof.
  intros Hx Hy E.
  pose proof (b64_roundtrip x Hx) as Rx. pose proof (b64_roundtrip y Hy) as Ry.
  rewrite E in Rx. congruence.
Qed.

(* ------------------------------------------------------------------ *)
(* strictness: characters                                              *)
(* ------------------------------------------------------------------ *)

Lemma loop_bad_char pre c post :
  in_alphabet c = false -> (c =? 61) = false ->
  forall qp left pads ps acc,
  a2b_loop (pre ++ c :: post) qp left pads ps acc = Err EValue.
Proof.
  intros Hc Hn. unfold in_alphabet in Hc.
  induction pre as [|d pre IH]; intros qp left pads ps acc.
  - cbn [app a2b_loop]. rewrite Hn.
    destruct (dec_char c); [discriminate|reflexivity].
  - cbn [app a2b_loop].
    destruct (d =? 61).
    + destruct (Nat.leb 2 qp && Nat.leb 4 (qp + S pads)).
      * destruct (pre ++ c :: post) eqn:E; [|reflexivity].
        destruct pre; discriminate E.
      * apply IH.
    + destruct (dec_char d) as [v|]; [|reflexivity].
      destruct ps; [reflexivity|].
      destruct qp as [|[|[|qp]]]; apply IH.
Qed.

Lemma loop_pstart_nonpad rest d :
  In d rest -> d <> 61 ->
  forall qp left pads acc,
  a2b_loop rest qp left pads true acc = Err EValue.
Proof.
  intros Hin Hd.
  induction rest as [|c rest IH]; intros qp left pads acc; [destruct Hin|].
  cbn [a2b_loop].
  destruct (c =? 61) eqn:E.
  - apply N.eqb_eq in E. subst c.
    destruct Hin as [Hin|Hin]; [congruence|].
    destruct (Nat.leb 2 qp && Nat.leb 4 (qp + S pads)).
    + destruct rest; [destruct Hin|reflexivity].
    + apply IH, Hin.
  - destruct (dec_char c); reflexivity.
Qed.

Lemma loop_pad_then_nonpad pre post d :
  In d post -> d <> 61 ->
  forall qp left pads ps acc,
  a2b_loop (pre ++ 61 :: post) qp left pads ps acc = Err EValue.
Proof.
  intros Hin Hd.
  induction pre as [|c pre IH]; intros qp left pads ps acc.
  - cbn [app a2b_loop]. change (61 =? 61) with true. cbv iota.
    destruct (Nat.leb 2 qp && Nat.leb 4 (qp + S pads)).
    + destruct post; [destruct Hin|reflexivity].
    + apply (loop_pstart_nonpad post d Hin Hd).
  - cbn [app a2b_loop].
    destruct (c =? 61).
    + destruct (Nat.leb 2 qp && Nat.leb 4 (qp + S pads)).
      * destruct (pre ++ 61 :: post) eqn:E; [|reflexivity].
        destruct pre; discriminate E.
      * apply IH.
    + destruct (dec_char c) as [v|]; [|reflexivity].
      destruct ps; [reflexivity|].
      destruct qp as [|[|[|qp]]]; apply IH.
Qed.

(* any character outside the alphabet, other than trailing '=', is refused *)
Theorem b64d_strict_char pre c post :
  in_alphabet c = false ->
  (c <> 61 \/ exists d, In d post /\ d <> 61) ->
  b64d (pre ++ c :: post) = Err EValue.
Proof.
  intros Hc Hor. unfold b64d.
  destruct (existsb _ (pre ++ c :: post)); [reflexivity|].
  destruct (a2b_strict_cases ((pre ++ c :: post) ++ repeat 61 (pad_count (length (pre ++ c :: post)))))
    as [E|E]; rewrite E; [reflexivity|].
  rewrite <- app_assoc. cbn [app].
  destruct (c =? 61) eqn:E61.
  - apply N.eqb_eq in E61. subst c.
    destruct Hor as [Hne|[d [Hin Hd]]]; [congruence|].
    apply (loop_pad_then_nonpad pre _ d); [apply in_or_app; left; exact Hin | exact Hd].
  - apply loop_bad_char; assumption.
Qed.

(* ------------------------------------------------------------------ *)
(* strictness: length                                                  *)
(* ------------------------------------------------------------------ *)

Lemma loop_alpha s :
  forall t qp left pads acc,
  forallb in_alphabet s = true -> (qp < 4)%nat ->
  exists qp' left' pads' acc',
    qp' = ((qp + length s) mod 4)%nat /\
    a2b_loop (s ++ t) qp left pads false acc = a2b_loop t qp' left' pads' false acc'.
Proof.
  induction s as [|c s IH]; intros t qp left pads acc H Hq.
  - exists qp, left, pads, acc. split; [cbn [length]; lia|reflexivity].
  - cbn [forallb] in H. apply andb_true_iff in H. destruct H as [Hc Hs].
    pose proof (alpha_ne61 c Hc) as Hn.
    unfold in_alphabet in Hc. destruct (dec_char c) as [v|] eqn:Ev; [|discriminate].
    cbn [app]. rewrite (step_gen c v _ _ _ _ _ Hn Ev).
    destruct qp as [|[|[|[|qp]]]]; try lia.
    + destruct (IH t 1%nat v 0%nat acc Hs ltac:(lia)) as (q & l & p & a & Eq & Ea).
      exists q, l, p, a. split; [cbn [length]; lia|exact Ea].
    + destruct (IH t 2%nat (v mod 16) 0%nat ((left * 4 + v / 16) :: acc) Hs ltac:(lia))
        as (q & l & p & a & Eq & Ea).
      exists q, l, p, a. split; [cbn [length]; lia|exact Ea].
    + destruct (IH t 3%nat (v mod 4) 0%nat ((left * 16 + v / 4) :: acc) Hs ltac:(lia))
        as (q & l & p & a & Eq & Ea).
      exists q, l, p, a. split; [cbn [length]; lia|exact Ea].
    + destruct (IH t 0%nat 0 0%nat ((left * 64 + v) :: acc) Hs ltac:(lia))
        as (q & l & p & a & Eq & Ea).
      exists q, l, p, a. split; [cbn [length]; lia|exact Ea].
Qed.

Lemma loop_pads_qp1 k :
  forall left pads ps acc, a2b_loop (repeat 61 k) 1 left pads ps acc = Err EValue.
Proof.
  induction k as [|k IH]; intros left pads ps acc; [reflexivity|].
  cbn [repeat a2b_loop]. change (61 =? 61) with true. cbv iota.
  cbn [Nat.leb andb]. apply IH.
Qed.

(* impossible length: 4k+1 data characters *)
Theorem b64d_strict_length s :
  forallb in_alphabet s = true -> (length s mod 4 = 1)%nat -> b64d s = Err EValue.
Proof.
  intros Ha Hl. unfold b64d.
  rewrite (alpha_no_plus_slash s Ha).
  destruct (a2b_strict_cases (s ++ repeat 61 (pad_count (length s)))) as [E|E];
    rewrite E; [reflexivity|].
  destruct (loop_alpha s (repeat 61 (pad_count (length s))) 0%nat 0 0%nat [] Ha ltac:(lia))
    as (q & l & p & a & Eq & Ea).
  rewrite Ea. replace q with 1%nat by lia. apply loop_pads_qp1.
Qed.

(* ------------------------------------------------------------------ *)
(* decoded octets are octets; error class                              *)
(* ------------------------------------------------------------------ *)

Lemma bytes_ok_rev l : bytes_ok (rev l) = bytes_ok l.
Proof.
  unfold bytes_ok. induction l as [|a l IH]; [reflexivity|].
  cbn [rev forallb]. rewrite forallb_app, IH. cbn [forallb].
  rewrite andb_true_r, andb_comm. reflexivity.
Qed.

Definition qp_inv (qp : nat) (left : N) : Prop :=
  match qp with
  | 0%nat => True
  | 1%nat => left < 64
  | 2%nat => left < 16
  | 3%nat => left < 4
  | _ => False
  end.

Lemma loop_bytes_ok l :
  forall qp left pads ps acc x,
  qp_inv qp left -> bytes_ok acc = true ->
  a2b_loop l qp left pads ps acc = Ok x -> bytes_ok x = true.
Proof.
  induction l as [|c l IH]; intros qp left pads ps acc x Hinv Hacc H.
  - cbn [a2b_loop] in H. destruct qp; [|discriminate].
    inversion H. rewrite bytes_ok_rev. exact Hacc.
  - cbn [a2b_loop] in H.
    destruct (c =? 61).
    + destruct (Nat.leb 2 qp && Nat.leb 4 (qp + S pads)).
      * destruct l; [|discriminate].
        inversion H. rewrite bytes_ok_rev. exact Hacc.
      * eapply IH; [exact Hinv | exact Hacc | exact H].
    + destruct (dec_char c) as [v|] eqn:Ev; [|discriminate].
      apply dec_char_lt in Ev.
      destruct ps; [discriminate|].
      destruct qp as [|[|[|[|qp]]]]; cbn [qp_inv] in Hinv; try contradiction.
      * eapply IH; [|exact Hacc|exact H]. cbn [qp_inv]. exact Ev.
      * eapply IH; [| |exact H]; [cbn [qp_inv]; lia|].
        apply bytes_ok_cons. split; [lia|exact Hacc].
      * eapply IH; [| |exact H]; [cbn [qp_inv]; lia|].
        apply bytes_ok_cons. split; [lia|exact Hacc].
      * eapply IH; [| |exact H]; [cbn [qp_inv]; exact I|].
        apply bytes_ok_cons. split; [lia|exact Hacc].
Qed.

(* decoded octets are octets *)
Theorem b64d_bytes_ok s x : b64d s = Ok x -> bytes_ok x = true.
Proof.
  unfold b64d. destruct (existsb _ s); [discriminate|].
  destruct (a2b_strict_cases (s ++ repeat 61 (pad_count (length s)))) as [E|E];
    rewrite E; [discriminate|].
  apply loop_bytes_ok; [exact I|reflexivity].
Qed.

Lemma loop_err_class l :
  forall qp left pads ps acc e,
  a2b_loop l qp left pads ps acc = Err e -> e = EValue.
Proof.
  induction l as [|c l IH]; intros qp left pads ps acc e H.
  - cbn [a2b_loop] in H. destruct qp; [discriminate|]. congruence.
  - cbn [a2b_loop] in H.
    destruct (c =? 61).
    + destruct (Nat.leb 2 qp && Nat.leb 4 (qp + S pads)).
      * destruct l; [discriminate|congruence].
      * eapply IH, H.
    + destruct (dec_char c) as [v|]; [|congruence].
      destruct ps; [congruence|].
      destruct qp as [|[|[|qp]]]; eapply IH, H.
Qed.

(* the only error class is ValueError *)
Theorem b64d_err_class s e : b64d s = Err e -> e = EValue.
Proof.
  unfold b64d. destruct (existsb _ s); [congruence|].
  destruct (a2b_strict_cases (s ++ repeat 61 (pad_count (length s)))) as [E|E];
    rewrite E; [congruence|].
  apply loop_err_class.
Qed.

(* decoding is not injective on non-canonical trailing bits: recorded witness *)
Example b64d_noncanonical_witness : b64d (asc "QR") = b64d (asc "QQ") /\ asc "QR" <> asc "QQ".
Proof. split; [vm_compute; reflexivity | vm_compute; discriminate]. Qed.

(* on canonical strings (alphabet only, as produced by b64e) decode is injective:
   if s is alphabet-only and decodes to x and re-encoding x gives s back *)
Theorem b64d_canonical s x : b64d s = Ok x -> canonical s = true -> s = b64e x.
Proof.
  intros H C. unfold canonical in C. rewrite H in C.
  apply (list_eqb_eq N.eqb); [intros; apply N.eqb_eq | exact C].
Qed.

Print Assumptions b64_roundtrip.
Print Assumptions b64d_strict_char.
Print Assumptions b64d_strict_length.
Print Assumptions b64e_injective.
Print Assumptions b64d_bytes_ok.
