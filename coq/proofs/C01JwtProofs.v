(* C01JwtProofs.v — jwt.decode over the JWS transport (registry not a JWERegistry:
   jwt.py dispatches on isinstance(registry, JWERegistry) only) returns claims only
   for a three-segment value whose signature verified.  Uses the jwt model
   model/C09Jwt.v and the JWS transport jws_tdec of proofs/ComposeJwsJwt.v. *)
From Model Require Import Json Jws JwsJson.
From Model Require C09Jwt.
From Gen Require Import Tables.
From Proofs Require Import B64Proofs JwsProofs C01Proofs.
From Proofs Require ComposeJwsJwt.
Open Scope N_scope.

Section JwtDecode.
  Variable json_loads : bytes -> res pv.          (* json.loads of the claims, any decoder_cls *)
  Variable mac : string -> N -> bytes -> res bytes.
  Variable pk_verify : jws_alg_row -> N -> bytes -> bytes -> res bool.
  Variable ec_verify : jws_alg_row -> N -> bytes -> Z -> Z -> res bool.

  Theorem jwt_decode_only_signed src algs tok h c :
    C09Jwt.decode json_loads (ComposeJwsJwt.jws_tdec mac pk_verify ec_verify src algs) tok = Ok (h, c) ->
    exists o,
      (* exactly three dot-free segments: a 5-segment (JWE) value is never returned *)
      tok = co_hseg o ++ 46 :: co_pseg o ++ 46 :: co_sseg o /\
      no_dot (co_hseg o) = true /\ no_dot (co_pseg o) = true /\ no_dot (co_sseg o) = true /\
      co_protected o = PDict h /\ b64d (co_pseg o) = Ok (co_payload o) /\
      json_loads (co_payload o) = Ok c /\
      verified mac pk_verify ec_verify (reg15 algs) src (PDict h) (co_hseg o ++ 46 :: co_pseg o) (co_sseg o).
  Proof.
    unfold C09Jwt.decode. intro H.
    destruct (ComposeJwsJwt.jws_tdec mac pk_verify ec_verify src algs tok) as [[h' payload]|e] eqn:T; [|discriminate].
    unfold ComposeJwsJwt.jws_tdec in T. bstep T as o D.
    destruct (co_protected o) as [| | | | | | |hd] eqn:P; try discriminate. inversion T; subst h' payload.
    destruct (json_loads (co_payload o)) as [v|e] eqn:J.
    - destruct (is_dict v); [|discriminate]. inversion H; subst h c.
      apply compact_sound_rg in D. destruct D as (TK & A & B & C & _ & PL & V & _).
      exists o. rewrite P in V. auto 12.
    - destruct (C09Jwt.is_payload_error e); discriminate.
  Qed.
End JwtDecode.
