(* JwsJsonProofs.v — the json.loads / json.dumps Section variables of model/Jws.v
   instantiated by the Gallina JSON model (model/Json.v, proofs/JsonProofs.v):
   json.dumps(ensure_ascii=True, separators=(",",":")) = json_print,
   json.loads = Json.json_loads (on ASCII texts), for header objects that
   satisfy json_ok (no floats, unique keys, scalar code points).
   Corollaries of C01 / C03 / C07 in which no JSON hypothesis remains. *)
From Coq Require Import Lia ZifyBool.
From Model Require Import Json Jws JwsJson.
From Gen Require Import Tables.
From Proofs Require Import B64Proofs IntCodecProofs JsonProofs JwsProofs C01Proofs C03Proofs.
Open Scope N_scope.

Lemma g_json_rt : forall h, g_hok h = true ->
  g_loads (g_dumps (PDict h)) = Ok (PDict h) /\
  bytes_ok (g_dumps (PDict h)) = true /\ g_dumps (PDict h) <> [].
Proof.
  intros h OK. unfold g_loads, g_dumps, g_hok in *. rewrite (json_loads_print _ OK).
  split; [reflexivity|]. split; [apply ascii_bytes_ok, ascii_json_print|].
  pose proof (json_print_nonempty (PDict h)) as L. destruct (json_print (PDict h)); [cbn in L; lia|discriminate].
Qed.

Lemma g_loads_ok raw v : g_loads raw = Ok v -> Json.json_loads raw = POk v.
Proof. unfold g_loads. destruct (Json.json_loads raw); intro H; inversion H; reflexivity. Qed.

(* set_kid keeps a header inside the fragment *)
Lemma json_ok_dset_kid h id :
  json_ok (PDict h) = true -> dget h s_kid = None -> str_ok id = true ->
  json_ok (PDict (dset h s_kid (PStr id))) = true.
Proof.
  intros OK NK SI.
  assert (E : dset h s_kid (PStr id) = h ++ [(s_kid, PStr id)]).
  { clear OK. induction h as [|[k v] h IH]; [reflexivity|].
    cbn [dget] in NK. cbn [dset]. destruct (str_eqb k s_kid); [discriminate|]. rewrite (IH NK). reflexivity. }
  rewrite E. clear E. cbn [json_ok] in *. apply andb_true_iff in OK. destruct OK as [U G].
  apply andb_true_iff. split.
  - rewrite map_app. cbn [map fst]. clear G.
    assert (NM : str_mem s_kid (map fst h) = false).
    { clear U. induction h as [|[k v] h IH]; [reflexivity|]. cbn [dget] in NK. cbn [map fst str_mem].
      destruct (str_eqb k s_kid); [discriminate|]. cbn. apply IH. exact NK. }
    induction h as [|[k v] h IH]; [reflexivity|].
    cbn [map fst app keys_unique] in *. apply andb_true_iff in U. destruct U as [U1 U2].
    cbn [str_mem] in NM. apply orb_false_iff in NM. destruct NM as [NM1 NM2].
    cbn [dget] in NK. rewrite NM1 in NK. apply andb_true_iff. split; [|apply IH; assumption].
    apply negb_true_iff. apply negb_true_iff in U1.
    clear - U1 NM1. induction (map fst h) as [|x l IHl]; cbn [app str_mem] in *.
    + rewrite orb_false_r. destruct (str_eqb s_kid k) eqn:E; [|reflexivity].
      apply str_eqb_eq in E. subst k. rewrite str_eqb_refl in NM1. discriminate.
    + apply orb_false_iff in U1. destruct U1 as [A B]. rewrite A. cbn. apply IHl. exact B.
  - clear U NK. induction h as [|[k v] h IH]; cbn [app].
    + assert (K : str_ok s_kid = true) by (vm_compute; reflexivity). rewrite K. cbn [json_ok]. rewrite SI. reflexivity.
    + apply andb_true_iff in G. destruct G as [G1 G2]. rewrite G1. cbn [andb]. apply IH. exact G2.
Qed.

Section Corollaries.
  Variable mac : string -> N -> bytes -> res bytes.
  Variable pk_sign : jws_alg_row -> N -> bytes -> res bytes.
  Variable pk_verify : jws_alg_row -> N -> bytes -> bytes -> res bool.
  Variable ec_sign : jws_alg_row -> N -> bytes -> res (Z * Z).
  Variable ec_verify : jws_alg_row -> N -> bytes -> Z -> Z -> res bool.
  Variable choose : list key -> option key.
  Hypothesis mac_octets : forall h kid msg m, mac h kid msg = Ok m -> bytes_ok m = true.
  Hypothesis pk_correct : forall r kid msg sig,
      pk_sign r kid msg = Ok sig -> bytes_ok sig = true /\ pk_verify r kid msg sig = Ok true.
  Hypothesis ec_correct : forall r k msg rr ss,
      ec_sign r (k_id k) msg = Ok (rr, ss) ->
      (0 <= rr)%Z /\ (0 <= ss)%Z /\
      Z.to_N rr < 256 ^ N.of_nat (ec_len k) /\ Z.to_N ss < 256 ^ N.of_nat (ec_len k) /\
      ec_verify r (k_id k) msg rr ss = Ok true.

  (* C01: soundness with the Gallina parser: the returned header is what the
     Gallina json.loads reads from the octets of the received header segment *)
  Theorem compact_sound_json_model tok src algs o :
    deserialize_compact g_loads mac pk_verify ec_verify tok src algs = Ok o ->
    tok = co_hseg o ++ 46 :: co_pseg o ++ 46 :: co_sseg o /\
    (exists raw, b64d (co_hseg o) = Ok raw /\ Json.json_loads raw = POk (co_protected o)) /\
    b64d (co_pseg o) = Ok (co_payload o) /\
    verified mac pk_verify ec_verify (reg15 algs) src (co_protected o)
             (co_hseg o ++ 46 :: co_pseg o) (co_sseg o).
  Proof.
    intro H. apply compact_sound_rg in H. destruct H as (T & _ & _ & _ & (raw & R1 & R2) & P & V & _).
    split; [exact T|]. split; [exists raw; split; [exact R1|apply g_loads_ok; exact R2]|]. auto.
  Qed.

  (* C03: round trips with no JSON hypothesis left *)
  Theorem compact_rt_json_model h payload k k' algs tok :
    corresponds k k' -> (0 < ec_len k)%nat -> bytes_ok payload = true -> json_ok (PDict h) = true ->
    (forall r, get_alg (reg15 algs) (match dget h s_alg with Some v => v | None => PNone end) = Ok r -> fam_of r <> FNone) ->
    serialize_compact g_dumps mac pk_sign ec_sign choose h payload (KOne k) algs = Ok tok ->
    exists o, deserialize_compact g_loads mac pk_verify ec_verify tok (KOne k') algs = Ok o /\
              co_payload o = payload /\ co_protected o = PDict h.
  Proof.
    exact (compact_rt_rg g_loads g_dumps mac pk_sign pk_verify ec_sign ec_verify choose
             mac_octets pk_correct ec_correct g_hok g_json_rt h payload k k' (reg15 algs) tok).
  Qed.

  Theorem compact_rt_keyset_json_model h payload ks ks' algs tok :
    (forall l x, choose l = Some x -> In x l) ->
    Forall2 corresponds_kid ks ks' -> NoDup (map k_kid ks) ->
    (forall k, In k ks -> (0 < ec_len k)%nat) ->
    (forall k id, In k ks -> k_kid k = Some id -> str_ok id = true) ->
    dget h s_kid = None -> json_ok (PDict h) = true -> bytes_ok payload = true ->
    (forall r, get_alg (reg15 algs) (match dget h s_alg with Some v => v | None => PNone end) = Ok r -> fam_of r <> FNone) ->
    serialize_compact g_dumps mac pk_sign ec_sign choose h payload (KSet ks) algs = Ok tok ->
    exists o k id,
      In k ks /\ k_kid k = Some id /\
      deserialize_compact g_loads mac pk_verify ec_verify tok (KSet ks') algs = Ok o /\
      co_payload o = payload /\ co_protected o = PDict (dset h s_kid (PStr id)).
  Proof.
    intros CI F ND HL KS NK OK BP NN H.
    (* hok restricted to the kids of the set: h itself and h with one of the kids *)
    set (hk := fun x : list (str * pv) => json_ok (PDict x)).
    unfold serialize_compact in H.
    pose proof (fun OKS => compact_rt_gen g_loads g_dumps mac pk_sign pk_verify ec_sign ec_verify choose
                  mac_octets pk_correct ec_correct g_hok g_json_rt h payload (KSet ks) (KSet ks') (reg15 algs) tok
                  OKS BP NN H) as G.
    assert (KO : key_ok choose g_hok (reg15 algs) (KSet ks) (KSet ks') h).
    { intros k okid CH GK.
      destruct (keyset_resolve choose ks ks' h k okid CI F ND NK GK) as (IN & id & k' & -> & KK & FD & C).
      cbn [set_kid]. split; [apply HL; exact IN|].
      split; [apply json_ok_dset_kid; [exact OK|exact NK|eapply KS; eauto]|].
      split; [apply check_header_set_kid; assumption|].
      split.
      { cbn [py_getitem_str]. rewrite dget_dset_other by (vm_compute; discriminate). reflexivity. }
      exists k'. split; [|exact C].
      cbn [guess_key hdr_get py_get_str]. rewrite dget_dset_same. cbn [bind get_by_kid]. rewrite FD. reflexivity. }
    destruct (G KO) as (o & k & okid & GK & D & P & Q).
    destruct (keyset_resolve choose ks ks' h k okid CI F ND NK GK) as (IN & id & k' & -> & KK & _).
    exists o, k, id. auto.
  Qed.

  Theorem flat_rt_json_model m payload k k' algs v :
    corresponds k k' -> (0 < ec_len k)%nat -> bytes_ok payload = true ->
    match sm_protected m with Some d => json_ok (PDict d) = true | None => True end ->
    (forall r, get_alg (reg15 algs) (match dget (smember_headers m) s_alg with Some v => v | None => PNone end) = Ok r -> fam_of r <> FNone) ->
    sign_flattened_json g_dumps mac pk_sign ec_sign choose m payload (reg15 algs) (KOne k) = Ok v ->
    exists o, deserialize_json g_loads mac pk_verify ec_verify v (KOne k') algs = Ok o /\
              jo_payload o = payload /\ jo_members o = [smember_member m].
  Proof.
    exact (flat_rt_rg g_loads g_dumps mac pk_sign pk_verify ec_sign ec_verify choose
             mac_octets pk_correct ec_correct g_hok g_json_rt m payload k k' (reg15 algs) v).
  Qed.
End Corollaries.
