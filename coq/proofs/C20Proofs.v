(* C20Proofs.v — proofs about the step model of C20Model.v *)
From Coq Require Import Lia ZifyBool.
From Model Require Import Base PyVal TableTypes C20Model.
From Gen Require Import Tables TablesC20.
Open Scope N_scope.

(* ================= list / world plumbing ================= *)
Lemma upd_length {A} (l : list A) n x : length (upd l n x) = length l.
Proof. revert n; induction l; destruct n; simpl; auto. Qed.

Lemma nth_upd {A} (l : list A) n m x d :
  nth m (upd l n x) d = if (Nat.eqb n m && Nat.ltb n (length l))%bool then x else nth m l d.
Proof.
  revert n m; induction l as [|y l IH]; intros n m; simpl.
  - destruct n, m; simpl; try reflexivity; rewrite Bool.andb_false_r; reflexivity.
  - destruct n, m; simpl; try reflexivity.
    rewrite IH. reflexivity.
Qed.

Lemma getk_setk w k s k' :
  getk (setk w k s) k' = if (Nat.eqb k k' && Nat.ltb k (length (w_keys w)))%bool then s else getk w k'.
Proof. unfold getk, setk; simpl. apply nth_upd. Qed.

(* ================= nothing writes the singletons ================= *)
Lemma sem_static im a w : w_static (fst (sem im a w)) = w_static w.
Proof. destruct a; reflexivity. Qed.
Lemma sem_sets im a w : w_sets (fst (sem im a w)) = w_sets w.
Proof. destruct a; reflexivity. Qed.
Lemma sem_nkeys im a w : length (w_keys (fst (sem im a w))) = length (w_keys w).
Proof. destruct a; simpl; try reflexivity; apply upd_length. Qed.

Lemma greach_static {A} im (c c' : world * list (prog A)) :
  greach im c c' -> w_static (fst c') = w_static (fst c) /\ w_sets (fst c') = w_sets (fst c).
Proof.
  induction 1 as [|c1 c2 c3 S _ IH]; [auto|].
  destruct S; simpl in *. rewrite sem_static, sem_sets in IH. exact IH.
Qed.

(* ================= footprint ================= *)
(* the only ways in which one step changes the world *)
Inductive fp (im : imm) (w : world) : world -> Prop :=
| fp_same : fp im w w
| fp_fill_new k :       (* ORIGINAL: a new dict object holding the view is bound to _dict_value *)
    fp im w (setk w k {| ks_objs := ks_objs (getk w k) ++ [ki_view (kim im k)];
                         ks_ptr := length (ks_objs (getk w k)); ks_pub := ks_pub (getk w k) |})
| fp_fill_inplace k :   (* FIXED: the bound dict object is updated with the view *)
    fp im w (setk w k (set_vis (getk w k) (dupdate (vis (getk w k)) (ki_view (kim im k)))))
| fp_kid k tp :         (* "kid" is set in the bound dict object *)
    fp im w (setk w k (set_vis (getk w k) (dset (vis (getk w k)) kidK (PStr tp))))
| fp_pub k :            (* the public_key slot is filled *)
    fp im w (setk w k {| ks_objs := ks_objs (getk w k); ks_ptr := ks_ptr (getk w k); ks_pub := true |})
| fp_draw :             (* the draw counter advances *)
    fp im w {| w_keys := w_keys w; w_sets := w_sets w; w_rng := w_rng w + 1; w_static := w_static w |}.

Lemma sem_footprint im a w : fp im w (fst (sem im a w)).
Proof. destruct a; simpl; try apply fp_same; econstructor. Qed.

(* ================= dictionaries ================= *)
Lemma dset_notin {A} (d : list (str * A)) k v : dget d k = None -> dset d k v = d ++ [(k, v)].
Proof.
  induction d as [|[k' v'] d IH]; simpl; [reflexivity|].
  destruct (str_eqb k' k); [discriminate|]. intro H. rewrite IH; auto.
Qed.
Lemma dset_same {A} (d : list (str * A)) k v : dget d k = Some v -> dset d k v = d.
Proof.
  induction d as [|[k' v'] d IH]; simpl; [discriminate|].
  destruct (str_eqb k' k) eqn:E.
  - intro H; inversion H; subst. reflexivity.
  - intro H. rewrite IH; auto.
Qed.
Lemma dget_app {A} (d e : list (str * A)) k :
  dget (d ++ e) k = match dget d k with Some v => Some v | None => dget e k end.
Proof.
  induction d as [|[k' v'] d IH]; simpl; [reflexivity|].
  destruct (str_eqb k' k); auto.
Qed.
Lemma dget_In_unique {A} (d : list (str * A)) k v :
  keys_unique (dkeys d) = true -> In (k, v) d -> dget d k = Some v.
Proof.
  induction d as [|[k' v'] d IH]; simpl; [tauto|].
  intros U [E|I].
  - inversion E; subst. rewrite str_eqb_refl. reflexivity.
  - apply andb_true_iff in U. destruct U as [U1 U2].
    destruct (str_eqb k' k) eqn:E.
    + apply str_eqb_eq in E. subst k'. exfalso.
      apply negb_true_iff in U1.
      assert (str_mem k (dkeys d) = true) as M.
      { apply str_mem_In. unfold dkeys. apply in_map_iff. exists (k, v). auto. }
      congruence.
    + apply IH; auto.
Qed.

(* d.update(e) is the identity when d already maps every key of e to e's value *)
Lemma dupdate_id {A} (e d : list (str * A)) :
  (forall k v, In (k, v) e -> dget d k = Some v) -> dupdate d e = d.
Proof.
  unfold dupdate. revert d. induction e as [|[k v] e IH]; intros d H; simpl; [reflexivity|].
  rewrite dset_same by (apply H; left; reflexivity).
  apply IH. intros k' v' I. apply H. right. exact I.
Qed.
Lemma dupdate_nil_aux {A} (e d : list (str * A)) :
  keys_unique (dkeys e) = true -> (forall k, In k (dkeys e) -> dget d k = None) ->
  dupdate d e = d ++ e.
Proof.
  unfold dupdate. revert d. induction e as [|[k v] e IH]; intros d U H; simpl.
  - rewrite app_nil_r. reflexivity.
  - simpl in U. apply andb_true_iff in U. destruct U as [U1 U2].
    rewrite dset_notin by (apply H; left; reflexivity).
    rewrite IH; auto.
    + rewrite <- app_assoc. reflexivity.
    + intros k' I. rewrite dget_app. rewrite H by (right; exact I). simpl.
      destruct (str_eqb k k') eqn:E; [|reflexivity].
      apply str_eqb_eq in E. subst k'. apply negb_true_iff in U1.
      apply str_mem_In in I. congruence.
Qed.
Lemma dupdate_nil {A} (e : list (str * A)) : keys_unique (dkeys e) = true -> dupdate [] e = e.
Proof. intro U. rewrite dupdate_nil_aux; auto. Qed.

(* ================= the invariant of the lazy slots ================= *)
Definition view (im : imm) (k : nat) : dict := ki_view (kim im k).
Definition kid_of (im : imm) (k : nat) : pv := PStr (ki_tp (kim im k)).
Definition withkid (im : imm) (k : nat) : dict := view im k ++ [(kidK, kid_of im k)].

(* a dict object of key k is empty, or the view of the immutable raw key,
   or that view plus the thumbprint kid (only when the view has no kid) *)
Definition good (im : imm) (k : nat) (d : dict) : Prop :=
  d = [] \/ d = view im k \/ (dget (view im k) kidK = None /\ d = withkid im k).

Definition wf_imm (im : imm) : Prop :=
  forall k, keys_unique (dkeys (view im k)) = true.

Definition kinv (im : imm) (k : nat) (s : kst) : Prop :=
  Forall (good im k) (ks_objs s) /\ (ks_ptr s < length (ks_objs s))%nat.
Definition inv (im : imm) (w : world) : Prop := forall k, kinv im k (getk w k).

Lemma kinv_kst0 im k : kinv im k kst0.
Proof. split; simpl; [repeat constructor; left; reflexivity | lia]. Qed.

Lemma inv_setk im w k s : inv im w -> kinv im k s -> inv im (setk w k s).
Proof.
  intros I K k'. rewrite getk_setk.
  destruct (Nat.eqb k k' && Nat.ltb k (length (w_keys w)))%bool eqn:E; [|apply I].
  apply andb_true_iff in E. destruct E as [E _]. apply Nat.eqb_eq in E. subst. exact K.
Qed.

Lemma good_vis im k s : kinv im k s -> good im k (vis s).
Proof.
  intros [F L]. unfold vis. rewrite Forall_forall in F. apply F. apply nth_In. exact L.
Qed.

Lemma Forall_upd {A} (P : A -> Prop) l n x : Forall P l -> P x -> Forall P (upd l n x).
Proof.
  revert n; induction l as [|y l IH]; intros n F Px; destruct n; simpl; auto;
    inversion F; subst; constructor; auto.
Qed.

Lemma kinv_set_vis im k s d : kinv im k s -> good im k d -> kinv im k (set_vis s d).
Proof.
  intros [F L] G. split; simpl; [apply Forall_upd; auto | rewrite upd_length; exact L].
Qed.

Lemma good_update im k d : wf_imm im -> good im k d -> good im k (dupdate d (view im k)).
Proof.
  intros W [E|[E|[N E]]]; subst d.
  - right; left. apply dupdate_nil. apply W.
  - right; left. apply dupdate_id. intros k' v I. apply dget_In_unique; auto.
  - right; right. split; [exact N|]. apply dupdate_id. intros k' v I.
    unfold withkid. rewrite dget_app. rewrite (dget_In_unique (view im k) k' v); auto.
Qed.

Lemma good_setkid im k d :
  good im k d -> d <> [] -> dget (view im k) kidK = None ->
  good im k (dset d kidK (kid_of im k)).
Proof.
  intros [E|[E|[N E]]] NE NK; subst d; [congruence| |].
  - right; right. split; [exact NK|]. apply dset_notin. exact NK.
  - right; right. split; [exact N|]. apply dset_same. unfold withkid.
    rewrite dget_app, N. reflexivity.
Qed.

(* when may a thread take a step: the only state-dependent obligation is on the
   write of "kid", which the code performs after having seen a non-empty dict
   without kid, with the thumbprint it computed from that dict *)
Definition enabled (im : imm) (a : action) (w : world) : Prop :=
  match a with
  | ASetKid k tp => tp = ki_tp (kim im k) /\ vis (getk w k) <> [] /\ dget (view im k) kidK = None
  | _ => True
  end.

Lemma sem_inv im a w : wf_imm im -> inv im w -> enabled im a w -> inv im (fst (sem im a w)).
Proof.
  intros W I En. destruct a; simpl; try exact I.
  - (* AAssign *) apply inv_setk; auto. destruct (I k) as [F L]. split; simpl.
    + apply Forall_app. split; [exact F|]. constructor; [right; left; reflexivity | constructor].
    + rewrite app_length. simpl. lia.
  - (* AUpdate *) apply inv_setk; auto. apply kinv_set_vis; [apply I|].
    apply good_update; auto. apply good_vis. apply I.
  - (* ASetKid *) destruct En as [E1 [E2 E3]]. subst tp. apply inv_setk; auto.
    apply kinv_set_vis; [apply I|]. apply good_setkid; auto. apply good_vis. apply I.
  - (* APubSet *) apply inv_setk; auto. destruct (I k) as [F L]. split; simpl; auto.
Qed.

(* ================= interference: steps of OTHER threads ================= *)
(* the repaired code never rebinds _dict_value *)
Definition fixed_act (a : action) : Prop := match a with AAssign _ => False | _ => True end.

Inductive rstep (im : imm) (w : world) : world -> Prop :=
| rs : forall a, fixed_act a -> enabled im a w -> rstep im w (fst (sem im a w)).
Inductive rsteps (im : imm) : world -> world -> Prop :=
| rs_refl w : rsteps im w w
| rs_cons w1 w2 w3 : rstep im w1 w2 -> rsteps im w2 w3 -> rsteps im w1 w3.

Lemma rsteps_trans im w1 w2 w3 : rsteps im w1 w2 -> rsteps im w2 w3 -> rsteps im w1 w3.
Proof. induction 1; auto. intro. econstructor; eauto. Qed.
Lemma rsteps_one im w a : fixed_act a -> enabled im a w -> rsteps im w (fst (sem im a w)).
Proof. intros. econstructor; [econstructor; eauto | constructor]. Qed.

Definition Fk (k : nat) (w : world) : Prop := vis (getk w k) <> [].
Definition Kk (k : nat) (w : world) : Prop := dget (vis (getk w k)) kidK <> None.

Lemma vis_set_vis s d : (ks_ptr s < length (ks_objs s))%nat -> vis (set_vis s d) = d.
Proof.
  intro L. unfold vis, set_vis; simpl. rewrite nth_upd.
  rewrite Nat.eqb_refl. simpl. apply Nat.ltb_lt in L. rewrite L. reflexivity.
Qed.

Lemma good_update_id im k d : wf_imm im -> good im k d -> d <> [] -> dupdate d (view im k) = d.
Proof.
  intros W [E|[E|[N E]]] NE; subst d; [congruence| |].
  - apply dupdate_id. intros k' v I. apply dget_In_unique; auto.
  - apply dupdate_id. intros k' v I. unfold withkid. rewrite dget_app.
    rewrite (dget_In_unique (view im k) k' v); auto.
Qed.

Lemma dset_nonempty {A} (d : list (str * A)) k v : dset d k v <> [].
Proof. destruct d as [|[k' v'] d]; simpl; [discriminate|]. destruct (str_eqb k' k); discriminate. Qed.

(* one step of another thread keeps the invariant and never empties a slot or drops a kid *)
Lemma rstep_mono im w w' : wf_imm im -> inv im w -> rstep im w w' ->
  inv im w' /\ (forall k, Fk k w -> Fk k w') /\ (forall k, Kk k w -> Kk k w').
Proof.
  intros W I [a FA En]. split; [apply sem_inv; auto|].
  destruct a; simpl in *; try (split; intros; assumption); try contradiction.
  - (* AUpdate *)
    assert (forall k0, vis (getk (setk w k (set_vis (getk w k) (dupdate (vis (getk w k)) (ki_view (kim im k))))) k0) = vis (getk w k0)
            \/ (k0 = k /\ vis (getk w k) = [])) as H.
    { intro k0. rewrite getk_setk.
      destruct (Nat.eqb k k0 && Nat.ltb k (length (w_keys w)))%bool eqn:E; [|left; reflexivity].
      apply andb_true_iff in E. destruct E as [E _]. apply Nat.eqb_eq in E. subst k0.
      destruct (I k) as [F L]. rewrite vis_set_vis by exact L.
      assert (good im k (vis (getk w k))) as G by (apply good_vis; apply I).
      remember (vis (getk w k)) as d eqn:V. destruct d as [|p d]; [right; auto|]. left.
      apply (good_update_id im k); auto. discriminate. }
    split; intros k0 P; unfold Fk, Kk in *; destruct (H k0) as [E|[E1 E2]]; try (rewrite E; exact P);
      subst k0; rewrite E2 in P; simpl in P; congruence.
  - (* ASetKid *)
    destruct En as [E1 [E2 E3]].
    assert (forall k0, getk (setk w k (set_vis (getk w k) (dset (vis (getk w k)) kidK (PStr tp)))) k0 = getk w k0
            \/ (k0 = k /\ vis (getk (setk w k (set_vis (getk w k) (dset (vis (getk w k)) kidK (PStr tp)))) k0)
                         = dset (vis (getk w k)) kidK (PStr tp))) as H.
    { intro k0. rewrite getk_setk.
      destruct (Nat.eqb k k0 && Nat.ltb k (length (w_keys w)))%bool eqn:E; [|left; reflexivity].
      apply andb_true_iff in E. destruct E as [E _]. apply Nat.eqb_eq in E. subst k0.
      right. split; [reflexivity|]. apply vis_set_vis. apply I. }
    split; intros k0 P; unfold Fk, Kk in *; destruct (H k0) as [E|[E4 E5]]; try (rewrite E; exact P); rewrite E5.
    + apply dset_nonempty.
    + rewrite dget_dset_same. discriminate.
  - (* APubSet *)
    assert (forall k0, vis (getk (setk w k {| ks_objs := ks_objs (getk w k); ks_ptr := ks_ptr (getk w k); ks_pub := true |}) k0)
                       = vis (getk w k0)) as H.
    { intro k0. rewrite getk_setk.
      destruct (Nat.eqb k k0 && Nat.ltb k (length (w_keys w)))%bool eqn:E; [|reflexivity].
      apply andb_true_iff in E. destruct E as [E _]. apply Nat.eqb_eq in E. subst k0. reflexivity. }
    split; intros k0 P; unfold Fk, Kk in *; rewrite H; exact P.
Qed.

Lemma rsteps_mono im w w' : wf_imm im -> inv im w -> rsteps im w w' ->
  inv im w' /\ (forall k, Fk k w -> Fk k w') /\ (forall k, Kk k w -> Kk k w').
Proof.
  intros W I R. induction R as [|w1 w2 w3 S R IH]; [auto|].
  destruct (rstep_mono im w1 w2 W I S) as [I2 [F2 K2]].
  destruct (IH I2) as [I3 [F3 K3]]. auto.
Qed.

(* ================= validity under interference ================= *)
(* [holds p w Q]: in EVERY interleaving of p's steps with steps of other
   threads, starting in w, every step of p is enabled and p's result (and the
   world at that moment) satisfies Q *)
Fixpoint holds {A} (im : imm) (p : prog A) (w : world) (Q : A -> world -> Prop) {struct p} : Prop :=
  forall w', rsteps im w w' ->
  match p with
  | Ret a => Q a w'
  | Act l a k => fixed_act a /\ enabled im a w' /\ holds im (k (snd (sem im a w'))) (fst (sem im a w')) Q
  end.

Lemma holds_env {A} im (p : prog A) w w1 Q : rsteps im w w1 -> holds im p w Q -> holds im p w1 Q.
Proof. intros R H. destruct p; simpl in *; intros w' R'; apply H; eapply rsteps_trans; eauto. Qed.

Lemma holds_bind {A B} im (p : prog A) (f : A -> prog B) w Q :
  holds im p w (fun a w1 => holds im (f a) w1 Q) -> holds im (pbind p f) w Q.
Proof.
  revert w. induction p as [a|l a k IH]; intros w H.
  - simpl in H. apply (H w). constructor.
  - simpl. intros w' R. destruct (H w' R) as [FA [En H2]]. split; [exact FA|]. split; [exact En|].
    apply IH. exact H2.
Qed.

Lemma holds_conseq {A} im (p : prog A) w (Q Q' : A -> world -> Prop) :
  (forall a w1, Q a w1 -> Q' a w1) -> holds im p w Q -> holds im p w Q'.
Proof.
  intro HQ. revert w. induction p as [a|l a k IH]; intros w H; simpl in *; intros w' R.
  - apply HQ. apply H. exact R.
  - destruct (H w' R) as [FA [En H2]]. split; [exact FA|]. split; [exact En|]. apply IH. exact H2.
Qed.

Lemma holds_nop {A} im l (p : prog A) w Q : holds im p w Q -> holds im (nop l p) w Q.
Proof.
  intros H. unfold nop. simpl. intros w' R. split; [exact I|]. split; [exact I|].
  simpl. eapply holds_env; eauto.
Qed.
Lemma holds_nops {A} im l n (p : prog A) w Q : holds im p w Q -> holds im (nops l n p) w Q.
Proof. intro H. induction n; [exact H | exact (holds_nop im l (nops l n p) w Q IHn)]. Qed.
Lemma holds_forset {A} im n (p : prog A) w Q : holds im p w Q -> holds im (forset n p) w Q.
Proof.
  intro H. induction n; [exact H|].
  exact (holds_nop im "r.for" _ w Q (holds_nop im "r.set" (forset n p) w Q IHn)).
Qed.

Lemma holds_bindr {A B} im (p : prog (res A)) (f : A -> prog (res B)) w Q :
  holds im p w (fun r w1 => match r with Ok a => holds im (f a) w1 Q | Err e => holds im (Ret (Err e)) w1 Q end) ->
  holds im (pbindr p f) w Q.
Proof.
  intro H. unfold pbindr. apply holds_bind. eapply holds_conseq; [|exact H].
  intros [a|e] w1 H1; exact H1.
Qed.

(* a sequential run is one of the interleavings *)
Lemma holds_run_seq {A} im fuel (p : prog A) w Q a w' :
  holds im p w Q -> run_seq im fuel w p = Some (a, w') -> Q a w'.
Proof.
  revert p w. induction fuel as [|f IH]; intros p w H E; destruct p as [a0|l a0 k]; simpl in E.
  - inversion E; subst. apply (H w'). constructor.
  - discriminate.
  - inversion E; subst. apply (H w'). constructor.
  - destruct (sem im a0 w) as [w1 o] eqn:S. destruct (H w (rs_refl im w)) as [_ [_ H2]].
    rewrite S in H2. simpl in H2. eapply IH; eauto.
Qed.

Lemma rsteps_nkeys im w w' : rsteps im w w' -> length (w_keys w') = length (w_keys w).
Proof.
  induction 1 as [|w1 w2 w3 S R IH]; [reflexivity|]. rewrite IH. destruct S. apply sem_nkeys.
Qed.

(* ================= the repaired step lists, one key ================= *)
Section FixedSpecs.
  Variable im : imm.
  Hypothesis W : wf_imm im.
  Variable k : nat.
  Hypothesis Hvalid : ki_valid (kim im k) = true.
  Hypothesis Hne : view im k <> [].
  (* the RFC 7638 fields are present in the view (validate_dict_key passed) *)
  Hypothesis Htp : forallb (dmem (view im k)) (tpfields (ki_kty (kim im k))) = true.

  (* the kid every reader must see once ensure_kid has completed *)
  Definition the_kid : pv :=
    match dget (view im k) kidK with Some x => x | None => kid_of im k end.

  Definition dv_post (w0 : world) (r : res (nat * dict)) (w' : world) : Prop :=
    inv im w' /\ rsteps im w0 w' /\
    exists i d, r = Ok (i, d) /\ d <> [] /\ good im k d /\ Fk k w' /\
                (Kk k w0 -> dget d kidK <> None) /\ (dget d kidK <> None -> Kk k w').

  Definition dv_slow : prog (res (nat * dict)) :=
    nop "dv.convert" (nop "dv.ifextra" (nops "dv.extra" (if ki_extra (kim im k) then 1 else 0) (nop "dv.kty"
    (nop "dv.validate"
       (Act "dv.update" (AUpdate k) (fun _ =>
        Act "dv.ret2" (ARead k) (fun o => rd o (fun i d => Ret (Ok (i, d)))))))))).

  Lemma dv_unfold :
    dv true im k =
    Act "dv.if" (ATest k) (fun o =>
      match o with
      | OBool true => Act "dv.ret" (ARead k) (fun o => rd o (fun i d => Ret (Ok (i, d))))
      | _ => dv_slow
      end).
  Proof. unfold dv, dv_slow. rewrite Hvalid. reflexivity. Qed.

  Lemma vis_after_update w : inv im w -> (k < length (w_keys w))%nat ->
    vis (getk (fst (sem im (AUpdate k) w)) k) = dupdate (vis (getk w k)) (view im k).
  Proof.
    intros I L. simpl. rewrite getk_setk. rewrite Nat.eqb_refl. apply Nat.ltb_lt in L. rewrite L. simpl.
    apply vis_set_vis. apply I.
  Qed.

  Lemma update_nonempty d : good im k d -> dupdate d (view im k) <> [].
  Proof.
    intros G. destruct d as [|p d].
    - rewrite dupdate_nil by apply W. exact Hne.
    - rewrite (good_update_id im k) by (auto; discriminate). discriminate.
  Qed.

  Lemma dv_slow_spec w0 w :
    inv im w0 -> (k < length (w_keys w0))%nat -> rsteps im w0 w -> holds im dv_slow w (dv_post w0).
  Proof.
    intros I0 L0 R0. unfold dv_slow.
    apply holds_nop, holds_nop, holds_nops, holds_nop, holds_nop.
    simpl. intros w1 R1. split; [exact I|]. split; [exact I|].
    intros w2 R2. split; [exact I|]. split; [exact I|]. simpl.
    intros w3 R3.
    assert (rsteps im w0 w1) as A1 by (eapply rsteps_trans; eauto).
    destruct (rsteps_mono im w0 w1 W I0 A1) as [I1 [F1 K1]].
    pose proof (rsteps_one im w1 (AUpdate k) I I) as S1.
    set (w1' := fst (sem im (AUpdate k) w1)) in *.
    destruct (rsteps_mono im w1 w1' W I1 S1) as [I1' [F1' K1']].
    destruct (rsteps_mono im w1' w2 W I1' R2) as [I2 [F2 K2]].
    destruct (rsteps_mono im w2 w3 W I2 R3) as [I3 [F3 K3]].
    assert (Fk k w1') as FF.
    { unfold Fk, w1'. rewrite vis_after_update; auto.
      - apply update_nonempty. apply good_vis. apply I1.
      - rewrite (rsteps_nkeys im w0 w1 A1). exact L0. }
    split; [exact I3|]. split.
    { eapply rsteps_trans; [exact A1|]. eapply rsteps_trans; [exact S1|]. eapply rsteps_trans; eauto. }
    exists (ks_ptr (getk w2 k)), (vis (getk w2 k)).
    split; [reflexivity|]. split; [apply F2; exact FF|]. split; [apply good_vis; apply I2|].
    split; [apply F3, F2; exact FF|]. split.
    - intro K0. apply K2, K1', K1. exact K0.
    - intro KK. apply K3. exact KK.
  Qed.

  Lemma dv_spec w : inv im w -> (k < length (w_keys w))%nat -> holds im (dv true im k) w (dv_post w).
  Proof.
    intros I0 L0. rewrite dv_unfold. simpl. intros w1 R1. split; [exact I|]. split; [exact I|].
    destruct (rsteps_mono im w w1 W I0 R1) as [I1 [F1 K1]].
    destruct (nonempty (vis (getk w1 k))) eqn:NE.
    - intros w2 R2. split; [exact I|]. split; [exact I|]. simpl. intros w3 R3.
      destruct (rsteps_mono im w1 w2 W I1 R2) as [I2 [F2 K2]].
      destruct (rsteps_mono im w2 w3 W I2 R3) as [I3 [F3 K3]].
      assert (Fk k w1) as FF by (unfold Fk; destruct (vis (getk w1 k)); [discriminate | discriminate]).
      split; [exact I3|]. split; [eapply rsteps_trans; [exact R1|]; eapply rsteps_trans; eauto|].
      exists (ks_ptr (getk w2 k)), (vis (getk w2 k)).
      split; [reflexivity|]. split; [apply F2; exact FF|]. split; [apply good_vis; apply I2|].
      split; [apply F3, F2; exact FF|]. split.
      + intro K0. apply K2, K1. exact K0.
      + intro KK. apply K3. exact KK.
    - apply dv_slow_spec; auto.
  Qed.

  (* what a reader of "kid" gets from a dict the key exposes *)
  Lemma good_kid_value d :
    good im k d -> d <> [] ->
    (dget d kidK = None /\ dget (view im k) kidK = None) \/ dget d kidK = Some the_kid.
  Proof.
    intros [E|[E|[N E]]] NE; subst d; [congruence| |].
    - unfold the_kid. destruct (dget (view im k) kidK) eqn:G; [right; reflexivity | left; auto].
    - right. unfold withkid, the_kid. rewrite dget_app, N. reflexivity.
  Qed.

  Definition kid_post (w0 : world) (r : res pv) (w' : world) : Prop :=
    inv im w' /\ rsteps im w0 w' /\ Fk k w' /\
    ((r = Ok PNone /\ ~ Kk k w0 /\ dget (view im k) kidK = None) \/ (r = Ok the_kid /\ Kk k w')).

  Lemma kidp_spec w : inv im w -> (k < length (w_keys w))%nat -> holds im (kidp true im k) w (kid_post w).
  Proof.
    intros I0 L0. unfold kidp, getf. apply holds_nop, holds_nop. apply holds_bindr.
    eapply holds_conseq; [|apply dv_spec; auto].
    intros r w1 [I1 [R1 [i [d [E [NE [G [F1 [KA KB]]]]]]]]]. subst r. simpl.
    intros w2 R2. destruct (rsteps_mono im w1 w2 W I1 R2) as [I2 [F2 K2]].
    split; [exact I2|]. split; [eapply rsteps_trans; eauto|]. split; [apply F2; exact F1|].
    destruct (good_kid_value d G NE) as [[N1 N2]|S].
    - left. rewrite N1. split; [reflexivity|]. split; [|exact N2]. intro K0. apply KA in K0. congruence.
    - right. rewrite S. split; [reflexivity|]. apply K2, KB. rewrite S. discriminate.
  Qed.

  Lemma good_thumb d : good im k d -> d <> [] -> thumb_of (kim im k) d = Ok (ki_tp (kim im k)).
  Proof.
    intros G NE. unfold thumb_of.
    assert (forallb (dmem d) (tpfields (ki_kty (kim im k))) = true) as H.
    { destruct G as [E|[E|[N E]]]; subst d; [congruence|exact Htp|].
      rewrite forallb_forall in *. intros f Hf. specialize (Htp f Hf).
      unfold dmem, withkid in *. rewrite dget_app. destruct (dget (view im k) f); [reflexivity|discriminate]. }
    rewrite H. reflexivity.
  Qed.

  Lemma vis_after_setkid w tp : inv im w -> (k < length (w_keys w))%nat ->
    vis (getk (fst (sem im (ASetKid k tp) w)) k) = dset (vis (getk w k)) kidK (PStr tp).
  Proof.
    intros I L. simpl. rewrite getk_setk. rewrite Nat.eqb_refl. apply Nat.ltb_lt in L. rewrite L. simpl.
    apply vis_set_vis. apply I.
  Qed.

  Definition ek_post (w0 : world) (r : res unit) (w' : world) : Prop :=
    r = Ok tt /\ inv im w' /\ rsteps im w0 w' /\ Kk k w'.

  (* ensure_kid: every own step is enabled (in particular the write of "kid"
     happens on a non-empty dict, with the thumbprint), and on return the key
     has a kid whatever the other threads did in between *)
  Lemma ensure_kid_spec w :
    inv im w -> (k < length (w_keys w))%nat -> holds im (ensure_kid true im k) w (ek_post w).
  Proof.
    intros I0 L0. unfold ensure_kid. apply holds_nop. apply holds_bindr.
    eapply holds_conseq; [|apply dv_spec; auto].
    intros r w1 [I1 [R1 [i [d [E [NE [G [F1 [KA KB]]]]]]]]]. subst r. simpl snd.
    destruct (dmem d kidK) eqn:DM.
    - simpl. intros w2 R2. destruct (rsteps_mono im w1 w2 W I1 R2) as [I2 [F2 K2]].
      split; [reflexivity|]. split; [exact I2|]. split; [eapply rsteps_trans; eauto|].
      apply K2, KB. unfold dmem in DM. destruct (dget d kidK); [discriminate|discriminate].
    - (* the view has no kid *)
      assert (dget (view im k) kidK = None) as NK.
      { destruct (good_kid_value d G NE) as [[_ N2]|S]; [exact N2|].
        unfold dmem in DM. rewrite S in DM. discriminate. }
      assert (k < length (w_keys w1))%nat as L1 by (rewrite (rsteps_nkeys im w w1 R1); exact L0).
      apply holds_nop. apply holds_bindr. unfold thumb.
      apply holds_nops, holds_nop, holds_nop. apply holds_bindr.
      eapply holds_conseq; [|apply dv_spec; auto].
      intros r w2 [I2 [R2 [i2 [d2 [E2 [NE2 [G2 [F2 [KA2 KB2]]]]]]]]]. subst r. simpl snd.
      apply holds_nop, holds_nop. rewrite (good_thumb d2 G2 NE2).
      apply holds_forset, holds_nop, holds_nop, holds_nop, holds_nop.
      simpl. intros w3 R3.
      destruct (rsteps_mono im w2 w3 W I2 R3) as [I3 [F3 K3]].
      assert (enabled im (ASetKid k (ki_tp (kim im k))) w3) as En.
      { split; [reflexivity|]. split; [apply F3; exact F2 | exact NK]. }
      split; [exact I|]. split; [exact En|].
      intros w4 R4. simpl. intros w6 R6.
      pose proof (rsteps_one im w3 (ASetKid k (ki_tp (kim im k))) I En) as S3.
      set (w3' := fst (sem im (ASetKid k (ki_tp (kim im k))) w3)) in *.
      destruct (rsteps_mono im w3 w3' W I3 S3) as [I3' [F3' K3']].
      assert (rsteps im w3' w6) as R36 by (eapply rsteps_trans; eauto).
      destruct (rsteps_mono im w3' w6 W I3' R36) as [I6 [F6 K6]].
      split; [reflexivity|]. split; [exact I6|]. split.
      { eapply rsteps_trans; [exact R1|]. eapply rsteps_trans; [exact R2|].
        eapply rsteps_trans; [exact R3|]. eapply rsteps_trans; [exact S3|]. exact R36. }
      apply K6. unfold Kk, w3'. rewrite vis_after_setkid; auto.
      + rewrite dget_dset_same. discriminate.
      + rewrite (rsteps_nkeys im w1 w3); [exact L1 | eapply rsteps_trans; eauto].
  Qed.

  (* guess_key's sequence `rv_key.ensure_kid(); assert rv_key.kid is not None;
     obj.set_kid(rv_key.kid)`: both reads return the kid, in every interleaving *)
  Definition guess_core : prog (res (pv * pv)) :=
    pbindr (ensure_kid true im k) (fun _ =>
    pbindr (kidp true im k) (fun v1 =>
    pbindr (kidp true im k) (fun v2 => Ret (Ok (v1, v2))))).

  Lemma guess_core_spec w :
    inv im w -> (k < length (w_keys w))%nat ->
    holds im guess_core w (fun r w' => r = Ok (the_kid, the_kid) /\ inv im w' /\ Kk k w').
  Proof.
    intros I0 L0. unfold guess_core. apply holds_bindr.
    eapply holds_conseq; [|apply ensure_kid_spec; auto].
    intros r w1 [E [I1 [R1 K1]]]. subst r.
    assert (k < length (w_keys w1))%nat as L1 by (rewrite (rsteps_nkeys im w w1 R1); exact L0).
    apply holds_bindr. eapply holds_conseq; [|apply kidp_spec; auto].
    intros r w2 [I2 [R2 [F2 [[_ [NK _]]|[E K2]]]]]; [contradiction|]. subst r.
    assert (k < length (w_keys w2))%nat as L2 by (rewrite (rsteps_nkeys im w1 w2 R2); exact L1).
    apply holds_bindr. eapply holds_conseq; [|apply kidp_spec; auto].
    intros r w3 [I3 [R3 [F3 [[_ [NK _]]|[E K3]]]]]; [contradiction|]. subst r.
    simpl. intros w4 R4. destruct (rsteps_mono im w3 w4 W I3 R4) as [I4 [F4 K4]].
    split; [reflexivity|]. split; [exact I4|]. apply K4. exact K3.
  Qed.
End FixedSpecs.

(* ================= as_dict (repaired step list) ================= *)
Fixpoint strip_fn (privs ks : list str) (data : dict) : dict :=
  match ks with
  | [] => data
  | f :: r => if str_mem f privs then strip_fn privs r (ddel data f) else strip_fn privs r data
  end.

Lemma strip_loop_spec im privs ks data w (Q : res pv -> world -> Prop) :
  (forall w', rsteps im w w' -> Q (Ok (PDict (strip_fn privs ks data))) w') ->
  holds im (strip_loop privs ks data) w Q.
Proof.
  revert data. induction ks as [|f r IH]; intros data H; simpl strip_loop.
  - apply holds_nop, holds_nop, holds_nop. simpl. exact H.
  - apply holds_nop, holds_nop. simpl strip_fn in H.
    destruct (str_mem f privs); [apply holds_nop|]; apply IH; exact H.
Qed.

Section AsDict.
  Variable im : imm.
  Hypothesis W : wf_imm im.
  Variable k : nat.
  Hypothesis Hvalid : ki_valid (kim im k) = true.
  Hypothesis Hne : view im k <> [].

  (* the exported dict is a function of the immutable view, with or without the lazy kid *)
  Definition export (private : option bool) (d : dict) : pv :=
    match private with
    | Some false => PDict (strip_fn (privfields (ki_kty (kim im k))) (dkeys d) d)
    | _ => PDict d
    end.
  Definition as_dict_ok (private : option bool) (r : res pv) : Prop :=
    if (is_true private && negb (ki_private (kim im k)))%bool then r = Err EValue
    else r = Ok (export private (view im k)) \/
         (dget (view im k) kidK = None /\ r = Ok (export private (withkid im k))).

  Lemma as_dict_spec private w :
    inv im w -> (k < length (w_keys w))%nat ->
    holds im (as_dict true im k private) w (fun r w' => as_dict_ok private r).
  Proof.
    intros I0 L0. unfold as_dict, as_dict_ok. apply holds_nop.
    destruct (is_true private && negb (ki_private (kim im k)))%bool.
    - apply holds_nop. simpl. reflexivity.
    - apply holds_nop. apply holds_bindr.
      eapply holds_conseq; [|apply (dv_spec im W k Hvalid Hne); auto].
      intros r w1 [I1 [R1 [i [d [E [NE [G [F1 [KA KB]]]]]]]]]. subst r. simpl snd.
      apply holds_nop.
      assert (forall pr, Ok (export pr d) = Ok (export pr (view im k)) \/
                         (dget (view im k) kidK = None /\ Ok (export pr d) = Ok (export pr (withkid im k)))) as HG.
      { intro pr. destruct G as [E|[E|[N E]]]; subst d; [congruence | left; reflexivity | right; auto]. }
      destruct private as [[|]|].
      + apply holds_nop, holds_nop. simpl. intros. apply (HG (Some true)).
      + apply strip_loop_spec. intros. apply (HG (Some false)).
      + apply holds_nop, holds_nop. simpl. intros. apply (HG None).
  Qed.
End AsDict.

(* ================= sequential independence ================= *)
(* whatever lazy slots are already filled, a call made alone gives the same
   result: the sequential run is one of the interleavings *)
Lemma seq_guess_core im k fuel w r w' :
  wf_imm im -> ki_valid (kim im k) = true -> view im k <> [] ->
  forallb (dmem (view im k)) (tpfields (ki_kty (kim im k))) = true ->
  inv im w -> (k < length (w_keys w))%nat ->
  run_seq im fuel w (guess_core im k) = Some (r, w') ->
  r = Ok (the_kid im k, the_kid im k) /\ inv im w' /\ Kk k w'.
Proof.
  intros W V NE TP I L E.
  exact (holds_run_seq im fuel _ w _ r w' (guess_core_spec im W k V NE TP w I L) E).
Qed.

Lemma seq_as_dict im k private fuel w1 w2 r1 r2 w1' w2' :
  wf_imm im -> ki_valid (kim im k) = true -> view im k <> [] ->
  inv im w1 -> inv im w2 -> (k < length (w_keys w1))%nat -> (k < length (w_keys w2))%nat ->
  run_seq im fuel w1 (as_dict true im k private) = Some (r1, w1') ->
  run_seq im fuel w2 (as_dict true im k private) = Some (r2, w2') ->
  as_dict_ok im k private r1 /\ as_dict_ok im k private r2.
Proof.
  intros W V NE I1 I2 L1 L2 E1 E2. split.
  - exact (holds_run_seq im fuel _ w1 _ r1 w1' (as_dict_spec im W k V NE private w1 I1 L1) E1).
  - exact (holds_run_seq im fuel _ w2 _ r2 w2' (as_dict_spec im W k V NE private w2 I2 L2) E2).
Qed.

(* ================= the original step lists: the lost kid ================= *)
Definition ex_im : imm :=
  [{| ki_kty := "oct"; ki_view := [(asc "k", PStr (asc "c2VjcmV0")); (asc "kty", PStr (asc "oct"))];
      ki_extra := false; ki_valid := true; ki_private := true; ki_tp := asc "THUMBPRINT" |}].
Definition ex_calls : list call := [CJws true (KSet 0) None "HS256" (ROwn None) None; CAsDict 0 None].
Definition ex_progs (fixed : bool) := map (compile fixed ex_im (fun _ _ => 0%nat)) ex_calls.
(* thread 1 (as_dict) tests the empty slot and computes its dict; thread 0
   (sign through the key set) runs up to the end of ensure_kid; thread 1
   assigns its dict (no kid) and returns; thread 0 evaluates the assert *)
Definition lost_kid_schedule : list nat :=
  repeat 1%nat 7 ++ repeat 0%nat 42 ++ repeat 1%nat 5 ++ repeat 0%nat 5.

Definition outcome (fixed : bool) (sched : list nat) :=
  let '(w, ts, _) := run_sched ex_im sched (init_world 1 [[0%nat]]) (ex_progs fixed) in
  (map result_of ts, map (fun s => dmem (vis s) kidK) (w_keys w)).

Lemma lost_kid_orig :
  outcome false lost_kid_schedule =
  ([Some (Err EAssert); Some (Ok (PDict (ki_view (kim ex_im 0))))], [false]).
Proof. vm_compute. reflexivity. Qed.

Lemma lost_kid_isolated :
  option_map fst (run_seq ex_im 200 (init_world 1 [[0%nat]]) (nth 0 (ex_progs false) (Ret (Err EOracleMiss))))
  = Some (Ok (PStr (asc "THUMBPRINT"))).
Proof. vm_compute. reflexivity. Qed.

(* the same schedule on the repaired step lists *)
Lemma lost_kid_fixed :
  exists rest, outcome true (lost_kid_schedule ++ rest) =
  ([Some (Ok (PStr (asc "THUMBPRINT"))); Some (Ok (PDict (withkid ex_im 0)))], [true]).
Proof. exists (repeat 0%nat 40). vm_compute. reflexivity. Qed.

Lemma ex_im_wf : wf_imm ex_im.
Proof. intro k. destruct k as [|[|k]]; reflexivity. Qed.
