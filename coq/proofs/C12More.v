(* C12More.v — further lemmas for props/C12.v (full-copy branch, key sets asked
   for a private export). *)
From Model Require Import Base PyVal TableTypes C12Keys.
From Gen Require Import Tables.
From Proofs Require Import C12Proofs.
Open Scope N_scope.

(* `private is not False` (None, True, anything else) on a key that may answer:
   the whole dict_value plus params *)
Lemma as_dict_full_copy reg ip d private params :
  is_False private = false -> (py_truth private = true -> ip = true) ->
  as_dict reg ip d private params = Ok (dupdate d params).
Proof.
  intros F T. unfold as_dict. rewrite F.
  destruct (py_truth private) eqn:P; simpl; [rewrite (T eq_refl)|]; reflexivity.
Qed.

(* as_dict never fails except for the private-on-public conflict *)
Lemma as_dict_err reg ip d private params e :
  as_dict reg ip d private params = Err e ->
  e = EValue /\ py_truth private = true /\ ip = false.
Proof.
  unfold as_dict. destruct (py_truth private) eqn:P; destruct ip; simpl;
    try (destruct (is_False private); discriminate).
  intros [= <-]. auto.
Qed.

Section KS.
  Variable H : kd -> str.

  (* a key set that contains a public-only key refuses a private export as a whole *)
  Lemma keyset_private_on_public ks private params :
    py_truth private = true ->
    (exists k, In k ks /\ is_private k = false) ->
    exists e, keyset_as_dict H ks private params = Err e.
  Proof.
    intros T [k [Hin Hp]]. induction ks as [|a r IH]; [destruct Hin|].
    cbn [keyset_as_dict].
    destruct (ensure_kid H (kreg a) (k_dict a)) as [d1|e1]; cbn [bind]; [|eexists; reflexivity].
    destruct (as_dict (kreg a) (is_private a) d1 private params) as [o|e2] eqn:E; cbn [bind];
      [|eexists; reflexivity].
    destruct Hin as [->|Hin].
    - unfold as_dict in E. rewrite T, Hp in E. discriminate.
    - destruct (IH Hin) as [e ->]. cbn [bind]. eexists; reflexivity.
  Qed.

  (* the only failures of a public export of a key set are missing required
     members when a kid has to be generated (KeyError inside thumbprint) *)
  Lemma keyset_public_err ks params e :
    keyset_as_dict H ks (PBool false) params = Err e -> e = EKey.
  Proof.
    induction ks as [|a r IH]; cbn [keyset_as_dict]; [discriminate|].
    destruct (ensure_kid H (kreg a) (k_dict a)) as [d1|e1] eqn:E1; cbn [bind].
    - rewrite as_dict_false. cbn [bind].
      destruct (keyset_as_dict H r (PBool false) params) as [os|e2]; cbn [bind]; [discriminate|].
      intros [= <-]. apply IH. reflexivity.
    - intros [= <-]. unfold ensure_kid, thumbprint in E1.
      destruct (dmem (k_dict a) s_kid); [discriminate|].
      destruct (thumb_input (kreg a) (k_dict a)) as [i|e3] eqn:E3; cbn [bind] in E1; [discriminate|].
      injection E1 as <-. unfold thumb_input in E3.
      revert E3. generalize (@nil (str * pv)). generalize (sort_str (thumb_fields (kreg a))).
      intro l. induction l as [|f l IHl]; intros acc; simpl; [discriminate|].
      destruct (dget (k_dict a) f); [apply IHl | intros [= <-]; reflexivity].
  Qed.
End KS.
