(* C12More.v — further lemmas for props/C12.v (full-copy branch, key sets asked
   for a private export). *)
From Model Require Import Base PyVal TableTypes C12Keys.
From Gen Require Import Tables.
From Proofs Require Import C12Proofs.
Open Scope N_scope.

(* `private is not False` (None, True, anything else) on a key that may answer:
   the whole dict_value plus params *)
Lemma as_dict_full_copy reg ip d private params :
  is_False private = false -> (py_truth private = true -> ip = true) ->
  as_dict reg ip d private params = Ok (dupdate d params).
Proof.
  intros F T. unfold as_dict. rewrite F.
  destruct (py_truth private) eqn:P; simpl; [rewrite (T eq_refl)|]; reflexivity.
Qed.

(* as_dict never fails except for the private-on-public conflict *)
Lemma as_dict_err reg ip d private params e :
  as_dict reg ip d private params = Err e ->
  e = EValue /\ py_truth private = true /\ ip = false.
Proof.
  unfold as_dict. destruct (py_truth private) eqn:P; destruct ip; simpl;
    try (destruct (is_False private); discriminate).
  intros [= <-]. auto.
Qed.

Section KS.
  Variable H : kd -> str.

  (* a key set that contains a public-only key refuses a private export as a whole *)
  Lemma keyset_private_on_public ks private params :
    py_truth private = true ->
    (exists k, In k ks /\ is_private k = false) ->
    exists e, keyset_as_dict H ks private params = Err e.
  Proof.
    intros T [k [Hin Hp]]. induction ks as [|a r IH]; [destruct Hin|].
    cbn [keyset_as_dict].
    destruct (ensure_kid H (kreg a) (k_dict a)) as [d1|e1]; cbn [bind]; [|eexists; reflexivity].
    destruct (as_dict (kreg a) (is_private a) d1 private params) as [o|e2] eqn:E; cbn [bind];
      [|eexists; reflexivity].
    destruct Hin as [->|Hin].
    - unfold as_dict in E. rewrite T, Hp in E. discriminate.
    - destruct (IH Hin) as [e ->]. cbn [bind]. eexists; reflexivity.
  Qed.

  (* the only failures of a public export of a key set are missing required
     members when a kid has to be generated (KeyError inside thumbprint) *)
  Lemma keyset_public_err ks params e :
    keyset_as_dict H ks (PBool false) params = Err e -> e = EKey.
  Proof.
    induction ks as [|a r IH]; cbn [keyset_as_dict]; [discriminate|].
    destruct (ensure_kid H (kreg a) (k_dict a)) as [d1|e1] eqn:E1; cbn [bind].
    - rewrite as_dict_false. cbn [bind].
      destruct (keyset_as_dict H r (PBool false) params) as [os|e2]; cbn [bind]; [discriminate|].
      intros [= <-]. apply IH. reflexivity.
    - intros [= <-]. unfold ensure_kid, thumbprint in E1.
      destruct (dmem (k_dict a) s_kid); [discriminate|].
      destruct (thumb_input (kreg a) (k_dict a)) as [i|e3] eqn:E3; cbn [bind] in E1; [discriminate|].
      injection E1 as <-. unfold thumb_input in E3.
      revert E3. generalize (@nil (str * pv)). generalize (sort_str (thumb_fields (kreg a))).
      intro l. induction l as [|f l IHl]; intros acc; simpl; [discriminate|].
      destruct (dget (k_dict a) f); [apply IHl | intros [= <-]; reflexivity].
  Qed.
End KS.

(* ------------------------------------------------------------------ *)
(* key generation: a key requested public-only is public-only          *)
(* ------------------------------------------------------------------ *)
Section GenerateFacts.
  Variables (sk pk : Type).
  Variable pub_of : sk -> pk.
  Variable fresh : kind -> nat -> sk.
  Variable export_private : kind -> sk -> kd.
  Variable export_public : kind -> pk -> kd.
  Variable private_bytes : sk -> encoding -> option bytes -> bytes.
  Variable public_bytes : pk -> encoding -> bytes.
  (* contract of binding.export_public_key: only non-private members *)
  Hypothesis export_public_clean :
    forall k p m, In m (dkeys (export_public k p)) -> member_private (value_registry k) m = false.

  Notation class_gen := (class_generate sk pk pub_of fresh).
  Notation reg_gen := (registry_generate sk pk pub_of fresh).
  Notation ks_gen := (keyset_generate sk pk pub_of fresh).
  Notation gk := (g_key sk pk export_private export_public).

  (* the registry wrapper hands the flag through unchanged *)
  Lemma registry_is_class k i private : reg_gen true k i private = class_gen k i private.
  Proof. reflexivity. Qed.

  Lemma class_generate_flag k i private g :
    class_gen k i private = Ok g ->
    g_kind g = k /\ g_is_private sk pk g = (match k with KOct => true | _ => py_truth private end) /\
    g_raw g = (if g_is_private sk pk g then RawPriv (fresh k i) else RawPub (pub_of (fresh k i))).
  Proof.
    unfold class_generate, g_is_private.
    destruct k; simpl; destruct (py_truth private); simpl; try discriminate;
      intros [= <-]; simpl; auto.
  Qed.

  Lemma generate_public_is_public k i private params g :
    k <> KOct -> py_truth private = false ->
    (forall m, In m (dkeys params) -> member_private (value_registry k) m = false) ->
    reg_gen true k i private = Ok g ->
    is_private (gk g params) = false /\
    (exists d, key_as_dict (gk g params) PNone [] = Ok d /\
               forall m, In m (dkeys d) -> member_private (value_registry k) m = false) /\
    (forall flag ps, py_truth flag = true -> key_as_dict (gk g params) flag ps = Err EValue) /\
    (forall enc pw,
       as_bytes sk pk pub_of private_bytes public_bytes (g_raw g) enc PNone pw =
       if encoding_ok enc then Ok (public_bytes (pub_of (fresh k i)) enc) else Err EValue) /\
    (forall enc pw, exists e,
       as_bytes sk pk pub_of private_bytes public_bytes (g_raw g) enc (PBool true) pw = Err e).
  Proof.
    intros N F P E. rewrite registry_is_class in E.
    assert (g = {| g_kind := k; g_raw := RawPub (pub_of (fresh k i)) |}) as ->.
    { unfold class_generate in E. rewrite F in E. destruct k; try congruence; injection E as <-; reflexivity. }
    assert (is_private (gk {| g_kind := k; g_raw := RawPub (pub_of (fresh k i)) |} params) = false) as IP.
    { unfold is_private, g_key. simpl. destruct k; try congruence; reflexivity. }
    split; [exact IP|]. split; [|split; [|split]].
    - unfold key_as_dict. rewrite as_dict_full_copy; [| reflexivity | discriminate].
      eexists. split; [reflexivity|]. intros m Hm. simpl in Hm.
      unfold g_dict_value in Hm. simpl in Hm.
      apply dkeys_dset in Hm. destruct Hm as [Hm| ->].
      + apply dkeys_dupdate in Hm. destruct Hm as [Hm|Hm];
          [exact (export_public_clean _ _ _ Hm) | exact (P _ Hm)].
      + apply kid_kty_epk_not_private.
    - intros flag ps T. unfold key_as_dict. rewrite IP.
      apply as_dict_private_on_public. exact T.
    - intros enc pw. unfold as_bytes, dump_pem_key. simpl. destruct (encoding_ok enc); reflexivity.
    - intros enc pw. unfold as_bytes, dump_pem_key. simpl. destruct (encoding_ok enc); eexists; reflexivity.
  Qed.

  Lemma keyset_generate_public k private count l :
    k <> KOct -> py_truth private = false ->
    ks_gen true k private count = Ok l ->
    length l = count /\ Forall (fun g => g_kind g = k /\ g_is_private sk pk g = false) l.
  Proof.
    intros N F. revert l. induction count as [|n IH]; intros l; cbn [keyset_generate].
    - intros [= <-]. split; [reflexivity | constructor].
    - destruct (ks_gen true k private n) as [rest|] eqn:E; cbn [bind]; [|discriminate].
      destruct (reg_gen true k n private) as [g|] eqn:G; cbn [bind]; [|discriminate].
      intros [= <-]. destruct (IH rest eq_refl) as [L A]. split.
      + rewrite app_length, L. simpl. apply Nat.add_1_r.
      + apply Forall_app. split; [exact A|]. constructor; [|constructor].
        rewrite registry_is_class in G. apply class_generate_flag in G.
        destruct G as [K [I _]]. split; [exact K|]. rewrite I, F. destruct k; congruence.
  Qed.

  (* oct keys cannot be requested public-only *)
  Lemma generate_oct_public_refused i private :
    py_truth private = false -> reg_gen true KOct i private = Err EValue.
  Proof. intro F. unfold registry_generate, class_generate. rewrite F. reflexivity. Qed.
End GenerateFacts.

(* ------------------------------------------------------------------ *)
(* histories: no sequence of exporting calls makes a public export leak *)
(* ------------------------------------------------------------------ *)
Section HistoryFacts.
  Variable H : kd -> str.
  Variable reg : list kparam.
  Variable is_priv : bool.
  Hypothesis kid_public : member_private reg s_kid = false.

  (* invariant: the state differs from the initial dict at most by a generated kid *)
  Definition same_but_kid (d0 d : kd) : Prop := forall m, m <> s_kid -> dget d m = dget d0 m.

  Lemma step_invariant d0 d o :
    same_but_kid d0 d -> same_but_kid d0 (fst (step H reg is_priv d o)).
  Proof.
    intros I. destruct o as [private params| |]; simpl; try exact I.
    destruct (ensure_kid H reg d) as [d'|e] eqn:E; simpl; [|exact I].
    intros m N. rewrite (ensure_kid_other H reg d d' m E N). apply I. exact N.
  Qed.

  Lemma history_invariant ops : forall d0 d,
    same_but_kid d0 d -> same_but_kid d0 (fst (run_history H reg is_priv d ops)).
  Proof.
    induction ops as [|o r IH]; intros d0 d I; simpl; [exact I|].
    destruct (step H reg is_priv d o) as [d1 out] eqn:S.
    destruct (run_history H reg is_priv d1 r) as [d2 outs] eqn:R. simpl.
    pose proof (IH d0 d1) as IH'. rewrite R in IH'. simpl in IH'. apply IH'.
    pose proof (step_invariant d0 d o I) as SI. rewrite S in SI. exact SI.
  Qed.

  (* every public export in any history, whatever happened before (private exports,
     exports with params, kid generation, thumbprints): no private member, and the
     non-private members other than kid are those of the initial key *)
  Lemma history_public_exports ops : forall d0 d out,
    same_but_kid d0 d ->
    In (RDict (Ok out)) (snd (run_history H reg is_priv d ops)) ->
    (exists private params, In (OAsDict private params) ops /\
       ((is_False private = true ->
           (forall m, In m (dkeys out) -> member_private reg m = false \/ In m (dkeys params))) /\
        (forall m, m <> s_kid -> dget (rev params) m = None ->
           dget out m = if is_False private && member_private reg m then None else dget d0 m))).
  Proof.
    induction ops as [|o r IH]; intros d0 d out I Hin; simpl in Hin; [destruct Hin|].
    destruct (step H reg is_priv d o) as [d1 o1] eqn:S.
    destruct (run_history H reg is_priv d1 r) as [d2 outs] eqn:R. simpl in Hin.
    destruct Hin as [E|Hin].
    - destruct o as [private params| |]; simpl in S; try (injection S as <- <-; discriminate);
        [| destruct (ensure_kid H reg d); injection S as <- <-; discriminate ].
      injection S as <- <-. injection E as E.
      exists private, params. split; [left; reflexivity|]. split.
      + intros F m Hm. destruct private as [|[]| | | | | |]; try discriminate.
        exact (as_dict_false_members _ _ _ _ _ _ E Hm).
      + intros m N P. unfold as_dict in E.
        destruct (py_truth private && negb is_priv); [discriminate|].
        destruct (is_False private) eqn:F; simpl in E; injection E as <-; rewrite dget_dupdate, P; simpl.
        * rewrite strip_private_is_pub_view. destruct (member_private reg m) eqn:M.
          -- apply pub_view_get_private. exact M.
          -- rewrite pub_view_get_public by exact M. apply I. exact N.
        * apply I. exact N.
    - assert (same_but_kid d0 d1) as I1.
      { pose proof (step_invariant d0 d o I) as SI. rewrite S in SI. exact SI. }
      pose proof (IH d0 d1 out I1) as IH'. rewrite R in IH'. simpl in IH'.
      destruct (IH' Hin) as [private [params [A B]]].
      exists private, params. split; [right; exact A | exact B].
  Qed.
End HistoryFacts.

Section HistoryPaired.
  Variable H : kd -> str.
  Variable reg : list kparam.
  Variable is_priv : bool.

  Lemma run_history_length ops : forall d,
    length (snd (run_history H reg is_priv d ops)) = length ops.
  Proof.
    induction ops as [|o r IH]; intro d; simpl; [reflexivity|].
    destruct (step H reg is_priv d o) as [d1 o1].
    specialize (IH d1). destruct (run_history H reg is_priv d1 r) as [d2 outs]. simpl in *.
    rewrite IH. reflexivity.
  Qed.

  (* the i-th output belongs to the i-th operation: for every public export
     as_dict(private=False, **params) anywhere in any history *)
  Lemma history_public_paired ops : forall d0 d params r,
    same_but_kid d0 d ->
    In (OAsDict (PBool false) params, r) (combine ops (snd (run_history H reg is_priv d ops))) ->
    exists out, r = RDict (Ok out) /\
      (forall m, In m (dkeys out) -> member_private reg m = false \/ In m (dkeys params)) /\
      (forall m, member_private reg m = true -> dget (rev params) m = None -> dget out m = None) /\
      (forall m, member_private reg m = false -> m <> s_kid -> dget (rev params) m = None ->
                 dget out m = dget d0 m).
  Proof.
    induction ops as [|o rest IH]; intros d0 d params r I Hin; simpl in Hin; [destruct Hin|].
    destruct (step H reg is_priv d o) as [d1 o1] eqn:S.
    destruct (run_history H reg is_priv d1 rest) as [d2 outs] eqn:R. simpl in Hin.
    destruct Hin as [E|Hin].
    - injection E as -> <-. simpl in S. injection S as <- <-.
      rewrite as_dict_false. eexists. split; [reflexivity|]. repeat split.
      + intros m Hm. apply dkeys_dupdate in Hm. destruct Hm as [Hm|Hm];
          [left; exact (pub_view_keys _ _ _ Hm) | right; exact Hm].
      + intros m M P. rewrite dget_dupdate, P. apply pub_view_get_private. exact M.
      + intros m M N P. rewrite dget_dupdate, P, pub_view_get_public by exact M. apply I. exact N.
    - assert (same_but_kid d0 d1) as I1.
      { pose proof (step_invariant H reg is_priv d0 d o I) as SI. rewrite S in SI. exact SI. }
      pose proof (IH d0 d1 params r I1) as IH'. rewrite R in IH'. simpl in IH'. exact (IH' Hin).
  Qed.
End HistoryPaired.
