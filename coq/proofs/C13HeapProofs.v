(* C13HeapProofs.v — exports return new objects: no history of exports, edits
   of the exported objects and ensure_kid calls changes a key that has a kid. *)
From Coq Require Import Lia ZifyBool.
From Model Require Import Base PyVal C13Thumb C13Heap.
From Proofs Require Import C13Proofs.
Open Scope N_scope.

Lemma hget_hset_same h a d : hget (hset h a d) a = Some d.
Proof. unfold hset. simpl. rewrite N.eqb_refl. reflexivity. Qed.

Lemma hget_hset_other h a b d : b <> a -> hget (hset h b d) a = hget h a.
Proof. intro H. unfold hset. simpl. destruct (b =? a) eqn:E; [lia | reflexivity]. Qed.

Lemma hget_lt_fresh h a d : hget h a = Some d -> a < fresh h.
Proof.
  unfold fresh. induction h as [|[b e] h IH]; [discriminate|].
  cbn [hget fold_right fst]. destruct (N.eqb_spec b a) as [E|E]; intro H.
  - subst b. lia.
  - specialize (IH H). lia.
Qed.

Lemma fresh_not_allocated h a d : hget h a = Some d -> fresh h <> a.
Proof. intros H E. apply hget_lt_fresh in H. lia. Qed.

Section WithHash.
  Variable hashnew : str -> bytes -> res bytes.

  Definition inv (a : N) (d : dict) (s : hstate) : Prop :=
    hget (s_heap s) a = Some d /\ Forall (fun b => b <> a) (s_outs s).

  Lemma step_preserves c priv a d s x s' :
    dmem d s_kid = true -> inv a d s -> run_step hashnew c priv a s x = Ok s' -> inv a d s'.
  Proof.
    intros Hk [Hg Ho] H. destruct x as [private params | i e | | ]; simpl in H.
    - unfold key_at in H. rewrite Hg in H. cbn [bind] in H.
      destruct (as_dict _ private params) as [ex|]; [|discriminate]. cbn [bind] in H.
      inversion H; subst s'. split; cbn [s_heap s_outs].
      + rewrite hget_hset_other; [exact Hg | exact (fresh_not_allocated _ _ _ Hg)].
      + apply Forall_app. split; [exact Ho|]. constructor; [|constructor].
        exact (fresh_not_allocated _ _ _ Hg).
    - destruct (nth_error (s_outs s) i) as [b|] eqn:E.
      + inversion H; subst s'. split; cbn [s_heap s_outs]; [|exact Ho].
        rewrite hget_hset_other; [exact Hg|].
        rewrite Forall_forall in Ho. apply Ho. eapply nth_error_In. exact E.
      + inversion H; subst s'. split; assumption.
    - unfold key_at in H. rewrite Hg in H. cbn [bind] in H.
      unfold ensure_kid in H. cbn [ko_dict] in H. rewrite Hk in H. cbn [bind] in H.
      inversion H; subst s'. split; cbn [s_heap s_outs ko_dict]; [apply hget_hset_same | exact Ho].
    - unfold key_at in H. rewrite Hg in H. cbn [bind] in H.
      destruct (key_thumbprint hashnew c _); [|discriminate]. cbn [bind] in H.
      inversion H; subst s'. split; assumption.
  Qed.

  Theorem export_no_alias c priv a d steps s s' :
    dmem d s_kid = true ->
    hget (s_heap s) a = Some d -> Forall (fun b => b <> a) (s_outs s) ->
    run hashnew c priv a s steps = Ok s' ->
    hget (s_heap s') a = Some d /\ Forall (fun b => b <> a) (s_outs s').
  Proof.
    intros Hk Hg Ho. revert s Hg Ho. induction steps as [|x r IH]; intros s Hg Ho H; simpl in H.
    - inversion H; subst. split; assumption.
    - destruct (run_step hashnew c priv a s x) as [s1|] eqn:E; [|discriminate]. cbn [bind] in H.
      destruct (step_preserves c priv a d s x s1 Hk (conj Hg Ho) E) as [Hg1 Ho1].
      exact (IH s1 Hg1 Ho1 H).
  Qed.

  (* every export is a function of the key's dictionary alone *)
  Theorem export_function_of_state c priv a s x s' d :
    hget (s_heap s) a = Some d ->
    run_step hashnew c priv a s (SAsDict (fst x) (snd x)) = Ok s' ->
    exists e, as_dict {| ko_cls := c; ko_priv := priv; ko_dict := d |} (fst x) (snd x) = Ok e /\
              hget (s_heap s') (fresh (s_heap s)) = Some e /\
              s_outs s' = s_outs s ++ [fresh (s_heap s)].
  Proof.
    intros Hg H. simpl in H. unfold key_at in H. rewrite Hg in H. cbn [bind] in H.
    destruct (as_dict _ (fst x) (snd x)) as [e|]; [|discriminate]. cbn [bind] in H.
    inversion H; subst s'. exists e. split; [reflexivity|]. split; [apply hget_hset_same | reflexivity].
  Qed.
End WithHash.

(* every key of a constructed (KeySet(keys), import_key_set, generate_key_set)
   set has a kid: the one it came with, else its thumbprint *)
Section KeySetKids.
  Variable hashnew : str -> bytes -> res bytes.

  Theorem keyset_every_key_has_kid ks ks' :
    keyset_init hashnew ks = Ok ks' ->
    Forall2 (fun k k' =>
               ko_cls k' = ko_cls k /\
               match kid_of k with
               | Some v => k' = k /\ kid_of k' = Some v
               | None => exists t, key_thumbprint hashnew (ko_cls k) (ko_dict k) = Ok t /\
                                   kid_of k' = Some (PStr t) /\
                                   (forall m, m <> s_kid -> dget (ko_dict k') m = dget (ko_dict k) m)
               end) ks ks'.
  Proof.
    intro H. apply keyset_init_spec in H. induction H as [|k k' r r' Hk Hr IH]; constructor; [|exact IH].
    apply kid_characterised in Hk. unfold kid_of in *. unfold dmem in Hk.
    destruct (dget (ko_dict k) s_kid) as [v|] eqn:E.
    - destruct Hk as [[_ Hk]|[Hk _]]; [|discriminate]. subst k'. rewrite E. repeat split; reflexivity.
    - destruct Hk as [[Hk _]|[_ [t [Ht Hk]]]]; [discriminate|]. subst k'. cbn [ko_cls ko_dict].
      split; [reflexivity|]. exists t. split; [exact Ht|]. split; [apply dget_dset_same|].
      intros m Hm. apply dget_dset_other. congruence.
  Qed.
End KeySetKids.
