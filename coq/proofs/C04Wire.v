(* C04Wire.v — the compact round trip at the WIRE level: decrypt_compact (encrypt_compact ...) returns the
   plaintext, composing the object-level theorem (C04Multi.single_rt) with split / join of the five
   base64url segments and a json.loads-after-json.dumps contract. *)
From Coq Require Import Lia ZifyBool.
From Model Require Import JweBase JweCrypto JweMsg.
From Gen Require Import Tables.
From Proofs Require Import B64Proofs C02Proofs C04Proofs C04Multi.
Open Scope N_scope.

(* ---------- decryption looks at four fields of a recipient only ---------- *)
Definition same_dec (a b : recip) : Prop :=
  r_header a = r_header b /\ r_ek a = r_ek b /\ r_key a = r_key b /\ r_sender a = r_sender b.

Lemma decrypt_recipient_ext O a e hs r1 r2 tag :
  same_dec r1 r2 -> decrypt_recipient O a e hs r1 tag = decrypt_recipient O a e hs r2 tag.
Proof.
  intros [H1 [H2 [H3 H4]]]. destruct r1, r2. simpl in *. subst. reflexivity.
Qed.

Lemma recip_loop_ext O g e o1 o2 r1 r2 :
  j_ser o1 = j_ser o2 -> j_prot o1 = j_prot o2 -> j_tag o1 = j_tag o2 ->
  (j_ser o1 = Compact \/ j_unprot o1 = j_unprot o2) ->
  same_dec r1 r2 ->
  recip_loop O g e o1 [r1] [] = recip_loop O g e o2 [r2] [].
Proof.
  intros S P T U SD. pose proof SD as [H1 _]. simpl.
  rewrite <- S, <- P, <- T, <- H1.
  assert (HH : headers (j_ser o1) (j_prot o1) (j_unprot o1) (r_header r1)
               = headers (j_ser o1) (j_prot o1) (j_unprot o2) (r_header r1)).
  { destruct U as [C | U]; [rewrite C; reflexivity | rewrite U; reflexivity]. }
  rewrite <- HH.
  destruct (headers (j_ser o1) (j_prot o1) (j_unprot o1) (r_header r1)) as [hs|]; [| reflexivity].
  cbn [bind]. destruct (o_check_header O (PDict hs) true); [| reflexivity]. cbn [bind].
  destruct (hitem hs "alg") as [algv|]; [| reflexivity]. cbn [bind].
  destruct (get_alg g algv) as [arow|]; [| reflexivity]. cbn [bind].
  rewrite (decrypt_recipient_ext O arow e hs r1 r2 (j_tag o1) SD). reflexivity.
Qed.

(* ---------- keys and header of the recipient survive the encryption steps ---------- *)
Lemma add_header_keys s prot r k v p' r' :
  add_header s prot r k v = Ok (p', r') ->
  r_key r' = r_key r /\ r_sender r' = r_sender r /\ r_ek r' = r_ek r /\ (s = Compact -> r_header r' = r_header r).
Proof.
  unfold add_header. intro A. destruct s.
  - inversion A; subst. auto.
  - destruct (py_truth (r_header r)); [destruct (r_header r); try discriminate |]; inversion A; subst; simpl;
      repeat split; auto; discriminate.
  - destruct (py_truth (r_header r)); [destruct (r_header r); try discriminate |]; inversion A; subst; simpl;
      repeat split; auto; discriminate.
Qed.

Definition kept (s : ser) (r r' : recip) : Prop :=
  r_key r' = r_key r /\ r_sender r' = r_sender r /\ (s = Compact -> r_header r' = r_header r).

Lemma kept_trans s a b c : kept s a b -> kept s b c -> kept s a c.
Proof.
  intros [A1 [A2 A3]] [B1 [B2 B3]]. repeat split; try congruence. intro E. rewrite (B3 E). apply A3. exact E.
Qed.

Lemma kept_add s prot r k v p' r' : add_header s prot r k v = Ok (p', r') -> kept s r r'.
Proof. intro A. destruct (add_header_keys s prot r k v p' r' A) as [H1 [H2 [_ H4]]]. repeat split; auto. Qed.

Lemma kept_refl s r : kept s r r.
Proof. repeat split; auto. Qed.

Lemma encrypt_cek_kept O a s prot unprot r d cek p2 r2 ek :
  encrypt_cek O a s prot unprot r d cek = Ok (p2, r2, ek) -> kept s r r2.
Proof.
  intro H. unfold encrypt_cek in H.
  destruct (fam_is (ea_family a) "RSA").
  { inv_bind H. inv_bind H.
    match type of H with (if ?b then _ else _) = _ => destruct b; [discriminate |] end.
    inv_bind H. inversion H; subst. apply kept_refl. }
  destruct (fam_is (ea_family a) "AESKW").
  { inv_bind H. inv_bind H. inversion H; subst. apply kept_refl. }
  destruct (fam_is (ea_family a) "AESGCMKW").
  { inv_bind H. inv_bind H. inv_bind H. inv_bind H. inv_bind H.
    match goal with E : add_header _ _ _ _ _ = Ok ?pr |- _ => is_var pr; destruct pr end.
    match goal with E : add_header _ _ _ _ _ = Ok ?pr |- _ => is_var pr; destruct pr end.
    inversion H; subst. cbn [fst snd] in *.
    match goal with E1 : add_header _ _ r _ _ = Ok (_, ?ra), E2 : add_header _ _ ?ra _ _ = Ok (_, ?rb) |- _ =>
      exact (kept_trans _ _ _ _ (kept_add _ _ _ _ _ _ _ E1) (kept_add _ _ _ _ _ _ _ E2)) end. }
  destruct (fam_is (ea_family a) "PBES2"); [| discriminate].
  inv_bind H.
  match goal with Hx : headers _ _ _ _ = Ok ?h |- _ => destruct (dmem h (s_ "p2s")); destruct (dmem h (s_ "p2c")) end;
    cbn [negb] in H.
  - inv_bind H. match goal with E : _ = Ok ?y |- _ => is_var y; destruct y as [[p1 r1] p2sv] end.
    match goal with E : bind (to_bytes_pv _) _ = Ok _ |- _ => inv_bind E; inv_bind E; inversion E; subst p1 r1 p2sv end.
    cbn [bind] in H. cbv beta iota zeta in H.
    inv_bind H. inv_bind H. inv_bind H. inversion H; subst. apply kept_refl.
  - inv_bind H. match goal with E : _ = Ok ?y |- _ => is_var y; destruct y as [[p1 r1] p2sv] end.
    match goal with E : bind (to_bytes_pv _) _ = Ok _ |- _ => inv_bind E; inv_bind E; inversion E; subst p1 r1 p2sv end.
    inv_bind H. match goal with E : _ = Ok ?y |- _ => is_var y; destruct y as [[pb rb] pc] end.
    match goal with E : bind (add_header _ _ _ _ _) _ = Ok _ |- _ => apply bind_ok in E; destruct E as [prx [AHx Ex]]; inversion Ex; subst; clear Ex end.
    cbv beta iota zeta in H. inv_bind H. inv_bind H. inv_bind H. inversion H; subst.
    exact (kept_add _ _ _ _ _ _ _ AHx).
  - inv_bind H. match goal with E : _ = Ok ?y |- _ => is_var y; destruct y as [[p1 r1] p2sv] end.
    match goal with E : bind (add_header _ _ _ _ _) _ = Ok _ |- _ => apply bind_ok in E; destruct E as [prx [AHx Ex]]; inversion Ex; subst; clear Ex end.
    cbn [bind] in H. cbv beta iota zeta in H.
    inv_bind H. inv_bind H. inv_bind H. inversion H; subst.
    exact (kept_add _ _ _ _ _ _ _ AHx).
  - inv_bind H. match goal with E : _ = Ok ?y |- _ => is_var y; destruct y as [[p1 r1] p2sv] end.
    match goal with E : bind (add_header _ _ _ _ _) _ = Ok _ |- _ => apply bind_ok in E; destruct E as [prx [AHx Ex]]; inversion Ex; subst; clear Ex end.
    inv_bind H. match goal with E : _ = Ok ?y |- _ => is_var y; destruct y as [[pb rb] pc] end.
    match goal with E : bind (add_header _ _ _ _ _) _ = Ok (pb, rb, pc) |- _ => apply bind_ok in E; destruct E as [pry [AHy Ey]]; inversion Ey; subst; clear Ey end.
    cbv beta iota zeta in H. inv_bind H. inv_bind H. inv_bind H. inversion H; subst.
    exact (kept_trans _ _ _ _ (kept_add _ _ _ _ _ _ _ AHx) (kept_add _ _ _ _ _ _ _ AHy)).
Qed.

Lemma kept_set_ek s r r' ek : kept s r r' -> kept s r (set_ek r' ek).
Proof. intros [A [B D]]. repeat split; assumption. Qed.

(* the single output recipient: same keys, no per-recipient header in compact, an encrypted key is set *)
Lemma single_out O g o d x r :
  e_recips o = [r] -> perform_encrypt O g o d = Ok x ->
  exists r' ek, x_recips x = [r'] /\ r_ek r' = Some ek /\ kept (e_ser o) r r'.
Proof.
  intros R H.
  destruct (perform_encrypt_single_inv O g o d x r R H) as [encv [e [hs [algv [a [He [Ge [Hh [Hck [Ha [Ga K]]]]]]]]]]].
  destruct (ea_direct a) eqn:D; destruct (is_agreement a) eqn:AG.
  - destruct (perform_encrypt_ecdh_direct_inv O g o d x r R H) as [encv' [e' [hs' [algv' [a' [_ [_ [Hh' [_ [Ha' [Ga' K']]]]]]]]]]].
    rewrite Hh in Hh'. inversion Hh'; subst hs'. rewrite Ha in Ha'. inversion Ha'; subst algv'.
    rewrite Ga in Ga'. inversion Ga'; subst a'.
    destruct (K' AG D) as [eph [epkd [prot1 [r1 [hs1 [_ [_ [AH [_ [_ [_ [_ XR]]]]]]]]]]]].
    exists (set_ek r1 []), []. split; [exact XR |]. split; [reflexivity |].
    apply kept_set_ek. eapply kept_add; eauto.
  - destruct (perform_encrypt_dir_inv O g o d x r R H) as [encv' [e' [hs' [algv' [a' [_ [_ [Hh' [_ [Ha' [Ga' K']]]]]]]]]]].
    rewrite Hh in Hh'. inversion Hh'; subst hs'. rewrite Ha in Ha'. inversion Ha'; subst algv'.
    rewrite Ga in Ga'. inversion Ga'; subst a'.
    destruct (K' AG D) as [_ [_ [_ XR]]].
    exists (set_ek r []), []. split; [exact XR |]. split; [reflexivity |]. apply kept_set_ek. apply kept_refl.
  - destruct (perform_encrypt_ecdh_kw_inv O g o d x r R H) as [encv' [e' [hs' [algv' [a' [_ [_ [Hh' [_ [Ha' [Ga' K']]]]]]]]]]].
    rewrite Hh in Hh'. inversion Hh'; subst hs'. rewrite Ha in Ha'. inversion Ha'; subst algv'.
    rewrite Ga in Ga'. inversion Ga'; subst a'.
    destruct (K' AG D) as [eph [epkd [prot1 [r1 [hs1 [auk [ek [_ [_ [AH [_ [_ [_ [_ [_ XR]]]]]]]]]]]]]]].
    exists (set_ek r1 ek), ek. split; [exact XR |]. split; [reflexivity |].
    apply kept_set_ek. eapply kept_add; eauto.
  - destruct (K eq_refl eq_refl) as [prot2 [r2 [ek [EC [_ [XR _]]]]]].
    exists (set_ek r2 ek), ek. split; [exact XR |]. split; [reflexivity |].
    apply kept_set_ek. eapply encrypt_cek_kept; eauto.
Qed.

Lemma ascii_bytes_ok t a : ascii_enc t = Ok a -> bytes_ok a = true.
Proof.
  unfold ascii_enc. destruct (forallb (fun c => c <? 128) t) eqn:F; [| discriminate].
  intro H. inversion H; subst. unfold bytes_ok. rewrite forallb_forall in *. intros c I.
  specialize (F c I). lia.
Qed.

Section Wire.
Variable O : oracles.
Hypothesis C : contracts O.
Variable g : registry.
Hypothesis CH : forall hs, o_check_header O (PDict hs) true = Ok tt.
Hypothesis BT : forall k iv a m c t, o_gcm_enc O k iv a m = Ok (c, t) -> bytes_ok t = true.
(* json.loads (json.dumps v) = v on what json.dumps printed as ASCII *)
Hypothesis JL : forall v t a, o_dumps O v = Ok t -> ascii_enc t = Ok a -> o_loads O a = Ok v.

Theorem compact_wire_rt o d tok r :
  e_ser o = Compact -> e_recips o = [r] -> r_header r = PNone ->
  wf (e_prot o) -> hdr_wf (e_unprot o) -> recip_ok O r (draw_of (d_rec d)) ->
  (forall encv e, hitem (e_prot o) "enc" = Ok encv -> get_enc g encv = Ok e ->
     lenN (d_civ d) * 8 = ee_iv_size e /\ lenN (d_cek d) * 8 = ee_cek_size e) ->
  (* what was produced are octet strings, and the final protected header still names alg and enc *)
  (forall x, perform_encrypt O g o d = Ok x ->
     bytes_ok (x_iv x) = true /\ bytes_ok (x_ct x) = true /\ bytes_ok (x_tag x) = true /\
     (forall r' ek, In r' (x_recips x) -> r_ek r' = Some ek -> bytes_ok ek = true) /\
     dmem (x_prot x) (s_ "alg") = true /\ dmem (x_prot x) (s_ "enc") = true) ->
  encrypt_compact O g o d = Ok tok ->
  exists ob, decrypt_compact O g tok (r_key r) (r_sender r) = Ok (e_plain o, ob) /\
             exists x, perform_encrypt O g o d = Ok x /\ j_prot ob = x_prot x /\ j_b64prot ob = Some (x_b64prot x).
Proof.
  intros S R RH Wp Wu RO SZ OUT ENC.
  unfold encrypt_compact in ENC. inv_bind ENC. rename E into PE.
  destruct (OUT x PE) as [Biv [Bct [Btag [Bek [Malg Menc]]]]].
  destruct (single_out O g o d x r R PE) as [r' [ek [XR [REK [K1 [K2 K3]]]]]].
  pose proof (compact_rt O C g CH BT o d x r S R RH PE Wp Wu RO SZ) as [RT [_ _]].
  (* the token *)
  unfold represent_compact in ENC. rewrite XR in ENC. unfold need_ek in ENC. rewrite REK in ENC.
  cbn [bind] in ENC. inversion ENC; subst tok. clear ENC.
  pose proof (perform_encrypt_inv O g o d x PE) as [encv [e [m [He [Ge [_ [JB [AS _]]]]]]]].
  rewrite S in AS. simpl in AS.
  unfold json_b64encode in JB. inv_bind JB. rename x0 into t. inv_bind JB. rename x0 into a.
  inversion JB as [B64]. 
  assert (Ba : bytes_ok a = true) by (eapply ascii_bytes_ok; eauto).
  assert (Bek' : bytes_ok ek = true) by (apply (Bek r' ek); [rewrite XR; simpl; auto | exact REK]).
  destruct (compact_segments_rt a ek (x_iv x) (x_ct x) (x_tag x) Ba Bek' Biv Bct Btag) as [SP [D1 [D2 [D3 [D4 D5]]]]].
  set (ob := {| j_ser := Compact; j_prot := x_prot x; j_unprot := PNone; j_aad := None;
                j_b64prot := Some (b64e a); j_iv := x_iv x; j_ct := x_ct x; j_tag := x_tag x;
                j_recips := [ {| r_header := PNone; r_ek := Some ek; r_key := r_key r;
                                 r_sender := r_sender r; r_eph := None |} ] |}).
  assert (EX : extract_compact O (join_dot [x_aadseg x; b64e ek; b64e (x_iv x); b64e (x_ct x); b64e (x_tag x)])
                 (r_key r) (r_sender r) = Ok ob).
  { rewrite AS, <- B64. unfold extract_compact. unfold bytes in *. rewrite SP.
    unfold json_b64decode. cbn [to_bytes_ascii bind]. rewrite D1. cbn [bind].
    rewrite (JL _ _ _ E E0). cbn [bind]. rewrite Malg, Menc. cbn [negb bind].
    rewrite D3, D4, D5, D2. reflexivity. }
  exists ob. split.
  - unfold decrypt_compact.
    change (extract_compact O _ (r_key r) (r_sender r))
      with (extract_compact O (join_dot [x_aadseg x; b64e ek; b64e (x_iv x); b64e (x_ct x); b64e (x_tag x)]) (r_key r) (r_sender r)).
    rewrite EX. cbn [bind].
    assert (PD : perform_decrypt O g ob = perform_decrypt O g (obj_of o x)).
    { unfold perform_decrypt, perform_decrypt_inner.
      change (j_prot ob) with (x_prot x). change (j_prot (obj_of o x)) with (x_prot x).
      change (j_iv ob) with (x_iv x). change (j_iv (obj_of o x)) with (x_iv x).
      change (j_ct ob) with (x_ct x). change (j_ct (obj_of o x)) with (x_ct x).
      change (j_tag ob) with (x_tag x). change (j_tag (obj_of o x)) with (x_tag x).
      change (j_recips (obj_of o x)) with (x_recips x). rewrite XR.
      change (j_recips ob) with [ {| r_header := PNone; r_ek := Some ek; r_key := r_key r;
                                     r_sender := r_sender r; r_eph := None |} ].
      assert (DA : dec_aad O ob = dec_aad O (obj_of o x)).
      { unfold dec_aad. simpl. rewrite S. rewrite <- B64. reflexivity. }
      rewrite DA.
      assert (RLE : forall e0, recip_loop O g e0 ob [ {| r_header := PNone; r_ek := Some ek; r_key := r_key r;
                                     r_sender := r_sender r; r_eph := None |} ] []
                               = recip_loop O g e0 (obj_of o x) [r'] []).
      { intro e0. apply recip_loop_ext; simpl; auto.
        unfold same_dec. simpl. rewrite (K3 S), RH, REK, K1, K2. auto. }
      destruct (if dmem (x_prot x) (s_ "enc") then Ok tt else Err (EJose MissingEncryptionError)); [| reflexivity].
      cbn [bind]. destruct (hitem (x_prot x) "enc") as [encv0|]; [| reflexivity]. cbn [bind].
      destruct (get_enc g encv0) as [e0|]; [| reflexivity]. cbn [bind].
      destruct (check_iv e0 (x_iv x)); [| reflexivity]. cbn [bind].
      rewrite (RLE e0). reflexivity. }
    rewrite PD, RT. reflexivity.
  - exists x. split; [exact PE |]. split; [reflexivity |]. simpl. rewrite <- B64. reflexivity.
Qed.

End Wire.
