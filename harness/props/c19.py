"""C19 — base64url and integer codecs are strict and lossless."""
import itertools, json
import lib
from lib import c_hex, c_Z, c_N, c_exn, exn_class, c_pv, c_str, c_opt

ALPHA = b"ABCDEFGHIJKLMNOPQRSTUVWXYZabcdefghijklmnopqrstuvwxyz0123456789-_"


def call(f, *a):
    try:
        return ("ok", f(*a))
    except BaseException as e:  # noqa
        return ("err", e)


def c_res(r, okf):
    if r[0] == "ok":
        return "(Ok %s)" % okf(r[1])
    return "(Err %s)" % c_exn(exn_class(r[1]))


def gen_octets(ctx):
    out = [bytes([a]) for a in range(256)] + [b""]
    if ctx.quick:
        out += [bytes([ctx.rng.randrange(256), ctx.rng.randrange(256)]) for _ in range(1500)]
        out += [bytes([a, b]) for a in (0, 1, 127, 128, 255) for b in (0, 3, 15, 16, 63, 64, 252, 255)]
    else:
        out += [bytes([a, b]) for a in range(256) for b in range(256)]
    n_rand = ctx.scale(300, 4000)
    for _ in range(n_rand):
        ln = ctx.rng.choice([3, 4, 5, 6, 7, 8, 9, 15, 16, 17, 31, 32, 33, 48, 64, 65, 100, 255, 256, 257])
        out.append(bytes(ctx.rng.randrange(256) for _ in range(ln)))
    for ln in (1024, 4096) if ctx.quick else (1024, 4095, 4096, 4097, 8192):
        out.append(bytes(ctx.rng.randrange(256) for _ in range(ln)))
    return out


def gen_large_octets(ctx):
    """Large inputs (implementation-level oracle only: too big for Coq literals): lengths around
    powers of two and buffer-size-like constants, all residues modulo 3."""
    rng = ctx.rng
    sizes = [16383, 16384, 16385, 32768, 49152, 65535, 65536, 65537, 65538, 98304, 131072, 131073, 262144 + 1]
    if not ctx.quick:
        sizes += [1 << 20, (1 << 20) + 1, (1 << 20) + 2, 3 * (1 << 20) + 1]
    return [rng.randbytes(n) for n in sizes]


REP = [ord("A"), ord("Q"), ord("z"), ord("9"), ord("-"), ord("_"), ord("="), ord("+"), ord("/"),
       ord(" "), ord("\n"), ord("."), 0x80, 0xFF, 0x00]


def gen_strings(ctx):
    out = []
    maxlen = 3 if ctx.quick else 4
    for ln in range(0, maxlen + 1):
        for t in itertools.product(REP, repeat=ln):
            out.append(bytes(t))
    if ctx.quick:
        for _ in range(1500):
            out.append(bytes(ctx.rng.choice(REP) for _ in range(ctx.rng.choice([4, 5, 6, 7, 8, 9]))))
    # every non-alphabet byte value at every position of carriers of length 1..8
    non_alpha = [b for b in range(256) if b not in ALPHA]
    carriers = [b"QUJDREVG"[:n] for n in range(1, 9)]
    for car in carriers:
        for pos in range(len(car) + 1):
            vals = non_alpha if (not ctx.quick or pos in (0, len(car) // 2, len(car))) else ctx.rng.sample(non_alpha, 12)
            for v in vals:
                out.append(car[:pos] + bytes([v]) + car[pos:])       # inserted
                if pos < len(car):
                    out.append(car[:pos] + bytes([v]) + car[pos + 1:])  # replaced
    # random strings over a padding-heavy alphabet (exercise the a2b state machine)
    small = [ord(c) for c in "AQ-_=+/ \n"] + [0x80]
    for _ in range(ctx.scale(3000, 60000)):
        out.append(bytes(ctx.rng.choice(small) for _ in range(ctx.rng.randrange(0, 13))))
    # valid encodings with 0..5 '=' appended
    from joserfc.util import urlsafe_b64encode
    for ln in range(0, 9):
        x = bytes(ctx.rng.randrange(256) for _ in range(ln))
        for k in range(0, 6):
            out.append(urlsafe_b64encode(x) + b"=" * k)
    return out


def gen_ints(ctx):
    out = [0, 1, 2, 255, 256, 257, 65535, 65536, 65537, -1, -2, -256, -(1 << 64)]
    ks = list(range(1, 41)) + [48, 64, 65, 66, 128, 256] if ctx.quick else list(range(1, 132)) + [192, 256, 384, 511, 512]
    for k in ks:
        p = 256 ** k
        out += [p - 2, p - 1, p, p + 1, p + 2]
    out += [256 ** 512 - 1, 256 ** 512]          # 2^4096
    for _ in range(ctx.scale(200, 3000)):
        bits = ctx.rng.randrange(1, 1025)
        out.append(ctx.rng.getrandbits(bits) | (1 << (bits - 1)))
    for _ in range(ctx.scale(6, 60)):
        bits = ctx.rng.randrange(1025, 4097)
        out.append(ctx.rng.getrandbits(bits) | (1 << (bits - 1)))
    return out


def gen_encode_int(ctx):
    out = []
    for bits in (8, 64, 256, 384, 521, 20, 7, 1, 0, 9, 528):
        L = (bits + 7) // 8
        for num in (0, 1, 255, 256, 256 ** L - 1 if L else 0, 256 ** L, 256 ** L * 16 - 1, 256 ** L * 16,
                    256 ** L * 256, -1, -255, 2 ** bits - 1, 2 ** bits, 256 ** max(L - 1, 0),
                    256 ** max(L - 1, 0) - 1, 256 ** max(L - 2, 0) - 1):
            out.append((num, bits))
        for _ in range(ctx.scale(20, 300)):
            # forced short values: leading zero octets
            lead = ctx.rng.choice([0, 0, 1, 2, 3])
            nb = max(8 * (L - lead), 1)
            out.append((ctx.rng.getrandbits(nb), bits))
    return out


def gen_headers(ctx):
    rng = ctx.rng
    strs = ["", "a", "HS256", "é", " ", "\U0001F600", 'q"uo\\te', "\x00\x1f", "a/b", "\ud800",
            "line\nbreak", "tab\t", "\x7f", "ü" * 5, "中文"]

    def val(d):
        k = rng.randrange(8 if d < 3 else 5)
        if k == 0:
            return rng.choice(strs)
        if k == 1:
            return rng.choice([0, 1, -1, 2 ** 31, 2 ** 64, -2 ** 70, 10 ** 30])
        if k == 2:
            return rng.choice([True, False])
        if k == 3:
            return None
        if k == 4:
            return rng.choice([0.5, -0.0, 1e308, 5e-324, 1.5e10, 3.14])
        if k == 5:
            return [val(d + 1) for _ in range(rng.randrange(0, 4))]
        return {rng.choice(strs): val(d + 1) for _ in range(rng.randrange(0, 4))}
    out = []
    # shallow headers with many structural characters, many members, long strings
    # (a decoder that guards on counts of brackets / members / length instead of on
    # the grammar refuses these although they are ordinary header objects)
    for ch in ["[", "{", "]", "}", '"', "\\", ":", ",", "[{", "{{tpl}}", "\u00e9", "/", "e30", "."]:
        for n in (1, 33, 65, 100, 300):
            out.append({"alg": "HS256", "kid": ch * n})
    out.append({"alg": "HS256", **{"m%d" % i: i for i in range(120)}})
    out.append({"alg": "HS256", "jwk": {"k%d" % i: [i] for i in range(40)}})
    out.append({"alg": "HS256", "x5c": ["a" * 40] * 70})
    out.append({"alg": "HS256", "crit": ["c%d" % i for i in range(80)], **{"c%d" % i: {} for i in range(80)}})
    out.append({"alg": "HS256", "kid": "k" * 5000})
    out.append({"alg": "HS256", "n": [[[], {}], [{}, []]] * 30})
    deep = cur = []
    for _ in range(41):
        nxt = []
        cur.append(nxt)
        cur = nxt
    out.append({"alg": "HS256", "deep": deep})
    for _ in range(ctx.scale(400, 8000)):
        h = {"alg": rng.choice(["HS256", "none", "ES512"])}
        for _ in range(rng.randrange(0, 5)):
            h[rng.choice(strs + ["kid", "crit", "typ", "b64"])] = val(0)
        out.append(h)
    return out


def has_float(v):
    if isinstance(v, float):
        return True
    if isinstance(v, list):
        return any(has_float(x) for x in v)
    if isinstance(v, dict):
        return any(has_float(x) for x in v.values())
    return False


def gen_json_values(ctx):
    """float-free JSON values, strings over all escape classes"""
    rng = ctx.rng
    chars = ['a', 'Z', '0', ' ', '~', '"', '\\', '/', '\n', '\r', '\t', '\b', '\f', '\x00', '\x1f', '\x7f',
             '\x80', '\xe9', '\u07ff', '\u0800', '\ud7ff', '\ue000', '\uffff', '\U00010000', '\U0001F600',
             '\U0010ffff', '<', '&', '\u2028']

    def rstr():
        return "".join(rng.choice(chars) for _ in range(rng.choice([0, 1, 1, 2, 3, 5, 9])))

    def val(d):
        k = rng.randrange(7 if d < 4 else 4)
        if k == 0:
            return rstr()
        if k == 1:
            return rng.choice([0, 1, -1, 7, 10, 99, 100, -100, 2 ** 31, 2 ** 64, -2 ** 70, 10 ** 30, rng.getrandbits(rng.randrange(1, 200))])
        if k == 2:
            return rng.choice([True, False])
        if k == 3:
            return None
        if k == 4:
            return [val(d + 1) for _ in range(rng.randrange(0, 4))]
        return {rstr(): val(d + 1) for _ in range(rng.randrange(0, 4))}
    out = [c for c in chars] + ["".join(chars)]
    for _ in range(ctx.scale(500, 8000)):
        out.append(val(0))
    return out


def gen_json_texts(ctx):
    """texts for json.loads: re-spellings of valid documents and malformed ones"""
    import json as _json
    rng = ctx.rng
    out = ['', ' ', 'null', ' true ', 'false', 'nul', 'tru', 'True', '0', '-0', '01', '-', '-01', '1 2', '12', '-12',
           '[]', '[ ]', '[1,]', '[,1]', '[1 2]', '[1,2', '{}', '{ }', '{"a":1,}', '{"a" 1}', '{a:1}', "{'a':1}",
           '{"a":1 "b":2}', '{"a":1,"a":2}', '{"a":1,"b":2,"a":3}', '"', '"a', '"\\', '"\\x"', '"\\u12"', '"\\u12g4"',
           '"\\u00E9"', '"\\u00e9"', '"\\ud83d\\ude00"', '"\\ud83d"', '"\\ud83dx"', '"\\ud83d\\u0041"', '"\\ude00"',
           '"\\ud83d\\ud83d\\ude00"', '"\\/"', '"\x01"', '"\x1f"', '"\x7f"', '"\t"', '"\u00e9"', '"\U0001F600"',
           '\ufeff{}', '[[[[[[[[[[1]]]]]]]]]]', '{"a":{"b":{"c":[{"d":null}]}}}', '[1]x', 'x[1]', '[1]\n', '\n[1]',
           '\x0b[1]', '[1]\x0c', '[\n1\t,\r2 ]', '{"a"\n:\n1}', '"a" "b"', '[true,false,null]', '[truefalse]',
           '-[1]', '[-]', '[+1]', '+1', '0x10', '1_0', '٣', '[1,2,3,4,5,6,7,8,9,10,11,12]',
           # the number grammar: integer part followed by things that are NOT a fraction / exponent
           '1e', '1E', '1e+', '1E-', '1.', '1.e5', '1.x', '-1e', '-0.', '0e', '[1e]', '[1.]', '{"a":1e}', '1e+x', '1ee5', '1e 5',
           '1 e5', '12.', '10e', '-', '--1', '-x', '1-', '1+', '0.', '00', '-00', '0 ', '1,', '[0e]', '[1,2e]', '1.5e',
           # and things that are (floats: outside the modelled fragment, skipped when Python accepts them)
           '1e5', '1E+5', '1e-5', '1.5', '-0.0', '0e0', '[1.5]', '1.5e3', '1.5e+', '1.5e+3']
    docs = [v for v in gen_json_values(ctx)[:ctx.scale(150, 1500)]]
    for v in docs:
        try:
            t = _json.dumps(v, ensure_ascii=rng.random() < 0.5, separators=rng.choice([(",", ":"), (", ", ": "), (" ,\n", " :\t")]),
                            indent=rng.choice([None, None, 1]))
        except ValueError:
            continue
        out.append(t)
        if t and rng.random() < 0.5:      # one random edit -> mostly malformed
            i = rng.randrange(len(t))
            out.append(t[:i] + rng.choice(['', '"', '\\', ',', ':', ']', '}', '[', '{', '0', ' ', 'u', 'e']) + t[i + rng.randrange(2):])
    return out


def gen_token_texts(ctx, dist):
    """(where, text) for every base64url text in tokens produced by joserfc: compact
    segments, JSON members, and the base64url-typed header parameters the library writes
    itself (iv, tag, p2s, epk.x/y)."""
    import json as _json, warnings
    from joserfc import jws, jwe, util
    from joserfc.jwk import OctKey, RSAKey, ECKey, OKPKey
    rng = ctx.rng
    out = []
    with warnings.catch_warnings():
        warnings.simplefilter("ignore")
        keys = {"oct16": OctKey.import_key(bytes(range(16))), "oct24": OctKey.import_key(bytes(range(24))),
                "oct32": OctKey.import_key(bytes(range(32))), "oct64": OctKey.import_key(bytes(range(64)))}
        for nm, mk in (("rsa", lambda: RSAKey.generate_key(2048)), ("p256", lambda: ECKey.generate_key("P-256")),
                       ("p384", lambda: ECKey.generate_key("P-384")), ("p521", lambda: ECKey.generate_key("P-521")),
                       ("k256", lambda: ECKey.generate_key("secp256k1")), ("ed", lambda: OKPKey.generate_key("Ed25519")),
                       ("x25519", lambda: OKPKey.generate_key("X25519")), ("x448", lambda: OKPKey.generate_key("X448"))):
            try:
                keys[nm] = mk()
            except Exception:
                pass

    def hdr_members(where, h):
        for m in ("iv", "tag", "p2s"):
            if isinstance(h.get(m), str):
                out.append(("%s header %s" % (where, m), h[m]))
        epk = h.get("epk")
        if isinstance(epk, dict):
            for m in ("x", "y"):
                if isinstance(epk.get(m), str):
                    out.append(("%s header epk.%s" % (where, m), epk[m]))

    def payloads():
        return [b"", b"a", b"ab", b"abc", bytes(rng.randrange(256) for _ in range(rng.randrange(4, 40)))]

    jws_cfg = [("HS256", "oct32"), ("HS384", "oct64"), ("HS512", "oct64"), ("RS256", "rsa"), ("PS384", "rsa"), ("ES256", "p256"),
               ("ES384", "p384"), ("ES512", "p521"), ("ES256K", "k256"), ("EdDSA", "ed")]
    for alg, kn in jws_cfg:
        if kn not in keys:
            continue
        for pl in payloads()[:ctx.scale(3, 5)]:
            try:
                t = jws.serialize_compact({"alg": alg}, pl, keys[kn], algorithms=[alg])
                dist["tokens"] += 1
                for i, seg in enumerate(t.split(".")):
                    out.append(("jws compact %s segment %d" % (alg, i), seg))
                j = jws.serialize_json({"protected": {"alg": alg}, "header": {"kid": "k"}}, pl, keys[kn], algorithms=[alg])
                dist["tokens"] += 1
                for m in ("protected", "payload", "signature"):
                    out.append(("jws flattened %s member %s" % (alg, m), j[m]))
                g = jws.serialize_json([{"protected": {"alg": alg}}], pl, keys[kn], algorithms=[alg])
                for m in ("protected", "signature"):
                    out.append(("jws general %s member %s" % (alg, m), g["signatures"][0][m]))
                out.append(("jws general %s member payload" % alg, g["payload"]))
            except Exception as e:
                dist["tokens_not_produced"] += 1
                dist.setdefault("tokens_not_produced_why", {}).setdefault("%s/%s: %s" % (alg, kn, type(e).__name__), 0)
                dist["tokens_not_produced_why"]["%s/%s: %s" % (alg, kn, type(e).__name__)] += 1
    jwe_cfg = [("dir", "oct16", "A128GCM"), ("dir", "oct32", "A128CBC-HS256"), ("A128KW", "oct16", "A128GCM"), ("A256KW", "oct32", "A256CBC-HS512"),
               ("A128GCMKW", "oct16", "A128GCM"), ("A192GCMKW", "oct24", "A192CBC-HS384"), ("A256GCMKW", "oct32", "A256GCM"),
               ("PBES2-HS256+A128KW", "oct16", "A128GCM"), ("PBES2-HS384+A192KW", "oct32", "A128CBC-HS256"), ("PBES2-HS512+A256KW", "oct64", "A256GCM"),
               ("RSA-OAEP", "rsa", "A128GCM"), ("RSA-OAEP-256", "rsa", "A192GCM"), ("RSA1_5", "rsa", "A128CBC-HS256"),
               ("ECDH-ES", "p256", "A128GCM"), ("ECDH-ES", "p521", "A256GCM"), ("ECDH-ES", "k256", "A128GCM"), ("ECDH-ES", "x25519", "A128GCM"),
               ("ECDH-ES+A128KW", "p384", "A128GCM"), ("ECDH-ES+A256KW", "x448", "A256CBC-HS512"), ("ECDH-ES+A192KW", "p521", "A192GCM")]
    for alg, kn, enc in jwe_cfg:
        if kn not in keys:
            continue
        for pl in payloads()[:ctx.scale(2, 5)]:
            try:
                t = jwe.encrypt_compact({"alg": alg, "enc": enc}, pl, keys[kn], algorithms=[alg, enc])
                dist["tokens"] += 1
                segs = t.split(".")
                for i, seg in enumerate(segs):
                    out.append(("jwe compact %s/%s segment %d" % (alg, enc, i), seg))
                hdr_members("jwe compact %s/%s" % (alg, enc), _json.loads(util.urlsafe_b64decode(segs[0].encode())))
                for flat in (True, False):
                    obj = jwe.GeneralJSONEncryption({"enc": enc}, pl, aad=rng.choice([None, b"aad", b"\xff\xfe"]))
                    obj.add_recipient({"alg": alg}, keys[kn])
                    if flat:
                        obj = jwe.FlattenedJSONEncryption({"enc": enc}, pl, aad=rng.choice([None, b"a", b"\xfb\xff"]))
                        obj.add_recipient({"alg": alg}, keys[kn])
                    j = jwe.encrypt_json(obj, None, algorithms=[alg, enc])
                    dist["tokens"] += 1
                    kind = "flattened" if flat else "general"
                    for m in ("protected", "iv", "ciphertext", "tag", "aad", "encrypted_key"):
                        if isinstance(j.get(m), str):
                            out.append(("jwe %s %s/%s member %s" % (kind, alg, enc, m), j[m]))
                    recs = [j] if flat else j.get("recipients", [])
                    for r in recs:
                        if isinstance(r.get("encrypted_key"), str):
                            out.append(("jwe %s %s/%s member encrypted_key" % (kind, alg, enc), r["encrypted_key"]))
                        if isinstance(r.get("header"), dict):
                            hdr_members("jwe %s %s/%s recipient" % (kind, alg, enc), r["header"])
                    if isinstance(j.get("unprotected"), dict):
                        hdr_members("jwe %s %s/%s unprotected" % (kind, alg, enc), j["unprotected"])
            except Exception as e:
                dist["tokens_not_produced"] += 1
                dist.setdefault("tokens_not_produced_why", {}).setdefault("%s/%s: %s" % (alg, kn, type(e).__name__), 0)
                dist["tokens_not_produced_why"]["%s/%s: %s" % (alg, kn, type(e).__name__)] += 1
    return out


def gen_native_keys(ctx):
    """(name, joserfc key whose dict view is produced by the EXPORTER, {member: (number, bits|None)}).
    RSA keys are built from chosen private numbers so that d, dp, dq (and, by search, qi)
    are shorter than their field; EC keys are searched for a coordinate with a leading
    zero octet."""
    import math, warnings
    from cryptography.hazmat.primitives.asymmetric import rsa, ec
    from cryptography.hazmat.primitives import serialization as ser
    from joserfc.jwk import RSAKey, ECKey
    rng = ctx.rng

    def rsa_entry(name, key):
        pn = key.private_numbers()
        nlen = (pn.public_numbers.n.bit_length() + 7) // 8
        nums = {"n": (pn.public_numbers.n, None), "e": (pn.public_numbers.e, None), "d": (pn.d, None),
                "p": (pn.p, None), "q": (pn.q, None), "dp": (pn.dmp1, None), "dq": (pn.dmq1, None), "qi": (pn.iqmp, None)}
        for m in ("n", "e", "d"):
            nums[m + "#field"] = nlen
        for m in ("p", "q", "dp", "dq", "qi"):
            nums[m + "#field"] = (nlen + 1) // 2
        out = []
        with warnings.catch_warnings():
            warnings.simplefilter("ignore")
            for enc, fmt, tag in ((ser.Encoding.PEM, ser.PrivateFormat.PKCS8, "pem"), (ser.Encoding.DER, ser.PrivateFormat.TraditionalOpenSSL, "der")):
                try:
                    out.append(("%s/%s" % (name, tag), RSAKey.import_key(key.private_bytes(enc, fmt, ser.NoEncryption())), nums))
                except Exception:
                    pass
            try:
                pub = RSAKey.import_key(key.public_key().public_bytes(ser.Encoding.PEM, ser.PublicFormat.SubjectPublicKeyInfo))
                out.append(("%s/pubpem" % name, pub, {m: v for m, v in nums.items() if m.split("#")[0] in ("n", "e")}))
            except Exception:
                pass
        return out

    res = []
    found_qi = 0
    tries = ctx.scale(40, 400)
    for i in range(tries):
        k = rsa.generate_private_key(65537 if i % 3 else 3, 1024 if i % 5 else 1032)
        pn = k.private_numbers()
        flen = (pn.public_numbers.n.bit_length() + 7) // 8
        short = [m for m, v, f in (("d", pn.d, flen), ("dp", pn.dmp1, (flen + 1) // 2), ("dq", pn.dmq1, (flen + 1) // 2), ("qi", pn.iqmp, (flen + 1) // 2))
                 if (v.bit_length() + 7) // 8 < f]
        if "qi" in short:
            found_qi += 1
        if short or i < 3:
            res += rsa_entry("rsa-gen-%d%s" % (i, "-short-" + "+".join(short) if short else ""), k)
        if i < ctx.scale(4, 12):
            # chosen short private exponent: d of `db` bits => d, dp, dq all far shorter than their fields
            p, q = pn.p, pn.q
            lam = (p - 1) * (q - 1) // math.gcd(p - 1, q - 1)
            db = rng.choice([17, 64, 200, 400, 500])
            while True:
                d = rng.getrandbits(db) | 1 | (1 << (db - 1))
                if math.gcd(d, lam) == 1:
                    break
            e = pow(d, -1, lam)
            try:
                k2 = rsa.RSAPrivateNumbers(p, q, d, rsa.rsa_crt_dmp1(d, p), rsa.rsa_crt_dmq1(d, q), rsa.rsa_crt_iqmp(p, q),
                                           rsa.RSAPublicNumbers(e, p * q)).private_key()
                res += rsa_entry("rsa-short-d%d-%d" % (db, i), k2)
            except Exception:
                pass
    # one key through the library's own generator
    try:
        jk = RSAKey.generate_key(2048, private=True, auto_kid=False)
        pn = jk.raw_value.private_numbers()
        flen = 256
        nums = {"n": (pn.public_numbers.n, None), "e": (pn.public_numbers.e, None), "d": (pn.d, None), "p": (pn.p, None),
                "q": (pn.q, None), "dp": (pn.dmp1, None), "dq": (pn.dmq1, None), "qi": (pn.iqmp, None)}
        for m in ("n", "e", "d"):
            nums[m + "#field"] = flen
        for m in ("p", "q", "dp", "dq", "qi"):
            nums[m + "#field"] = flen // 2
        res.append(("rsa-2048-library-generated", jk, nums))
    except Exception:
        pass
    ctx.coverage["jwk_export_rsa_short_qi_keys"] = found_qi
    # EC: every curve, incl. keys with a leading zero octet in a coordinate
    for crv, cls, bits in (("P-256", ec.SECP256R1, 256), ("P-384", ec.SECP384R1, 384), ("P-521", ec.SECP521R1, 521), ("secp256k1", ec.SECP256K1, 256)):
        got_short = 0
        for i in range(ctx.scale(300, 1500)):
            k = ec.generate_private_key(cls())
            pn = k.private_numbers()
            L = (bits + 7) // 8
            vals = {"x": pn.public_numbers.x, "y": pn.public_numbers.y, "d": pn.private_value}
            short = [m for m, v in vals.items() if (v.bit_length() + 7) // 8 < L]
            if not short and i >= 2:
                continue
            if short:
                got_short += 1
            try:
                with warnings.catch_warnings():
                    warnings.simplefilter("ignore")
                    jk = ECKey.import_key(k.private_bytes(ser.Encoding.PEM, ser.PrivateFormat.PKCS8, ser.NoEncryption()))
            except Exception:
                continue
            nm = "ec-%s-%d%s" % (crv, i, "-short-" + "+".join(short) if short else "")
            res.append((nm, jk, {m: (v, bits) for m, v in vals.items()}))
            # the same key as a PUBLIC-only object (public PEM / DER): the public exporter runs
            for enc, tag in ((ser.Encoding.PEM, "pubpem"), (ser.Encoding.DER, "pubder")):
                try:
                    with warnings.catch_warnings():
                        warnings.simplefilter("ignore")
                        pk = ECKey.import_key(k.public_key().public_bytes(enc, ser.PublicFormat.SubjectPublicKeyInfo))
                    res.append(("%s/%s" % (nm, tag), pk, {m: (v, bits) for m, v in vals.items() if m != "d"}))
                except Exception:
                    pass
            if got_short >= ctx.scale(2, 6):
                break
    return res


def run(ctx):
    from joserfc import util
    from joserfc.rfc7518 import util as util2
    ok, log = ctx.prove()

    cases, meta = [], []

    def add(term, m):
        cases.append(term)
        meta.append(m)

    dist = {"enc": 0, "dec_ok": 0, "dec_err": 0, "i2b": 0, "b2i": 0, "encode_int": 0, "decode_int": 0, "json": 0}
    direct_fail = 0
    # ---- encoder + round trip on octet strings
    for x in gen_octets(ctx):
        r = call(util.urlsafe_b64encode, x)
        ctx.note_case(("enc", x))
        dist["enc"] += 1
        if r[0] != "ok":
            ctx.violation({"kind": "b64-encode-raises"}, "urlsafe_b64encode raised on %r" % x[:16],
                          {"fn": "urlsafe_b64encode", "arg_hex": x.hex()})
            continue
        e = r[1]
        add("CEnc %s %s" % (c_hex(x), c_hex(e)), ("enc", x))
        # direct property: alphabet, round trip
        if any(ch not in ALPHA for ch in e):
            ctx.violation({"kind": "b64-alphabet"}, "encoding of %s contains a character outside A-Za-z0-9-_" % x.hex()[:32],
                          {"fn": "urlsafe_b64encode", "arg_hex": x.hex(), "out": e.decode("latin1")})
        d = call(util.urlsafe_b64decode, e)
        if d[0] != "ok" or d[1] != x:
            ctx.violation({"kind": "b64-roundtrip"}, "decode(encode(x)) != x for x=%s" % x.hex()[:32],
                          {"fn": "roundtrip", "arg_hex": x.hex(), "encoded": e.decode("latin1"), "decoded": repr(d[1])[:80]})
    # ---- large inputs: reference = the codec specification computed independently (3 octets -> 4 characters)
    import base64 as _b64
    dist["enc_large"] = 0
    for x in gen_large_octets(ctx):
        ctx.note_case(("enc-large", len(x), x[:8]))
        dist["enc_large"] += 1
        r = call(util.urlsafe_b64encode, x)
        ref = _b64.b64encode(x).rstrip(b"=").replace(b"+", b"-").replace(b"/", b"_")
        if r[0] != "ok" or r[1] != ref:
            ctx.violation({"kind": "b64-large"}, "urlsafe_b64encode of %d octets is not the base64url text of the input" % len(x),
                          {"fn": "urlsafe_b64encode-large", "length": len(x), "seed": ctx.seed})
            continue
        d = call(util.urlsafe_b64decode, r[1])
        if d[0] != "ok" or d[1] != x:
            ctx.violation({"kind": "b64-roundtrip"}, "decode(encode(x)) != x for %d random octets" % len(x),
                          {"fn": "roundtrip-large", "length": len(x), "seed": ctx.seed})
        # the same through a token: a compact JWS with a large payload must return the payload
        if len(x) <= 131073:
            try:
                from joserfc import jws as _jws
                from joserfc.jwk import OctKey as _Oct
                _k = _Oct.import_key(b"k" * 32)
                _t = _jws.serialize_compact({"alg": "HS256"}, x, _k)
                if _jws.deserialize_compact(_t, _k).payload != x:
                    ctx.violation({"kind": "b64-roundtrip"}, "a compact JWS with a %d-octet payload verifies but returns another payload" % len(x),
                                  {"fn": "jws-large", "length": len(x), "seed": ctx.seed})
            except Exception as e:
                ctx.violation({"kind": "b64-roundtrip"}, "a compact JWS with a %d-octet payload does not round trip: %r" % (len(x), e),
                              {"fn": "jws-large", "length": len(x), "seed": ctx.seed})
    # ---- decoder on arbitrary strings
    for s in gen_strings(ctx):
        r = call(util.urlsafe_b64decode, s)
        ctx.note_case(("dec", s))
        dist["dec_ok" if r[0] == "ok" else "dec_err"] += 1
        add("CDec %s %s" % (c_hex(s), c_res(r, c_hex)), ("dec", s))
        core = s.rstrip(b"=")
        bad_char = any(ch not in ALPHA for ch in core)
        bad_len = (not bad_char) and len(core) % 4 == 1
        if (bad_char or bad_len):
            if r[0] == "ok" or not isinstance(r[1], ValueError):
                ctx.violation({"kind": "b64-strict"},
                              "urlsafe_b64decode(%r) should raise ValueError (%s) but gave %r" % (
                                  s, "character outside the alphabet" if bad_char else "impossible length", r[1]),
                              {"fn": "urlsafe_b64decode", "arg_hex": s.hex()})
        elif r[0] == "err" and not isinstance(r[1], ValueError):
            ctx.violation({"kind": "b64-error-class"}, "urlsafe_b64decode(%r) raised %r" % (s, r[1]),
                          {"fn": "urlsafe_b64decode", "arg_hex": s.hex()})
    # ---- integers in JWKs
    for z in gen_ints(ctx):
        r = call(util.int_to_base64, z)
        ctx.note_case(("i2b", z))
        dist["i2b"] += 1
        add("CI2B %s %s" % (c_Z(z), c_res(r, lambda t: c_hex(t.encode("ascii")))), ("i2b", z))
        if z < 0:
            if r[0] == "ok" or not isinstance(r[1], ValueError):
                ctx.violation({"kind": "int-negative"}, "int_to_base64(%d) did not raise ValueError" % z,
                              {"fn": "int_to_base64", "arg": str(z)})
            continue
        if r[0] != "ok":
            ctx.violation({"kind": "int-encode-raises"}, "int_to_base64(%d...) raised %r" % (z % 10 ** 6, r[1]),
                          {"fn": "int_to_base64", "arg": str(z)})
            continue
        t = r[1]
        b = call(util.base64_to_int, t)
        dist["b2i"] += 1
        add("CB2I %s %s" % (c_hex(t.encode("ascii")), c_res(b, c_Z)), ("b2i", t))
        if z > 0:
            raw = util.urlsafe_b64decode(t.encode())
            if b[0] != "ok" or b[1] != z:
                ctx.violation({"kind": "int-roundtrip"}, "base64_to_int(int_to_base64(z)) != z, z=%s" % hex(z)[:40],
                              {"fn": "int roundtrip", "arg": str(z)})
            if raw[:1] == b"\x00" or len(raw) != (z.bit_length() + 7) // 8 or "=" in t:
                ctx.violation({"kind": "int-minimal"}, "int_to_base64(%s) is not the minimal unpadded big-endian form" % hex(z)[:40],
                              {"fn": "int_to_base64", "arg": str(z), "out": t})
    # base64_to_int on assorted strings (with leading zero octets, empty, malformed)
    for s in ["", "AA", "AAE", "AQAB", "AAAB", "_w", "__8", "A", "=", "AQ==", "AQ=", " AQ", "AQ\n", "+w", "/w"]:
        b = call(util.base64_to_int, s)
        dist["b2i"] += 1
        ctx.note_case(("b2i", s))
        add("CB2I %s %s" % (c_hex(s.encode("ascii")), c_res(b, c_Z)), ("b2i", s))
    # ---- integers at the JWK EXPORT sites (observe_at: members of exported JWKs): the
    # member emitted for a native number must be the model's int_to_base64 of it (RSA:
    # minimal Base64urlUInt) resp. the fixed-width form of the curve (EC, RFC 7518 6.2.1.2);
    # keys are built natively (cryptography) and imported as PEM so that the exporter runs.
    dist.update({"jwk_rsa_members": 0, "jwk_rsa_short_members": 0, "jwk_ec_members": 0, "jwk_keys": 0})
    for name, key, numbers in gen_native_keys(ctx):
        dist["jwk_keys"] += 1
        for private in (True, False):
            got = call(lambda: key.as_dict(private=private))
            if got[0] != "ok":
                if private and not key.is_private:
                    continue
                ctx.violation({"kind": "jwk-export-raises"}, "as_dict(private=%s) of %s raised %r" % (private, name, got[1]),
                              {"fn": "jwk-export", "key": name})
                continue
            d = got[1]
            for m, zb in numbers.items():
                if "#" in m or m not in d:
                    continue
                z, bits = zb
                txt = d[m]
                ctx.note_case(("jwk-member", name, m, private))
                raw = call(util.urlsafe_b64decode, txt.encode("ascii"))
                back = call(util.base64_to_int, txt)
                if raw[0] != "ok" or back[0] != "ok" or back[1] != z:
                    ctx.violation({"kind": "jwk-int-roundtrip"}, "member %s of %s does not decode to the key's number" % (m, name),
                                  {"fn": "jwk-member", "key": name, "member": m, "text": txt, "number": str(z)})
                    continue
                if bits is None:                                   # RSA: minimal Base64urlUInt
                    dist["jwk_rsa_members"] += 1
                    L = (z.bit_length() + 7) // 8
                    if L < numbers[m + "#field"]:
                        dist["jwk_rsa_short_members"] += 1
                    add("CI2B %s %s" % (c_Z(z), c_res(("ok", txt), lambda t: c_hex(t.encode("ascii")))), ("jwk-i2b", name, m))
                    if len(raw[1]) != L or raw[1][:1] == b"\x00" or "=" in txt or txt != util.int_to_base64(z):
                        ctx.violation({"kind": "jwk-int-minimal"},
                                      "member %s of the exported JWK of %s is %d octets, the minimal big-endian form of the number has %d" % (m, name, len(raw[1]), L),
                                      {"fn": "jwk-member", "key": name, "member": m, "text": txt, "number": str(z),
                                       "rsa_numbers": {k: str(v[0]) for k, v in numbers.items() if "#" not in k}})
                else:                                              # EC: full-size coordinate
                    dist["jwk_ec_members"] += 1
                    add("CEncInt %s %s %s" % (c_Z(z), c_N(bits), c_res(("ok", raw[1]), c_hex)), ("jwk-fixed", name, m))
                    add("CEnc %s %s" % (c_hex(raw[1]), c_hex(txt.encode("ascii"))), ("jwk-enc", name, m))
                    if len(raw[1]) != (bits + 7) // 8:
                        ctx.violation({"kind": "jwk-fixed-width"},
                                      "member %s of the exported JWK of %s is %d octets, the curve size is %d" % (m, name, len(raw[1]), (bits + 7) // 8),
                                      {"fn": "jwk-member", "key": name, "member": m, "text": txt})
    # ---- base64url text inside PRODUCED TOKENS (observe_at: segments of produced tokens):
    # every segment / base64url-typed member the library emits must be the model's encoding
    # of the octets it decodes to (unpadded, alphabet only)
    dist.update({"token_texts": 0, "tokens": 0, "tokens_not_produced": 0})
    for where, txt in gen_token_texts(ctx, dist):
        ctx.note_case(("token-text", where, txt[:24]))
        dist["token_texts"] += 1
        tb = txt.encode("ascii", "replace") if isinstance(txt, str) else bytes(txt)
        if any(ch not in ALPHA for ch in tb):
            ctx.violation({"kind": "b64-alphabet"}, "%s of a produced token contains a character outside A-Za-z0-9-_ : %r" % (where, tb[-12:]),
                          {"fn": "token-text", "where": where, "text": tb.decode("latin1")})
            continue
        raw = call(util.urlsafe_b64decode, tb)
        if raw[0] != "ok":
            ctx.violation({"kind": "b64-roundtrip"}, "%s of a produced token does not decode: %r" % (where, raw[1]),
                          {"fn": "token-text", "where": where, "text": tb.decode("latin1")})
            continue
        if len(raw[1]) <= 600:
            add("CEnc %s %s" % (c_hex(raw[1]), c_hex(tb)), ("token-enc", where))
    # ---- fixed-width codec
    for num, bits in gen_encode_int(ctx):
        r = call(util2.encode_int, num, bits)
        ctx.note_case(("encode_int", num, bits))
        dist["encode_int"] += 1
        add("CEncInt %s %s %s" % (c_Z(num), c_N(bits), c_res(r, c_hex)), ("encode_int", num, bits))
        L = (bits + 7) // 8
        if 0 <= num < 256 ** L and L > 0:
            if r[0] != "ok" or len(r[1]) != L or r[1] != num.to_bytes(L, "big") or util2.decode_int(r[1]) != num:
                ctx.violation({"kind": "fixed-width"}, "encode_int(%s, %d) is not the %d-octet big-endian form" % (hex(num)[:40], bits, L),
                              {"fn": "encode_int", "num": str(num), "bits": bits})
    for s in [b"", b"\x00", b"\x00\x01", b"\x01\x00", b"\xff" * 66, bytes(range(32))] + \
            [bytes(ctx.rng.randrange(256) for _ in range(ctx.rng.randrange(1, 70))) for _ in range(ctx.scale(50, 500))]:
        r = call(util2.decode_int, s)
        ctx.note_case(("decode_int", s))
        dist["decode_int"] += 1
        add("CDecInt %s %s" % (c_hex(s), c_res(r, c_Z)), ("decode_int", s))
    # ---- JSON header encoding round trip (implementation-level; the Gallina
    # JSON model is exercised by C13/C09, see DESIGN)
    for h in gen_headers(ctx):
        ctx.note_case(("json", json.dumps(h, sort_keys=True)))
        dist["json"] += 1
        r = call(lambda: util.json_b64decode(util.json_b64encode(h)))
        if r[0] != "ok" or r[1] != h:
            ctx.violation({"kind": "json-roundtrip"}, "json_b64decode(json_b64encode(h)) != h for h=%r" % (repr(h)[:300],),
                          {"fn": "json roundtrip", "header": repr(h)[:5000]})
        if not has_float(h) and len(repr(h)) < 6000:
            try:
                seg0 = util.json_b64encode(h)
                d0 = call(util.json_b64decode, seg0)
                if d0[0] == "ok" or isinstance(d0[1], ValueError):
                    add("CJB64D %s %s" % (c_hex(seg0), ("(Some %s)" % c_pv(d0[1])) if d0[0] == "ok" else "None"), ("jb64d", seg0))
            except Exception:
                pass
        else:
            seg = util.json_b64encode(h)
            if any(ch not in ALPHA for ch in seg):
                ctx.violation({"kind": "b64-alphabet"}, "json_b64encode output outside the alphabet", {"header": repr(h)})

    # ---- histories: a decoded object handed to the caller is the caller's; editing it must
    # not change what a later decode of the same segment (or of the same token) returns
    import copy as _copy
    dist["json_history"] = 0
    for h in gen_headers(ctx)[:ctx.scale(120, 600)]:
        if not isinstance(h, dict):
            continue
        try:
            seg = util.json_b64encode(h)
            d1 = util.json_b64decode(seg)
        except Exception:
            continue
        want = _copy.deepcopy(d1)
        dist["json_history"] += 1
        ctx.note_case(("json-history", seg[:40]))
        try:                                   # the caller edits its copy: top level and nested
            d1["__edited__"] = 1
            for k in list(d1):
                if isinstance(d1[k], list):
                    d1[k].append("x")
                elif isinstance(d1[k], dict):
                    d1[k]["__edited__"] = 1
                elif k != "__edited__":
                    d1[k] = "edited"
        except Exception:
            pass
        d2 = call(util.json_b64decode, seg)
        if d2[0] != "ok" or d2[1] != want:
            ctx.violation({"kind": "json-roundtrip"},
                          "json_b64decode of a segment returns another object after the caller edited the result of an earlier decode of the same segment: %r, expected %r" % (repr(d2[1])[:160], repr(want)[:160]),
                          {"fn": "json history", "segment": seg.decode("ascii"), "expected": repr(want)[:3000]})
        seg2 = call(util.json_b64encode, want)
        if seg2[0] != "ok" or seg2[1] != seg:
            ctx.violation({"kind": "json-roundtrip"}, "json_b64encode of an equal object gives another segment on a later call",
                          {"fn": "json history", "segment": seg.decode("ascii")})
    try:                                       # the same through a token
        from joserfc import jws as _jws2
        from joserfc.jwk import OctKey as _Oct2
        _k2 = _Oct2.import_key(b"k" * 32)
        for hdr in ({"alg": "HS256", "kid": "a"}, {"alg": "HS256", "crit": ["exp"], "exp": 1, "x5c": ["QQ"]}):
            try:
                _t2 = _jws2.serialize_compact(hdr, b"p", _k2)
            except Exception:
                continue
            o1 = _jws2.deserialize_compact(_t2, _k2)
            want = _copy.deepcopy(o1.headers())
            hh = o1.headers()
            hh["kid"] = "edited"
            o1.protected["alg"] = "none"
            for v in o1.protected.values():
                if isinstance(v, list):
                    v.append("x")
            o2 = call(lambda: _jws2.deserialize_compact(_t2, _k2).headers())
            dist["json_history"] += 1
            if o2[0] != "ok" or o2[1] != want:
                ctx.violation({"kind": "json-roundtrip"},
                              "deserialize_compact of a token returns header %r after the caller edited the header object of an earlier result (expected %r)" % (o2[1], want),
                              {"fn": "json history token", "token": _t2})
    except ImportError:
        pass

    # ---- Gallina JSON printer / parser vs the json module (float-free values)
    import json as _json
    dist.update({"jdump": 0, "jload_ok": 0, "jload_err": 0, "jb64": 0})
    for v in gen_json_values(ctx):
        try:
            t = _json.dumps(v, ensure_ascii=True, separators=(",", ":"))
        except ValueError:
            continue
        ctx.note_case(("jdump", t))
        dist["jdump"] += 1
        add("CJDump %s %s" % (c_pv(v), c_str(t)), ("jdump", t))
        try:
            surrogate = any(0xD800 <= ord(ch) <= 0xDFFF for ch in t)
            back = _json.loads(t)
        except ValueError as e:
            ctx.violation({"kind": "json-roundtrip"}, "json.loads(json.dumps(v)) raised for v=%r" % (v,), {"fn": "json roundtrip", "value": repr(v)})
            continue
        if back != v:
            ctx.violation({"kind": "json-roundtrip"}, "json.loads(json.dumps(v)) != v for v=%r" % (v,), {"fn": "json roundtrip", "value": repr(v)})
        if isinstance(v, dict):
            seg = call(util.json_b64encode, v)
            dist["jb64"] += 1
            if seg[0] == "ok":
                add("CJB64 %s %s" % (c_pv(v), c_hex(seg[1])), ("jb64", t))
                d = call(util.json_b64decode, seg[1])
                if d[0] != "ok" or d[1] != v:
                    ctx.violation({"kind": "json-roundtrip"}, "json_b64decode(json_b64encode(h)) != h for h=%r" % (v,), {"fn": "json roundtrip", "header": repr(v)})
            else:
                ctx.violation({"kind": "json-roundtrip"}, "json_b64encode raised %r for h=%r" % (seg[1], v), {"fn": "json roundtrip", "header": repr(v)})
    for t in gen_json_texts(ctx):
        try:
            r = ("ok", _json.loads(t))
        except ValueError:
            r = ("err", None)
        except RecursionError:
            continue
        if r[0] == "ok" and has_float(r[1]):
            continue                       # floats are outside the modelled fragment
        ctx.note_case(("jload", t))
        dist["jload_ok" if r[0] == "ok" else "jload_err"] += 1
        add("CJLoad %s %s" % (c_str(t), ("(Some %s)" % c_pv(r[1])) if r[0] == "ok" else "None"), ("jload", t))

    ctx.coverage["input_distribution"] = dist
    ctx.sample({"fn": "urlsafe_b64decode", "arg": "QUJD=", "impl": repr(call(util.urlsafe_b64decode, b"QUJD="))})
    ctx.sample({"fn": "urlsafe_b64decode", "arg": "QQ===", "impl": repr(call(util.urlsafe_b64decode, b"QQ==="))})
    ctx.sample({"fn": "encode_int", "arg": [1, 521], "impl": util2.encode_int(1, 521).hex()})
    ctx.sample({"coq_case": cases[300][:120]})

    # ---- correspondence: model (vm_compute) vs recorded implementation behaviour
    ev = lib.CoqEval(["From Model Require Import Base B64 IntCodec PyVal Json C19Cases."], "c19case", "c19_check", "c19_show")
    res = ev.run(cases)
    ctx.coverage["traces_validated_against_impl"] = res["evaluated"]
    ctx.coverage["disagreements_checked"] = len(res["failing"])
    direct = len(ctx.violations)
    for i in res["failing"][:20]:
        ctx.violation({"kind": "correspondence", "fn": meta[i][0]},
                      "model and implementation disagree on %s%r" % (meta[i][0], meta[i][1:]),
                      {"case": cases[i], "no_failing_input_found": direct == 0,
                       "broken": "correspondence model/C19Cases.v:c19_check vs joserfc.util"})
    for si, err in res["errors"]:
        ctx.violation({"kind": "correspondence-error"}, "coqc failed on a generated case file",
                      {"output": err, "no_failing_input_found": True, "broken": "case evaluation"})
    if not ok:
        ctx.violation({"kind": "proof-broken"}, "props/C19.v or its closure no longer compiles",
                      {"log": log[-3000:], "no_failing_input_found": direct == 0 and not res["failing"],
                       "broken": "theorems of props/C19.v"})
    ctx.assumptions += [
        "CPython binascii.a2b_base64(strict_mode=True)/b2a_base64 are transcribed by hand in model/B64.v; the transcription is validated by the differential run only",
        "json.dumps(ensure_ascii=True, separators=(',',':')) and json.loads are transcribed in model/Json.v for float-free values (round trip proved in proofs/JsonProofs.v); floats, NaN/Infinity and UTF-8/16/32 detection of byte input are not modelled (checked on the implementation only)",
    ]
    if not ctx.quick:
        ctx.coqchk()


def replay(path):
    import json as _j
    from joserfc import util
    from joserfc.rfc7518 import util as util2
    r = _j.load(open(path))["replay"]
    print("replay:", r)
    fn = r.get("fn")
    if fn in ("urlsafe_b64decode", "urlsafe_b64encode", "roundtrip"):
        x = bytes.fromhex(r["arg_hex"])
        if fn == "urlsafe_b64decode":
            print(call(util.urlsafe_b64decode, x)); return 1
        e = util.urlsafe_b64encode(x)
        print(e, call(util.urlsafe_b64decode, e))
        return 0 if call(util.urlsafe_b64decode, e) == ("ok", x) else 1
    if fn == "jwk-member" and "rsa_numbers" in r:
        from cryptography.hazmat.primitives.asymmetric import rsa
        from cryptography.hazmat.primitives import serialization as ser
        from joserfc.jwk import RSAKey
        n = {k: int(v) for k, v in r["rsa_numbers"].items()}
        k = rsa.RSAPrivateNumbers(n["p"], n["q"], n["d"], n["dp"], n["dq"], n["qi"], rsa.RSAPublicNumbers(n["e"], n["n"])).private_key()
        jk = RSAKey.import_key(k.private_bytes(ser.Encoding.PEM, ser.PrivateFormat.PKCS8, ser.NoEncryption()))
        d = jk.as_dict(private=True)
        bad = [m for m in n if d[m] != util.int_to_base64(n[m]) or util.urlsafe_b64decode(d[m].encode())[:1] == b"\x00"]
        print("members not in minimal form:", bad)
        return 1 if bad else 0
    print("see the replay file for the failing case")
    return 1
