"""C05 — only caller-allowed algorithms are ever used; default is the recommended set;
'none' never verifies; outcomes do not depend on earlier calls.

Every API call is a picklable descriptor (dict).  `execute` runs it against the real
joserfc functions, `c_call` renders it as a `call` of coq/model/C05Model.v, `direct`
checks the property on the implementation's own outcome."""
import os, sys, json, pickle, base64, time
import lib
from lib import c_str, c_bool, c_list, c_pv, c_exn, c_hex, exn_class

class _Absent:
    """argument not passed; a singleton that survives pickling"""

    def __repr__(self):
        return "ABSENT"

    def __reduce__(self):
        return (_get_absent, ())


def _get_absent():
    return ABSENT


ABSENT = _Absent()

# ---- literals transcribed from the property text -------------------------------------
REC_JWS = ["HS256", "RS256", "ES256"]
REC_JWE_ALG = ["RSA-OAEP", "A128KW", "A256KW", "dir", "ECDH-ES", "ECDH-ES+A128KW", "ECDH-ES+A256KW"]
REC_JWE_ENC = ["A128CBC-HS256", "A192CBC-HS384", "A256CBC-HS512", "A128GCM", "A192GCM", "A256GCM"]
REC_JWE_ZIP = ["DEF"]
REC_JWE = REC_JWE_ALG + REC_JWE_ENC + REC_JWE_ZIP

UNKNOWN = ["BOGUS", "", "HS257", "hs256", "HS256 ", " none", "NONE", "None", "A128KW", "RS256\x00", "ES256K1",
           "A128GCM", "DEF", "dir", "é", "XX"]
NONSTR = [None, 0, 1, True, False, 1.5, ["HS256"], {"HS256": 1}, [], {}, b"HS256", -1]
JSON_NONSTR = [None, 0, 1, True, False, 1.5, ["HS256"], {"HS256": 1}, [], {}]
ILL_ALLOWED = ["HS256", "ECDH-ES+A128KW,A128GCM,DEF", {"HS256": 1, "A128KW": 1, "A128GCM": 2}, 1, 0, True,
               1.5, b"HS256", ""]

PAYLOAD = b"c05 payload"
TEXT_PAYLOAD = "c05-payload_text~"
CLAIMS = {"sub": "c05", "n": 1}
PLAINTEXT = b"c05 plaintext " * 3

JWS_SIGN_OPS = ["jws.serialize_compact", "jws.serialize_json/flat", "jws.serialize_json/general",
                "rfc7797.serialize_compact", "rfc7797.serialize_json", "jwt.encode"]
JWS_VERIFY_OPS = ["jws.deserialize_compact", "jws.validate_compact", "jws.deserialize_json/flat",
                  "jws.deserialize_json/general", "rfc7797.deserialize_compact", "rfc7797.deserialize_json",
                  "jwt.decode"]
JWE_ENC_OPS = ["jwe.encrypt_compact", "jwe.encrypt_json/flat", "jwe.encrypt_json/general", "jwt.encode/jwe"]
JWE_DEC_OPS = ["jwe.decrypt_compact", "jwe.decrypt_json/flat", "jwe.decrypt_json/general", "jwt.decode/jwe"]
GATE_OPS = ["jws.get_alg", "jws.default.get_alg", "jwe.get_alg", "jwe.get_enc", "jwe.get_zip",
            "jwe.default.get_alg", "jwe.default.get_enc", "jwe.default.get_zip"]


def b64(b):
    return base64.urlsafe_b64encode(b).rstrip(b"=").decode("ascii")


def b64json(o):
    return b64(json.dumps(o, separators=(",", ":")).encode("utf-8"))


# ---- keys ------------------------------------------------------------------------------
class Keys:
    """Small fast keys; generated once per run, exportable as JWK dicts for replays."""

    def __init__(self, rng=None, jwks=None):
        from joserfc.jwk import OctKey, RSAKey, ECKey, OKPKey
        if jwks is None:
            self.oct = {n: OctKey.import_key(bytes(rng.randrange(256) for _ in range(n))) for n in (16, 24, 32, 48, 64)}
            self.rsa = RSAKey.generate_key(2048, private=True)
            self.ec = {c: ECKey.generate_key(c, private=True) for c in ("P-256", "P-384", "P-521", "secp256k1")}
            self.okp = {c: OKPKey.generate_key(c, private=True) for c in ("Ed25519", "X25519")}
            self.sender = ECKey.generate_key("P-256", private=True)      # ECDH-1PU sender key
        else:
            self.oct = {int(n): OctKey.import_key(d) for n, d in jwks["oct"].items()}
            self.rsa = RSAKey.import_key(jwks["rsa"])
            self.ec = {c: ECKey.import_key(d) for c, d in jwks["ec"].items()}
            self.okp = {c: OKPKey.import_key(d) for c, d in jwks["okp"].items()}
            self.sender = ECKey.import_key(jwks["sender"]) if "sender" in jwks else self.ec["P-256"]

    def export(self):
        return {"oct": {str(n): k.as_dict(private=True) for n, k in self.oct.items()},
                "rsa": self.rsa.as_dict(private=True),
                "ec": {c: k.as_dict(private=True) for c, k in self.ec.items()},
                "okp": {c: k.as_dict(private=True) for c, k in self.okp.items()},
                "sender": self.sender.as_dict(private=True)}

    def jws(self, alg):
        from joserfc.jws import JWSRegistry
        m = JWSRegistry.algorithms.get(alg) if isinstance(alg, str) else None
        if m is None or m.key_type == "oct":
            return self.oct[64]
        if m.key_type == "RSA":
            return self.rsa
        if m.key_type == "EC":
            return self.ec[getattr(m, "curve", "P-256")]
        return self.okp["Ed25519"]

    def jwe(self, alg, enc):
        from joserfc.jwe import JWERegistry
        m = JWERegistry.algorithms["alg"].get(alg) if isinstance(alg, str) else None
        e = JWERegistry.algorithms["enc"].get(enc) if isinstance(enc, str) else None
        if m is None:
            return self.oct[16]
        if alg == "dir":
            return self.oct.get((e.cek_size // 8) if e is not None else 32, self.oct[32])
        if "oct" in m.key_types:
            if alg.startswith("PBES2"):
                return self.oct[16]
            return self.oct[(m.key_size or 128) // 8]
        if "RSA" in m.key_types:
            return self.rsa
        return self.ec["P-256"]


# ---- frozen process-wide state ---------------------------------------------------------
def snapshot():
    from joserfc.rfc7515 import registry as r7515
    from joserfc.rfc7516 import registry as r7516
    from joserfc.rfc7797.registry import JWSRegistry as R7797
    from joserfc import jwe as _jwe

    def inst(r):
        d = dict(r.__dict__)
        hr = d.pop("header_registry", {})
        return (type(r).__name__, tuple(sorted((k, repr(v)) for k, v in d.items())),
                tuple((k, id(v), v.required) for k, v in hr.items()))

    J, E = r7515.JWSRegistry, r7516.JWERegistry
    return (
        tuple((k, id(v), v.name, bool(v.recommended)) for k, v in J.algorithms.items()),
        tuple(J.recommended),
        tuple((loc, tuple((k, id(v), v.name, bool(v.recommended)) for k, v in tbl.items()))
              for loc, tbl in E.algorithms.items()),
        tuple(E.recommended),
        inst(r7515.default_registry), inst(r7516.default_registry),
        id(_jwe.default_registry), id(r7516.default_registry), id(r7515.default_registry),
        tuple(J.default_header_registry), tuple(R7797.default_header_registry),
        R7797.algorithms is J.algorithms, R7797.recommended is J.recommended,
    )


# ---- executing a call -------------------------------------------------------------------
# A registry= argument is described by one of
#   ABSENT                         not passed
#   (cls, allowed)                 cls in jws/7797/jwe: constructed for this call, default settings
#   ("fresh", specdict)            constructed for this call with settings
#   ("ref", i)                     the caller's long-lived object HEAP[i] (shared between calls)
# specdict = {"cls", "allowed", "strict", "verify_all", "extra"}
HEAP = []        # [(specdict, object)]
HEAP_SNAP = []   # deep snapshot of each shared object at creation
TRACK = []       # every registry object ever handed to the library: [(object, deep snapshot at creation)]


def spec_of(reg):
    if reg[0] == "ref":
        return HEAP[reg[1]][0]
    if reg[0] == "fresh":
        return reg[1]
    return {"cls": reg[0], "allowed": reg[1], "strict": True, "verify_all": True, "extra": []}


def reg_snapshot(r):
    """deep snapshot of vars(reg): contents, not identity"""
    d = dict(vars(r))
    hr = d.pop("header_registry", {})
    return (type(r).__module__ + "." + type(r).__name__,
            tuple(sorted((k, repr(v)) for k, v in d.items())),
            tuple((k, type(v).__name__, bool(v.required), getattr(v.validate, "__name__", repr(v.validate)))
                  for k, v in hr.items()))


_SUBS = {}


def reg_class(cls):
    """library class or a caller-defined subclass of it ("<cls>-sub")"""
    from joserfc import jws, jwe
    from joserfc.rfc7797.registry import JWSRegistry as R7797
    base = {"jws": jws.JWSRegistry, "7797": R7797, "jwe": jwe.JWERegistry}[cls.split("-")[0]]
    if not cls.endswith("-sub"):
        return base
    if cls not in _SUBS:
        _SUBS[cls] = type("C05Sub" + base.__name__ + cls.split("-")[0], (base,), {"__module__": __name__})
    return _SUBS[cls]


def fam_of(cls):
    return "jwe" if cls.startswith("jwe") else "jws"


def b64_tolerant(sd):
    """can a registry of this description check a header that contains "b64"?"""
    return sd["cls"].startswith("7797") or not sd.get("strict", True) or "b64" in sd.get("extra", [])


def build_registry(sd):
    import copy
    from joserfc.registry import HeaderParameter
    allowed = copy.deepcopy(sd["allowed"])
    extra = {k: HeaderParameter("c05 extra header", "bool" if k == "b64" else "str") for k in sd.get("extra", [])} or None
    cls = reg_class(sd["cls"])
    if fam_of(sd["cls"]) == "jwe":
        r = cls(header_registry=extra, algorithms=allowed,
                verify_all_recipients=sd.get("verify_all", True), strict_check_header=sd.get("strict", True))
    else:
        r = cls(header_registry=extra, algorithms=allowed, strict_check_header=sd.get("strict", True))
    TRACK.append((r, reg_snapshot(r)))
    return r


def make_registry(reg):
    if reg[0] == "ref":
        return HEAP[reg[1]][1]
    return build_registry(spec_of(reg))


def new_shared(sd):
    r = build_registry(sd)
    HEAP.append((sd, r))
    HEAP_SNAP.append(reg_snapshot(r))
    return len(HEAP) - 1


def freshened(d):
    """the same call with a freshly constructed equal registry instead of a shared one"""
    if not absent(d["registry"]) and d["registry"][0] == "ref":
        return dict(d, registry=("fresh", spec_of(d["registry"])))
    return d


def absent(v):
    return v is ABSENT


def kwargs_of(d, regobj=None):
    import copy
    kw = {}
    if d["algorithms"] is not ABSENT:
        kw["algorithms"] = copy.deepcopy(d["algorithms"])
    if d["registry"] is not ABSENT:
        kw["registry"] = regobj if regobj is not None else make_registry(d["registry"])
    return kw


def jws_header(alg, b64v):
    h = {"alg": alg}
    if b64v is not ABSENT:
        h["b64"] = b64v
        h["crit"] = ["b64"]
    return h


def jwe_protected(alg, enc, zipv, with_alg=True):
    h = {}
    if with_alg:
        h["alg"] = alg
    h["enc"] = enc
    if zipv is not ABSENT:
        h["zip"] = zipv
    if with_alg and isinstance(alg, str) and alg.startswith("PBES2"):
        h["p2c"] = 8
    return h


def recipient_header(alg):
    h = {"alg": alg}
    if isinstance(alg, str) and alg.startswith("PBES2"):
        h["p2c"] = 8
    return h


def _alg_of(obj):
    a = obj.headers().get("alg")
    return a if isinstance(a, str) else None


# ---- message contents (the gates must not depend on them) -----------------------------------
def _msg(d):
    m = d.get("msg", ABSENT)
    return "default" if m is ABSENT else m


def _pt(d):
    return {"default": PLAINTEXT, "empty": b"", "one": b"\x00"}[_msg(d)]


def _pl(d):
    return {"default": PAYLOAD, "empty": b"", "one": b"p"}[_msg(d)]


def _txt(d):
    return {"default": TEXT_PAYLOAD, "empty": "", "one": "p"}[_msg(d)]


def _cl(d):
    return {"default": CLAIMS, "empty": {}, "one": {"a": 0}}[_msg(d)]


def _aad(d):
    a = d.get("aad", ABSENT)
    return None if a is ABSENT else a


def make_token(d, K):
    """A token for a verification / decryption call.  Registered string names give a
    genuine token produced under a permissive registry; other names ("named only by an
    attacker-supplied header") give a hand-built token."""
    from joserfc import jws, jwe, jwt
    from joserfc.rfc7797 import compact as c7797, json as j7797
    from joserfc.rfc7797.registry import JWSRegistry as R7797
    op = d["op"]
    J = jws.JWSRegistry.algorithms
    if op in JWS_VERIFY_OPS:
        algs, b64v = d["algs"], d["b64"]
        perm = jws.JWSRegistry(algorithms=list(J))
        perm7 = R7797(algorithms=list(J))
        real = lambda a: isinstance(a, str) and a in J   # noqa: E731
        sig = b64(b"\x01" * 32)
        if op in ("jws.deserialize_compact", "jws.validate_compact"):
            a = algs[0]
            if real(a):
                return jws.serialize_compact({"alg": a}, _pl(d), K.jws(a), registry=perm)
            return b64json({"alg": a}) + "." + b64(_pl(d)) + "." + sig
        if op == "jwt.decode":
            a = algs[0]
            if real(a):
                return jwt.encode({"alg": a}, _cl(d), K.jws(a), registry=perm)
            return b64json({"typ": "JWT", "alg": a}) + "." + b64json(_cl(d)) + "." + sig
        if op == "jws.deserialize_json/flat":
            a = algs[0]
            if real(a):
                return jws.serialize_json({"protected": {"alg": a}}, _pl(d), K.jws(a), registry=perm)
            return {"payload": b64(_pl(d)), "protected": b64json({"alg": a}), "signature": sig}
        if op == "jws.deserialize_json/general":
            reals = [a for a in algs if real(a)]
            signed = []
            if reals:
                out = jws.serialize_json([{"protected": {"alg": a}} for a in reals], _pl(d),
                                         lambda o: K.jws(_alg_of(o)), registry=perm)
                signed = list(out["signatures"])
            sigs = []
            for a in algs:
                if real(a):
                    sigs.append(signed.pop(0))
                else:
                    sigs.append({"protected": b64json({"alg": a}), "signature": sig})
            return {"payload": b64(_pl(d)), "signatures": sigs}
        if op == "rfc7797.deserialize_compact":
            a = algs[0]
            h = jws_header(a, b64v)
            if real(a):
                return c7797.serialize_compact(h, _txt(d), K.jws(a), registry=perm7)
            body = _txt(d) if b64v is False else b64(_txt(d).encode())
            return b64json(h) + "." + body + "." + sig
        if op == "rfc7797.deserialize_json":
            a = algs[0]
            h = jws_header(a, b64v)
            if real(a):
                return j7797.serialize_json({"protected": h}, _txt(d), K.jws(a), registry=perm7)
            body = _txt(d) if b64v is False else b64(_txt(d).encode())
            return {"payload": body, "protected": b64json(h), "signature": sig}
    if op in JWE_DEC_OPS:
        EA, EE, EZ = (jwe.JWERegistry.algorithms[k] for k in ("alg", "enc", "zip"))
        perm = jwe.JWERegistry(algorithms=list(EA) + list(EE) + list(EZ))
        algs, enc, zipv = d["algs"], d["enc"], d["zip"]
        okz = zipv is ABSENT or (isinstance(zipv, str) and zipv in EZ)
        oke = isinstance(enc, str) and enc in EE
        oka = all(isinstance(a, str) and a in EA for a in algs)
        genuine = okz and oke and oka
        skw = {"sender_key": K.sender} if d.get("sender") else {}
        if op in ("jwe.decrypt_compact", "jwt.decode/jwe"):
            a = algs[0]
            if genuine:
                pt = json.dumps(_cl(d)).encode() if op == "jwt.decode/jwe" else _pt(d)
                return jwe.encrypt_compact(jwe_protected(a, enc, zipv), pt, K.jwe(a, enc), registry=perm, **skw)
            return craft_jwe(d, K, "compact")
        if op == "jwe.decrypt_json/flat":
            a = algs[0]
            if genuine:
                obj = jwe.FlattenedJSONEncryption(jwe_protected(a, enc, zipv, False), _pt(d), None, _aad(d))
                obj.add_recipient(recipient_header(a), K.jwe(a, enc))
                return jwe.encrypt_json(obj, None, registry=perm, **skw)
            return craft_jwe(d, K, "flat")
        if op == "jwe.decrypt_json/general":
            if genuine:
                obj = jwe.GeneralJSONEncryption(jwe_protected(None, enc, zipv, False), _pt(d), None, _aad(d))
                for a in algs:
                    obj.add_recipient(recipient_header(a), K.jwe(a, enc))
                return jwe.encrypt_json(obj, None, registry=perm, **skw)
            reals = [a for a in algs if isinstance(a, str) and a in EA]
            if okz and oke and reals:
                # genuine recipients for the registered algs, hand-built ones for the others, in order
                obj = jwe.GeneralJSONEncryption(jwe_protected(None, enc, zipv, False), _pt(d), None, _aad(d))
                for a in reals:
                    obj.add_recipient(recipient_header(a), K.jwe(a, enc))
                out = jwe.encrypt_json(obj, None, registry=perm, **skw)
                made = list(out["recipients"])
                out["recipients"] = [made.pop(0) if (isinstance(a, str) and a in EA) else
                                     {"header": recipient_header(a), "encrypted_key": b64(b"\x05" * 24)} for a in algs]
                return out
            return craft_jwe(d, K, "general")
    raise ValueError("make_token: " + op)


def craft_jwe(d, K, shape):
    """Hand-built JWE whose header names an unknown / non-string alg, enc or zip.  When only
    the zip is foreign and alg is "dir" the content is genuinely encrypted (the zip gate
    sits behind the content decryption)."""
    from joserfc import jwe
    EE = jwe.JWERegistry.algorithms["enc"]
    algs, enc, zipv = d["algs"], d["enc"], d["zip"]
    encm = EE.get(enc) if isinstance(enc, str) else None
    iv = b"\x02" * ((encm.iv_size // 8) if encm is not None else 12)
    ct, tag, ek = b"\x03" * 16, b"\x04" * 16, b"\x05" * 24
    if shape == "compact":
        prot = jwe_protected(algs[0], enc, zipv)
    else:
        prot = jwe_protected(None, enc, zipv, False)
    aad = b64json(prot)
    if encm is not None and algs == ["dir"] and shape in ("compact", "flat"):
        if shape == "flat":
            prot = jwe_protected("dir", enc, zipv)
            aad = b64json(prot)
        key = K.jwe("dir", enc)
        iv = encm.generate_iv()
        ct, tag = encm.encrypt(_pt(d), key.get_op_key("encrypt"), iv, aad.encode("ascii"))
        ek = b""
        if shape == "flat":
            return {"protected": aad, "iv": b64(iv), "ciphertext": b64(ct), "tag": b64(tag)}
    if shape == "compact":
        return ".".join([aad, b64(ek), b64(iv), b64(ct), b64(tag)])
    out = {"protected": aad, "iv": b64(iv), "ciphertext": b64(ct), "tag": b64(tag)}
    if shape == "flat":
        out["header"] = recipient_header(algs[0])
        out["encrypted_key"] = b64(ek)
    else:
        out["recipients"] = [{"header": recipient_header(a), "encrypted_key": b64(ek)} for a in algs]
    return out


def execute(d, K, regobj=None, kwout=None):
    """-> ("name", str) | ("ok", None) | ("err", exception).  regobj: the already
    materialised registry= object; kwout: receives the keyword arguments handed over"""
    try:
        return _execute(d, K, regobj, kwout)
    except BaseException as e:  # noqa
        return ("err", e)


def _execute(d, K, regobj=None, kwout=None):
    from joserfc import jws, jwe, jwt
    from joserfc.errors import BadSignatureError
    from joserfc.rfc7515 import registry as r7515
    from joserfc.rfc7516 import registry as r7516
    from joserfc.rfc7797 import compact as c7797, json as j7797
    op = d["op"]
    # ---- the gate itself
    if op in GATE_OPS:
        fam, rest = op.split(".", 1)
        if rest.startswith("default."):
            reg = r7515.default_registry if fam == "jws" else r7516.default_registry
            meth = rest.split(".", 1)[1]
        else:
            reg = regobj if regobj is not None else make_registry(d["registry"])
            meth = rest
        m = getattr(reg, meth)(d["name"])
        tbl = jws.JWSRegistry.algorithms if fam == "jws" else jwe.JWERegistry.algorithms[meth[4:]]
        if tbl.get(m.name) is not m:
            return ("err", RuntimeError("returned model is not the registered one"))
        return ("name", m.name)
    kw = kwargs_of(d, regobj)
    if kwout is not None:
        kwout.update(kw)
    jkey = lambda o: K.jws(_alg_of(o))   # noqa: E731
    skw = {"sender_key": K.sender} if d.get("sender") else {}
    # ---- JWS signing
    if op == "jws.serialize_compact":
        jws.serialize_compact({"alg": d["algs"][0]}, _pl(d), jkey, **kw)
    elif op == "jws.serialize_json/flat":
        loc = d.get("hdrloc", "protected")
        jws.serialize_json({loc: {"alg": d["algs"][0]}}, _pl(d), jkey, **kw)
    elif op == "jws.serialize_json/general":
        jws.serialize_json([{"protected": {"alg": a}} for a in d["algs"]], _pl(d), jkey, **kw)
    elif op == "rfc7797.serialize_compact":
        c7797.serialize_compact(jws_header(d["algs"][0], d["b64"]), _txt(d), jkey, **kw)
    elif op == "rfc7797.serialize_json":
        j7797.serialize_json({"protected": jws_header(d["algs"][0], d["b64"])}, _txt(d), jkey, **kw)
    elif op == "jwt.encode":
        jwt.encode({"alg": d["algs"][0]}, _cl(d), jkey, **kw)
    # ---- JWS verification
    elif op == "jws.deserialize_compact":
        o = jws.deserialize_compact(d["token"], jkey, **kw)
        assert o.payload == _pl(d)
    elif op == "jws.validate_compact":
        obj = jws.extract_compact(d["token"].encode("ascii"))
        if not jws.validate_compact(obj, jkey, **kw):
            return ("err", BadSignatureError())      # normalised: False == bad signature
    elif op in ("jws.deserialize_json/flat", "jws.deserialize_json/general"):
        o = jws.deserialize_json(d["token"], jkey, **kw)
        assert o.payload == _pl(d)
    elif op == "rfc7797.deserialize_compact":
        c7797.deserialize_compact(d["token"], jkey, **kw)
    elif op == "rfc7797.deserialize_json":
        j7797.deserialize_json(d["token"], jkey, **kw)
    elif op == "jwt.decode":
        t = jwt.decode(d["token"], jkey, **kw)
        assert t.claims == _cl(d)
    # ---- JWE
    elif op in ("jwe.encrypt_compact", "jwt.encode/jwe"):
        a, enc = d["algs"][0], d["enc"]
        h = jwe_protected(a, enc, d["zip"])
        if op == "jwe.encrypt_compact":
            jwe.encrypt_compact(h, _pt(d), K.jwe(a, enc), **kw, **skw)
        else:
            jwt.encode(h, _cl(d), K.jwe(a, enc), **kw)
    elif op in ("jwe.encrypt_json/flat", "jwe.encrypt_json/general"):
        enc = d["enc"]
        cls = jwe.FlattenedJSONEncryption if op.endswith("flat") else jwe.GeneralJSONEncryption
        obj = cls(jwe_protected(None, enc, d["zip"], False), _pt(d), None, _aad(d))
        for a in d["algs"]:
            obj.add_recipient(recipient_header(a), K.jwe(a, enc))
        jwe.encrypt_json(obj, None, **kw, **skw)
    elif op in JWE_DEC_OPS:
        enc = d["enc"]
        ekey = lambda r: K.jwe(_alg_of(r), enc)   # noqa: E731
        if op == "jwe.decrypt_compact":
            o = jwe.decrypt_compact(d["token"], ekey, **kw, **skw)
            assert o.plaintext == _pt(d)
        elif op == "jwt.decode/jwe":
            t = jwt.decode(d["token"], ekey, **kw)
            assert t.claims == _cl(d)
        else:
            o = jwe.decrypt_json(d["token"], ekey, **kw, **skw)
            assert o.plaintext == _pt(d)
    else:
        raise ValueError("unknown op " + op)
    return ("ok", None)


def verdict_of(r):
    if r[0] == "name":
        return ("name", r[1])
    if r[0] == "ok":
        return ("ok",)
    return ("err", exn_class(r[1]))


# ---- rendering as Coq terms --------------------------------------------------------------
# strings are interned as Coq constants (k<i> : str, s<i> : pv) defined once in the
# preamble of every case file: string literals dominate the elaboration time otherwise
_INTERN = {}


def c_k(s):
    if s not in _INTERN:
        _INTERN[s] = len(_INTERN)
    return "k%d" % _INTERN[s]


def c_pv(v):   # noqa: F811  (shadows lib.c_pv: same rendering with interned strings)
    if isinstance(v, str):
        return "s%d" % int(c_k(v)[1:])
    if isinstance(v, (list, tuple)):
        return "(PList %s)" % c_list([c_pv(x) for x in v])
    if isinstance(v, dict):
        for k in v:
            if not isinstance(k, str):
                raise TypeError("c_pv: non-str dict key %r" % (k,))
        return "(PDict %s)" % c_list(["(%s, %s)" % (c_k(k), c_pv(x)) for k, x in v.items()])
    return lib.c_pv(v)


def intern_preamble():
    out = []
    for s, i in sorted(_INTERN.items(), key=lambda kv: kv[1]):
        out.append("Definition k%d : str := %s.\nDefinition s%d : pv := PStr k%d." % (i, c_str(s), i, i))
    return "\n".join(out)


def c_alw(v):
    return "PNone" if (v is ABSENT or v is None) else c_pv(v)


RCLS = {"jws": "RcJws", "7797": "Rc7797", "jwe": "RcJwe", "jws-sub": "RcJwsSub", "7797-sub": "Rc7797Sub", "jwe-sub": "RcJweSub"}


def c_regsel(r):
    if r is ABSENT:
        return "RAbsent"
    if r[0] == "ref":
        return "(RRef %d%%nat)" % r[1]
    sd = spec_of(r)
    return "(RFresh %s %s)" % (RCLS[sd["cls"]], c_alw(sd["allowed"]))


def c_regobj(sd):
    return ("{| ro_cls := %s; ro_allowed := %s; ro_strict := %s; ro_verify_all := %s; ro_extra_headers := %s |}" % (
        RCLS[sd["cls"]], c_alw(sd["allowed"]), c_bool(sd.get("strict", True)), c_bool(sd.get("verify_all", True)),
        c_list([c_k(k) for k in sd.get("extra", [])])))


def heap_observed(idx_list=None):
    """specdicts read back from the live shared objects (what vars(reg) says now)"""
    from joserfc.rfc7797.registry import JWSRegistry as R7797
    from joserfc.jwe import JWERegistry
    out = []
    for sd, r in HEAP:
        cls = "jwe" if isinstance(r, JWERegistry) else ("7797" if isinstance(r, R7797) else "jws")
        if type(r).__name__.startswith("C05Sub"):
            cls += "-sub"
        base = set(getattr(type(r), "default_header_registry", {})) if not cls.startswith("jwe") else None
        if base is None:
            from joserfc.registry import JWE_HEADER_REGISTRY
            base = set(JWE_HEADER_REGISTRY)
        out.append({"cls": cls, "allowed": r.allowed, "strict": r.strict_check_header,
                    "verify_all": getattr(r, "verify_all_recipients", True),
                    "extra": [k for k in r.header_registry if k not in base]})
    return out


def c_optpv(v):
    return "None" if v is ABSENT else "(Some %s)" % c_pv(v)


def c_names(l):
    return c_list([c_pv(x) for x in l])


def c_call(d):
    op = d["op"]
    if op in GATE_OPS:
        n = c_pv(d["name"])
        fam, rest = op.split(".", 1)
        loc = {"get_alg": "LAlg", "get_enc": "LEnc", "get_zip": "LZip"}[rest.split(".")[-1]]
        if rest.startswith("default."):
            return "CallJwsDefGet %s" % n if fam == "jws" else "CallJweDefGet %s %s" % (loc, n)
        if d["registry"][0] == "ref":
            return "CallRefGet %s %d%%nat %s" % ("GJws" if fam == "jws" else "(GJwe %s)" % loc, d["registry"][1], n)
        a = c_alw(spec_of(d["registry"])["allowed"])
        return "CallJwsGet %s %s" % (a, n) if fam == "jws" else "CallJweGet %s %s %s" % (loc, a, n)
    alg, reg = c_alw(d["algorithms"]), d["registry"]
    if op in ("jwt.encode", "jwt.decode", "jwt.encode/jwe", "jwt.decode/jwe"):
        r = c_regsel(reg)
        enc = c_optpv(d.get("enc", ABSENT))
        z = c_optpv(d.get("zip", ABSENT))
        return "CallJwt %s %s %s %s %s %s" % (c_bool("decode" in op), alg, r, c_pv(d["algs"][0]), enc, z)
    if op in JWS_SIGN_OPS or op in JWS_VERIFY_OPS:
        k = "(K7797 %s)" % c_bool(d["b64"] is not ABSENT) if op.startswith("rfc7797") else "KPlain"
        return "%s %s %s %s %s" % ("CallJwsSign" if op in JWS_SIGN_OPS else "CallJwsVerify", k, alg,
                                   c_regsel(reg), c_names(d["algs"]))
    return "CallJwe %s %s %s %s %s" % (alg, c_regsel(reg), c_pv(d["enc"]), c_names(d["algs"]), c_optpv(d["zip"]))


def c_verdict_for(d, v):
    if v[0] == "name":
        return "VName (Ok %s)" % c_k(v[1])
    if v[0] == "ok":
        return "VUnit (Ok tt)"
    return ("VName " if d["op"] in GATE_OPS else "VUnit ") + "(Err %s)" % c_exn(v[1])


# ---- direct oracle -----------------------------------------------------------------------
def allow_set(v, rec):
    """the names an allow-list value stands for; None = not a well-typed allow-list"""
    if v is None or v is ABSENT:
        return set(rec)
    if isinstance(v, (list, tuple)):
        if len(v) == 0:
            return set(rec)          # reading (B): an empty list is "no list given"
        return {x for x in v if isinstance(x, str)}
    return None


def designated(d, rec):
    """-> (sets, welltyped): the allow-lists the caller's arguments designate"""
    algs, reg = d["algorithms"], d["registry"]
    sets = []
    if isinstance(algs, (list, tuple)) and len(algs) > 0:
        sets.append(allow_set(algs, rec))
    elif not (algs is ABSENT or algs is None or isinstance(algs, (list, tuple))):
        return [], False
    if reg is not ABSENT:
        s = allow_set(spec_of(reg)["allowed"], rec)
        if s is None:
            return [], False
        sets.append(s)
    if not sets:
        sets.append(set(rec))
    return sets, True


def names_used(d):
    """[(kind, value)] of every alg / enc / zip value the call names"""
    op = d["op"]
    if op in GATE_OPS:
        kind = "jws" if op.startswith("jws") else op[-3:]
        return [(kind, d["name"])]
    if op in JWS_SIGN_OPS or op in JWS_VERIFY_OPS:
        return [("jws", a) for a in d["algs"]]
    out = [("enc", d["enc"])] + [("alg", a) for a in d["algs"]]
    if d["zip"] is not ABSENT:
        out.append(("zip", d["zip"]))
    return out


def direct(d, v, SUP):
    """property on the implementation outcome; -> None or (kind, text)"""
    op = d["op"]
    jwsfam = op.startswith("jws") or op.startswith("rfc7797") or op in ("jwt.encode", "jwt.decode")
    rec = REC_JWS if jwsfam else REC_JWE
    if op in GATE_OPS and not op.split(".", 1)[1].startswith("default."):
        d = dict(d, algorithms=ABSENT)
    elif op in GATE_OPS:
        d = dict(d, algorithms=ABSENT, registry=ABSENT)
    sets, well = designated(d, rec)
    used = names_used(d)
    ok = v[0] in ("ok", "name")
    allstr = all(isinstance(n, str) for _, n in used)
    supported = allstr and all(n in SUP[k] for k, n in used)
    verify = op in JWS_VERIFY_OPS
    has_none = any(n == "none" for _, n in used)
    if ok and not supported:
        return ("used-unsupported", "succeeded although %r is not a supported algorithm name" % (used,))
    if verify and has_none and ok:
        return ("none-verified", "a JWS with alg none verified")
    if v[0] == "name" and v[1] != used[0][1]:
        return ("wrong-model", "get_* returned the model %r for name %r" % (v[1], used[0][1]))
    if not well:
        return None
    union = set().union(*sets)
    inter = set.intersection(*sets)
    if ok and not all(n in union for _, n in used):
        return ("used-unlisted", "succeeded with %r although the caller allowed only %r" % (
            [n for _, n in used], sorted(union)))
    if supported and all(n in inter for _, n in used) and not ok and not (verify and has_none):
        return ("allowed-refused", "refused (%s) although %r are supported and allowed (%r)" % (
            v[1], [n for _, n in used], sorted(inter)))
    if allstr and not ok and not (supported and all(n in union for _, n in used)):
        want = ["EJose UnsupportedAlgorithmError"] + (["EJose BadSignatureError"] if (verify and has_none) else [])
        if v[1] not in want:
            return ("wrong-error", "a call naming %r outside the allowed, supported set %r failed with %s instead of "
                                   "UnsupportedAlgorithmError" % ([n for _, n in used], sorted(union), v[1]))
    if verify and has_none and len(used) == 1 and supported and "none" in inter and v != ("err", "EJose BadSignatureError"):
        return ("none-outcome", "verification with none allowed gave %r instead of BadSignatureError" % (v,))
    return None


# ---- generators ---------------------------------------------------------------------------
class Gen:
    def __init__(self, ctx, SUP):
        self.ctx, self.rng, self.SUP = ctx, ctx.rng, SUP
        self.jws_names = list(SUP["jws"])
        self.jwe_universe = list(SUP["alg"]) + list(SUP["enc"]) + list(SUP["zip"])

    def allow_for(self, used, universe, rec, ill=False):
        """an allow-list value chosen with the names the call uses in view"""
        rng = self.rng
        us = [n for n in used if isinstance(n, str)]
        k = rng.randrange(16 if not ill else 18)
        if k == 0:
            return None
        if k == 1:
            return []
        if k == 2:
            return list(us) or [rng.choice(universe)]
        if k == 3 and us:
            drop = rng.randrange(len(us))
            rest = [n for i, n in enumerate(us) if i != drop]
            return rest + [rng.choice(universe)] if not rest else rest
        if k == 4:
            return list(us) + rng.sample(universe, rng.randrange(0, 4)) + [rng.choice(UNKNOWN)]
        if k == 5:
            return rng.sample(universe, rng.randrange(1, len(universe) + 1))
        if k == 6:
            return list(universe)
        if k == 7:
            return list(universe) + ["XX", "HS999"]
        if k == 8:
            return [rng.choice(universe)]
        if k == 9:
            return [rng.choice(UNKNOWN)]
        if k == 10:
            return list(rec)
        if k == 11:
            return [n for n in universe if n not in rec]
        if k == 12:
            return tuple(us) if us else ()
        if k == 13:
            return [None, 1, b"HS256"] + list(us) + [["HS256"]]
        if k == 14:
            return [n for n in universe if n not in us] or ["XX"]
        if k == 15:
            lst = list(us)
            rng.shuffle(lst)
            return lst + lst
        return rng.choice(ILL_ALLOWED)

    def args(self, fam, used, b64present=False):
        """(algorithms, registry) in one of the modes: nothing, algorithms=, registry=, both"""
        rng = self.rng
        universe = self.jws_names if fam == "jws" else self.jwe_universe
        rec = REC_JWS if fam == "jws" else REC_JWE
        ill = rng.random() < 0.04
        mode = rng.choice(["none", "alg", "alg", "alg", "reg", "reg", "both", "algnone"])
        # every WAY of passing the list: the entry point's own registry class, the BASE class
        # (jws.JWSRegistry given to rfc7797 functions, made b64-tolerant through its own
        # header_registry or strict_check_header=False), the rfc7797 subclass given to jws
        # functions, caller-defined subclasses of each
        if fam == "jwe":
            cls = rng.choice(["jwe", "jwe", "jwe", "jwe-sub"])
        else:
            cls = rng.choice(["jws", "jws", "7797", "7797", "jws-sub", "7797-sub"])
        algorithms, registry = ABSENT, ABSENT
        if mode in ("alg", "both"):
            algorithms = self.allow_for(used, universe, rec, ill)
        if mode == "algnone":
            algorithms = None
        if mode in ("reg", "both"):
            allowed = self.allow_for(used, universe, rec, ill)
            registry = (cls, allowed)
            if rng.random() < 0.2 or cls.endswith("-sub") or (b64present and not cls.startswith("7797")):
                registry = ("fresh", self.settings(cls, allowed, b64present))
        return algorithms, registry

    def settings(self, cls, allowed, b64present=False):
        rng = self.rng
        sd = {"cls": cls, "allowed": allowed, "strict": rng.random() < 0.6,
              "verify_all": rng.random() < 0.6 if cls.startswith("jwe") else True,
              "extra": rng.choice([[], [], ["c05x"], ["c05x", "c05y"]])}
        if b64present and not b64_tolerant(sd):
            if rng.random() < 0.5:
                sd["extra"] = sd["extra"] + ["b64"]
            else:
                sd["strict"] = False
        return sd

    def jws_algs(self, n=1, json_only=False):
        rng = self.rng
        out = []
        for _ in range(n):
            r = rng.random()
            if r < 0.72:
                out.append(rng.choice(self.jws_names))
            elif r < 0.9:
                out.append(rng.choice(UNKNOWN))
            else:
                out.append(rng.choice(JSON_NONSTR if json_only else NONSTR))
        return out


def gate_calls(g, ctx):
    rng, SUP = g.rng, g.SUP
    calls = []
    fams = [("jws.get_alg", "jws", "jws", g.jws_names, REC_JWS), ("jwe.get_alg", "jwe", "alg", g.jwe_universe, REC_JWE),
            ("jwe.get_enc", "jwe", "enc", g.jwe_universe, REC_JWE), ("jwe.get_zip", "jwe", "zip", g.jwe_universe, REC_JWE)]
    for op, cls, kind, universe, rec in fams:
        names = list(SUP[kind]) + [n for n in g.jwe_universe + g.jws_names if n not in SUP[kind]][:12] + UNKNOWN + NONSTR
        seen = set()
        names = [n for n in names if not (repr(n) in seen or seen.add(repr(n)))]
        fixed = [None, [], (), list(SUP[kind]), list(rec), [n for n in SUP[kind] if n not in rec],
                 list(universe) + ["XX"], ["XX"], [None, 1]] + ILL_ALLOWED
        for n in names:
            dop = op.replace(".get", ".default.get")
            calls.append({"op": dop, "name": n, "algorithms": ABSENT, "registry": ABSENT})
            k = ctx.scale(4, 30)
            allows = [[n] if isinstance(n, str) else [n, "HS256"]] + rng.sample(fixed, min(len(fixed), 3 if ctx.quick else len(fixed)))
            allows += [g.allow_for([n], universe, rec, rng.random() < 0.1) for _ in range(k)]
            for a in allows:
                c = rng.choice(["jwe", "jwe", "jwe-sub"]) if cls == "jwe" else rng.choice(["jws", "jws", "7797", "jws-sub", "7797-sub"])
                calls.append({"op": op, "name": n, "algorithms": ABSENT, "registry": (c, a)})
    return calls


def jws_calls(g, ctx):
    rng = g.rng
    calls = []
    reps = ctx.scale(2, 20)
    for op in JWS_SIGN_OPS + JWS_VERIFY_OPS:
        verify = op in JWS_VERIFY_OPS
        general = op.endswith("general")
        is7797 = op.startswith("rfc7797")
        name_sets = [[a] for a in g.jws_names] * reps
        name_sets += [g.jws_algs(1, json_only=verify) for _ in range(ctx.scale(25, 300))]
        if general:
            name_sets = [g.jws_algs(rng.randrange(1, 4), json_only=verify) for _ in range(len(name_sets))]
            name_sets += [["none", "HS256"], ["HS256", "none"], ["HS256", "XX"], ["none", "XX"], ["HS256", "RS256", "ES256"]]
        for algs in name_sets:
            b64v = rng.choice([ABSENT, ABSENT, True, False]) if is7797 else ABSENT
            algorithms, registry = g.args("jws", algs, b64present=b64v is not ABSENT)
            if op in ("jwt.encode", "jwt.decode") and registry is not ABSENT and fam_of(spec_of(registry)["cls"]) == "jwe":
                registry = ("jws", spec_of(registry)["allowed"])
            d = {"op": op, "algs": algs, "b64": b64v, "algorithms": algorithms, "registry": registry}
            if op == "jws.serialize_json/flat":
                d["hdrloc"] = rng.choice(["protected", "protected", "header"])
            calls.append(d)
    # every way of handing the list to an rfc7797 entry point whose header has "b64": the base
    # class jws.JWSRegistry (b64-tolerant through its own header_registry or non-strict), the
    # rfc7797 class, subclasses of both; with and without algorithms=; sign and verify
    nonrec = [a for a in g.jws_names if a not in REC_JWS and a != "none"]
    for op in [o for o in JWS_SIGN_OPS + JWS_VERIFY_OPS if o.startswith("rfc7797")]:
        for b64v in (True, False):
            for cls in ("jws", "jws-sub", "7797", "7797-sub"):
                for tol in ("extra", "nonstrict"):
                    for _ in range(ctx.scale(1, 4)):
                        listed, other = rng.choice(nonrec), rng.choice(REC_JWS)
                        for alg, allowed in ((listed, [listed]), (other, [listed]), (other, None), (listed, []),
                                             (listed, [listed, other, "XX"])):
                            sd = {"cls": cls, "allowed": allowed, "strict": tol != "nonstrict", "verify_all": True,
                                  "extra": ["b64"] if tol == "extra" else []}
                            algorithms = rng.choice([ABSENT, ABSENT, None, [], [other], [listed]])
                            calls.append({"op": op, "algs": [alg], "b64": b64v, "algorithms": algorithms,
                                          "registry": ("fresh", sd)})
    return calls


def jwe_name_sets(g, ctx, general, dec):
    rng, SUP = g.rng, g.SUP
    A, E, Z = list(SUP["alg"]), list(SUP["enc"]), list(SUP["zip"])
    wrap = [a for a in A if a not in ("dir", "ECDH-ES")]
    sets = []
    if ctx.quick:
        combos = [(a, rng.choice(E)) for a in A] + [(rng.choice(A), e) for e in E]
    else:
        combos = [(a, e) for a in A for e in E]
    for a, e in combos:
        for z in ([ABSENT, rng.choice(Z)] if Z else [ABSENT]):
            sets.append(([a], e, z))
    nonstr = JSON_NONSTR if dec else NONSTR
    for _ in range(ctx.scale(30, 300)):
        a, e, z = rng.choice(A), rng.choice(E), rng.choice([ABSENT, ABSENT] + Z)
        pos = rng.choice(["alg", "enc", "zip", "zip"])
        bad = rng.choice(UNKNOWN) if rng.random() < 0.7 else rng.choice(nonstr)
        if pos == "alg":
            a = bad
        elif pos == "enc":
            e = bad
        else:
            z = bad
            if dec and isinstance(bad, str):
                a = "dir"          # only a genuinely encrypted token reaches the zip gate
                if general:
                    continue
        sets.append(([a], e, z))
    if general:
        out = []
        for algs, e, z in sets:
            n = rng.randrange(1, 4)
            if n > 1 and all(isinstance(a, str) and a in wrap for a in algs):
                algs = algs + [rng.choice(wrap) for _ in range(n - 1)]
                if rng.random() < 0.15:
                    algs[rng.randrange(len(algs))] = rng.choice(["XX", "A128KW ", ""])
            out.append((algs, e, z))
        sets = out
    return sets


def shared_specs(g):
    """the caller's long-lived registries: every class, allow-lists of every shape, some
    with their own header_registry / strict / verify_all settings"""
    out = []
    J, U = g.jws_names, g.jwe_universe
    for cls, names, rec in (("jws", J, REC_JWS), ("7797", J, REC_JWS), ("jwe", U, REC_JWE)):
        nonrec = [n for n in names if n not in rec]
        shapes = [None, [], [rec[0]], nonrec[:3] + [rec[1]], list(names) + ["XX"], list(names)]
        if cls == "jwe":
            shapes += [["A128KW", "A128GCM"], ["A192KW", "A192GCM", "DEF"],
                       ["dir", "RSA-OAEP", "A128CBC-HS256", "A256GCM", "DEF"]]
        else:
            shapes += [["none", "HS256"], ["HS384", "RS384", "ES256"]]
        for a in shapes:
            out.append({"cls": cls, "allowed": a, "strict": True, "verify_all": True, "extra": []})
        for a in (None, list(rec), nonrec[:4]):
            out.append(g.settings(cls, a))
        out.append(g.settings(cls + "-sub", nonrec[:2] + [rec[0]]))
    # base-class (and base-subclass) registries that can check a header with "b64"
    Jn = [n for n in J if n not in REC_JWS]
    for cls, a, strict, extra in (("jws", ["HS512"], True, ["b64"]), ("jws", ["HS512", "RS384"], False, []),
                                  ("jws", None, True, ["b64"]), ("jws", [], False, []),
                                  ("jws-sub", Jn[:3], True, ["b64"]), ("jws", list(J), False, ["b64"]),
                                  ("7797-sub", ["HS384", "ES256"], True, [])):
        out.append({"cls": cls, "allowed": a, "strict": strict, "verify_all": True, "extra": extra})
    return out


def shared_call(g, ctx, refs):
    """one call of a history over shared registry objects; refs = heap indices in play"""
    rng, SUP = g.rng, g.SUP
    by = {"jws": [i for i in refs if fam_of(HEAP[i][0]["cls"]) == "jws"],
          "7797": [i for i in refs if fam_of(HEAP[i][0]["cls"]) == "jws" and b64_tolerant(HEAP[i][0])],
          "jwe": [i for i in refs if fam_of(HEAP[i][0]["cls"]) == "jwe"]}
    fam = rng.choice(["jws", "jwe"])
    if fam == "jws":
        op = rng.choice(JWS_SIGN_OPS + JWS_VERIFY_OPS + ["jws.get_alg"])
        verify = op in JWS_VERIFY_OPS
        b64v = rng.choice([ABSENT, ABSENT, True, False]) if op.startswith("rfc7797") else ABSENT
        cand = by["7797"] if b64v is not ABSENT else by["jws"]
        if op == "jws.get_alg":
            name = rng.choice(g.jws_names + ["XX"])
            used = [name]
            d = {"op": op, "name": name, "algorithms": ABSENT}
        else:
            algs = g.jws_algs(rng.randrange(1, 4) if op.endswith("general") else 1, json_only=verify)
            used = algs
            d = {"op": op, "algs": algs, "b64": b64v}
        universe, rec = g.jws_names, REC_JWS
        fresh_cls = rng.choice(["jws", "7797", "jws-sub", "7797-sub"])
        fresh_b64 = b64v is not ABSENT
    else:
        op = rng.choice(JWE_ENC_OPS + JWE_DEC_OPS + ["jwe.get_alg", "jwe.get_enc", "jwe.get_zip"])
        cand = by["jwe"]
        A, E, Z = list(SUP["alg"]), list(SUP["enc"]), list(SUP["zip"])
        wrap = [a for a in A if a not in ("dir", "ECDH-ES")]
        if op.startswith("jwe.get_"):
            name = rng.choice({"alg": A, "enc": E, "zip": Z}[op[-3:]] + ["XX"])
            used = [name]
            d = {"op": op, "name": name, "algorithms": ABSENT}
        else:
            n = rng.randrange(1, 4) if op.endswith("general") else 1
            algs = [rng.choice(wrap) for _ in range(n)] if n > 1 else [rng.choice(A + ["A128KW", "A192KW", "dir"])]
            enc, z = rng.choice(E), rng.choice([ABSENT, ABSENT] + Z)
            used = algs + [enc] + ([] if z is ABSENT else [z])
            d = {"op": op, "algs": algs, "enc": enc, "zip": z}
        universe, rec = g.jwe_universe, REC_JWE
        fresh_cls = rng.choice(["jwe", "jwe", "jwe-sub"])
        fresh_b64 = False
    gate = op in GATE_OPS
    r = rng.random()
    if cand and (r < 0.72 or gate):
        d["registry"] = ("ref", rng.choice(cand))
    elif r < 0.85 and not gate and not op.endswith("/jwe"):
        d["registry"] = ABSENT
    else:
        d["registry"] = ("fresh", g.settings(fresh_cls, g.allow_for(used, universe, rec), fresh_b64))
    if not gate:
        k = rng.random()
        # per-call override of every shape: absent, None, [], singleton, subset, superset, exact
        if k < 0.35:
            d["algorithms"] = ABSENT
        elif k < 0.42:
            d["algorithms"] = None
        elif k < 0.5:
            d["algorithms"] = []
        elif k < 0.6:
            d["algorithms"] = [rng.choice(universe)]
        elif k < 0.72:
            d["algorithms"] = [n for n in used if isinstance(n, str)] or [rng.choice(universe)]
        elif k < 0.82:
            d["algorithms"] = list(universe) + ["XX"]
        else:
            d["algorithms"] = g.allow_for(used, universe, rec)
    if not gate:
        d["msg"] = rng.choice([ABSENT, ABSENT, ABSENT, "empty", "one"])
    if (op in ("jwt.encode", "jwt.decode") and d["registry"] is not ABSENT and d["registry"][0] == "fresh"
            and fam_of(d["registry"][1]["cls"]) == "jwe"):
        d["registry"] = ("fresh", dict(d["registry"][1], cls="jws"))
    return d


def jwe_calls(g, ctx):
    calls = []
    for op in JWE_ENC_OPS + JWE_DEC_OPS:
        dec = op in JWE_DEC_OPS
        general = op.endswith("general")
        for algs, e, z in jwe_name_sets(g, ctx, general, dec):
            used = list(algs) + [e] + ([] if z is ABSENT else [z])
            for _ in range(ctx.scale(2, 6)):
                algorithms, registry = g.args("jwe", used)
                if op.startswith("jwt") and registry is ABSENT:
                    registry = ("jwe", g.allow_for(used, g.jwe_universe, REC_JWE))
                calls.append({"op": op, "algs": list(algs), "enc": e, "zip": z,
                              "algorithms": algorithms, "registry": registry})
    return calls


# ---- pristine-interpreter verdicts (fork before any API call) ----------------------------
def _pristine_server(conn, K):
    while True:
        msg = conn.recv()
        if msg is None:
            break
        r, w = os.pipe()
        pid = os.fork()
        if pid == 0:
            try:
                os.close(r)
                v = verdict_of(execute(msg, K))
                os.write(w, pickle.dumps(v))
            finally:
                os._exit(0)
        os.close(w)
        buf = b""
        while True:
            chunk = os.read(r, 65536)
            if not chunk:
                break
            buf += chunk
        os.close(r)
        os.waitpid(pid, 0)
        conn.send(pickle.loads(buf) if buf else ("err", "ERuntime"))


class Pristine:
    def __init__(self, K):
        import multiprocessing as mp
        c = mp.get_context("fork")
        self.conn, child = c.Pipe()
        self.p = c.Process(target=_pristine_server, args=(child, K), daemon=True)
        self.p.start()

    def verdict(self, d):
        self.conn.send(d)
        return self.conn.recv()

    def close(self):
        try:
            self.conn.send(None)
            self.p.join(5)
        except Exception:
            pass


# ---- drafts world (subprocess: registration changes the process-wide tables) --------------
def _register_drafts():
    from joserfc.drafts.jwe_ecdh_1pu import register_ecdh_1pu
    from joserfc.drafts.jwe_chacha20 import register_chaha20_poly1305
    register_ecdh_1pu()
    register_chaha20_poly1305()


def _to_json(d):
    out = {k: ("__absent__" if v is ABSENT else v) for k, v in d.items()}
    if d["registry"] is not ABSENT:
        out["registry"] = list(d["registry"])
    return out


def _from_json(d):
    out = {k: (ABSENT if (isinstance(v, str) and v == "__absent__") else v) for k, v in d.items()}
    if out["registry"] is not ABSENT:
        out["registry"] = tuple(out["registry"])
    return out


def drafts_entry_calls(rng, SUP, base):
    """entry-point calls naming the draft algorithms: no list / default registry / bare
    registry / empty list (must be refused) and explicit lists (must be accepted)"""
    d_alg = [a for a in SUP["alg"] if a not in base["alg"]]
    d_enc = [e for e in SUP["enc"] if e not in base["enc"]]
    cbc = [e for e in base["enc"] if "CBC" in e]
    combos = []
    for a in d_alg:
        # key agreement with key wrapping only works with the CBC-HS family
        encs = (cbc if "+" in a else cbc + d_enc + ["A128GCM"])
        for e in encs:
            combos.append((a, e, True))
    for e in d_enc:
        for a in ("dir", "A128KW", "ECDH-ES", "ECDH-ES+A128KW", "RSA-OAEP"):
            if a in SUP["alg"]:
                combos.append((a, e, False))
    calls = []
    universe = SUP["alg"] + SUP["enc"] + SUP["zip"]
    for a, e, sender in combos:
        used = [a, e]
        for op in JWE_ENC_OPS + JWE_DEC_OPS:
            jwt_op = op.startswith("jwt")
            if jwt_op and sender:
                forms = [("reg", None), ("reg", [])]         # jwt cannot pass a sender key: refusal only
            else:
                forms = [("none", None), ("reg", None), ("reg", []), ("alg", []), ("alg", used), ("reg", used),
                         ("alg", used + ["DEF", "XX"]), ("reg", list(universe)), ("alg", [a]), ("reg", [e]),
                         ("alg", [n for n in universe if n not in used])]
                if jwt_op:
                    forms = [f for f in forms if f[0] == "reg"] + [("both", used)]
            for mode, lst in forms:
                if op.endswith("general") and ("+" not in a and a in ("dir", "ECDH-ES", "ECDH-1PU")):
                    algs = [a]
                elif op.endswith("general") and a != "RSA-OAEP":
                    algs = [a, a]
                else:
                    algs = [a]
                d = {"op": op, "algs": algs, "enc": e, "zip": rng.choice([ABSENT, ABSENT, "DEF"]), "sender": sender,
                     "algorithms": ABSENT, "registry": ABSENT}
                if mode == "alg":
                    d["algorithms"] = lst
                elif mode == "reg":
                    d["registry"] = ("jwe", lst)
                elif mode == "both":
                    d["algorithms"], d["registry"] = lst, ("jwe", None)
                if d["zip"] is not ABSENT and lst and mode != "none" and rng.random() < 0.7 and "DEF" not in lst:
                    d["zip"] = ABSENT
                calls.append(d)
    return calls


def _drafts_main():
    import random
    from joserfc import jws, jwe  # noqa: F401
    base = {k: list(v) for k, v in jwe.JWERegistry.algorithms.items()}
    _register_drafts()
    req = json.load(sys.stdin)
    out = []
    for d in req["gate_calls"]:
        out.append(list(verdict_of(execute(_from_json(d), None))))
    rng = random.Random(req["seed"])
    K = Keys(rng)
    SUP = {"jws": list(jws.JWSRegistry.algorithms), "alg": list(jwe.JWERegistry.algorithms["alg"]),
           "enc": list(jwe.JWERegistry.algorithms["enc"]), "zip": list(jwe.JWERegistry.algorithms["zip"])}
    usable = {k: [n for n in SUP[k] if n in (jws.JWSRegistry.recommended if k == "jws" else jwe.JWERegistry.recommended)]
              for k in SUP}
    entries = []
    calls = drafts_entry_calls(rng, SUP, base)
    if len(calls) > req["max_entry_calls"]:
        calls = rng.sample(calls, req["max_entry_calls"])
    snap0 = snapshot()
    for d in calls:
        note = None
        if d["op"] in JWE_DEC_OPS:
            try:
                d["token"] = make_token(d, K)
            except BaseException as e:  # noqa
                entries.append({"call": _to_json(d), "verdict": None, "direct": None, "note": "token production failed: %r" % (e,)})
                continue
        v = verdict_of(execute(d, K))
        bad = direct(d, v, SUP)
        if snapshot() != snap0:
            bad = bad or ("state-changed", "process-wide registry state changed")
        entries.append({"call": _to_json(d), "verdict": list(v), "direct": list(bad) if bad else None, "note": note})
    json.dump({"verdicts": out, "names": SUP, "usable": usable, "entries": entries, "keys": K.export(),
               "recommended": list(jwe.JWERegistry.recommended)}, sys.stdout)


def drafts_cases(ctx):
    """calls in a process where the draft algorithms were registered"""
    rng = ctx.rng
    names = ["ECDH-1PU", "ECDH-1PU+A128KW", "ECDH-1PU+A192KW", "ECDH-1PU+A256KW", "C20P", "XC20P",
             "A128GCM", "A128KW", "dir", "DEF", "XX", "HS256"]
    calls = []
    for op in ("jwe.get_alg", "jwe.get_enc", "jwe.get_zip", "jws.get_alg"):
        for n in names:
            if op.startswith("jwe"):
                calls.append({"op": op.replace(".get", ".default.get"), "name": n, "algorithms": "__absent__", "registry": "__absent__"})
            for a in (None, [], [n], ["C20P", "ECDH-1PU", "A128KW"], rng.sample(names, 4)):
                calls.append({"op": op, "name": n, "algorithms": "__absent__", "registry": ["jwe" if op.startswith("jwe") else "jws", a]})
    import subprocess
    req = {"gate_calls": calls, "seed": rng.randrange(1 << 30), "max_entry_calls": ctx.scale(700, 100000)}
    p = subprocess.run([lib.PY, "-W", "ignore", "-c",
                        "import sys; sys.path.insert(0, %r); from props import c05; c05._drafts_main()" %
                        os.path.join(lib.VERIF, "harness")], input=json.dumps(req), env=lib.child_env(),
                       stdout=subprocess.PIPE, stderr=subprocess.PIPE, text=True, timeout=600)
    if p.returncode != 0:
        return None, p.stderr[-1500:], None
    res = json.loads(p.stdout)
    calls = [_from_json(d) for d in calls]
    return calls, [tuple(v) for v in res["verdicts"]], res


# ---- the run ---------------------------------------------------------------------------------
def key_of(d):
    return repr(sorted((k, repr(v)) for k, v in d.items() if k != "token"))


def replay_blob(K, calls, idx=None):
    return base64.b64encode(pickle.dumps({"keys": K.export(), "calls": calls, "index": idx,
                                          "heap": [sd for sd, _ in HEAP]})).decode("ascii")


def describe(d):
    return {k: (repr(v) if k in ("algorithms", "registry", "name", "algs", "enc", "zip", "b64", "msg", "aad") else v)
            for k, v in d.items() if k != "token"}


def run(ctx):
    t0 = time.time()
    ok, log = ctx.prove(extra_targets=["model/C05Cases.vo"])
    t_prove = time.time() - t0
    proof_rep = {"log": log[-3000:], "no_failing_input_found": True, "broken": "theorems of props/C05.v"}
    if not ok:
        ctx.violation({"kind": "proof-broken"}, "props/C05.v or its closure no longer compiles "
                      "(a changed table breaks c05_default_sets / c05_tables_consistent / c05_none)", proof_rep)
    from joserfc import jws, jwe, jwt  # noqa: F401
    K = Keys(ctx.rng)
    pristine = Pristine(K)              # forked before any registry API call of this process
    SUP = {"jws": list(jws.JWSRegistry.algorithms), "alg": list(jwe.JWERegistry.algorithms["alg"]),
           "enc": list(jwe.JWERegistry.algorithms["enc"]), "zip": list(jwe.JWERegistry.algorithms["zip"])}
    snap0 = snapshot()
    _INTERN.clear()
    del HEAP[:], HEAP_SNAP[:], TRACK[:]
    g = Gen(ctx, SUP)
    cases, meta = [], []
    dist = {}
    state_reported = [False]

    # ---- default sets against the literals of the property text (implementation tables)
    usable = {"jws": [n for n in SUP["jws"] if n in jws.JWSRegistry.recommended],
              "alg": [n for n in SUP["alg"] if n in jwe.JWERegistry.recommended],
              "enc": [n for n in SUP["enc"] if n in jwe.JWERegistry.recommended],
              "zip": [n for n in SUP["zip"] if n in jwe.JWERegistry.recommended]}
    for kind, lit in (("jws", REC_JWS), ("alg", REC_JWE_ALG), ("enc", REC_JWE_ENC), ("zip", REC_JWE_ZIP)):
        if set(usable[kind]) != set(lit):
            diff = sorted(set(usable[kind]) ^ set(lit))
            ctx.violation({"kind": "default-set", "which": kind, "diff": diff},
                          "the %s names usable without an explicit list are %r, the property says %r" % (kind, usable[kind], lit),
                          {"check": "default-set", "which": kind, "usable": usable[kind], "expected": lit})

    mut_reported = set()

    def heap_check(d, where):
        """every shared caller registry still has the contents it was created with"""
        for i, (sd, r) in enumerate(HEAP):
            now = reg_snapshot(r)
            orig = HEAP_SNAP[i]
            if now != orig and ("heap", i) not in mut_reported:
                mut_reported.add(("heap", i))
                ctx.violation({"kind": "caller-registry-mutated", "op": d["op"]},
                              "the caller's shared registry #%d (%s, created with algorithms=%r) was changed %s %s "
                              "(algorithms=%r registry=%r): vars(reg) was %r, is %r" % (
                                  i, sd["cls"], sd["allowed"], where, d["op"], d["algorithms"], d["registry"], orig[1], now[1]),
                              {"check": "registry-mutated", "call": describe(d), "registry_index": i,
                               "before": repr(orig), "after": repr(now), "blob": replay_blob(K, [d], 0)})

    def run_call(d, record=True):
        """execute with the frozen-state checks and the direct oracle"""
        import copy
        before = snapshot()
        regobj = None if d["registry"] is ABSENT else make_registry(d["registry"])
        reg_before = None if regobj is None else reg_snapshot(regobj)
        kw = {}
        r = execute(d, K, regobj, kw)
        after = snapshot()
        v = verdict_of(r)
        if (before != after or after != snap0) and not state_reported[0]:
            state_reported[0] = True
            ctx.violation({"kind": "state-changed", "op": d["op"]},
                          "process-wide registry state changed during %s (algorithms=%r registry=%r)" % (
                              d["op"], d["algorithms"], d["registry"]),
                          {"check": "state", "call": describe(d), "blob": replay_blob(K, [d], 0)})
        # the registry object handed over by the caller: deep contents unchanged
        if regobj is not None:
            reg_after = reg_snapshot(regobj)
            if reg_after != reg_before and ("call", d["op"]) not in mut_reported:
                mut_reported.add(("call", d["op"]))
                ctx.violation({"kind": "caller-registry-mutated", "op": d["op"]},
                              "%s changed the registry object passed as registry= (%r) while called with algorithms=%r: "
                              "vars(reg) was %r, is %r" % (d["op"], d["registry"], d["algorithms"], reg_before[1], reg_after[1]),
                              {"check": "registry-mutated", "call": describe(d), "before": repr(reg_before),
                               "after": repr(reg_after), "blob": replay_blob(K, [d], 0)})
        # the caller's algorithms= list itself
        def _members(v):
            return (bool(v), sorted({x for x in v if isinstance(x, str)})) if isinstance(v, (list, tuple)) else repr(v)
        # (only a change of the names it lists matters for later calls; a reordering does not)
        if "algorithms" in kw and _members(kw["algorithms"]) != _members(d["algorithms"]) and ("list", d["op"]) not in mut_reported:
            mut_reported.add(("list", d["op"]))
            ctx.violation({"kind": "caller-list-mutated", "op": d["op"]},
                          "%s changed the caller's algorithms= list from %r to %r" % (d["op"], d["algorithms"], kw["algorithms"]),
                          {"check": "list-mutated", "call": describe(d), "blob": replay_blob(K, [d], 0)})
        if HEAP:
            heap_check(d, "by or before")
        if d["registry"] is not ABSENT and d["op"] not in GATE_OPS:
            wk = "way:%s%s:registry=%s%s%s" % (d["op"].split(".")[0], ("+b64" if d.get("b64", ABSENT) is not ABSENT else ""),
                                               spec_of(d["registry"])["cls"], ("+algorithms" if d["algorithms"] not in (ABSENT, None) else ""),
                                               (":ok" if v[0] == "ok" else ""))
            dist[wk] = dist.get(wk, 0) + 1
        bad = direct(d, v, SUP)
        if bad:
            ctx.violation({"kind": bad[0], "op": d["op"]},
                          "%s(%s): %s" % (d["op"], ", ".join("%s=%r" % (k, x) for k, x in d.items()
                                                               if k in ("name", "algs", "enc", "zip", "b64", "algorithms", "registry")), bad[1]),
                          {"check": "direct", "call": describe(d), "verdict": list(v), "blob": replay_blob(K, [d], 0)})
        if v[0] == "err" and v[1] in ("EAssert", "ERuntime", "EKey", "EAttr", "EIndex") and len(ctx.notes) < 20:
            ctx.notes.append("unexpected %s in %s" % (v[1], describe(d)))
        return v

    # ---- single calls
    singles = gate_calls(g, ctx) + jws_calls(g, ctx) + jwe_calls(g, ctx)
    ctx.rng.shuffle(singles)
    # DEGENERATE message contents: the verdict of the gates must not depend on the message
    # (plaintext b"" / one octet, aad None / b"", JWS payload b"", empty claims).  Every call gets a
    # random content; every JWE producing call that names a zip and a sample of the others is
    # repeated with the other contents, the verdicts must be equal (and equal the model's, whose
    # calls carry no message at all)
    expanded = []
    for d in singles:
        if d["op"] in GATE_OPS:
            expanded.append((d, None))
            continue
        d["msg"] = ctx.rng.choice([ABSENT, ABSENT, ABSENT, "empty", "empty", "one"])
        if d["op"] in ("jwe.encrypt_json/flat", "jwe.encrypt_json/general", "jwe.decrypt_json/flat", "jwe.decrypt_json/general"):
            d["aad"] = ctx.rng.choice([ABSENT, ABSENT, b"", b"c05 aad"])
        expanded.append((d, None))
        if (d["op"] in JWE_ENC_OPS and d["zip"] is not ABSENT) or ctx.rng.random() < 0.12:
            for m in ("default", "empty", "one"):
                if m != _msg(d):
                    expanded.append((dict(d, msg=m), d))
    pool = []
    t_tok = 0
    base_verdict = {}
    for d, parent in expanded:
        if d["op"] in JWS_VERIFY_OPS or d["op"] in JWE_DEC_OPS:
            try:
                d["token"] = make_token(d, K)
                t_tok += 1
            except BaseException as e:  # noqa
                ctx.notes.append("token production failed for %r: %r" % (describe(d), e))
                continue
        v = run_call(d)
        ctx.note_case(key_of(d), nontrivial=True)
        dist[d["op"]] = dist.get(d["op"], 0) + 1
        if v[0] != "err":
            dist["ok:" + d["op"]] = dist.get("ok:" + d["op"], 0) + 1
        dist["verdict:" + (v[1] if v[0] == "err" else "ok")] = dist.get("verdict:" + (v[1] if v[0] == "err" else "ok"), 0) + 1
        cases.append("Hist false [%s] [%s] []" % (c_call(d), c_verdict_for(d, v)))
        meta.append(("call", d, v))
        pool.append((d, v))
        base_verdict[id(d)] = v
        if parent is not None and id(parent) in base_verdict and base_verdict[id(parent)] != v:
            pv_ = base_verdict[id(parent)]
            dist["message_variants_differ"] = dist.get("message_variants_differ", 0) + 1
            ctx.violation({"kind": "message-dependent-gate", "op": d["op"]},
                          "%s(%s) gave %r with message content %r but %r with content %r: the allow-list verdict depends on "
                          "the message" % (d["op"], ", ".join("%s=%r" % (k, x) for k, x in d.items()
                                                               if k in ("algs", "enc", "zip", "b64", "algorithms", "registry")),
                                           v, _msg(d), pv_, _msg(parent)),
                          {"check": "message", "call": describe(d), "verdict": list(v), "other_verdict": list(pv_),
                           "blob": replay_blob(K, [parent, d], 1)})
        if parent is not None:
            dist["message_variant_calls"] = dist.get("message_variant_calls", 0) + 1

    # ---- none
    from joserfc.rfc7518.jws_algs import NoneAlgModel
    none_model = jws.JWSRegistry.algorithms.get("none")
    for i in range(ctx.scale(60, 3000)):
        msg = bytes(ctx.rng.randrange(256) for _ in range(ctx.rng.randrange(0, 24)))
        sig = ctx.rng.choice([b"", b"", msg, bytes(ctx.rng.randrange(256) for _ in range(ctx.rng.randrange(0, 40)))])
        key = ctx.rng.choice([K.oct[16], K.oct[64], None, K.rsa])
        for model in (none_model, NoneAlgModel()):
            if model is None:
                continue
            try:
                r = model.verify(msg, sig, key)
                cases.append("NoneVerify %s %s (Ok %s)" % (c_hex(msg), c_hex(sig), c_bool(bool(r))))
                if r:
                    ctx.violation({"kind": "none-verified", "op": "NoneAlgModel.verify"},
                                  "NoneAlgModel.verify(%r, %r) returned a true value" % (msg, sig),
                                  {"check": "none", "msg": msg.hex(), "sig": sig.hex()})
            except BaseException as e:  # noqa
                cases.append("NoneVerify %s %s (Err %s)" % (c_hex(msg), c_hex(sig), c_exn(exn_class(e))))
            meta.append(("none-verify", msg.hex(), sig.hex()))
            ctx.note_case(("none", msg, sig, id(model)))
        try:
            s = none_model.sign(msg, key)
            cases.append("NoneSign %s (Ok %s)" % (c_hex(msg), c_hex(s)))
        except BaseException as e:  # noqa
            cases.append("NoneSign %s (Err %s)" % (c_hex(msg), c_exn(exn_class(e))))
        meta.append(("none-sign", msg.hex()))
    if none_model is None or type(none_model).__name__ != "NoneAlgModel":
        ctx.notes.append("the model registered as 'none' is %r" % (none_model,))

    # ---- histories on the shared default registries
    n_hist = ctx.scale(30, 300)
    hist_calls = 0
    shared = [pv for pv in pool if pv[0]["registry"] is ABSENT] or pool
    for hno in range(n_hist):
        ln = ctx.rng.randrange(2, 41)
        src = [ctx.rng.choice(shared if ctx.rng.random() < 0.7 else pool) for _ in range(ln)]
        hist, verdicts = [], []
        for pos, (d, v0) in enumerate(src):
            v = run_call(d)
            hist_calls += 1
            hist.append(d)
            verdicts.append(v)
            if v != v0:
                ctx.violation({"kind": "history-dependent", "op": d["op"]},
                              "%s gave %r as call %d of a history but %r when first made in this run" % (d["op"], v, pos, v0),
                              {"check": "history", "calls": [describe(x) for x in hist], "index": pos,
                               "first_verdict": list(v0), "verdict": list(v), "blob": replay_blob(K, hist, pos)})
        ctx.note_case(("hist", hno, tuple(key_of(x) for x in hist)))
        cases.append("Hist false %s %s []" % (c_list([c_call(x) for x in hist]),
                                               c_list([c_verdict_for(x, y) for x, y in zip(hist, verdicts)])))
        meta.append(("history", [describe(x) for x in hist], verdicts))
    dist["history_calls"] = hist_calls

    # ---- histories over SHARED caller-created registry objects, interleaved with per-call
    #      algorithms= overrides of every shape on all entry points
    for sd in shared_specs(g):
        new_shared(sd)
    first = {}
    shared_calls = 0
    for hno in range(ctx.scale(40, 400)):
        refs = sorted(ctx.rng.sample(range(len(HEAP)), ctx.rng.randrange(3, 8)))
        if not any(fam_of(HEAP[i][0]["cls"]) == "jwe" for i in refs):
            refs.append(ctx.rng.choice([i for i in range(len(HEAP)) if fam_of(HEAP[i][0]["cls"]) == "jwe"]))
        if not any(fam_of(HEAP[i][0]["cls"]) == "jws" and b64_tolerant(HEAP[i][0]) and not HEAP[i][0]["cls"].startswith("7797") for i in refs):
            refs.append(ctx.rng.choice([i for i in range(len(HEAP)) if fam_of(HEAP[i][0]["cls"]) == "jws"
                                        and b64_tolerant(HEAP[i][0]) and not HEAP[i][0]["cls"].startswith("7797")]))
        refs = sorted(set(refs))
        local = {gi: li for li, gi in enumerate(refs)}
        hist, verdicts = [], []
        for pos in range(ctx.rng.randrange(2, 41)):
            d = shared_call(g, ctx, refs)
            if d["op"] in JWS_VERIFY_OPS or d["op"] in JWE_DEC_OPS:
                try:
                    d["token"] = make_token(d, K)
                except BaseException as e:  # noqa
                    ctx.notes.append("token production failed for %r: %r" % (describe(d), e))
                    continue
            v = run_call(d)
            shared_calls += 1
            hist.append(d)
            verdicts.append(v)
            dist["shared:" + ("ref" if (d["registry"] is not ABSENT and d["registry"][0] == "ref") else "other")] = \
                dist.get("shared:" + ("ref" if (d["registry"] is not ABSENT and d["registry"][0] == "ref") else "other"), 0) + 1
            if d["registry"] is not ABSENT and d["registry"][0] == "ref":
                # the same call with a freshly constructed equal registry
                vf = verdict_of(execute(freshened(d), K))
                if vf != v:
                    ctx.violation({"kind": "shared-registry-history", "op": d["op"]},
                                  "%s with the caller's shared registry #%d (created with algorithms=%r) and algorithms=%r gave %r as "
                                  "call %d of a history, but %r with a freshly constructed equal registry" % (
                                      d["op"], d["registry"][1], spec_of(d["registry"])["allowed"], d["algorithms"], v, pos, vf),
                                  {"check": "shared", "calls": [describe(x) for x in hist], "index": len(hist) - 1,
                                   "verdict": list(v), "fresh_verdict": list(vf), "blob": replay_blob(K, hist, len(hist) - 1)})
            v0 = first.setdefault(key_of(d), v)
            if v0 != v:
                ctx.violation({"kind": "history-dependent", "op": d["op"], "shared": True},
                              "%s gave %r as call %d of a history over shared registries but %r when first made" % (d["op"], v, pos, v0),
                              {"check": "history", "calls": [describe(x) for x in hist], "index": len(hist) - 1,
                               "first_verdict": list(v0), "verdict": list(v), "blob": replay_blob(K, hist, len(hist) - 1)})
        if not hist:
            continue
        ctx.note_case(("shared-hist", hno, tuple(key_of(x) for x in hist)))
        observed = heap_observed()
        loc_hist = [dict(x, registry=("ref", local[x["registry"][1]])) if (x["registry"] is not ABSENT and x["registry"][0] == "ref")
                    else x for x in hist]
        cases.append("Hist false %s %s %s" % (
            c_list(["CallNewReg %s" % c_regobj(HEAP[i][0]) for i in refs] + [c_call(x) for x in loc_hist]),
            c_list(["VUnit (Ok tt)"] * len(refs) + [c_verdict_for(x, y) for x, y in zip(hist, verdicts)]),
            c_list([c_regobj(observed[i]) for i in refs])))
        meta.append(("shared-history", [describe(x) for x in hist], verdicts))
    dist["shared_registry_history_calls"] = shared_calls
    dist["shared_registries"] = len(HEAP)
    # final sweep: every registry object ever handed to the library still has its contents
    changed = [(r, snap) for r, snap in TRACK if reg_snapshot(r) != snap]
    if changed and not mut_reported:
        r, snap = changed[0]
        ctx.violation({"kind": "caller-registry-mutated", "op": "sweep"},
                      "%d registry objects passed to the library changed: e.g. vars(reg) was %r, is %r" % (
                          len(changed), snap[1], reg_snapshot(r)[1]), {"check": "registry-mutated"})
    dist["registry_objects_tracked"] = len(TRACK)

    # ---- verdicts in a pristine interpreter state (forked before the first call)
    n_fresh = ctx.scale(250, 3000)
    sample = [ctx.rng.choice(pool) for _ in range(min(n_fresh, len(pool)))]
    fresh_bad = 0
    for d, v0 in sample:
        try:
            vf = tuple(pristine.verdict(d))
        except Exception as e:  # noqa
            ctx.notes.append("pristine server failed: %r" % (e,))
            break
        if vf != v0:
            fresh_bad += 1
            ctx.violation({"kind": "history-dependent", "op": d["op"], "fresh": True},
                          "%s gave %r in this run but %r as the first call of a fresh interpreter state" % (d["op"], v0, vf),
                          {"check": "fresh", "call": describe(d), "verdict": list(v0), "fresh_verdict": list(vf),
                           "blob": replay_blob(K, [d], 0)})
    pristine.close()
    dist["fresh_state_comparisons"] = len(sample)

    # ---- the draft algorithms: explicit registration is the only thing that changes verdicts
    dcalls, dverd, dres = drafts_cases(ctx)
    if dcalls is None:
        ctx.notes.append("drafts subprocess failed: %s" % dverd)
    else:
        for d, v in zip(dcalls, dverd):
            cases.append("Hist true [%s] [%s] []" % (c_call(d), c_verdict_for(d, v)))
            meta.append(("drafts-call", d, v))
            ctx.note_case(("drafts", key_of(d)))
        dist["drafts_calls"] = len(dcalls)
        # default sets in the drafts world against the literals of the property text
        for kind, lit in (("jws", REC_JWS), ("alg", REC_JWE_ALG), ("enc", REC_JWE_ENC), ("zip", REC_JWE_ZIP)):
            if set(dres["usable"][kind]) != set(lit):
                ctx.violation({"kind": "default-set", "which": kind, "drafts": True,
                               "diff": sorted(set(dres["usable"][kind]) ^ set(lit))},
                              "after register_ecdh_1pu(); register_chaha20_poly1305() the %s names usable without an explicit "
                              "list are %r, the property says %r" % (kind, dres["usable"][kind], lit),
                              {"check": "default-set", "which": kind, "drafts": True, "usable": dres["usable"][kind], "expected": lit})
        n_ok = 0
        for ent in dres["entries"]:
            d = _from_json(ent["call"])
            if ent["verdict"] is None:
                ctx.notes.append("drafts: %s %s" % (describe(d), ent["note"]))
                continue
            v = tuple(ent["verdict"])
            n_ok += v[0] == "ok"
            ctx.note_case(("drafts-entry", key_of(d)))
            dist["drafts:" + d["op"]] = dist.get("drafts:" + d["op"], 0) + 1
            if ent["direct"]:
                blob = base64.b64encode(pickle.dumps({"keys": dres["keys"], "calls": [d], "index": 0, "heap": [],
                                                      "drafts": True})).decode("ascii")
                ctx.violation({"kind": ent["direct"][0], "op": d["op"], "drafts": True},
                              "after registering the draft algorithms: %s(%s): %s" % (
                                  d["op"], ", ".join("%s=%r" % (k, x) for k, x in d.items()
                                                     if k in ("algs", "enc", "zip", "algorithms", "registry")), ent["direct"][1]),
                              {"check": "direct", "drafts": True, "call": describe(d), "verdict": list(v), "blob": blob})
            cases.append("Hist true [%s] [%s] []" % (c_call(d), c_verdict_for(d, v)))
            meta.append(("drafts-call", d, v))
        dist["drafts_entry_calls"] = len(dres["entries"])
        dist["drafts_entry_ok"] = n_ok
    if snapshot() != snap0 and not state_reported[0]:
        ctx.violation({"kind": "state-changed", "op": "end"}, "process-wide registry state differs at the end of the run",
                      {"check": "state"})

    ctx.coverage["rule"] = ("every call: model verdict == implementation verdict (exception class / returned model name); "
                            "success => every alg/enc/zip is a supported string in the caller's allow-list (recommended literals "
                            "of the property text when none), allowed+supported => success, otherwise UnsupportedAlgorithmError; "
                            "'none' never verifies; registry tables/default registries identical before and after every call; "
                            "verdict of a call inside a history == first verdict == verdict in a forked pristine state")
    ctx.coverage["input_distribution"] = dist
    for i in (0, len(cases) // 3, len(cases) // 2):
        if meta[i][0] == "call":
            ctx.sample({"call": describe(meta[i][1]), "implementation_verdict": list(meta[i][2]),
                        "coq_case (s<i>/k<i> = interned strings)": cases[i][:300]})
    ctx.sample({"usable_without_list": usable})

    # ---- correspondence
    ev = lib.CoqEval(["From Model Require Import Base PyVal TableTypes C05Model C05Cases."], "c05case", "c05_check",
                     "c05_show", shard=400, preamble=intern_preamble(), max_chars=120000)
    t1 = time.time()
    res = ev.run(cases)
    ctx.coverage["phase_wall_s"] = {"prove": round(t_prove, 1), "implementation_runs": round(t1 - t0 - t_prove, 1),
                                    "coq_case_evaluation": round(time.time() - t1, 1)}
    ctx.coverage["traces_validated_against_impl"] = res["evaluated"]
    ctx.coverage["disagreements_checked"] = len(res["failing"])
    direct_n = len(ctx.violations)
    for i in res["failing"][:20]:
        m = meta[i]
        if m[0] in ("call", "drafts-call"):
            sig = {"kind": "correspondence", "op": m[1]["op"]}
            text = "model and implementation disagree on %s %r: implementation gave %r" % (m[1]["op"], describe(m[1]), m[2])
            rep = {"case": cases[i][:2000], "call": describe(m[1]), "verdict": list(m[2]),
                   "blob": replay_blob(K, [m[1]], 0) if m[0] == "call" else None}
        else:
            sig = {"kind": "correspondence", "op": m[0]}
            text = "model and implementation disagree on %s %r" % (m[0], m[1:])
            rep = {"case": cases[i][:2000]}
        rep["no_failing_input_found"] = (direct_n - (0 if ok else 1)) == 0
        rep["broken"] = "correspondence model/C05Cases.v:c05_check vs joserfc registries / entry points"
        ctx.violation(sig, text, rep)
    for si, err in res["errors"]:
        ctx.violation({"kind": "correspondence-error"}, "coqc failed on a generated case file",
                      {"output": err, "no_failing_input_found": True, "broken": "case evaluation"})
    proof_rep["no_failing_input_found"] = (direct_n - (0 if ok else 1)) == 0 and not res["failing"]
    ctx.notes.append("candidate (not raised): algorithms=[] / JWSRegistry(algorithms=[]) behave like None "
                     "(recommended set usable); reading (A) of 'explicit list' would make this a violation")
    ctx.assumptions += [
        "the cryptographic stages are abstract in the model (arbitrary functions); entry-point correspondence is on "
        "well-formed calls (right key, valid header, genuine signature/ciphertext) where the gates decide the outcome",
        "validate_compact returning False is recorded as BadSignatureError",
        "Python `in` / truthiness on allow-list values is the PyVal kernel (py_in, py_truth), validated by the differential run",
        "general JSON JWS with zero members is outside the model (refused separately, see C01)",
    ]
    if not ctx.quick:
        ctx.coqchk()


def replay(path):
    r = json.load(open(path))
    rep = r["replay"]
    print("replay:", {k: v for k, v in rep.items() if k != "blob"})
    from joserfc import jws, jwe
    if rep.get("check") == "default-set":
        tbl = jws.JWSRegistry.algorithms if rep["which"] == "jws" else jwe.JWERegistry.algorithms[rep["which"]]
        recl = jws.JWSRegistry.recommended if rep["which"] == "jws" else jwe.JWERegistry.recommended
        usable = [n for n in tbl if n in recl]
        print("usable without a list:", usable, "expected:", rep["expected"])
        return 0 if set(usable) == set(rep["expected"]) else 1
    if not rep.get("blob"):
        print("no executable call recorded (proof / correspondence level finding): re-run ./check C05")
        return 1
    blob = pickle.loads(base64.b64decode(rep["blob"]))
    if blob.get("drafts"):
        _register_drafts()
    K = Keys(jwks=blob["keys"])
    del HEAP[:], HEAP_SNAP[:], TRACK[:]
    for sd in blob.get("heap", []):
        new_shared(sd)
    SUP = {"jws": list(jws.JWSRegistry.algorithms), "alg": list(jwe.JWERegistry.algorithms["alg"]),
           "enc": list(jwe.JWERegistry.algorithms["enc"]), "zip": list(jwe.JWERegistry.algorithms["zip"])}
    snap0 = snapshot()
    first = {}
    bad = 0
    for i, d in enumerate(blob["calls"]):
        regobj = None if d["registry"] is ABSENT else make_registry(d["registry"])
        rb = None if regobj is None else reg_snapshot(regobj)
        v = verdict_of(execute(d, K, regobj))
        print(i, d["op"], {k: x for k, x in d.items() if k not in ("token", "op")}, "->", v)
        if regobj is not None and reg_snapshot(regobj) != rb:
            print("   the registry passed in was changed: %r -> %r" % (rb[1], reg_snapshot(regobj)[1]))
            bad = 1
        if direct(d, v, SUP):
            print("   direct oracle:", direct(d, v, SUP))
            bad = 1
        if snapshot() != snap0:
            print("   registry state changed")
            bad = 1
        for i, (sd, r) in enumerate(HEAP):
            if reg_snapshot(r) != HEAP_SNAP[i]:
                print("   caller's shared registry #%d changed: %r -> %r" % (i, HEAP_SNAP[i][1], reg_snapshot(r)[1]))
                bad = 1
        if d["registry"] is not ABSENT and d["registry"][0] == "ref":
            vf = verdict_of(execute(freshened(d), K))
            if vf != v:
                print("   verdict with a freshly constructed equal registry:", vf)
                bad = 1
        if first.setdefault(key_of(d), v) != v:
            print("   verdict differs from the first time")
            bad = 1
    if rep.get("check") == "message":
        vs = [verdict_of(execute(x, K)) for x in blob["calls"]]
        if len(set(vs)) > 1:
            print("   verdicts differ between message contents:", vs)
            bad = 1
    if rep.get("check") in ("history", "fresh"):
        want = tuple(rep.get("first_verdict") or rep.get("fresh_verdict") or ())
        d = blob["calls"][blob["index"]]
        v = verdict_of(execute(d, K))
        if want and v != want:
            bad = 1
    return bad
