"""C09 — JWT encode/decode is faithful and yields only JSON-object claims."""
import copy, json, datetime, math, struct, base64
import lib
from lib import c_hex, c_Z, c_list, c_exn, exn_class, c_flt, c_bool

TD = datetime.timedelta
UTC = datetime.timezone.utc
EPOCH_AWARE = datetime.datetime(1970, 1, 1, tzinfo=UTC)
EPOCH_NAIVE = datetime.datetime(1970, 1, 1)
MIN_SECS, MAX_SECS = -62135596800, 253402300799      # 0001-01-01T00:00:00 .. 9999-12-31T23:59:59
ND_KEYS = ("exp", "nbf", "iat")                      # from the property text


# --------------------------------------------------------------------------
# Coq printers with interned strings: string literals dominate the time and memory coqc needs
# for a generated case file, so the strings of the generator pools are defined once per file
# --------------------------------------------------------------------------
INTERN = {}


def intern_pool(strings):
    for x in strings:
        if isinstance(x, str) and x not in INTERN:
            INTERN[x] = "s%d_" % len(INTERN)


def preamble():
    return "\n".join("Definition %s : list N := %s." % (nm, lib.c_str(x)) for x, nm in INTERN.items()) + "\n"


def c_str(x):
    return INTERN.get(x) or lib.c_str(x)


def c_pv(v):
    """lib.c_pv with interned strings (fail-closed on anything that is not a JSON-ish value)"""
    if v is None:
        return "PNone"
    if v is True or v is False:
        return "(PBool %s)" % c_bool(v)
    if isinstance(v, int):
        return "(PInt %s)" % c_Z(v)
    if isinstance(v, float):
        return "(PFloat %s)" % c_flt(v)
    if isinstance(v, str):
        return "(PStr %s)" % c_str(v)
    if isinstance(v, (bytes, bytearray)):
        return "(PBytes %s)" % c_hex(bytes(v))
    if isinstance(v, (list, tuple)):
        return "(PList %s)" % c_list([c_pv(x) for x in v])
    if isinstance(v, dict):
        items = []
        for k, x in v.items():
            if not isinstance(k, str):
                raise TypeError("c_pv: non-str dict key %r" % (k,))
            items.append("(%s, %s)" % (c_str(k), c_pv(x)))
        return "(PDict %s)" % c_list(items)
    raise TypeError("c_pv: cannot render %r" % (type(v),))


# --------------------------------------------------------------------------
# helpers
# --------------------------------------------------------------------------
def call(f, *a, **kw):
    try:
        return ("ok", f(*a, **kw))
    except RecursionError as e:
        return ("err", e)
    except Exception as e:  # noqa
        return ("err", e)


def ecls(e):
    return exn_class(e)


def c_res(r, okf):
    if r[0] == "ok":
        return "(Ok %s)" % okf(r[1])
    return "(Err %s)" % c_exn(ecls(r[1]))


def indep_numericdate(dt):
    """Independent of calendar.timegm: exact floor of the UTC seconds since the epoch."""
    if dt.tzinfo is None or dt.utcoffset() is None:
        delta = dt - EPOCH_NAIVE          # naive values are taken as UTC
    else:
        delta = dt - EPOCH_AWARE
    return delta // TD(seconds=1)        # floor division, exact integer arithmetic


def c_dt(dt):
    off = dt.utcoffset() if dt.tzinfo is not None else None
    if off is not None:
        if off.microseconds:
            raise TypeError("sub-second utcoffset is outside the model")
        o = "(Some %s)" % c_Z(off.days * 86400 + off.seconds)
    else:
        o = "None"
    return "(mkdt %s %s %s %s %s %s %s %s)" % (
        c_Z(dt.year), c_Z(dt.month), c_Z(dt.day), c_Z(dt.hour), c_Z(dt.minute), c_Z(dt.second),
        c_Z(dt.microsecond), o)


def c_cval(v):
    if isinstance(v, datetime.datetime):
        return "(CDt %s)" % c_dt(v)
    return "(CV %s)" % c_pv(v)


def c_claims(c):
    return c_list(["(%s, %s)" % (c_str(k), c_cval(v)) for k, v in c.items()])


def c_hdr(h):
    return c_list(["(%s, %s)" % (c_str(k), c_pv(v)) for k, v in h.items()])


def c_blob(b):
    """Tokens and payloads are opaque to the model (only their identity matters: they are
    looked up in the recorded oracle tables), so long ones are represented by a digest."""
    import hashlib
    if isinstance(b, str):
        b = b.encode("utf-8")
    b = bytes(b)
    # one-element octet-string "name": the digest as a single number (number literals are much
    # cheaper for coqc than string literals)
    return "[0x%s]" % hashlib.sha256(b).hexdigest()[:30]


def _list_spans(term):
    """(start, end) of every balanced [...] outside string literals"""
    spans, stack, i, n = [], [], 0, len(term)
    while i < n:
        ch = term[i]
        if ch == '"':
            i = term.index('"', i + 1)
        elif ch == "[":
            stack.append(i)
        elif ch == "]":
            spans.append((stack.pop(), i + 1))
        i += 1
    return spans


def share(term, minlen=48):
    """Bind list sub-terms that occur several times in a case (header before/after, claims and
    their JSON image, ...) with let: the generated files get much smaller."""
    from collections import Counter
    cnt = Counter(term[a:b] for a, b in _list_spans(term) if b - a >= minlen)
    lets = []
    for t in sorted((t for t, c in cnt.items() if c >= 2), key=len, reverse=True):
        if term.count(t) >= 2:
            name = "sh%d_" % len(lets)
            term = term.replace(t, name)
            lets.append((name, t))
    if not lets:
        return term
    return "(" + "".join("let %s := %s in " % (nm, t) for nm, t in lets) + term + ")"


def shard_bounds(cases, shard, max_chars):
    bounds, start, size = [], 0, 0
    for i, c in enumerate(cases):
        if i > start and (i - start >= shard or size + len(c) > max_chars):
            bounds.append((start, i)); start, size = i, 0
        size += len(c)
    if cases:
        bounds.append((start, len(cases)))
    return bounds


def run_eval(ev, cases):
    """CoqEval; shards whose coqc died (out of memory / time on a loaded machine) are retried
    with 2 jobs, then one at a time."""
    res = ev.run(cases, jobs=8)
    ends = dict(shard_bounds(cases, ev.shard, ev.max_chars))
    for jobs in (2, 1):
        if not res["errors"]:
            break
        errors = []
        for si, err in res["errors"]:
            sj = ends.get(si)
            if sj is None:
                errors.append((si, err))
                continue
            sub = ev.run(cases[si:sj], jobs=jobs)
            res["evaluated"] += sub["evaluated"]
            res["failing"] += [si + i for i in sub["failing"]]
            for k, v in sub["shows"].items():
                res["shows"][si + k] = v
            errors += [(si, e) for k, e in sub["errors"]]
        res["errors"] = errors
    res["failing"].sort()
    return res


def c_some(x):
    return "None" if x is None else "(Some %s)" % x


def json_equal(a, b):
    """Equality as JSON values: same JSON type (true is not 1, 1 is not 1.0), numbers by ==."""
    if isinstance(a, bool) or isinstance(b, bool):
        return isinstance(a, bool) and isinstance(b, bool) and a == b
    if a is None or b is None:
        return a is None and b is None
    if isinstance(a, int) and isinstance(b, int):
        return a == b
    if isinstance(a, float) and isinstance(b, float):
        return a == b
    if isinstance(a, str) and isinstance(b, str):
        return a == b
    if isinstance(a, list) and isinstance(b, list):
        return len(a) == len(b) and all(json_equal(x, y) for x, y in zip(a, b))
    if isinstance(a, dict) and isinstance(b, dict):
        return a.keys() == b.keys() and all(json_equal(a[k], b[k]) for k in a)
    return False


def is_json_value(v):
    """JSON value in the sense of the property: no NaN/Infinity, no bytes, str names,
    strings without lone surrogates"""
    if v is None or isinstance(v, (bool, int)):
        return True
    if isinstance(v, float):
        return math.isfinite(v)
    if isinstance(v, str):
        try:
            v.encode("utf-8")
            return True
        except UnicodeEncodeError:
            return False
    if isinstance(v, list):
        return all(is_json_value(x) for x in v)
    if isinstance(v, dict):
        return all(isinstance(k, str) and is_json_value(k) and is_json_value(x) for k, x in v.items())
    return False


def wire_header(tok):
    """the JSON object in the first segment of a compact token, parsed here (not by joserfc)"""
    try:
        seg = (tok.decode("ascii") if isinstance(tok, bytes) else tok).split(".")[0]
        v = json.loads(base64.urlsafe_b64decode(seg + "=" * (-len(seg) % 4)))
    except Exception:  # noqa
        return None
    return v if isinstance(v, dict) else None


def b64u(b):
    return base64.urlsafe_b64encode(b).rstrip(b"=")


# --------------------------------------------------------------------------
# generators
# --------------------------------------------------------------------------
STRS = ["", "a", "sub", "é", " ", "\U0001F600", "\U0001F468‍\U0001F469", 'q"uo\\te', "\x00\x1f", "a/b",
        "line\nbreak\r", "tab\t", "\x7f", "ü" * 5, "中文", "  ", "﻿", "\\u0041", "\U00010000",
        "\U0010FFFF", "퟿", "</script>", "𝒳", "é", "x" * 200, "\x08\x0c"]
KEYS = ["a", "b", "sub", "iss", "aud", "jti", "ünï", "\U0001F511", "", "k y", 'q"', "\\", "nested", "exp", "nbf", "iat",
        "auth_time", "\u0000", "中"]
INTS = [0, 1, -1, 2, 255, 2 ** 31 - 1, 2 ** 31, -2 ** 31, 2 ** 53 - 1, 2 ** 53, 2 ** 53 + 1, 2 ** 63 - 1, 2 ** 63, 2 ** 64,
        -2 ** 63 - 1, 2 ** 70, -2 ** 70, 10 ** 18, 1700000000, 4102444800]
FLOATS = [0.5, -0.0, 0.0, 1e308, 1.7976931348623157e308, 5e-324, 2.2250738585072014e-308, 2.225073858507201e-308,
          1.5e10, 3.14, 0.1, 1 / 3, 1e-7, 1e16, 1e22, 1e23, 123456789.12345679, -1e-310, 1.0, -1.0, 1700000000.5,
          9007199254740993.0, 4.35, 0.30000000000000004, 1e21, 1e-5]


def rand_float(rng):
    while True:
        x = struct.unpack(">d", struct.pack(">Q", rng.getrandbits(64)))[0]
        if math.isfinite(x):
            return x


def gen_value(rng, depth, maxdepth):
    k = rng.randrange(9 if depth < maxdepth else 6)
    if k == 0:
        return rng.choice(STRS)
    if k == 1:
        return rng.choice(INTS) if rng.random() < 0.6 else rng.randrange(-2 ** 70, 2 ** 70)
    if k == 2:
        return rng.choice([True, False])
    if k == 3:
        return None
    if k == 4:
        return rng.choice(FLOATS) if rng.random() < 0.6 else rand_float(rng)
    if k == 5:
        return "".join(chr(rng.choice([rng.randrange(0x20, 0x7f), rng.randrange(0xa0, 0xd800),
                                       rng.randrange(0xe000, 0x10000), rng.randrange(0x10000, 0x110000),
                                       rng.randrange(0, 0x20)])) for _ in range(rng.randrange(0, 6)))
    if k in (6, 7):
        return [gen_value(rng, depth + 1, maxdepth) for _ in range(rng.randrange(0, 4))]
    return {rng.choice(KEYS): gen_value(rng, depth + 1, maxdepth) for _ in range(rng.randrange(0, 4))}


def is_leap(y):
    return y % 4 == 0 and (y % 100 != 0 or y % 400 == 0)


def gen_tz(rng):
    k = rng.randrange(10)
    if k < 3:
        return None
    if k == 3:
        return UTC
    if k < 8:      # -12:00 .. +14:00 in minutes, including non-zero minutes
        return datetime.timezone(TD(minutes=rng.choice(
            [-720, -570, -210, -1, 1, 30, 330, 345, 525, 765, 840, rng.randrange(-720, 841)])))
    if k == 8:     # whole hours
        return datetime.timezone(TD(hours=rng.randrange(-12, 15)))
    return datetime.timezone(TD(seconds=rng.choice([1, -1, 59, 3601, -86399, 86399, rng.randrange(-43200, 50401)])))


def gen_dt(rng):
    k = rng.randrange(20)
    if k < 14:
        y = rng.randrange(1970, 2101)
    elif k < 17:
        y = rng.choice([1900, 1901, 1904, 1950, 1968, 1969, 1583, 1600, 1700, 1800, 1, 2, 9999, 9998, 2400, 4000])
    else:
        y = rng.choice([1970, 1972, 2000, 2024, 2038, 2096, 2100, 2099])
    mo = rng.choice([1, 2, 2, 3, 12, rng.randrange(1, 13)])
    dim = [31, 29 if is_leap(y) else 28, 31, 30, 31, 30, 31, 31, 30, 31, 30, 31][mo - 1]
    d = rng.choice([1, dim, dim, rng.randrange(1, dim + 1), min(28, dim)])
    h = rng.choice([0, 23, rng.randrange(24)])
    mi = rng.choice([0, 59, rng.randrange(60)])
    s = rng.choice([0, 59, rng.randrange(60)])
    us = rng.choice([0, 0, 1, 999999, 500000, rng.randrange(1000000)])
    return datetime.datetime(y, mo, d, h, mi, s, us, tzinfo=gen_tz(rng))


def tz(**kw):
    return datetime.timezone(TD(**kw))


BOUNDARY_DTS = [
    datetime.datetime(1970, 1, 1), datetime.datetime(1970, 1, 1, tzinfo=UTC),
    datetime.datetime(1970, 1, 1, 14, 0, tzinfo=tz(hours=14)), datetime.datetime(1969, 12, 31, 12, 0, tzinfo=tz(hours=-12)),
    datetime.datetime(1969, 12, 31, 23, 59, 59, 999999), datetime.datetime(1969, 12, 31, 23, 59, 59, 1, tzinfo=UTC),
    datetime.datetime(1970, 1, 1, 0, 0, 0, 999999), datetime.datetime(1970, 1, 1, 5, 45, tzinfo=tz(hours=5, minutes=45)),
    datetime.datetime(2000, 2, 29, 23, 59, 59), datetime.datetime(2000, 3, 1), datetime.datetime(1900, 2, 28, 23, 59, 59),
    datetime.datetime(1900, 3, 1), datetime.datetime(2100, 2, 28, 23, 59, 59, tzinfo=UTC), datetime.datetime(2100, 3, 1),
    datetime.datetime(2024, 2, 29, 23, 30, tzinfo=tz(hours=-1)), datetime.datetime(2024, 3, 1, 6, 15, 0, 5, tzinfo=tz(hours=5, minutes=45)),
    datetime.datetime(2024, 12, 31, 23, 59, 59, tzinfo=tz(hours=-12)), datetime.datetime(2025, 1, 1, 0, 0, 0, tzinfo=tz(hours=14)),
    datetime.datetime(2038, 1, 19, 3, 14, 7), datetime.datetime(2038, 1, 19, 3, 14, 8), datetime.datetime(2106, 2, 7, 6, 28, 16),
    datetime.datetime(1, 1, 1), datetime.datetime(1, 1, 1, tzinfo=UTC), datetime.datetime(1, 1, 1, tzinfo=tz(hours=1)),
    datetime.datetime(1, 1, 1, 0, 59, 59, tzinfo=tz(hours=1)), datetime.datetime(1, 1, 1, 1, 0, 0, tzinfo=tz(hours=1)),
    datetime.datetime(1, 1, 1, tzinfo=tz(seconds=1)), datetime.datetime(1, 1, 1, tzinfo=tz(seconds=-1)),
    datetime.datetime(9999, 12, 31, 23, 59, 59, 999999), datetime.datetime(9999, 12, 31, 23, 59, 59, 999999, tzinfo=UTC),
    datetime.datetime(9999, 12, 31, 23, 59, 59, tzinfo=tz(hours=-1)), datetime.datetime(9999, 12, 31, 23, 0, 0, tzinfo=tz(hours=-1)),
    datetime.datetime(9999, 12, 31, 22, 59, 59, 999999, tzinfo=tz(hours=-1)), datetime.datetime(9999, 12, 31, 23, 59, 59, tzinfo=tz(seconds=-1)),
    datetime.datetime(9999, 12, 31, 23, 59, 59, tzinfo=tz(hours=14)),
]


def gen_claims(rng, maxdepth=5):
    c = {}
    for _ in range(rng.randrange(0, 6)):
        c[rng.choice(KEYS)] = gen_value(rng, 1, maxdepth)
    for k in ("exp", "nbf", "iat"):
        r = rng.random()
        if r < 0.45:
            c[k] = gen_dt(rng) if rng.random() < 0.85 else rng.choice(BOUNDARY_DTS)
        elif r < 0.6:
            c[k] = rng.choice([1700000000, 1700000000.5, 0, -1, 2 ** 40, "1700000000", None, True])
        elif r < 0.65 and k in c:
            del c[k]
    if rng.random() < 0.3:      # change the position of the NumericDate members
        items = list(c.items())
        rng.shuffle(items)
        c = dict(items)
    return c


def expected_claims(c):
    """The claims as they must come back, computed independently of the implementation."""
    out = {}
    for k, v in c.items():
        if isinstance(v, datetime.datetime):
            if k not in ND_KEYS:
                return None                   # not encodable: outside the property
            n = indep_numericdate(v)
            if v.tzinfo is not None and not (MIN_SECS <= n <= MAX_SECS):
                return None                   # utctimetuple() leaves the datetime range
            out[k] = n
        else:
            out[k] = v
    return out


# --------------------------------------------------------------------------
# transports, keys
# --------------------------------------------------------------------------
class World:
    """Keys are generated once per run (RSA: one 2048-bit key)."""

    def __init__(self, rng):
        from joserfc.jwk import OctKey, ECKey, OKPKey, RSAKey, KeySet
        from joserfc.jwe import JWERegistry
        from joserfc.jws import JWSRegistry
        self.KeySet, self.JWERegistry, self.JWSRegistry = KeySet, JWERegistry, JWSRegistry

        def oct_(n, kid):
            # printable ASCII so that the same secret can be given as Key, bytes or str
            return OctKey.import_key(bytes(rng.randrange(33, 127) for _ in range(n)), {"kid": kid})
        self.keys = {
            "oct16": [oct_(16, "o16-a"), oct_(16, "o16-b")],
            "oct32": [oct_(32, "o32-a"), oct_(32, "o32-b")],
            "oct48": [oct_(48, "o48-a"), oct_(48, "o48-b")],
            "oct64": [oct_(64, "o64-a"), oct_(64, "o64-b")],
            "pw": [oct_(12, "pw-a"), oct_(20, "pw-b")],
            "ec": [ECKey.generate_key("P-256", {"kid": "ec-a"}), ECKey.generate_key("P-256", {"kid": "ec-b"})],
            "okp": [OKPKey.generate_key("Ed25519", {"kid": "ed-a"}), OKPKey.generate_key("Ed25519", {"kid": "ed-b"})],
            "rsa": [RSAKey.generate_key(2048, {"kid": "rsa-a"})],
        }
        # (name, kind, base header, key family, members the algorithm may add to the header)
        self.transports = [
            ("HS256", "jws", {"alg": "HS256"}, "oct32", ()),
            ("HS384", "jws", {"alg": "HS384"}, "oct48", ()),
            ("HS512", "jws", {"alg": "HS512"}, "oct64", ()),
            ("ES256", "jws", {"alg": "ES256"}, "ec", ()),
            ("EdDSA", "jws", {"alg": "EdDSA"}, "okp", ()),
            ("RS256", "jws", {"alg": "RS256"}, "rsa", ()),
            ("dir+A128GCM", "jwe", {"alg": "dir", "enc": "A128GCM"}, "oct16", ()),
            ("A128KW+A128CBC-HS256", "jwe", {"alg": "A128KW", "enc": "A128CBC-HS256"}, "oct16", ()),
            ("A128GCMKW+A128GCM", "jwe", {"alg": "A128GCMKW", "enc": "A128GCM"}, "oct16", ("iv", "tag")),
            ("ECDH-ES+A128KW", "jwe", {"alg": "ECDH-ES+A128KW", "enc": "A128GCM"}, "ec", ("epk",)),
            ("PBES2-HS256+A128KW", "jwe", {"alg": "PBES2-HS256+A128KW", "enc": "A128GCM", "p2c": 8}, "pw", ("p2s", "p2c")),
        ]

    def registry(self, kind, base, strict):
        algs = [base["alg"]] + ([base["enc"]] if "enc" in base else [])
        if kind == "jwe":
            return self.JWERegistry(algorithms=algs, strict_check_header=strict)
        return self.JWSRegistry(algorithms=algs, strict_check_header=strict)

    def key_form(self, fam, form):
        ks = self.keys[fam]
        if form == "key":
            return ks[0], [ks[0].kid]
        if form == "callable":
            k = ks[0]
            return (lambda obj: k), [k.kid]
        if form == "keyset":
            return self.KeySet(list(ks)), [k.kid for k in ks]
        if form == "callable-keyset":
            s = self.KeySet(list(ks))
            return (lambda obj: s), [k.kid for k in ks]
        if form in ("bytes", "str"):            # deprecated but supported: the raw secret of an oct key
            raw = ks[0].raw_value
            return (raw if form == "bytes" else raw.decode("ascii")), []
        raise ValueError(form)

    def decode_key(self, fam, dform, signer):
        """the verifier's / recipient's key in the given form, holding the key that was used"""
        ks = self.keys[fam]
        if dform == "key":
            return signer
        if dform == "callable":
            return lambda obj: signer
        if dform in ("keyset1", "callable-keyset1"):
            s = self.KeySet([signer])
        elif dform in ("keyset", "callable-keyset"):
            s = self.KeySet(list(ks))
        elif dform in ("bytes", "str"):
            raw = signer.raw_value
            return raw if dform == "bytes" else raw.decode("ascii")
        else:
            raise ValueError(dform)
        return (lambda obj: s) if dform.startswith("callable") else s

    def forms(self, fam):
        e = ["key", "keyset", "callable", "callable-keyset"]
        d = ["key", "keyset1", "keyset", "callable", "callable-keyset", "callable-keyset1"]
        if fam.startswith("oct") or fam == "pw":
            e, d = e + ["bytes", "str"], d + ["bytes", "str"]
        return e, d


REG_EXTRAS = [("cty", "JWT"), ("cty", "example;part=\"1/2\""), ("x5t", "dGh1bWI"), ("jku", "https://example.com/jwks"),
              ("x5u", "https://example.com/x"), ("x5c", ["MIIB", "MIIC"]), ("x5t#S256", "abc")]
FREE_EXTRAS = [("foo", [1, {"a": None}]), ("ünï", "✓"), ("n", 2 ** 70), ("f", 1.5), ("b", True), ("nul", None),
               ("\U0001F600", {"k": ["v", 1, False]}), ("iss", "https://issuer"), ("", "empty")]
TYPS = ["JWT", "at+jwt", "jwt", "", "JOSE", "application/jwt", "dpop+jwt", "é\U0001F600"]


def _strings_of(v):
    if isinstance(v, str):
        yield v
    elif isinstance(v, (list, tuple)):
        for x in v:
            yield from _strings_of(x)
    elif isinstance(v, dict):
        for k, x in v.items():
            yield k
            yield from _strings_of(x)


intern_pool(STRS + KEYS + TYPS + list(_strings_of(REG_EXTRAS)) + list(_strings_of(FREE_EXTRAS)) +
            ["alg", "enc", "typ", "kid", "JWT", "p2c", "p2s", "epk", "iv", "tag", "kty", "crv", "x", "y", "EC", "P-256",
             "1700000000", "2030-01-01", "admin", "alice", "JWT2", "zip", "DEF", "crit", "apu", "apv", "QWxpY2U", "Qm9i", "Qm9iMg",
             "8J-YgA", "cty", "jti", "pad", "A192CBC-HS384", "A256CBC-HS512", "A256GCM", "A128CBC-HS256", "dir", "role", "guest", "xcu", "xcn", "custom-value", "cfg", "RSA-OAEP"])


def gen_header(rng, base, kids, form):
    """-> (header dict, strict)"""
    items = list(base.items())
    strict = True
    extra = []
    r = rng.random()
    if r < 0.5:
        extra.append(("typ", rng.choice(TYPS)))
    if rng.random() < 0.35:
        # an explicit kid must name a key when a key set is used
        extra.append(("kid", rng.choice(kids) if "keyset" in form else rng.choice(kids + ["any-kid", "é"])))
    for _ in range(rng.choice([0, 0, 1, 2])):
        extra.append(rng.choice(REG_EXTRAS))
    if "enc" in base:                       # members only the JWE transport knows
        if rng.random() < 0.35:
            extra.append(("zip", "DEF"))
        if base["alg"].startswith("ECDH-ES") and rng.random() < 0.4:
            extra += [("apu", rng.choice(["QWxpY2U", "", "8J-YgA"])), ("apv", rng.choice(["Qm9i", "Qm9iMg"]))][:rng.choice([1, 2])]
    if rng.random() < 0.15:                 # crit naming registered members that are present
        names = [k for k, _ in items + extra if k not in ("alg", "enc", "crit")]
        if names:
            extra.append(("crit", rng.sample(names, min(len(names), rng.choice([1, 2])))))
    if rng.random() < 0.25:
        strict = False
        for _ in range(rng.choice([1, 2])):
            extra.append(rng.choice(FREE_EXTRAS))
    items += extra
    if rng.random() < 0.5:
        rng.shuffle(items)          # typ / kid / alg in any position
    return dict(items), strict


# --------------------------------------------------------------------------
# recording of what jwt.encode / jwt.decode hand to the transport
# --------------------------------------------------------------------------
# --------------------------------------------------------------------------
# optional arguments: encoder / decoder classes, algorithms=, registry=
# --------------------------------------------------------------------------
import uuid, decimal


class TrivialEncoder(json.JSONEncoder):
    pass


class RichEncoder(json.JSONEncoder):
    """default() for UUID / Decimal / datetime"""

    def default(self, o):
        if isinstance(o, uuid.UUID):
            return str(o)
        if isinstance(o, decimal.Decimal):
            return str(o)
        if isinstance(o, datetime.datetime):
            return o.isoformat()
        return super().default(o)


class TrivialDecoder(json.JSONDecoder):
    pass


class HookAddDecoder(json.JSONDecoder):
    """object_hook that keeps objects objects (adds a member)"""

    def __init__(self, **kw):
        kw["object_hook"] = lambda d: {**d, "hooked": True}
        super().__init__(**kw)


class HookListDecoder(json.JSONDecoder):
    """object_hook that turns every object into the list of its members"""

    def __init__(self, **kw):
        kw["object_hook"] = lambda d: [[k, v] for k, v in d.items()]
        super().__init__(**kw)


class HookNoneDecoder(json.JSONDecoder):
    def __init__(self, **kw):
        kw["object_hook"] = lambda d: None
        super().__init__(**kw)


class PairsStrDecoder(json.JSONDecoder):
    """object_pairs_hook returning a str"""

    def __init__(self, **kw):
        kw["object_pairs_hook"] = lambda p: "obj:%d" % len(p)
        super().__init__(**kw)


class ParseFloatDecoder(json.JSONDecoder):
    def __init__(self, **kw):
        kw["parse_float"] = lambda s: "f:" + s
        kw["parse_int"] = lambda s: int(s) if len(s) < 15 else "i:" + s
        super().__init__(**kw)


class TypeErrorDecoder(json.JSONDecoder):
    """a hook that raises TypeError on objects"""

    def __init__(self, **kw):
        def hook(d):
            raise TypeError("unhashable claims")
        kw["object_hook"] = hook
        super().__init__(**kw)


class KeyErrorDecoder(json.JSONDecoder):
    """a hook that raises an exception jwt.decode does not catch"""

    def __init__(self, **kw):
        def hook(d):
            raise KeyError("sub")
        kw["object_hook"] = hook
        super().__init__(**kw)


ENCODERS = [(None, None), (1, json.JSONEncoder), (2, TrivialEncoder), (3, RichEncoder)]
STD_DECODERS = [(None, None), (1, json.JSONDecoder), (2, TrivialDecoder)]
HOOK_DECODERS = [(3, HookAddDecoder), (4, HookListDecoder), (5, HookNoneDecoder), (6, PairsStrDecoder), (7, ParseFloatDecoder), (8, TypeErrorDecoder),
                 (9, KeyErrorDecoder)]
DECODERS = STD_DECODERS + HOOK_DECODERS


def c_oN(i):
    return "None" if i is None else "(Some %d%%N)" % i


def obj_id(v):
    import hashlib
    return int(hashlib.sha256(repr(v).encode()).hexdigest()[:10], 16)


def c_cval(v):
    if isinstance(v, datetime.datetime):
        return "(CDt %s)" % c_dt(v)
    if isinstance(v, (uuid.UUID, decimal.Decimal)):
        return "(CObj %d%%N)" % obj_id(v)
    return "(CV %s)" % c_pv(v)


def expected_after(c):
    """The caller's claims dict after convert_claims, computed independently (None: some
    NumericDate conversion leaves the datetime range, the loop stops half way)."""
    out = {}
    for k, v in c.items():
        if isinstance(v, datetime.datetime) and k in ND_KEYS:
            n = indep_numericdate(v)
            if v.tzinfo is not None and not (MIN_SECS <= n <= MAX_SECS):
                return None
            out[k] = n
        else:
            out[k] = v
    return out


def own_loads(payload, dec_cls):
    """json.loads(payload, cls=decoder_cls) -> (coq term of the result, ('ok', value) | ('err', e))"""
    try:
        v = json.loads(payload, cls=dec_cls)
    except RecursionError as e:
        return "(Err ERuntime)", ("err", e)
    except ValueError as e:
        return "(Err EValue)", ("err", e)
    except TypeError as e:
        return "(Err EType)", ("err", e)
    except Exception as e:      # a hook may raise anything; jwt.decode lets it through
        return "(Err %s)" % c_exn(ecls(e)), ("other", e)
    return "(Ok %s)" % c_pv(v), ("ok", v)


CUSTOM_HEADER = ("xcu", "custom-value")


def custom_header_registry():
    from joserfc.registry import HeaderParameter
    return {"xcu": HeaderParameter("Caller-registered parameter", "str"), "xcn": HeaderParameter("Caller-registered int", "int")}


class Options:
    """One choice of the optional arguments of jwt.encode / jwt.decode.
    mode: 'reg' registry= only; 'algs' algorithms= (JWE: plus a plain JWERegistry() to select
    the transport); 'both'; 'default' nothing (JWE: plain JWERegistry()); 'reg-nondefault'
    registry with non-default settings (strict_check_header=False, JWE: verify_all_recipients=False)."""

    def __init__(self, W, kind, base, mode, strict=True, positional=False):
        algs = [base["alg"]] + ([base["enc"]] if "enc" in base else []) + ([base["zip"]] if "zip" in base else [])
        self.kind, self.mode, self.positional = kind, mode, positional
        self.algorithms, self.registry = None, None
        if kind == "jws":
            if mode in ("reg", "both"):
                self.registry = W.JWSRegistry(algorithms=algs, strict_check_header=strict)
            elif mode == "reg-nondefault":
                self.registry = W.JWSRegistry(algorithms=algs, strict_check_header=False)
            elif mode == "reg-custom":        # the caller registers an own header parameter (strict checking stays on)
                self.registry = W.JWSRegistry(header_registry=custom_header_registry(), algorithms=algs)
            if mode in ("algs", "both"):
                self.algorithms = list(algs)
        else:
            if mode == "reg":
                self.registry = W.JWERegistry(algorithms=algs, strict_check_header=strict)
            elif mode == "reg-nondefault":
                self.registry = W.JWERegistry(algorithms=algs, strict_check_header=False, verify_all_recipients=False)
            elif mode == "reg-custom":
                self.registry = W.JWERegistry(header_registry=custom_header_registry(), algorithms=algs)
            elif mode == "both":
                self.registry = W.JWERegistry(algorithms=algs, strict_check_header=strict)
            else:
                self.registry = W.JWERegistry()
            if mode in ("algs", "both"):
                self.algorithms = list(algs)

    def call_args(self, key, cls):
        """-> (args, kwargs) after (header, claims) / (value,)"""
        if self.positional:
            return (key, self.algorithms, self.registry, cls), {}
        kw = {}
        if self.algorithms is not None:
            kw["algorithms"] = self.algorithms
        if self.registry is not None:
            kw["registry"] = self.registry
        if cls is not None:
            kw["encoder_cls" if cls in [e for _, e in ENCODERS] else "decoder_cls"] = cls
        return (key,), kw

    def targs(self):
        return self.targs_of(1, self.algorithms, self.registry, self.registry)

    def targs_of(self, key_id, algs, reg, mine):
        from joserfc.jwe import JWERegistry
        a = "None" if algs is None else "(Some %s)" % c_list([c_str(x) for x in algs])
        if reg is None:
            r = "None"
        else:
            r = "(Some (%s, %d%%N))" % (c_bool(isinstance(reg, JWERegistry)), 1 if reg is mine else 2)
        return "(mkta %d%%N %s %s)" % (key_id, a, r)


def modes_for(W, kind, base, strict):
    """the ways of passing algorithms / registry that are usable for this transport and header"""
    algs = [base["alg"]] + ([base["enc"]] if "enc" in base else []) + ([base["zip"]] if "zip" in base else [])
    if not strict:
        return ["reg", "reg-nondefault"]
    out = ["reg", "algs", "both", "reg-nondefault"]
    rec = W.JWSRegistry.recommended if kind == "jws" else W.JWERegistry.recommended
    if all(a in rec for a in algs):
        out.append("default")
    return out


class Recorder:
    NAMES = ("serialize_compact", "encrypt_compact", "deserialize_compact", "decrypt_compact")

    def __init__(self, key=None):
        from joserfc import jwt as J
        self.J = J
        self.real = {n: getattr(J, n) for n in self.NAMES}
        self.calls = []
        self.key = key

    @staticmethod
    def _args(a, kw, first):
        names = (first, "algorithms", "registry")
        vals = list(a[:3]) + [None] * (3 - len(a[:3]))
        for i, n in enumerate(names):
            if n in kw:
                vals[i] = kw[n]
        return vals

    def __enter__(self):
        J = self.J

        def mk_enc(name):
            real = self.real[name]

            def spy(protected, payload, *a, **kw):
                k, algs, reg = self._args(a, kw, "private_key" if name == "serialize_compact" else "public_key")
                rec = {"fn": name, "jwe": name == "encrypt_compact", "w_in": copy.deepcopy(protected), "payload": payload,
                       "key_id": 1 if k is self.key else 2, "algs": copy.deepcopy(algs), "reg": reg}
                self.calls.append(rec)
                try:
                    out = real(protected, payload, *a, **kw)
                    rec["out"] = ("ok", out)
                    return out
                except BaseException as e:
                    rec["out"] = ("err", e)
                    raise
                finally:
                    rec["w_after"] = copy.deepcopy(protected)
            return spy

        def mk_dec(name):
            real = self.real[name]

            def spy(value, *a, **kw):
                k, algs, reg = self._args(a, kw, "public_key" if name == "deserialize_compact" else "private_key")
                rec = {"fn": name, "jwe": name == "decrypt_compact", "value": value,
                       "key_id": 1 if k is self.key else 2, "algs": copy.deepcopy(algs), "reg": reg}
                self.calls.append(rec)
                try:
                    obj = real(value, *a, **kw)
                    body = obj.payload if name == "deserialize_compact" else obj.plaintext
                    rec["out"] = ("ok", (copy.deepcopy(obj.headers()), body))
                    return obj
                except BaseException as e:
                    rec["out"] = ("err", e)
                    raise
            return spy
        J.serialize_compact = mk_enc("serialize_compact")
        J.encrypt_compact = mk_enc("encrypt_compact")
        J.deserialize_compact = mk_dec("deserialize_compact")
        J.decrypt_compact = mk_dec("decrypt_compact")
        return self

    def __exit__(self, *a):
        for n, f in self.real.items():
            setattr(self.J, n, f)

    def take(self):
        c, self.calls = self.calls, []
        return c


# --------------------------------------------------------------------------
# the run
# --------------------------------------------------------------------------
def run(ctx):
    from joserfc import jwt, jws, jwe
    from joserfc.errors import InvalidPayloadError
    from joserfc.rfc7519.claims import convert_claims
    ok, log = ctx.prove(extra_targets=["model/C09Cases.vo"])
    rng = ctx.rng
    W = World(rng)
    intern_pool([k.kid for ks in W.keys.values() for k in ks] + list(_strings_of([t[2] for t in W.transports])) +
                ["hooked", "f:1.5", "obj:1", "obj:0", "obj:2", "not-a-kid-of-the-set", "n", "f"])

    cases, meta = [], []
    dist = {"encode_ok": 0, "encode_err": 0, "decode_ok": 0, "decode_err": 0, "convert": 0, "numericdate": 0,
            "non_object_payload": 0, "non_json_payload": 0, "ambiguous_payload": 0, "tampered": 0, "wrong_key": 0, "per_transport": {},
            "per_key_form": {}, "explicit_typ": 0, "keyset_kid_written": 0, "alg_added_members": 0,
            "datetime_claims": 0, "contract_points_json": 0, "contract_points_transport": 0,
            "per_encoder_cls": {}, "per_decoder_cls": {}, "per_option_mode": {}, "positional_calls": 0,
            "decoder_made_non_object": 0, "foreign_object_claims": 0,
            "per_decode_key_form": {}, "tamper_fault_classes": {}, "keyset_no_matching_kid": 0, "key_form_pairs": 0, "zip_header": 0, "key_configurations": 0, "custom_header_registry": 0,
            "jwe_header_members_matrix": 0}

    def add(term, m):
        cases.append(share(term))
        meta.append(m)

    def bump(d, k):
        dist[d][str(k)] = dist[d].get(str(k), 0) + 1

    def json_equal_hdr(a, b):
        return a.keys() == b.keys() and all(json_equal(a[k], b[k]) for k in a)

    def tok_term(t):
        return "(%s, %s)" % (c_hdr(t.header), c_pv(t.claims))

    def same_value(a, b):
        """equality of two decoder results (NaN-proof, type-strict)"""
        try:
            return c_pv(a) == c_pv(b)
        except TypeError:
            return False

    # ------------------------------------------------------------ one jwt.decode call, checked in every respect
    def checked_decode(tok, key, opts, dec, tname, what, payload_known=None, expect_transport_ok=None, rp=None, value=None, forged=False):
        """Runs jwt.decode(tok, key, <opts>, decoder_cls) with recording, emits the CDec case and applies the
        direct oracle:  transport ok and the decoder's own result is a dict  ->  Token with exactly that dict;
        transport ok otherwise -> InvalidPayloadError;  transport failed -> that error (never InvalidPayloadError)."""
        dec_id, dec_cls = dec
        kind = opts.kind
        args, kw = opts.call_args(key, dec_cls)
        with Recorder(key) as R:
            d = call(jwt.decode, tok if value is None else value, *args, **kw)
            dec_calls = R.take()
        bump("per_decoder_cls", dec_id)
        bump("per_option_mode", "decode:" + opts.mode)
        dist["positional_calls"] += 1 if opts.positional else 0
        rp = dict(rp or {}, decoder_cls=dec_id, option_mode=opts.mode, positional=opts.positional, transport=tname)
        drec = dec_calls[0] if dec_calls else None
        own = None
        if drec is not None:
            if drec["out"][0] == "ok":
                dh, dp = drec["out"][1]
                lterm, own = own_loads(dp, dec_cls)
                tr_term = "(Some (%s, %s, Ok (%s, %s)))" % (c_bool(drec["jwe"]), opts.targs_of(drec["key_id"], drec["algs"], drec["reg"], opts.registry),
                                                           c_hdr(dh), c_blob(dp))
                loads_term = "(Some (%s, %s, %s))" % (c_oN(dec_id), c_blob(dp), lterm)
            else:
                tr_term = "(Some (%s, %s, Err %s))" % (c_bool(drec["jwe"]), opts.targs_of(drec["key_id"], drec["algs"], drec["reg"], opts.registry),
                                                       c_exn(ecls(drec["out"][1])))
                loads_term = "None"
        else:
            tr_term, loads_term = "None", "None"
        wire = wire_header(tok)
        try:
            wire_term = "None" if wire is None else "(Some %s)" % c_hdr(wire)
        except TypeError:
            wire_term = "None"
        add("CDec %s %s %s %s %s %s %s" % (c_blob(tok), opts.targs(), c_oN(dec_id), tr_term, loads_term, c_res(d, tok_term), wire_term) + " " + c_bool(forged),
            ("decode-" + what, tname, "decoder_cls=%s" % dec_id, "mode=%s" % opts.mode))
        # ---- direct: a forged token never yields claims (and is refused by the transport, not by the payload parser)
        if forged and (d[0] == "ok" or (drec is not None and drec["out"][0] == "ok")):
            ctx.violation({"kind": "tampered-token-accepted" if d[0] == "ok" else "payload-parsed-before-integrity",
                           "transport_kind": kind},
                          "jwt.decode of a forged %s token (%s; decoder_cls #%s, %s) %s - decoding must return only after the integrity "
                          "check of the transport passed" % (
                              tname, what, dec_id, opts.mode,
                              ("returned claims %r" % (d[1].claims,)) if d[0] == "ok" else
                              ("raised %r after the transport ACCEPTED the token and its payload was parsed" % (d[1],))), rp)
            return d, drec, own
        # ---- direct: the returned header is the header that is in the token, always
        if d[0] == "ok" and not (isinstance(wire, dict) and isinstance(d[1].header, dict) and
                                 list(d[1].header.keys()) == list(wire.keys()) and json_equal_hdr(d[1].header, wire)):
            extra = {k: v for k, v in d[1].header.items() if not isinstance(wire, dict) or k not in wire} if isinstance(d[1].header, dict) else None
            ctx.violation({"kind": "decoded-header-not-wire-header", "transport_kind": kind},
                          "jwt.decode (%s, %s) returned the header %r but the token's protected header is %r (members not in the token: %r)" % (
                              tname, what, d[1].header, wire, extra), rp)
        # ---- direct oracle
        if len(dec_calls) != 1:
            ctx.violation({"kind": "correspondence", "fn": "decode"}, "jwt.decode called the transport %d times" % len(dec_calls),
                          dict(rp, no_failing_input_found=True, broken="correspondence (transport recording)"))
            return d, drec, own
        if drec["out"][0] == "err":
            if d[0] == "ok" or isinstance(d[1], InvalidPayloadError):
                ctx.violation({"kind": "payload-parsed-before-integrity" if d[0] == "err" else "tampered-token-accepted",
                               "transport_kind": kind},
                              "jwt.decode (%s, %s, decoder_cls #%s) %s although the transport refused the token with %r" % (
                                  tname, what, dec_id, "returned claims %r" % (d[1].claims,) if d[0] == "ok" else "raised InvalidPayloadError",
                                  drec["out"][1]), rp)
            return d, drec, own
        if own[0] == "other":
            # the decoder class raised something that is neither TypeError, ValueError nor RecursionError:
            # the property is silent, the model says it propagates (checked by the correspondence)
            if d[0] == "ok":
                ctx.violation({"kind": "non-object-payload-accepted", "payload_is_json": False, "transport_kind": kind, "decoder_cls": "given"},
                              "jwt.decode (%s, %s, decoder_cls #%s) returned claims %r although the decoder raised %r" % (
                                  tname, what, dec_id, d[1].claims, own[1]), rp)
        elif own[0] == "ok" and isinstance(own[1], dict):
            if d[0] != "ok" or not isinstance(d[1].claims, dict) or not same_value(d[1].claims, own[1]):
                ctx.violation({"kind": "object-payload-not-returned", "transport_kind": kind},
                              "jwt.decode (%s, %s, decoder_cls #%s): the payload decodes to the object %r but the result is %r" % (
                                  tname, what, dec_id, own[1], d[1].claims if d[0] == "ok" else d[1]), rp)
        else:
            if own[0] == "ok" and dec_id not in (None, 1, 2):
                dist["decoder_made_non_object"] += 1
            if not (d[0] == "err" and isinstance(d[1], InvalidPayloadError)):
                desc = ("decodes to the non-object %r" % (own[1],)) if own[0] == "ok" else ("cannot be decoded (%r)" % (own[1],))
                ctx.violation({"kind": "non-object-payload-accepted" if d[0] == "ok" else "invalid-payload-error-class",
                               "payload_is_json": own[0] == "ok", "transport_kind": kind, "decoder_cls": "default" if dec_id is None else "given"},
                              "jwt.decode (%s, %s, decoder_cls #%s, %s): the authenticated payload %r %s, but jwt.decode %s instead of raising InvalidPayloadError" % (
                                  tname, what, dec_id, opts.mode, drec["out"][1][1][:60], desc,
                                  "returned claims %r" % (d[1].claims,) if d[0] == "ok" else "raised %r" % (d[1],)), rp)
        return d, drec, own

    # ---------------------------------------------------------------- encode / decode round trips
    def one_roundtrip(tr_, form, header, strict, claims, token_as_bytes, enc, dec, mode, positional, header_valid=True, dform=None, enc_key=None, dec_key=None):
        tname, kind, base, fam, added = tr_
        enc_id, enc_cls = enc
        key, kids = W.key_form(fam, form)
        if enc_key is not None:              # a key configuration of its own (key_ops / use / alg members)
            key, kids = ((lambda obj: enc_key) if form == "callable" else enc_key), [enc_key.kid]
        obase = {**base, "zip": header["zip"]} if kind == "jwe" and isinstance(header.get("zip"), str) else base
        opts = Options(W, kind, obase, mode, strict, positional)
        if "zip" in header:
            dist["zip_header"] += 1
        h0 = copy.deepcopy(header)
        h0_items = list(h0.items())
        c0 = dict(claims)                       # values are immutable
        c0_term = c_claims(claims)
        exp_claims = expected_claims(c0)
        after = expected_after(c0)
        applies = exp_claims is not None and is_json_value(exp_claims)     # JSON-object claims: the property speaks
        rp = {"kind": "roundtrip", "transport": tname, "key_form": form, "header": repr(h0), "claims": repr(c0),
              "strict": strict, "encoder_cls": enc_id, "decoder_cls": dec[0], "option_mode": mode, "positional": positional}
        ctx.note_case(("rt", tname, form, repr(h0), repr(c0), enc_id, dec[0], mode))
        bump("per_transport", tname)
        bump("per_key_form", form)
        bump("per_encoder_cls", enc_id)
        bump("per_option_mode", "encode:" + mode)
        if "typ" in h0:
            dist["explicit_typ"] += 1
        if any(isinstance(v, datetime.datetime) for v in c0.values()):
            dist["datetime_claims"] += 1
        if any(isinstance(v, (uuid.UUID, decimal.Decimal)) for v in c0.values()):
            dist["foreign_object_claims"] += 1
        args, kw = opts.call_args(key, enc_cls)
        with Recorder(key) as R:
            r = call(jwt.encode, header, claims, *args, **kw)
            enc_calls = R.take()
        # ---- direct: the caller's header object is untouched, whatever happened
        if header != h0 or list(header.items()) != h0_items or not json_equal_hdr(header, h0):
            ctx.violation({"kind": "header-mutated", "transport_kind": kind},
                          "jwt.encode altered the caller's header: before %r, after %r (%s, %s, %s)" % (h0, header, tname, form, mode), rp)
        # ---- records for the model
        tr_term, dumps_term = "None", "None"
        rec = enc_calls[0] if enc_calls else None
        if len(enc_calls) > 1:
            ctx.violation({"kind": "correspondence", "fn": "encode"}, "jwt.encode called the transport %d times" % len(enc_calls),
                          dict(rp, no_failing_input_found=True, broken="correspondence (transport recording)"))
        if rec is not None:
            payload = rec["payload"]
            pb = payload.encode("utf-8") if isinstance(payload, str) else bytes(payload)
            tr_term = "(Some (%s, %s, %s, %s, %s, %s))" % (
                c_bool(rec["jwe"]), c_hdr(rec["w_in"]), c_blob(pb),
                opts.targs_of(rec["key_id"], rec["algs"], rec["reg"], opts.registry), c_res(rec["out"], c_blob), c_hdr(rec["w_after"]))
            # json.dumps oracle point: converted claims -> the payload that reached the transport; its
            # contract (json.loads inverts it on JSON-object claims) is checked right here
            if applies:
                lr = call(json.loads, pb)
                dist["contract_points_json"] += 1
                if lr[0] != "ok" or not json_equal(lr[1], exp_claims):
                    ctx.violation({"kind": "payload-not-claims", "transport_kind": kind},
                                  "the payload handed to the transport is not a JSON serialization of the (converted) claims: "
                                  "claims %r payload %r (encoder_cls #%s)" % (c0, pb[:200], enc_id), rp)
            if after is not None:
                dumps_term = "(Some (%s, %s, Ok %s))" % (c_oN(enc_id), c_claims(after), c_blob(pb))
                # the encoder class given by the caller must be the one that serializes the claims
                own = call(lambda: json.dumps(after, ensure_ascii=False, separators=(",", ":"), cls=enc_cls).encode("utf-8"))
                if own[0] == "err" or not same_value(call(json.loads, pb)[1:], call(json.loads, own[1])[1:]):
                    ctx.violation({"kind": "encoder-cls-not-used", "transport_kind": kind},
                                  "jwt.encode with encoder_cls #%s handed %r to the transport; json.dumps(claims, cls=encoder_cls) gives %r" % (
                                      enc_id, pb[:200], own[1] if own[0] == "err" else own[1][:200]), rp)
        elif r[0] == "err" and after is not None:
            # the transport was not reached: json.dumps / to_bytes raised
            own = call(lambda: json.dumps(after, ensure_ascii=False, separators=(",", ":"), cls=enc_cls).encode("utf-8"))
            if own[0] == "err":
                dumps_term = "(Some (%s, %s, Err %s))" % (c_oN(enc_id), c_claims(after), c_exn(ecls(own[1])))
            elif header_valid:
                ctx.violation({"kind": "encoder-cls-not-used", "transport_kind": kind},
                              "jwt.encode with encoder_cls #%s raised %r before reaching the transport although json.dumps(claims, "
                              "cls=encoder_cls) serializes the claims %r" % (enc_id, r[1], c0), rp)
        tok = r[1] if r[0] == "ok" else None
        add("CEnc %s %s %s %s %s %s %s %s %s" % (
            c_hdr(h0), c0_term, opts.targs(), c_oN(enc_id), dumps_term, tr_term,
            c_res(r, c_blob), c_hdr(header), c_claims(claims)),
            ("encode", tname, form, "encoder_cls=%s mode=%s" % (enc_id, mode), repr(h0), repr(c0)))
        if r[0] != "ok":
            dist["encode_err"] += 1
            if applies and header_valid:
                ctx.violation({"kind": "encode-raises", "transport_kind": kind},
                              "jwt.encode raised %r for JSON-object claims %r, header %r (%s, %s, encoder_cls #%s, %s)" % (
                                  r[1], c0, h0, tname, form, enc_id, mode), rp)
            return
        dist["encode_ok"] += 1
        # ---- direct: claims object after the call (datetime exp/nbf/iat replaced in place, nothing else)
        if applies and not (claims.keys() == exp_claims.keys() and all(json_equal(claims[k], exp_claims[k]) for k in claims)):
            ctx.violation({"kind": "claims-after"}, "caller's claims after encode %r, expected %r" % (claims, exp_claims), rp)
        # ---- decode (same optional arguments, the chosen decoder_cls) with the key in the form dform
        value = tok.encode("ascii") if token_as_bytes else tok
        wire = wire_header(tok) or {}
        ks = W.keys[fam]
        if form in ("bytes", "str"):
            signer = ks[0]
        elif "keyset" in form:
            signer = next((k for k in ks if k.kid == wire.get("kid")), ks[0])
        else:
            signer = ks[0]
        if dec_key is not None:
            signer = dec_key
            dform_ = dform or "key"
            ks = [dec_key]
            dkey = {"key": dec_key, "callable": (lambda obj: dec_key), "keyset1": W.KeySet([dec_key]),
                    "callable-keyset1": (lambda obj: W.KeySet([dec_key]))}[dform_]
        elif dform is None or dform == form:
            dform_, dkey = form, key
        else:
            dform_, dkey = dform, W.decode_key(fam, dform, signer)
        bump("per_decode_key_form", dform_)
        rp = dict(rp, decode_key_form=dform_)
        # what the key form and the token's kid imply (deterministic on the unchanged tree)
        wk = wire.get("kid")
        if dform_ in ("keyset1", "callable-keyset1") or ("keyset" in dform_ and len(ks) == 1):
            key_found = ("kid" not in wire) or wk == signer.kid
        elif "keyset" in dform_:
            key_found = "kid" in wire and isinstance(wk, str) and wk in [k.kid for k in ks]
        else:
            key_found = True
        d, drec, own = checked_decode(tok, dkey, opts, dec, tname, "roundtrip", rp=dict(rp, token=tok), value=value)
        if not key_found:
            dist["keyset_no_matching_kid"] += 1
            from joserfc.errors import InvalidKeyIdError
            if not (d[0] == "err" and isinstance(d[1], InvalidKeyIdError)):
                ctx.violation({"kind": "keyset-without-matching-kid", "transport_kind": kind},
                              "jwt.decode with a key set (%s, %d keys) of a token whose header %r names none of its keys %s instead of raising "
                              "InvalidKeyIdError (%s)" % (dform_, len(ks), wire, "returned header %r" % (d[1].header,) if d[0] == "ok" else "raised %r" % (d[1],), tname),
                              dict(rp, token=tok))
            return
        if drec is None or drec["out"][0] != "ok":
            dist["decode_err"] += 1
            ctx.violation({"kind": "roundtrip-decode-raises", "transport_kind": kind},
                          "jwt.decode(jwt.encode(h, c, k), k) raised %r; h=%r c=%r (%s, encode key form %s, decode key form %s, %s)" % (
                              d[1] if d[0] == "err" else None, h0, c0, tname, form, dform_, mode),
                          dict(rp, token=tok))
            return
        if d[0] != "ok":
            dist["decode_err"] += 1
            if dec[0] in (None, 1, 2):
                ctx.violation({"kind": "roundtrip-decode-raises", "transport_kind": kind},
                              "jwt.decode(jwt.encode(h, c, k), k) raised %r; h=%r c=%r (%s, %s, %s)" % (d[1], h0, c0, tname, form, mode),
                              dict(rp, token=tok))
            return
        dist["decode_ok"] += 1
        t = d[1]
        # ---- direct: claims equal as JSON to the (converted) claims (standard decoders)
        if not isinstance(t.claims, dict) or (applies and dec[0] in (None, 1, 2) and not json_equal(t.claims, exp_claims)):
            ctx.violation({"kind": "roundtrip-claims", "transport_kind": kind},
                          "decoded claims %r differ from the encoded claims %r (%s, %s, encoder_cls #%s, decoder_cls #%s)" % (
                              t.claims, exp_claims, tname, form, enc_id, dec[0]), dict(rp, token=tok))
        # ---- direct: header = given + default typ (+ kid of the key picked from a key set) (+ members of the algorithm)
        exp_h = {"typ": "JWT", **h0}
        got = dict(t.header)
        bad = None
        if "keyset" in form and not h0.get("kid"):
            if wire.get("kid") not in kids:
                bad = "kid of the picked key missing in the token"
            else:
                dist["keyset_kid_written"] += 1
                exp_h["kid"] = wire["kid"]
        n_added = 0
        for k in added:
            if k not in h0 and k in got:
                n_added += 1
                del got[k]
        if n_added:
            dist["alg_added_members"] += 1
        if bad is None and not (got.keys() == exp_h.keys() and all(json_equal(got[k], exp_h[k]) for k in got)):
            bad = "members differ"
        if bad:
            ctx.violation({"kind": "roundtrip-header", "transport_kind": kind},
                          "decoded header %r is not the given header %r plus typ default (%s; %s, %s)" % (t.header, h0, bad, tname, form),
                          dict(rp, token=tok))
        # ---- the contracts assumed by c09_typ / c09_rt, on the recorded calls
        if rec is not None:
            dist["contract_points_transport"] += 1
            w_in, w_after = list(rec["w_in"].items()), list(rec["w_after"].items())
            dh, dp = drec["out"][1]
            pb = rec["payload"].encode("utf-8") if isinstance(rec["payload"], str) else bytes(rec["payload"])
            kid_overwritten = "keyset" in form and "kid" in rec["w_in"] and not rec["w_in"]["kid"]
            if not kid_overwritten and not (w_after[:len(w_in)] == w_in and not (set(k for k, _ in w_after[len(w_in):]) & set(rec["w_in"]))
                                            and list(dh.items()) == w_after and dp == pb):
                ctx.violation({"kind": "transport-contract", "transport_kind": kind},
                              "transport round trip contract fails: header in %r, after %r, decoded %r" % (rec["w_in"], rec["w_after"], dh),
                              dict(rp, token=tok))

    forms = ["key", "keyset", "callable", "callable-keyset"]
    n_rt = ctx.scale(420, 6000)
    combos = [(t, f) for t in W.transports for f in forms]
    # every (encode key form, decode key form) pair, token without and with kid, on JWS and JWE transports
    pair_transports = [W.transports[0], W.transports[7]] if ctx.quick else [W.transports[0], W.transports[3], W.transports[5], W.transports[6], W.transports[7], W.transports[9]]
    npair = 0
    for tr_ in pair_transports:
        tname, kind, base, fam, added = tr_
        eforms, dforms = W.forms(fam)
        for ef in eforms:
            for df in dforms:
                for with_kid in (False, True):
                    npair += 1
                    _, kids = W.key_form(fam, ef)
                    h = dict(base)
                    if with_kid:
                        h["kid"] = W.keys[fam][0].kid if npair % 5 else "not-a-kid-of-the-set"
                    modes = modes_for(W, kind, base, True)
                    dist["key_form_pairs"] += 1
                    bogus = h.get("kid") == "not-a-kid-of-the-set"
                    one_roundtrip(tr_, ef, h, True, {"sub": "a", "n": npair, "f": 1.5}, npair % 3 == 0, ENCODERS[npair % 3],
                                  STD_DECODERS[npair % 3], modes[npair % len(modes)], positional=npair % 4 == 0, dform=df,
                                  header_valid=not (bogus and "keyset" in ef))
    for i in range(n_rt):
        tr_, form = combos[i % len(combos)] if i < 2 * len(combos) else rng.choice(combos)
        tname, kind, base, fam, added = tr_
        key, kids = W.key_form(fam, form)
        header, strict = gen_header(rng, base, kids, form)
        if i < len(combos):                     # every combination once with explicit typ and once without
            header, strict = {**base, "typ": "at+jwt"}, True
        elif i < 2 * len(combos):
            header, strict = dict(base), True
        claims = gen_claims(rng)
        modes = modes_for(W, kind, base, strict)
        mode = modes[i % len(modes)] if i < 3 * len(combos) else rng.choice(modes)
        enc = ENCODERS[i % len(ENCODERS)] if i < 3 * len(combos) else rng.choice(ENCODERS)
        dec = DECODERS[i % len(DECODERS)] if i < 3 * len(combos) else rng.choice(DECODERS + STD_DECODERS)
        if rng.random() < 0.25:                # values only an encoder with default() can take
            claims[rng.choice(["uid", "amount", "sub"])] = rng.choice([uuid.UUID(int=rng.getrandbits(128)), decimal.Decimal("1.50")])
        _, dforms = W.forms(fam)
        one_roundtrip(tr_, form, header, strict, claims, rng.random() < 0.3, enc, dec, mode, positional=rng.random() < 0.25,
                      dform=rng.choice(dforms) if rng.random() < 0.5 else None)

    # ---- JWE: every header member the caller may give x claims classes (DEFLATE shrinks / cannot shrink)
    def claims_class(j):
        return [
            {}, {"sub": "a"},
            {"jti": "".join(rng.choice("ABCDEFGHIJKLMNOPQRSTUVWXYZabcdefghijklmnopqrstuvwxyz0123456789-_") for _ in range(43)),
             "n": rng.getrandbits(64)},                                   # incompressible
            {"pad": "x" * 200, "l": [0] * 60, "sub": "aaaaaaaaaaaaaaaaaaaaaaaaaaaaaaaaaaaaaaaa"},   # large, repetitive
            {"exp": datetime.datetime(2031, 5, 6, 7, 8, 9, tzinfo=UTC), "sub": "é中\U0001F600"},
        ][j % 5]
    jwe_transports = [t for t in W.transports if t[1] == "jwe"]
    nm = 0
    for tr_ in (jwe_transports if not ctx.quick else jwe_transports[:2] + jwe_transports[3:]):
        tname, kind, base, fam, added = tr_
        kid0 = W.keys[fam][0].kid
        variants = [
            {"zip": "DEF"}, {"zip": "DEF", "cty": "JWT"}, {"zip": "DEF", "typ": "at+jwt"}, {"typ": "JOSE", "zip": "DEF", "kid": kid0},
            {"zip": "DEF", "crit": ["zip"]}, {"cty": "x", "crit": ["cty"]}, {"kid": kid0, "x5t": "dGh1bWI", "jku": "https://example.com/jwks"},
            {"zip": "DEF", "x5c": ["MIIB"], "x5t#S256": "abc", "x5u": "https://example.com/x"},
        ]
        if base["alg"].startswith("ECDH-ES"):
            variants += [{"apu": "QWxpY2U", "apv": "Qm9i"}, {"zip": "DEF", "apu": "QWxpY2U"}, {"apv": "Qm9i", "zip": "DEF", "crit": ["zip"]}]
        for v in variants:
            for j in range(5):
                nm += 1
                h = {**base, **v} if nm % 2 else {**v, **base}          # caller's members before or after alg / enc
                eforms, dforms = W.forms(fam)
                ef = ["key", "keyset", "callable"][nm % 3]
                modes = modes_for(W, kind, {**base, **({"zip": "DEF"} if "zip" in v else {})}, True)
                dist["jwe_header_members_matrix"] += 1
                one_roundtrip(tr_, ef, h, True, claims_class(j), nm % 4 == 0, ENCODERS[nm % 2], STD_DECODERS[nm % 3],
                              modes[nm % len(modes)], positional=nm % 5 == 0, dform=dforms[nm % len(dforms)] if nm % 3 == 0 else None)

    # ---- key configurations: the matching key restricted to the operation each side needs
    # (key_ops as the unchanged tree requires them: sign/verify; dir and RSA-OAEP encrypt/decrypt;
    #  A128KW and A128GCMKW wrapKey/unwrapKey; ECDH-ES and PBES2 deriveKey), "use" and "alg" members
    from joserfc.jwk import OctKey, RSAKey, ECKey, OKPKey
    rsa0, ec0, okp0 = W.keys["rsa"][0], W.keys["ec"][0], W.keys["okp"][0]

    def asym(cls, k, private, **m):
        return cls.import_key({**{a: b for a, b in k.as_dict(private=private).items() if a != "kid"}, "kid": "cfg", **m})

    def octk(fam, **m):
        return OctKey.import_key(W.keys[fam][0].raw_value, {"kid": "cfg", **m})
    tmap = {t[0]: t for t in W.transports}
    rsa_oaep = ("RSA-OAEP+A128GCM", "jwe", {"alg": "RSA-OAEP", "enc": "A128GCM"}, "rsa", ())
    keycfgs = []
    for name, fam in (("HS256", "oct32"), ("HS384", "oct48"), ("HS512", "oct64")):
        keycfgs += [(tmap[name], octk(fam, key_ops=["sign"]), octk(fam, key_ops=["verify"])),
                    (tmap[name], octk(fam), octk(fam, key_ops=["verify"], use="sig", alg=name)),
                    (tmap[name], octk(fam, key_ops=["sign", "verify"], alg=name), octk(fam, key_ops=["verify"]))]
    keycfgs += [
        (tmap["RS256"], asym(RSAKey, rsa0, True, key_ops=["sign"]), asym(RSAKey, rsa0, False, key_ops=["verify"])),
        (tmap["RS256"], asym(RSAKey, rsa0, True), asym(RSAKey, rsa0, False, use="sig", alg="RS256")),
        (tmap["ES256"], asym(ECKey, ec0, True, key_ops=["sign"]), asym(ECKey, ec0, False, key_ops=["verify"], use="sig")),
        (tmap["ES256"], asym(ECKey, ec0, True, use="sig"), asym(ECKey, ec0, False, alg="ES256")),
        (tmap["EdDSA"], asym(OKPKey, okp0, True, key_ops=["sign"]), asym(OKPKey, okp0, False, key_ops=["verify"])),
        (tmap["dir+A128GCM"], octk("oct16", key_ops=["encrypt"]), octk("oct16", key_ops=["decrypt"])),
        (tmap["dir+A128GCM"], octk("oct16", use="enc"), octk("oct16", use="enc", key_ops=["decrypt"])),
        (tmap["A128KW+A128CBC-HS256"], octk("oct16", key_ops=["wrapKey"]), octk("oct16", key_ops=["unwrapKey"])),
        (tmap["A128GCMKW+A128GCM"], octk("oct16", key_ops=["wrapKey"]), octk("oct16", key_ops=["unwrapKey"])),
        (tmap["ECDH-ES+A128KW"], asym(ECKey, ec0, False, key_ops=["deriveKey"]), asym(ECKey, ec0, True, key_ops=["deriveKey"])),
        (tmap["ECDH-ES+A128KW"], asym(ECKey, ec0, False, use="enc"), asym(ECKey, ec0, True, use="enc")),
        (tmap["PBES2-HS256+A128KW"], octk("pw", key_ops=["deriveKey"]), octk("pw", key_ops=["deriveKey"])),
        (rsa_oaep, asym(RSAKey, rsa0, False, key_ops=["encrypt"]), asym(RSAKey, rsa0, True, key_ops=["decrypt"])),
        (rsa_oaep, asym(RSAKey, rsa0, False, use="enc"), asym(RSAKey, rsa0, True, use="enc")),
    ]
    nk = 0
    for tr_, ek, dk in keycfgs:
        for df in ("key", "keyset1", "callable", "callable-keyset1"):
            nk += 1
            dist["key_configurations"] += 1
            modes = modes_for(W, tr_[1], tr_[2], True)
            one_roundtrip(tr_, "callable" if nk % 3 == 0 else "key", dict(tr_[2]), True, {"sub": "a", "n": nk}, nk % 4 == 0, ENCODERS[0],
                          STD_DECODERS[nk % 3], modes[nk % len(modes)], positional=nk % 5 == 0, dform=df, enc_key=ek, dec_key=dk)

    # ---- a header parameter registered by the caller (header_registry=...), present in the header: every alg family
    nc = 0
    for tr_ in list(W.transports) + [rsa_oaep]:
        tname, kind, base, fam, added = tr_
        for v in ({"xcu": "custom-value"}, {"xcu": "é", "xcn": 7, "cty": "JWT"}, {"xcn": 0, "typ": "at+jwt"}):
            for form in (["key", "keyset", "callable"] if tr_ is not rsa_oaep else ["key"]):
                nc += 1
                if ctx.quick and nc % 2 and v is not None and "cty" in v:
                    continue
                dist["custom_header_registry"] += 1
                h = {**base, **v} if nc % 2 else {**v, **base}
                one_roundtrip(tr_, form, h, True, {"sub": "a", "n": nc}, False, ENCODERS[0], STD_DECODERS[nc % 3], "reg-custom",
                              positional=nc % 4 == 0)

    # a few directed claims sets on one cheap JWS and one cheap JWE transport, with every encoder
    hs = W.transports[0]
    directed = [
        {}, {"a": {}}, {"a": []}, {"": ""}, {"exp": datetime.datetime(2030, 1, 1, tzinfo=UTC), "nbf": datetime.datetime(2020, 1, 1),
                                             "iat": datetime.datetime(2020, 1, 1, 0, 0, 0, 999999, tzinfo=tz(hours=5, minutes=45))},
        {"f": -0.0, "g": 1e308, "h": 5e-324, "i": 2 ** 70, "j": -2 ** 70, "k": 2 ** 53 + 1},
        {"s": "\U0001F600é\\u0041\"\n\x00", "t": ["\U0010FFFF", {"\U0001F511": None}]},
        {"deep": [[[[[1, {"a": [True, None, 1.5]}]]]]]},
        {"x": datetime.datetime(2030, 1, 1)},            # datetime elsewhere: TypeError unless the encoder has default()
        {"exp": datetime.datetime(2030, 1, 1), "auth_time": datetime.datetime(2030, 1, 1)},   # exp replaced, then TypeError
        {"exp": datetime.datetime(1, 1, 1, tzinfo=tz(hours=1)), "iat": datetime.datetime(2030, 1, 1)},   # OverflowError at exp
        {"iat": datetime.datetime(2030, 1, 1), "nbf": datetime.datetime(9999, 12, 31, 23, 59, 59, tzinfo=tz(hours=-1))},
        {"b": b"bytes"}, {"lone": "\ud800"}, {"nan": float("nan")}, {"inf": float("inf")},
        {"exp": True, "nbf": None, "iat": "2030-01-01"},
        {"uid": uuid.UUID(int=7), "amount": decimal.Decimal("12.30"), "sub": "a"},
    ]
    n = 0
    for c in directed:
        for tr_ in (hs, W.transports[6]):
            for enc in ENCODERS:
                n += 1
                one_roundtrip(tr_, "key", dict(tr_[2]), True, dict(c), False, enc, DECODERS[n % len(DECODERS)],
                              ["reg", "algs", "both", "reg-nondefault"][n % 4], positional=n % 3 == 0)
    # headers that the transport refuses: the caller's header must still be untouched
    for h in ({"alg": "HS256", "typ": 1}, {"alg": "HS256", "crit": ["exp"]}, {"alg": "nope"}, {"typ": "JWT"},
              {"alg": "HS256", "unregistered": 1}, {"alg": "HS256", "kid": ""}):
        # (an empty kid is "no kid" for a key set: the transport then overwrites it in its own copy - key form only)
        one_roundtrip(hs, "key" if h.get("kid") == "" else rng.choice(["key", "keyset"]), dict(h), True, {"a": 1}, False, ENCODERS[0], DECODERS[0], "reg",
                      positional=False, header_valid=False)

    # ---------------------------------------------------------------- convert_claims / NumericDate sweep
    def one_convert(c, enc):
        enc_id, enc_cls = enc
        c0 = dict(c)
        c0_term = c_claims(c)
        exp = expected_claims(c0)
        after = expected_after(c0)
        r = call(convert_claims, c, enc_cls) if enc_cls is not None else call(convert_claims, c)
        ctx.note_case(("conv", repr(c0), enc_id))
        dist["convert"] += 1
        dumps_term = "None"
        if after is not None and r[0] == "ok":
            lr = call(json.loads, r[1])
            if exp is not None and is_json_value(exp) and (lr[0] != "ok" or not json_equal(lr[1], exp)):
                ctx.violation({"kind": "numericdate" if any(isinstance(v, datetime.datetime) for v in c0.values()) else "payload-not-claims"},
                              "convert_claims(%r) = %r, expected the JSON of %r" % (c0, r[1][:200], exp),
                              {"kind": "convert", "claims": repr(c0)})
            dumps_term = "(Some (%s, %s, Ok %s))" % (c_oN(enc_id), c_claims(after), c_blob(r[1]))
        elif after is not None:
            own = call(lambda: json.dumps(after, ensure_ascii=False, separators=(",", ":"), cls=enc_cls).encode("utf-8"))
            if own[0] == "err":
                dumps_term = "(Some (%s, %s, Err %s))" % (c_oN(enc_id), c_claims(after), c_exn(ecls(own[1])))
            else:
                ctx.violation({"kind": "convert-raises"}, "convert_claims(%r) raised %r" % (c0, r[1]), {"kind": "convert", "claims": repr(c0)})
        add("CConv %s %s %s %s %s" % (c0_term, c_oN(enc_id), dumps_term, c_res(r, c_blob), c_claims(c)), ("convert", repr(c0), enc_id))

    def one_nd(dt, k):
        c = {k: dt}
        r = call(convert_claims, c)
        ctx.note_case(("nd", repr(dt), k))
        dist["numericdate"] += 1
        want = indep_numericdate(dt)
        overflow = dt.tzinfo is not None and not (MIN_SECS <= want <= MAX_SECS)
        if r[0] == "ok":
            v = call(json.loads, r[1])
            got = v[1].get(k) if v[0] == "ok" and isinstance(v[1], dict) else None
            rr = ("ok", got)
            if overflow or type(got) is not int or got != want or c != {k: want}:
                ctx.violation({"kind": "numericdate"},
                              "%s = %r was encoded as %r, NumericDate is %d" % (k, dt, got, want),
                              {"kind": "numericdate", "datetime": repr(dt), "claim": k, "isoformat": dt.isoformat()})
            if type(got) is not int:
                return
        else:
            rr = r
            if not (overflow and isinstance(r[1], OverflowError)):
                ctx.violation({"kind": "numericdate"}, "%s = %r raised %r, NumericDate is %d" % (k, dt, r[1], want),
                              {"kind": "numericdate", "datetime": repr(dt), "claim": k, "isoformat": dt.isoformat()})
        add("CNd %s %s" % (c_dt(dt), c_res(rr, c_Z)), ("numericdate", repr(dt), k))

    for dt in BOUNDARY_DTS:
        for k in ND_KEYS:
            one_nd(dt, k)
    for _ in range(ctx.scale(900, 40000)):
        one_nd(gen_dt(rng), rng.choice(ND_KEYS))
    # every day boundary of a few years, at a random offset (thorough: all years 1968..2101)
    years = [1969, 1970, 2000, 2024, 2100] if ctx.quick else list(range(1968, 2102))
    for y in years:
        d = datetime.date(y, 1, 1)
        while d.year == y:
            if ctx.quick and not (d.day in (1, 28, 29, 30, 31)):
                d += TD(days=1)
                continue
            z = gen_tz(rng)
            one_nd(datetime.datetime(d.year, d.month, d.day, rng.choice([0, 23]), rng.choice([0, 59]), rng.choice([0, 59]),
                                     rng.choice([0, 999999]), tzinfo=z), "exp")
            d += TD(days=1)
    for i in range(ctx.scale(200, 4000)):
        one_convert(gen_claims(rng), ENCODERS[i % len(ENCODERS)])
    for c in directed:
        for enc in ENCODERS:
            one_convert(dict(c), enc)

    # ---------------------------------------------------------------- payloads that are not a JSON object
    deep = 200000
    OBJECTS = [b'{"sub":"alice","admin":false}', b"{}", b'{"a":{"b":[1,2.5,{"c":null}]},"n":12345678901234567890}', b'{"f":1.5,"g":[{"h":{}}]}']
    NON_OBJECT = [b"[1,2]", b'"x"', b"1", b"1.5", b"true", b"false", b"null", b"[]", b'[{"a":1}]', b'""', b"0", b"-1",
                  b"1e5", b" [1] ", b'"{}"', b"[" * 50 + b"]" * 50, b"[[1,2],{}]", b"-0.0", b'"\\u007b\\u007d"',
                  b"[1,2,3]", b'"str"', b"42", b'[{"sub":"admin"}]']
    NON_JSON = [b"", b"\xff\xfe", b"\xfe\xff", b"\xef\xbb\xbf", b'{"a":"\xc3"}', b'{"a":"\xe2\x82"}', b'{"a":1', b'{"a":1}}',
                b"{'a':1}", b'{"a":1,}', b"{a:1}", b"\x00", b"not json", b'{"a":1} x', b"\xc3\x28", b'{"a":01}', b'{"a":+1}',
                b'{"a":"\x01"}', b'{"a":"\\x"}', b"{,}", b'{"a" 1}', b"{" * 30, b"[" * deep, b'{"a":' * deep, b"\xf0\x9f\x98",
                b"\xff", b'["a",', b"tru", b"nul", b".5", b"1.", b'{"a":1}\x00']
    n_fixed_obj, n_fixed_json = len(NON_OBJECT), len(NON_JSON)
    for _ in range(ctx.scale(40, 400)):
        NON_JSON.append(bytes(rng.randrange(256) for _ in range(rng.randrange(1, 24))))
        v = gen_value(rng, 2, 4)
        if not isinstance(v, dict):
            s = json.dumps(v, ensure_ascii=rng.random() < 0.5)
            if not any(t in s for t in ("NaN", "Infinity")):
                NON_OBJECT.append(s.encode("utf-8"))
    neg_transports = [W.transports[0], W.transports[3], W.transports[6], W.transports[7]] if ctx.quick else W.transports
    full_transports = (W.transports[0], W.transports[6])       # every decoder_cls on one JWS and one JWE transport
    bad_tokens = []
    counter = [0]

    def build(tr_, payload, key):
        tname, kind, base, fam, added = tr_
        reg = W.registry(kind, base, True)
        h = {**base, "typ": "JWT"}
        if kind == "jws":
            return jws.serialize_compact(h, payload, key, registry=reg)
        return jwe.encrypt_compact(h, payload, key, registry=reg)

    def next_opts(tr_):
        counter[0] += 1
        modes = modes_for(W, tr_[1], tr_[2], True)
        return Options(W, tr_[1], tr_[2], modes[counter[0] % len(modes)], True, positional=counter[0] % 4 == 0)

    def one_payload(tr_, payload, cls, dec):
        """cls: 'object' | 'non-object' | 'non-json' | 'ambiguous'"""
        tname, kind, base, fam, added = tr_
        key = W.keys[fam][0]
        try:
            if isinstance(json.loads(payload), dict) and cls in ("non-object", "non-json"):
                return              # random octets that happen to be an object
        except (ValueError, RecursionError):
            pass
        tok = build(tr_, payload, key)
        opts = next_opts(tr_)
        rp = {"kind": "payload", "payload_hex": payload.hex() if len(payload) < 4000 else None,
              "payload_head_hex": payload[:64].hex(), "payload_len": len(payload),
              "payload_repeat": [payload[:5].hex(), len(payload) // 5] if len(payload) >= 4000 else None}
        ctx.note_case(("payload", tname, payload[:64], len(payload), dec[0], opts.mode))
        if cls != "object":
            dist[{"non-object": "non_object_payload", "non-json": "non_json_payload", "ambiguous": "ambiguous_payload"}[cls]] += 1
        d, drec, own = checked_decode(tok, key, opts, dec, tname, "payload-" + cls, rp=rp)
        if len(payload) < 4000 and dec[0] is None:
            bad_tokens.append((tr_, tok, payload))

    for tr_ in neg_transports:
        full = tr_ in full_transports
        for j, p in enumerate(OBJECTS):
            for dec in (DECODERS if full else [DECODERS[j % len(DECODERS)]]):
                one_payload(tr_, p, "object", dec)
        for j, p in enumerate(NON_OBJECT):
            decs = DECODERS if (full and j < n_fixed_obj) else [DECODERS[0], DECODERS[1 + j % (len(DECODERS) - 1)]]
            for dec in decs:
                one_payload(tr_, p, "non-object", dec)
        for j, p in enumerate(NON_JSON):
            if len(p) > 100000 and not full:
                continue
            decs = DECODERS if (full and j < n_fixed_json and len(p) < 100000) else [DECODERS[0], DECODERS[1 + j % (len(DECODERS) - 1)]]
            for dec in decs:
                one_payload(tr_, p, "non-json", dec)

    # accepted by json.loads although not RFC 8259 JSON text / not UTF-8: the decoder's own verdict decides
    AMBIGUOUS = ['{"a":1}'.encode("utf-16"), '{"a":1}'.encode("utf-32-le"), b'\xef\xbb\xbf{"a":1}', b'{"a":NaN}', b'{"a":-Infinity}',
                 b'{"a":"\xed\xa0\x80"}', b'{"a":1,"a":2}', b' {"a":1}\n', b'[NaN]', '[1]'.encode("utf-16"), b'{"a":1e999}']
    for tr_ in full_transports:
        for j, p in enumerate(AMBIGUOUS):
            for dec in (DECODERS[0], DECODERS[1 + j % (len(DECODERS) - 1)]):
                one_payload(tr_, p, "ambiguous", dec)

    # ---------------------------------------------------------------- integrity first: the tamper stream
    # Every fault is made on the decoded octets of a segment and re-encoded canonically, so each forged
    # token really differs from the genuine one in an authenticated octet (or has a wrong-length tag /
    # signature / IV, or is presented with another key): jwt.decode must raise, never return claims.
    def seg_dec(x):
        return base64.urlsafe_b64decode(x + "=" * (-len(x) % 4))

    def seg_enc(b):
        return b64u(b).decode("ascii")

    def flip(b, i):
        i %= len(b)
        return b[:i] + bytes([b[i] ^ (1 << rng.randrange(8))]) + b[i + 1:]

    def with_seg(parts, idx, b):
        q = list(parts)
        q[idx] = seg_enc(b)
        return ".".join(q)

    def rehead(parts, **changes):
        hd = json.loads(seg_dec(parts[0]))
        hd.update(changes)
        q = list(parts)
        q[0] = seg_enc(json.dumps(hd, separators=(",", ":")).encode())
        return ".".join(q)

    ALG_SWAP = {"HS256": ["HS384", "none"], "HS384": ["HS256"], "HS512": ["HS256"], "ES256": ["ES384", "HS256"], "EdDSA": ["ES256"],
                "RS256": ["PS256", "RS384", "HS256"]}
    ENC_SWAP = {"A128GCM": "A128CBC-HS256", "A256GCM": "A128GCM", "A128CBC-HS256": "A128GCM", "A192CBC-HS384": "A128CBC-HS256",
                "A256CBC-HS512": "A128CBC-HS256"}

    def faults(tok, other, kind, full):
        """-> [(fault name, forged token)]; other: a genuine token of the same key and algorithms with another payload"""
        parts, oparts = tok.split("."), other.split(".")
        raw = [seg_dec(x) for x in parts]
        out = []
        if kind == "jws":
            h, p, sg = raw
            out.append(("signature bit flip (first octet)", with_seg(parts, 2, flip(sg, 0))))
            out.append(("signature truncated by one octet", with_seg(parts, 2, sg[:-1])))
            out.append(("signature empty", with_seg(parts, 2, b"")))
            out.append(("signature of another token", with_seg(parts, 2, seg_dec(oparts[2]))))
            for newp in (b'{"admin":true}', b"[1,2]", b"\xff\xfe", b""):
                if newp != p:
                    out.append(("payload replaced", with_seg(parts, 1, newp)))
            out.append(("header typ changed", rehead(parts, typ="JWT2")))
            if full:
                out.append(("signature bit flip (middle)", with_seg(parts, 2, flip(sg, len(sg) // 2))))
                out.append(("signature bit flip (last octet)", with_seg(parts, 2, flip(sg, -1))))
                for k in sorted({1, len(sg) // 2, len(sg) - 2}):
                    out.append(("signature truncated to %d octets" % k, with_seg(parts, 2, sg[:k])))
                out.append(("signature extended by a zero octet", with_seg(parts, 2, sg + b"\x00")))
                out.append(("signature doubled", with_seg(parts, 2, sg + sg)))
                out.append(("header bit flip", with_seg(parts, 0, flip(h, len(h) // 2))))
                out.append(("header member added", rehead(parts, cty="x")))
                if p:
                    out.append(("payload bit flip (first octet)", with_seg(parts, 1, flip(p, 0))))
                    out.append(("payload bit flip (last octet)", with_seg(parts, 1, flip(p, -1))))
                    out.append(("payload truncated", with_seg(parts, 1, p[:-1])))
                out.append(("payload extended", with_seg(parts, 1, p + b" ")))
                out.append(("payload of another token", with_seg(parts, 1, seg_dec(oparts[1]))))
                alg = json.loads(h).get("alg")
                for a2 in ALG_SWAP.get(alg, []):
                    out.append(("alg swapped to %s" % a2, rehead(parts, alg=a2)))
            return out
        h, ek, iv, ct, tag = raw
        names = ["protected header", "encrypted key", "iv", "ciphertext", "tag"]
        out.append(("tag bit flip (first octet)", with_seg(parts, 4, flip(tag, 0))))
        out.append(("ciphertext bit flip (first octet)", with_seg(parts, 3, flip(ct, 0))))
        out.append(("iv bit flip (first octet)", with_seg(parts, 2, flip(iv, 0))))
        out.append(("tag empty", with_seg(parts, 4, b"")))
        out.append(("tag truncated by one octet", with_seg(parts, 4, tag[:-1])))
        out.append(("iv bit flip + tag empty", with_seg(with_seg(parts, 2, flip(iv, 0)).split("."), 4, b"")))
        out.append(("header typ changed", rehead(parts, typ="JWT2")))
        if ek:
            out.append(("encrypted key bit flip", with_seg(parts, 1, flip(ek, 0))))
        if full:
            for idx in (1, 2, 3, 4):
                b = raw[idx]
                if b:
                    out.append(("%s bit flip (last octet)" % names[idx], with_seg(parts, idx, flip(b, -1))))
                    out.append(("%s bit flip (middle)" % names[idx], with_seg(parts, idx, flip(b, len(b) // 2))))
                    out.append(("%s extended by a zero octet" % names[idx], with_seg(parts, idx, b + b"\x00")))
                    out.append(("%s empty" % names[idx], with_seg(parts, idx, b"")))
                ob = seg_dec(oparts[idx])
                if ob != b:
                    out.append(("%s of another token" % names[idx], with_seg(parts, idx, ob)))
            for k in range(0, len(tag)):                 # every shorter tag
                out.append(("tag truncated to %d octets" % k, with_seg(parts, 4, tag[:k])))
                out.append(("iv bit flip + tag truncated to %d octets" % k,
                            with_seg(with_seg(parts, 2, flip(iv, k)).split("."), 4, tag[:k])))
            for k in range(0, len(iv)):                  # every shorter iv
                out.append(("iv truncated to %d octets" % k, with_seg(parts, 2, iv[:k])))
            for k in sorted({1, len(ct) // 2, max(len(ct) - 16, 0), len(ct) - 1}):
                if 0 <= k < len(ct):
                    out.append(("ciphertext truncated to %d octets" % k, with_seg(parts, 3, ct[:k])))
            for k in sorted({1, len(ek) // 2, len(ek) - 1}):
                if 0 <= k < len(ek):
                    out.append(("encrypted key truncated to %d octets" % k, with_seg(parts, 1, ek[:k])))
            out.append(("ciphertext block appended", with_seg(parts, 3, ct + ct[-16:])))
            out.append(("header bit flip", with_seg(parts, 0, flip(h, len(h) // 2))))
            out.append(("header member added", rehead(parts, cty="x")))
            enc = json.loads(h).get("enc")
            if enc in ENC_SWAP:
                out.append(("enc swapped to %s" % ENC_SWAP[enc], rehead(parts, enc=ENC_SWAP[enc])))
        return out

    extra_tamper_transports = [
        ("dir+A128CBC-HS256", "jwe", {"alg": "dir", "enc": "A128CBC-HS256"}, "oct32", ()),
        ("dir+A192CBC-HS384", "jwe", {"alg": "dir", "enc": "A192CBC-HS384"}, "oct48", ()),
        ("dir+A256CBC-HS512", "jwe", {"alg": "dir", "enc": "A256CBC-HS512"}, "oct64", ()),
        ("dir+A256GCM", "jwe", {"alg": "dir", "enc": "A256GCM"}, "oct32", ()),
    ]
    nt = [0]

    def run_faults(tr_, tok, other, payload, full):
        tname, kind, base, fam, added = tr_
        signer = W.keys[fam][0]
        _, dforms = W.forms(fam)
        if len(W.keys[fam]) > 1:        # these tokens carry no kid: a multi-key set would refuse them before any integrity check
            dforms = [f for f in dforms if f not in ("keyset", "callable-keyset")]
        for what, tt in faults(tok, other, kind, full):
            if tt == tok:
                continue
            nt[0] += 1
            dist["tampered"] += 1
            bump("tamper_fault_classes", ("jws: " if kind == "jws" else "jwe: ") + "".join(c for c in what if not c.isdigit()))
            ctx.note_case(("tamper", tname, what, tt[-40:]))
            dform = dforms[nt[0] % len(dforms)] if full else "key"
            dkey = W.decode_key(fam, dform, signer)
            checked_decode(tt, dkey, next_opts(tr_), DECODERS[nt[0] % len(DECODERS)], tname, "tampered: " + what,
                           rp={"kind": "tamper", "what": what, "token": tt, "original": tok, "payload_hex": payload.hex(),
                               "jwk": signer.as_dict(private=True), "decode_key_form": dform}, forged=True)
        if len(W.keys[fam]) > 1:
            wrong = W.keys[fam][1]
            nt[0] += 1
            dist["wrong_key"] += 1
            ctx.note_case(("wrongkey", tname, tok[-40:]))
            checked_decode(tok, wrong, next_opts(tr_), DECODERS[nt[0] % len(DECODERS)], tname, "wrong key",
                           rp={"kind": "wrong-key", "token": tok, "payload_hex": payload.hex(), "jwk": wrong.as_dict(private=True)},
                           forged=True)

    # the full fault set: every transport (plus dir with every CBC-HS enc and A256GCM), an object and a non-JSON payload
    for tr_ in list(W.transports) + extra_tamper_transports:
        key = W.keys[tr_[3]][0]
        for payload, otherp in ((b'{"role":"guest","sub":"alice"}', b'{"role":"admin","sub":"alice"}'), (b"\xff\xfe not json", b"[1,2]")):
            if ctx.quick and payload[:1] != b"{" and tr_ in W.transports[1:6] + W.transports[8:]:
                continue
            run_faults(tr_, build(tr_, payload, key), build(tr_, otherp, key), payload, True)
    # a light fault set on tokens of the payload stream
    sel = [bt for i, bt in enumerate(bad_tokens) if i % 3 == 0 or bt[2] in OBJECTS]
    if len(sel) > 2000:
        sel = rng.sample(sel, 2000)
    for tr_, tok, payload in sel:
        run_faults(tr_, tok, build(tr_, b'{"x":1}', W.keys[tr_[3]][0]), payload, False)

    # ---------------------------------------------------------------- correspondence
    ctx.coverage["rule"] = ("model C09Jwt.jwt_encode/jwt_decode/convert_claims/numericdate evaluated by vm_compute on every recorded "
                            "call (transport functions and JSON codec instantiated by the recorded call: which transport function, "
                            "its key/algorithms/registry arguments, header, payload; encoder_cls/decoder_cls) must reproduce the "
                            "outcome, the caller's header and the caller's claims of the implementation; independently the property "
                            "is checked on the implementation's outputs for every encoder_cls/decoder_cls/algorithms/registry choice")
    ctx.coverage["input_distribution"] = dist
    for i in (0, len(cases) // 3, len(cases) // 2, len(cases) - 1):
        if cases:
            ctx.sample({"coq_case": cases[i][:300], "meta": [str(x)[:120] for x in meta[i]]})
    import os
    if os.environ.get("C09_DEBUG"):          # development aid: dump the generated case terms
        with open(os.environ["C09_DEBUG"], "w") as f:
            for c_ in cases:
                f.write(c_ + "\n")
    ev = lib.CoqEval(["From Model Require Import Base PyVal C09Jwt C09Cases."], "c09case", "c09_check", "c09_show",
                     shard=150, max_chars=90000, preamble=preamble())
    res = run_eval(ev, cases)
    ctx.coverage["traces_validated_against_impl"] = res["evaluated"]
    ctx.coverage["disagreements_checked"] = len(res["failing"])
    direct = len(ctx.violations)
    for i in res["failing"][:20]:
        ctx.violation({"kind": "correspondence", "fn": meta[i][0]},
                      "model and implementation disagree on %s %r" % (meta[i][0], tuple(str(x)[:200] for x in meta[i][1:])),
                      {"case": cases[i][:20000], "meta": [str(x) for x in meta[i]], "no_failing_input_found": direct == 0,
                       "broken": "correspondence model/C09Cases.v:c09_check vs joserfc.jwt"})
    for si, err in res["errors"]:
        ctx.violation({"kind": "correspondence-error"}, "coqc failed on a generated case file",
                      {"output": err, "no_failing_input_found": True, "broken": "case evaluation"})
    if not ok:
        ctx.violation({"kind": "proof-broken"}, "props/C09.v or its closure no longer compiles",
                      {"log": log[-3000:], "no_failing_input_found": direct == 0 and not res["failing"],
                       "broken": "theorems of props/C09.v"})
    ctx.assumptions += [
        "the JWS/JWE transport functions are Section variables with the round-trip contract transport_rt (what C03/C04 "
        "establish); checked here on every recorded encode/decode pair (contract_points_transport)",
        "json.dumps(cls=encoder_cls)+UTF-8 / json.loads(cls=decoder_cls) are Section variables indexed by the class; the object-only, "
        "integrity-first and header-unchanged theorems assume NOTHING about them; only the round-trip theorem assumes json_rt for the "
        "pair in use; checked on every recorded payload (contract_points_json); float repr round trip and UTF-8 are CPython's",
        "datetime.utctimetuple() normalisation (self - utcoffset, re-split into fields) is folded into numericdate as "
        "local_secs - offset with the MINYEAR..MAXYEAR range check; validated by the differential run only",
        "utcoffset() with a sub-second part and tzinfo subclasses with DST/fold are outside the model; decoder results that are not "
        "JSON-ish Python values (custom classes) are outside the value universe of the model",
        "payloads that json.loads accepts beyond RFC 8259 (UTF-16/32 encodings, BOM, NaN/Infinity literals, duplicate names) "
        "are treated as JSON, as the implementation's parser defines it",
    ]
    if not ctx.quick:
        ctx.coqchk()


# --------------------------------------------------------------------------
def replay(path):
    import json as _j
    from joserfc import jwt, jws, jwe
    from joserfc.errors import InvalidPayloadError
    from joserfc.rfc7519.claims import convert_claims
    doc = _j.load(open(path))
    r = doc["replay"]
    print("replay:", {k: (str(v)[:200]) for k, v in r.items()})
    kind = r.get("kind")
    env = {"datetime": datetime, "nan": float("nan"), "inf": float("inf")}
    import random
    W = World(random.Random(0))
    tr = {t[0]: t for t in W.transports}
    if kind == "numericdate":
        dt = eval(r["datetime"], env)
        c = {r["claim"]: dt}
        out = call(convert_claims, c)
        print("convert_claims ->", out, "independent NumericDate:", indep_numericdate(dt))
        return 0 if out[0] == "ok" and _j.loads(out[1]) == {r["claim"]: indep_numericdate(dt)} else 1
    if kind == "convert":
        c = eval(r["claims"], env)
        exp = expected_claims(dict(c))
        out = call(convert_claims, c)
        print("convert_claims ->", out, "expected JSON of", exp)
        return 0 if out[0] == "ok" and exp is not None and json_equal(_j.loads(out[1]), exp) else 1
    if kind == "roundtrip":
        tname, kind_, base, fam, added = tr[r["transport"]]
        key, kids = W.key_form(fam, r["key_form"])
        h = eval(r["header"], env)
        c = eval(r["claims"], env)
        h0, exp = copy.deepcopy(h), expected_claims(dict(c))
        reg = W.registry(kind_, base, r.get("strict", True))
        enc_cls = dict(ENCODERS).get(r.get("encoder_cls"))
        dec_cls = dict(DECODERS).get(r.get("decoder_cls"))
        e = call(jwt.encode, h, c, key, registry=reg, encoder_cls=enc_cls)
        print("encode ->", e, "header after:", h)
        if h != h0 or list(h.items()) != list(h0.items()):
            return 1
        if e[0] != "ok":
            return 1
        wire = wire_header(e[1]) or {}
        dform = r.get("decode_key_form") or r["key_form"]
        dkey = key
        if dform != r["key_form"]:
            ks = W.keys[fam]
            signer = next((k for k in ks if k.kid == wire.get("kid")), ks[0]) if "keyset" in r["key_form"] else ks[0]
            dkey = W.decode_key(fam, dform, signer)
        d = call(jwt.decode, e[1], dkey, registry=reg, decoder_cls=dec_cls)
        print("decode (key form %s) ->" % dform, d if d[0] == "err" else (d[1].header, d[1].claims), "expected claims", exp,
              "header in the token", wire)
        if d[0] == "ok" and (d[1].header != wire or list(d[1].header) != list(wire)):
            return 1
        if d[0] == "err" and "keyset" in dform:
            from joserfc.errors import InvalidKeyIdError
            return 0 if isinstance(d[1], InvalidKeyIdError) and wire.get("kid") not in [k.kid for k in W.keys[fam]] else 1
        if r.get("decoder_cls") not in (None, 1, 2):
            return 0 if (d[0] == "ok" and isinstance(d[1].claims, dict)) or (d[0] == "err" and isinstance(d[1], InvalidPayloadError)) else 1
        if d[0] != "ok" or exp is None or not json_equal(d[1].claims, exp):
            return 1
        got = {k: v for k, v in d[1].header.items() if k in h0 or k == "typ"}
        return 0 if got == {"typ": "JWT", **h0} else 1
    if kind == "payload":
        tname, kind_, base, fam, added = tr[r["transport"]]
        key = W.keys[fam][0]
        if r.get("payload_hex") is not None:
            p = bytes.fromhex(r["payload_hex"])
        else:
            p = bytes.fromhex(r["payload_repeat"][0]) * r["payload_repeat"][1]
        reg = W.registry(kind_, base, True)
        h = {**base, "typ": "JWT"}
        tok = jws.serialize_compact(h, p, key, registry=reg) if kind_ == "jws" else jwe.encrypt_compact(h, p, key, registry=reg)
        dec_cls = dict(DECODERS).get(r.get("decoder_cls"))
        d = call(jwt.decode, tok, key, registry=reg, decoder_cls=dec_cls)
        print("decode (decoder_cls=%r) ->" % (dec_cls,), d if d[0] == "err" else ("claims", d[1].claims))
        try:
            own = json.loads(p, cls=dec_cls)
        except (ValueError, TypeError, RecursionError):
            own = None
        if isinstance(own, dict):
            return 0 if d[0] == "ok" and d[1].claims == own else 1
        return 0 if d[0] == "err" and isinstance(d[1], InvalidPayloadError) else 1
    if kind in ("tamper", "wrong-key"):
        from joserfc.jwk import JWKRegistry
        tname, kind_, base, fam, added = tr[r["transport"]]
        key = JWKRegistry.import_key(r["jwk"])
        reg = W.registry(kind_, base, True)
        d = call(jwt.decode, r["token"], key, registry=reg, decoder_cls=dict(DECODERS).get(r.get("decoder_cls")))
        print("decode ->", d if d[0] == "err" else ("claims", d[1].claims))
        return 1 if d[0] == "ok" or isinstance(d[1], InvalidPayloadError) else 0
    print("see the replay file for the failing case")
    return 1
