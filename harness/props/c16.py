"""C16 — untrusted tokens are rejected only with JoseError or ValueError."""
import json, os, sys, time, warnings, collections
import lib
from lib import c_hex, c_str, c_Z, c_N, c_bool, c_list, c_pv, c_exn, exn_class
sys.path.insert(0, os.path.dirname(os.path.abspath(__file__)))
import c16_search as S

os.environ.setdefault("RUST_BACKTRACE", "0")


def call(f, *a, **k):
    try:
        return ("ok", f(*a, **k))
    except BaseException as e:  # noqa
        if isinstance(e, (KeyboardInterrupt, SystemExit, MemoryError)):
            raise
        return ("err", e)


def c_res(r, okf):
    if r[0] == "ok":
        return "(Ok %s)" % okf(r[1])
    return "(Err %s)" % c_exn(exn_class(r[1]))


def c_unit(_):
    return "tt"


def c_string(s):
    assert all(32 <= ord(c) < 127 and c != '"' for c in s), s
    return '"%s"%%string' % s


def c_strlist(l):
    return c_list([c_string(x) for x in l])


def renderable(v):
    """can this Python value be written as a pv term (JSON values, str keys; no deep / long values)"""
    if S.has_deep(v):
        return False
    try:
        c_pv(v)
        return True
    except (TypeError, RecursionError):
        return False


def json_outcome(raw):
    """json.loads(raw) as the model's oracle: value, or the class raised"""
    try:
        v = json.loads(raw)
    except RecursionError:
        return "(Err ERuntime)"
    except ValueError:
        return "(Err EValue)"
    if not renderable(v):
        return None
    t = c_pv(v)
    if "FNan" in t or "FInf" in t:      # NaN != NaN: result values could not be compared with ==
        return None
    return "(Ok %s)" % t if len(t) < 20000 else None


OPS = ("verify", "decrypt", "unwrapKey", "deriveKey")


def c_key(k):
    crv = k.curve_name if k.key_type in ("EC", "OKP") else ""
    raw = k.raw_value if k.key_type == "oct" else b""
    opfail = [op for op in OPS if call(k.get_op_key, op)[0] == "err"]
    return ("{| k_kty := %s; k_crv := %s; k_kid := %s; k_use := %s; k_raw := %s; k_private := %s; k_opfail := %s |}" % (
        c_string(k.key_type), c_string(crv), c_pv(k.kid), c_pv(k.get("use")), c_hex(raw), c_bool(k.is_private), c_strlist(opfail)))


def c_keyobj(k):
    from joserfc.jwk import KeySet
    if isinstance(k, KeySet):
        return "(AKeySet %s)" % c_list([c_key(x) for x in k.keys])
    return "(AKey %s)" % c_key(k)


def c_keyarg(name):
    """the key part of a key name ('+s:<sender>' removed)"""
    name = name.split("+s:", 1)[0]
    if name.startswith("call:nested:"):
        return "(ACall %s)" % c_keyobj(S.keys()[name[len("call:nested:"):]])
    if name.startswith("call:"):
        what = name[5:]
        if what in ("str", "bytes", "emptystr"):
            from joserfc.jwk import OctKey
            val = {"str": "secret-secret-secret-secret-1234", "bytes": b"0123456789abcdef", "emptystr": ""}[what]
            return "(ACall (AText %s))" % c_key(OctKey.import_key(val))
        if what in ("none", "int", "dict", "list"):
            return "(ACall AOther)"
        return "(ACall %s)" % c_keyobj(S.keys()[what])
    return c_keyobj(S.keys()[name])


def c_sender(name):
    from joserfc.jwk import KeySet
    if "+s:" not in name:
        return "SNone"
    k = S.keys()[name.split("+s:", 1)[1]]
    if isinstance(k, KeySet):
        return "(SSet %s)" % c_list([c_key(x) for x in k.keys])
    return "(SKey %s)" % c_key(k)


def c_cinput(v):
    if isinstance(v, bytes):
        return "(CBytes %s)" % c_hex(v)
    return "(CStr %s)" % c_str(v)


# ---------------------------------------------------------------------------
# direct oracle on the implementation: the three streams
# ---------------------------------------------------------------------------
def run_streams(ctx, dist):
    calls = S.all_calls(ctx.rng, ctx.quick)
    escapes = {}
    boundary = {}
    n_by = collections.Counter()
    prev = None
    hist = {"repeated": 0, "class_changed": 0}
    for (entry, value, keyname, reg, tag) in calls:
        st, ex = S.execute(entry, value, keyname, reg)
        cls_now = "Ok" if st == "ok" else exn_class(ex)
        if tag.endswith("|twice") and prev is not None:
            hist["repeated"] += 1
            if prev != cls_now:
                hist["class_changed"] += 1
        prev = cls_now
        n_by[(tag.split("/")[0], st)] += 1
        if tag.startswith("bnd/"):
            boundary.setdefault(tag[4:], set()).add("Ok" if st == "ok" else exn_class(ex))
        dist["calls:" + entry] = dist.get("calls:" + entry, 0) + 1
        ctx.coverage["evaluations"] += 1
        if st == "escape":
            fn, loc = S.innermost(ex)
            sig = (entry, S.exc_name(ex), fn)
            size = len(json.dumps(S.enc_value(value)))
            if sig not in escapes or size < escapes[sig][0]:
                escapes[sig] = (size, value, keyname, reg, tag, loc, str(ex)[:200])
    for k, v in sorted(n_by.items()):
        dist["stream %s %s" % k] = v
    # outcome classes per boundary of the content-encryption / key-management layers (genuine tags)
    ctx.coverage["boundary_observations"] = {k: sorted(v) for k, v in sorted(boundary.items())}
    # histories: every hostile token runs on registries / keys / algorithm singletons that earlier (valid and hostile)
    # tokens of the same process have used; a sample is offered twice in a row and the outcome class compared
    ctx.coverage["histories"] = dict(hist, shared_state="one process, shared default registries, key objects and key sets for all %d calls" % len(calls))
    if hist["class_changed"]:
        ctx.notes.append("the same token gave two different outcome classes on %d of %d repetitions" % (hist["class_changed"], hist["repeated"]))
    # distinct inputs: by (entry, value) digest, cheap
    ctx.distinct.update({hash((c[0], S.short(c[1], 100000), c[2], c[3])) .to_bytes(8, "big", signed=True) for c in calls})
    for (entry, exc, fn), (size, value, keyname, reg, tag, loc, msg) in sorted(escapes.items(), key=lambda kv: kv[0]):
        ctx.violation({"entry": entry, "exc": exc, "where": fn},
                      "%s(%s, key=%s, registry=%s) escapes with %s (%s) from %s [%s]; input kind %s" % (
                          entry, S.short(value, 160), keyname, reg, exc, msg, fn, loc, tag),
                      {"entry": entry, "value": S.enc_value(value), "key": keyname, "reg": reg, "where": fn, "loc": loc})
    return calls, escapes


# ---------------------------------------------------------------------------
# function-level correspondence
# ---------------------------------------------------------------------------
def header_pool(ctx):
    rng = ctx.rng
    pool = []
    for h, alg, kn, kind in S.jws_mutants(rng, True):
        pool.append(h)
    for h, base, kn, kind in S.jwe_mutants(rng, True):
        pool.append(h)
    pool += S.HEADER_OBJECTS
    pool = [h for h in pool if renderable(h)]
    seen, out = set(), []
    for h in pool:
        k = json.dumps(h, sort_keys=True)
        if k not in seen:
            seen.add(k); out.append(h)
    return out


def function_cases(ctx, dist):
    from joserfc import util, registry as R, jws, jwe
    from joserfc.rfc7515.model import HeaderMember
    from joserfc.rfc7515 import compact as c15
    from joserfc.rfc7516.models import Recipient, CompactEncryption, FlattenedJSONEncryption
    from joserfc.rfc7797.registry import JWSRegistry as R7797, _safe_b64_header
    from joserfc.rfc7518.derive_key import u32be_len_input
    from joserfc.rfc7518.ec_key import ECKey
    from joserfc.rfc8037.okp_key import OKPKey
    rng = ctx.rng
    cases, meta = [], []

    def add(term, m):
        if len(term) > 30000:
            return
        cases.append(term); meta.append(m)
        dist["fn:" + m[0]] = dist.get("fn:" + m[0], 0) + 1
        ctx.note_case((m[0], term[:400]))

    shapes = [v for v in S.SHAPES if renderable(v)] + ["alg", "b64", "crit", ["alg", "b64"], {"alg": "HS256", "crit": ["alg"]},
                                                         {"kid": None}, [None], [True, 1], 1.0, True, [1.0], {"a": []}, "al", b"ab", b"", [0, 255], [256], [-1],
                                                         [1, "a"], [True], 0.0, 2 ** 31, "12", "AA", "QUJD"]
    # ---- the Python semantics kernel against CPython
    for k in shapes:
        for v in shapes:
            if isinstance(k, bytes) or isinstance(v, bytes):
                continue
            if ctx.quick and rng.random() < 0.65:
                continue
            add("KIn %s %s %s" % (c_pv(k), c_pv(v), c_res(call(lambda: k in v), c_bool)), ("KIn", k, v))
            add("KEq %s %s %s" % (c_pv(k), c_pv(v), c_bool(k == v)), ("KEq", k, v))
    for v in shapes:
        for k in ("alg", "a", "", "crit"):
            add("KGetitem %s %s %s" % (c_pv(v), c_str(k), c_res(call(lambda: v[k]), c_pv)), ("KGetitem", v, k))
            add("KGet %s %s %s" % (c_pv(v), c_str(k), c_res(call(lambda: v.get(k)), c_pv)), ("KGet", v, k))
        add("KIter %s %s" % (c_pv(v), c_res(call(lambda: list(iter(v))), lambda l: c_list([c_pv(x) for x in l]))), ("KIter", v))
        add("KTruth %s %s" % (c_pv(v), c_bool(bool(v))), ("KTruth", v))
        hashable = call(lambda: hash(v))[0] == "ok"
        add("KHashable %s %s" % (c_pv(v), c_bool(hashable)), ("KHashable", v))
        for ascii_ in (True, False):
            r = call(util.to_bytes, v, "ascii" if ascii_ else "utf-8")
            add("FToBytes %s %s %s" % (c_bool(ascii_), c_pv(v), c_res(r, c_hex)), ("FToBytes", ascii_, v))
        for b64 in (True, False):
            add("FU32 %s %s %s" % (c_pv(v), c_bool(b64), c_res(call(u32be_len_input, v, b64), c_hex)), ("FU32", v, b64))
        for kind in ("str", "list[str]", "int", "bool", "url", "jwk", "none"):
            add("FValidate %s %s %s" % (c_string(kind), c_pv(v), c_res(call(R._value_validators[kind], v), c_unit)), ("FValidate", kind, v))
    for s in ["", "a", "é", "\ud800", "a\udfffb", "中", "\U0001F600", "\x7f\x80", "￿", "퟿", "\U0010ffff"] + \
            ["".join(chr(rng.choice([0x41, 0x7f, 0x80, 0x7ff, 0x800, 0xd7ff, 0xd800, 0xdfff, 0xe000, 0xffff, 0x10000, 0x10ffff]))
                     for _ in range(rng.randrange(1, 5))) for _ in range(ctx.scale(60, 600))]:
        add("FUtf8 %s %s" % (c_str(s), c_res(call(s.encode, "utf-8"), c_hex)), ("FUtf8", s))
    for v in [b"", b".", b"..", b"a.b", b"a..b.", b".a", b"a.b.c.d.e", b"....", b"ab"] + \
            [bytes(rng.choice(b".ab") for _ in range(rng.randrange(0, 9))) for _ in range(ctx.scale(40, 400))]:
        add("FSplit %s %s" % (c_hex(v), c_N(len(v.split(b".")))), ("FSplit", v))
    for url in ("http://a", "https://a", "http:/", "HTTP://a", "", "ftp://a", "xhttp://", "https://"):
        add("FValidate %s %s %s" % (c_string("url"), c_pv(url), c_res(call(R._value_validators["url"], url), c_unit)), ("FValidate", "url", url))

    # ---- header handling of the registries
    pool = header_pool(ctx)
    if ctx.quick:
        pool = pool[:40] + rng.sample(pool[40:], min(len(pool) - 40, 300))
    jws_all, jwe_all = S.JWS_ALGS, S.JWE_ALL
    reg_jws = {(False, True): jws.JWSRegistry(), (False, False): jws.JWSRegistry(strict_check_header=False),
               (True, True): R7797(), (True, False): R7797(strict_check_header=False)}
    for h in pool:
        add("FCheckCrit %s %s" % (c_pv(h), c_res(call(R.check_crit_header, h), c_unit)), ("FCheckCrit", h))
        add("FSafeB64 %s %s" % (c_pv(h), c_res(call(_safe_b64_header, h), c_unit)), ("FSafeB64", h))
        add("FCheckSupported %s %s" % (c_pv(h), c_res(call(R.check_supported_header, reg_jws[(False, True)].header_registry, h), c_unit)),
            ("FCheckSupported", h))
        for (r7, strict), reg in (rng.sample(list(reg_jws.items()), 2) if ctx.quick else reg_jws.items()):
            add("FJwsCheckHeader %s %s %s %s" % (c_bool(r7), c_bool(strict), c_pv(h), c_res(call(reg.check_header, h), c_unit)),
                ("FJwsCheckHeader", r7, strict, h))
        w = rng.randrange(3)
        hr = [reg_jws[(False, True)].header_registry, jwe.default_registry.header_registry, reg_jws[(True, True)].header_registry][w]
        req = rng.random() < 0.7
        add("FValidateRegistry %s %s %s %s" % (c_N(w), c_pv(h), c_bool(req), c_res(call(R.validate_registry_header, hr, h, req), c_unit)),
            ("FValidateRegistry", w, h, req))
        for strict in (True, False):
            for allowed in ([], jwe_all):
                if ctx.quick and rng.random() < 0.5:
                    continue
                more = rng.random() < 0.7
                reg = jwe.JWERegistry(algorithms=allowed or None, strict_check_header=strict)
                add("FJweCheckHeader %s %s %s %s %s" % (c_bool(strict), c_strlist(allowed), c_pv(h), c_bool(more),
                                                        c_res(call(reg.check_header, h, more), c_unit)),
                    ("FJweCheckHeader", strict, allowed, h, more))
    # ---- algorithm lookup with arbitrary names
    names = shapes + S.JWS_ALGS + S.JWE_ALL + ["HS257", "hs256", "A128GCMX", "def", " dir"]
    for name in names:
        if isinstance(name, bytes):
            continue
        for allowed in ([], jws_all, ["HS256"], ["none", "EdDSA"]):
            r = call(lambda: jws.JWSRegistry(algorithms=allowed or None).get_alg(name).name)
            add("FJwsGetAlg %s %s %s" % (c_strlist(allowed), c_pv(name), c_res(r, c_string)), ("FJwsGetAlg", allowed, name))
        for allowed in ([], jwe_all, ["dir", "A128GCM"]):
            reg = jwe.JWERegistry(algorithms=allowed or None)
            for w, f in enumerate((reg.get_alg, reg.get_enc, reg.get_zip)):
                r = call(lambda: f(name).name)
                add("FJweGet %s %s %s %s" % (c_N(w), c_strlist(allowed), c_pv(name), c_res(r, c_string)), ("FJweGet", w, allowed, name))
    # ---- headers() of the JSON members / recipients
    hv = [None, {}, {"alg": "HS256"}, {"kid": "a", "alg": "x"}, {"b64": False}, 1, 0, "", "ab", "a", [], [1], ["ab"], [["a", 1]], True, False,
          1.5, {"alg": None}, {"enc": "A128GCM", "alg": "dir"}]
    for p in hv:
        for h in hv:
            add("FMemberHeaders %s %s %s" % (c_pv(p), c_pv(h), c_res(call(lambda: HeaderMember(p, h).headers()), c_pv)), ("FMemberHeaders", p, h))
            for u in ([None, {"zip": "DEF"}] if ctx.quick else hv):
                add("FRecipientHeaders true %s %s %s %s" % (c_pv(p), c_pv(u), c_pv(h), c_res(
                    call(lambda: Recipient(FlattenedJSONEncryption(p, None, u), h).headers()), c_pv)), ("FRecipientHeaders", True, p, u, h))
            add("FRecipientHeaders false %s PNone %s %s" % (c_pv(p), c_pv(h), c_res(
                call(lambda: Recipient(CompactEncryption(p), h).headers()), c_pv)), ("FRecipientHeaders", False, p, h))
    # ---- json_b64decode / decode_header with the JSON parser as oracle
    raws = list(S.HEADER_RAW) + [S.jdump(h) for h in S.HEADER_OBJECTS if renderable(h)] + [S.jdump(h) for h in rng.sample(pool, min(len(pool), ctx.scale(150, 1500)))]
    for raw in raws:
        j = json_outcome(raw)
        if j is None:
            continue
        seg = S.b64u(raw).encode("ascii")
        variants = [seg] if len(seg) > 400 else [seg, seg + b"=", seg[:-1], b" " + seg, seg.replace(b"A", b"+", 1)]
        for sg in variants:
            jj = j if sg in (seg, seg + b"=") else None
            if jj is None:
                d = call(util.urlsafe_b64decode, sg)
                jj = json_outcome(d[1]) if d[0] == "ok" else "(Err EValue)"
                if jj is None:
                    continue
            add("FDecodeHeader %s %s %s" % (c_hex(sg), jj, c_res(call(c15.decode_header, sg), c_pv)), ("FDecodeHeader", sg))
            for text in ((sg, sg.decode("latin1")) if sg is seg or not ctx.quick else (sg,)):
                add("FJsonB64 %s %s %s" % (c_pv(text), jj, c_res(call(util.json_b64decode, text), c_pv)), ("FJsonB64", text))
    for text in ("é", "\ud800", 5, None, [101, 51, 48], ["e30"], {}, {"a": 1}, True, "e30", b"e30", 1.5, 1234, [], "", b"", "W10", [87, 49, 48]):
        tb = call(util.to_bytes, text, "ascii")
        d = call(util.urlsafe_b64decode, tb[1]) if tb[0] == "ok" else ("err", None)
        jj = json_outcome(d[1]) if d[0] == "ok" else "(Err EValue)"
        add("FJsonB64 %s %s %s" % (c_pv(text), jj, c_res(call(util.json_b64decode, text), c_pv)), ("FJsonB64", text))
    # ---- JWK validation of embedded keys
    for epk in [e for e in S.epk_variants() if renderable(e)]:
        for ec in ((rng.random() < 0.5,) if ctx.quick else (True, False)):
            cls = ECKey if ec else OKPKey
            add("FValidateDictKey %s %s %s" % (c_bool(ec), c_pv(epk), c_res(call(cls.validate_dict_key, epk), c_unit)), ("FValidateDictKey", ec, epk))
    # ---- key selection
    ks = S.keys()
    for setname in S.SET_NAMES:
        kset = ks[setname]
        for kid in S.KEY_NAMES + [None, "", "nope", 0, [], {}, ["oct16"], True, 1.5, kset.keys[0].kid if kset.keys else "x"]:
            r = call(kset.get_by_kid, kid)
            idx = (lambda k: c_N([id(x) for x in kset.keys].index(id(k))))
            add("FGetByKid %s %s %s" % (c_list([c_key(k) for k in kset.keys]), c_pv(kid), c_res(r, idx)), ("FGetByKid", setname, kid))
    from joserfc.jwk import OctKey
    for use in (None, "sig", "enc"):
        k = OctKey.import_key({"kty": "oct", "k": "AAAA", **({"use": use} if use else {})})
        for u in ("sig", "enc"):
            add("FCheckUse %s %s %s" % (c_key(k), c_string(u), c_res(call(k.check_use, u), c_unit)), ("FCheckUse", use, u))
    # ---- PKCS7 unpadding (modelled step of the CBC-HS encs) against pyca's unpadder
    from joserfc.rfc7518 import jwe_encs as _je

    def real_unpad(data):
        u = _je.PKCS7(128).unpadder()
        return u.update(data) + u.finalize()
    datas = [b"", b"\x01", bytes(15), bytes(16), bytes(17), bytes([16]) * 16, bytes([16]) * 15 + b"\x0f", bytes([17]) * 32, bytes(15) + b"\x01",
             bytes(13) + b"\x03\x03\x03", bytes(13) + b"\x03\x02\x03", bytes(13) + b"\x02\x03\x03", bytes(31) + b"\x10", bytes(16) + bytes([16]) * 16,
             bytes(15) + b"\x00", bytes(15) + b"\xff", bytes(15) + b"\x11", bytes([1]) * 16, bytes([2]) * 16, bytes([15]) * 16, bytes([15]) * 15, bytes(48)]
    for _ in range(ctx.scale(150, 3000)):
        n = rng.choice([0, 1, 15, 16, 16, 16, 17, 31, 32, 32, 48])
        b = bytearray(rng.randrange(256) for _ in range(n))
        if n and rng.random() < 0.7:
            v = rng.choice([0, 1, 2, 3, 8, 15, 16, 17, 255])
            for i in range(1, min(v, n) + 1):
                b[-i] = v
            if rng.random() < 0.3 and n > 1:
                b[-rng.randrange(1, min(max(v, 2), n) + 1)] ^= rng.choice([1, 0x10, 0xff])
        datas.append(bytes(b))
    for data in datas:
        add("FUnpad %s %s" % (c_hex(data), c_res(call(real_unpad, data), c_hex)), ("FUnpad", data))
    # ---- guess_key with Key / KeySet / callable / text / other, kid of every JSON type ; sender keys with skid
    from joserfc.jwk import guess_key
    from joserfc.jwe import _guess_sender_key

    class Obj:
        def __init__(self, h):
            self.h = h

        def headers(self):
            return self.h

        def set_kid(self, kid):
            pass
    kidlen = lambda k: c_N(len(k.kid) if isinstance(k.kid, str) else 0)
    kid_values = S.KEY_NAMES[:6] + ["nope", ""] + [x for x in S.SHAPES if renderable(x)]
    for name in S.KEY_NAMES[:4] + S.SET_NAMES + S.CALLABLES:
        for kid in (kid_values if name.startswith(("set:", "call:set")) else kid_values[:3]):
            h = {"alg": "HS256", "kid": kid} if kid != "nope" or rng.random() < .5 else {"alg": "HS256"}
            karg, _ = S.resolve_key(name)
            r = call(guess_key, karg, Obj(h))
            add("FGuessKey %s %s %s" % (c_keyarg(name), c_pv(h), c_res(r, kidlen)), ("FGuessKey", name, kid))
    for sn in ("ec256b", "rsa", "set:all", "set:empty", "set:nokid2", "set:oct16"):
        for skid in kid_values:
            h = {"alg": "ECDH-1PU", "skid": skid} if skid != "nope" or rng.random() < .5 else {"alg": "ECDH-1PU"}
            sk = S.keys()[sn]
            if not sk:
                r = ("ok", None)
            else:
                r = call(_guess_sender_key, Obj(h), sk)
            add("FGuessSender %s %s %s" % (c_sender("x+s:" + sn), c_pv(h), c_res(r, lambda k: c_N(999) if k is None else kidlen(k))),
                ("FGuessSender", sn, skid))
    return cases, meta


# ---------------------------------------------------------------------------
# entry-level correspondence for the JWS compact entry points
# ---------------------------------------------------------------------------
class VerifyRecorder:
    def __init__(self):
        from joserfc.jws import JWSRegistry
        self.algs = list(JWSRegistry.algorithms.values())
        self.log = []

    def __enter__(self):
        for a in self.algs:
            orig = a.verify

            def wrapper(msg, sig, key, _orig=orig):
                r = call(_orig, msg, sig, key)
                self.log.append(r)
                if r[0] == "err":
                    raise r[1]
                return r[1]
            a.verify = wrapper
        return self

    def __exit__(self, *a):
        for x in self.algs:
            if "verify" in x.__dict__:
                del x.__dict__["verify"]


def entry_cases(ctx, calls, dist):
    from joserfc import util
    rng = ctx.rng
    cases, meta = [], []
    eid = {"jws.deserialize_compact": 0, "rfc7797.deserialize_compact": 1, "jwt.decode/jws": 2}
    cand = [c for c in calls if c[0] in eid and isinstance(c[1], (str, bytes)) and len(c[1]) < 3000 and "+s:" not in c[2]]
    rng.shuffle(cand)
    per_tag = collections.Counter()
    picked = []
    cap = ctx.scale(60, 600)
    for c in cand:
        if per_tag[c[4]] < cap:
            per_tag[c[4]] += 1
            picked.append(c)
    picked = picked[: ctx.scale(1100, 20000)]
    with VerifyRecorder() as rec:
        for (entry, value, keyname, reg, tag) in picked:
            del rec.log[:]
            r = call(S.call_entry, entry, value, keyname, reg)
            if len(rec.log) > 1:
                continue
            vr = c_res(rec.log[0], c_bool) if rec.log else "(Err EOracleMiss)"
            # oracle table for json.loads: header and payload octets
            try:
                vb = value if isinstance(value, bytes) else value.encode("utf-8")
            except UnicodeEncodeError:
                vb = None
            tbl = []
            good = True
            if vb is not None:
                parts = vb.split(b".")
                if len(parts) == 3:
                    for seg in parts[:2]:
                        d = call(util.urlsafe_b64decode, seg)
                        if d[0] == "ok":
                            j = json_outcome(d[1])
                            if j is None:
                                good = False
                                break
                            tbl.append("(%s, %s)" % (c_hex(d[1]), j))
            if not good:
                continue
            strict = reg != "lax"
            allowed = [] if reg == "default" else S.FEW_JWS if reg == "few" else S.JWS_ALGS
            term = "EJws %s %s %s %s %s %s %s %s" % (c_N(eid[entry]), c_bool(strict), c_strlist(allowed), c_keyarg(keyname), c_cinput(value),
                                               c_list(tbl), vr, c_res(r, c_unit))
            if len(term) > 30000:
                continue
            cases.append(term); meta.append(("EJws", entry, keyname, reg, tag, S.enc_value(value)))
            dist["entry:" + entry] = dist.get("entry:" + entry, 0) + 1
            ctx.note_case(("EJws", entry, keyname, reg, S.short(value, 300)))
    return cases, meta


# ---------------------------------------------------------------------------
# primitives: recorded results (for the JWE end-to-end correspondence) and observed classes
# ---------------------------------------------------------------------------
def raw_inflate(s):
    """what zlib does below DeflateZipModel.decompress (before the zlib.error mapping)"""
    import zlib
    from joserfc.rfc7518 import jwe_zips
    d = zlib.decompressobj() if s.startswith(jwe_zips.GZIP_HEAD) else zlib.decompressobj(-zlib.MAX_WBITS)
    try:
        v = d.decompress(s, jwe_zips.MAX_SIZE + 1)
    except zlib.error as e:
        return ("err", e)
    if len(v) > jwe_zips.MAX_SIZE or d.unconsumed_tail:
        from joserfc.errors import ExceededSizeError
        return ("err", ExceededSizeError())
    return ("ok", v)


class PrimRecorder:
    """wraps the places where joserfc hands over to json / pyca / zlib.  calls[name] = results of this
    entry call (reset by the caller), seen[name] = exception classes observed over the whole run"""
    NAMES = ("json.loads", "alg.verify", "enc.decrypt", "zlib", "rsa.decrypt", "aes_key_unwrap", "gcm.unwrap", "pbkdf2", "import_epk",
             "ecdh", "concat_kdf")

    def __init__(self):
        self.calls = {}
        self.seen = {n: set() for n in self.NAMES}
        self.undo = []

    def reset(self):
        self.calls = {}

    def rec(self, name, r, key=None):
        self.calls.setdefault(key or name, []).append(r)
        if r[0] == "err":
            self.seen[name].add(exn_class(r[1]))

    def patch(self, obj, attr, new):
        had = attr in getattr(obj, "__dict__", {})
        old = obj.__dict__.get(attr) if had else None
        setattr(obj, attr, new)
        self.undo.append((obj, attr, had, old))

    def __enter__(self):
        import joserfc.util, joserfc.jwt, json as _json
        from joserfc import jws, jwe, errors
        from joserfc.rfc7518 import jwe_algs, derive_key, jwe_zips
        from joserfc.rfc7518.ec_key import ECKey, ECBinding
        from joserfc.rfc8037.okp_key import OKPKey, OKPBinding
        from cryptography.hazmat.primitives.keywrap import InvalidUnwrap
        import binascii
        R = self

        class JsonShim:
            def __getattr__(self_, n):
                return getattr(_json, n)

            def loads(self_, *a, **k):
                r = call(_json.loads, *a, **k)
                R.rec("json.loads", r)
                if r[0] == "err":
                    raise r[1]
                return r[1]
        self.patch(joserfc.util, "json", JsonShim())
        self.patch(joserfc.jwt, "json", JsonShim())

        def wrap_method(obj, attr, name, classify):
            orig = getattr(obj, attr)

            def w(*a, **k):
                r = call(orig, *a, **k)
                c = classify(r, a)
                if c is not None:
                    R.rec(name, c[0], c[1] if len(c) > 1 else None)
                if r[0] == "err":
                    raise r[1]
                return r[1]
            self.patch(obj, attr, w)
        for a in jws.JWSRegistry.algorithms.values():
            wrap_method(a, "verify", "alg.verify", lambda r, a_: (r,))
        from joserfc.rfc7518 import jwe_encs
        real_pkcs7 = jwe_encs.PKCS7
        R.cbc_raw = None

        class Pkcs7Shim:
            """records the raw CBC output handed to the unpadder: the unpadding is part of the model"""
            def __init__(self_, bits):
                self_.p = real_pkcs7(bits)

            def padder(self_):
                return self_.p.padder()

            def unpadder(self_):
                u = self_.p.unpadder()

                class U:
                    def update(self__, data):
                        R.cbc_raw = (R.cbc_raw or b"") + bytes(data)
                        return u.update(data)

                    def finalize(self__):
                        return u.finalize()
                return U()
        self.patch(jwe_encs, "PKCS7", Pkcs7Shim)

        def enc_cls(r, a_):
            raw, R.cbc_raw = R.cbc_raw, None
            return (("ok", raw),) if raw is not None else (r,)
        for m in jwe.JWERegistry.algorithms["enc"].values():
            orig_dec = m.decrypt

            def dec(*a, _orig=orig_dec, **k):
                R.cbc_raw = None
                r = call(_orig, *a, **k)
                c = enc_cls(r, a)
                R.rec("enc.decrypt", c[0])
                if r[0] == "err":
                    raise r[1]
                return r[1]
            self.patch(m, "decrypt", dec)
        for z in jwe.JWERegistry.algorithms["zip"].values():
            wrap_method(z, "decompress", "zlib", lambda r, a_: (raw_inflate(a_[0]),))

        def rsa_cls(r, a_):
            if r[0] == "ok" or isinstance(r[1], errors.DecodeError):
                return (r,)
            e = r[1]
            if isinstance(e, ValueError) and S.innermost(e)[0].endswith("jwe_algs.decrypt_cek"):
                return (r,)
            return None

        def gcm_cls(r, a_):
            if r[0] == "ok" or isinstance(r[1], errors.DecodeError):
                return (r,)
            e = r[1]
            if isinstance(e, ValueError) and not isinstance(e, (binascii.Error, UnicodeError)) and S.innermost(e)[0].endswith("jwe_algs.decrypt_cek"):
                return (r,)
            return None
        for m in jwe.JWERegistry.algorithms["alg"].values():
            if isinstance(m, jwe_algs.RSAAlgModel):
                wrap_method(m, "decrypt_cek", "rsa.decrypt", rsa_cls)
            elif isinstance(m, jwe_algs.AESGCMAlgModel):
                wrap_method(m, "decrypt_cek", "gcm.unwrap", gcm_cls)
        orig_unwrap = jwe_algs.aes_key_unwrap

        def unwrap(*a, **k):
            r = call(orig_unwrap, *a, **k)
            R.rec("aes_key_unwrap", ("err", errors.DecodeError("unwrap")) if r[0] == "err" and isinstance(r[1], InvalidUnwrap) else r)
            if r[0] == "err":
                raise r[1]
            return r[1]
        self.patch(jwe_algs, "aes_key_unwrap", unwrap)

        def kdf_shim(orig, name):
            def make(*a, **k):
                c = call(orig, *a, **k)
                if c[0] == "err":
                    R.rec(name, c)
                    raise c[1]

                class Proxy:
                    def derive(self_, key):
                        r = call(c[1].derive, key)
                        R.rec(name, r)
                        if r[0] == "err":
                            raise r[1]
                        return r[1]
                return Proxy()
            return make
        self.patch(jwe_algs, "PBKDF2HMAC", kdf_shim(jwe_algs.PBKDF2HMAC, "pbkdf2"))
        self.patch(derive_key, "ConcatKDFHash", kdf_shim(derive_key.ConcatKDFHash, "concat_kdf"))

        def imp_cls(r, a_):
            if r[0] == "ok":
                return (("ok", None),)
            e = r[1]
            if isinstance(e, KeyError) or (isinstance(e, ValueError) and str(e).startswith("Invalid crv value")):
                return None
            return (r,)
        for B, kind in ((ECBinding, classmethod), (OKPBinding, staticmethod)):
            for attr in ("import_public_key", "import_private_key"):
                orig = getattr(B, attr)

                def w(*a, _orig=orig, **k):
                    obj = a[-1]
                    r = call(_orig, obj)
                    c = imp_cls(r, a)
                    if c is not None:
                        R.rec("import_epk", c[0])
                    if r[0] == "err":
                        raise r[1]
                    return r[1]
                had = attr in B.__dict__
                old = B.__dict__.get(attr)
                setattr(B, attr, kind(w) if kind is staticmethod else classmethod(lambda cls, obj, _w=w: _w(obj)))
                self.undo.append((B, attr, had, old))
        for K in (ECKey, OKPKey):
            orig = K.__dict__["exchange_derive_key"]

            def w(self_, key, _orig=orig):
                r = call(_orig, self_, key)
                if r[0] == "ok" or isinstance(r[1], ValueError):
                    R.rec("ecdh", r, "ecdh_epk" if key.kid is None else "ecdh_sender")
                if r[0] == "err":
                    raise r[1]
                return r[1]
            self.undo.append((K, "exchange_derive_key", True, orig))
            setattr(K, "exchange_derive_key", w)
        return self

    def __exit__(self, *a):
        for obj, attr, had, old in reversed(self.undo):
            if had:
                setattr(obj, attr, old)
            else:
                try:
                    delattr(obj, attr)
                except AttributeError:
                    pass
        self.undo = []


def c_recorded(rec):
    """the `recorded` term, or None when a primitive was called more than once"""
    def one(key, okf):
        l = rec.calls.get(key, [])
        if len(l) > 1:
            raise ValueError(key)
        return c_res(l[0], okf) if l else "unreached"
    try:
        return ("{| rp_verify := %s; rp_enc := %s; rp_inflate := %s; rp_rsa := %s; rp_aes := %s; rp_gcm := %s; rp_pbkdf2 := %s; "
                "rp_import := %s; rp_ecdh_epk := %s; rp_ecdh_sender := %s; rp_kdf := %s |}" % (
                    one("alg.verify", c_bool), one("enc.decrypt", c_hex), one("zlib", c_hex), one("rsa.decrypt", c_hex),
                    one("aes_key_unwrap", c_hex), one("gcm.unwrap", c_hex), one("pbkdf2", c_hex), one("import_epk", c_unit),
                    one("ecdh_epk", c_hex), one("ecdh_sender", c_hex), one("concat_kdf", c_hex)))
    except ValueError:
        return None


def jwe_entry_cases(ctx, calls, dist, rec):
    from joserfc import util
    rng = ctx.rng
    cases, meta = [], []
    eid = {"jwe.decrypt_compact": 0, "jwt.decode/jwe": 1, "jwe.decrypt_json": 2}
    cand = [c for c in calls if c[0] in eid and isinstance(c[1], (str, bytes, dict)) and len(json.dumps(S.enc_value(c[1]))) < 4000]
    rng.shuffle(cand)
    per_tag = collections.Counter()
    picked = []
    cap = ctx.scale(70, 700)
    for c in cand:
        if per_tag[c[4]] < cap:
            per_tag[c[4]] += 1
            picked.append(c)
    picked = picked[: ctx.scale(1300, 25000)]
    skipped = 0
    for (entry, value, keyname, reg, tag) in picked:
        rec.reset()
        r = call(S.call_entry, entry, value, keyname, reg)
        rt = c_recorded(rec)
        if rt is None:
            skipped += 1
            continue
        tbl, good = [], True
        raws = []
        if entry == "jwe.decrypt_json":
            p0 = value.get("protected")
            d = call(lambda: util.urlsafe_b64decode(util.to_bytes(p0, "ascii")))
            if d[0] == "ok":
                raws.append(d[1])
        else:
            try:
                vb = value if isinstance(value, bytes) else value.encode("utf-8")
                parts = vb.split(b".")
                if len(parts) == 5:
                    d = call(util.urlsafe_b64decode, parts[0])
                    if d[0] == "ok":
                        raws.append(d[1])
            except UnicodeEncodeError:
                pass
        if entry == "jwt.decode/jwe":
            for k in ("zlib", "enc.decrypt"):
                l = rec.calls.get(k, [])
                if l and l[0][0] == "ok":
                    raws.append(l[0][1])
                    break
        for raw in raws:
            j = json_outcome(raw)
            if j is None:
                good = False
                break
            tbl.append("(%s, %s)" % (c_hex(raw), j))
        if not good:
            continue
        if entry == "jwe.decrypt_json" and not renderable(value):
            continue
        strict = reg != "lax"
        allowed = [] if reg == "default" else S.FEW_JWE if reg == "few" else S.JWE_ALL
        va = reg != "any1"
        vt = "(CBytes (hex \"\"))" if entry == "jwe.decrypt_json" else c_cinput(value)
        dt = c_pv(value) if entry == "jwe.decrypt_json" else "PNone"
        term = "EJwe %s %s %s %s %s %s %s %s %s %s %s" % (c_N(eid[entry]), c_bool(strict), c_bool(va), c_strlist(allowed), c_keyarg(keyname),
                                                       c_sender(keyname) if entry != "jwt.decode/jwe" else "SNone", vt, dt, c_list(tbl), rt, c_res(r, c_unit))
        if len(term) > 30000:
            continue
        cases.append(term); meta.append(("EJwe", entry, keyname, reg, tag, S.enc_value(value)))
        dist["entry:" + entry] = dist.get("entry:" + entry, 0) + 1
        ctx.note_case(("EJwe", entry, keyname, reg, S.short(value, 300)))
    dist["entry:jwe skipped (a primitive was called twice)"] = skipped
    return cases, meta


def shard_bounds(cases, shard, max_chars):
    """the shard boundaries lib.CoqEval.run uses"""
    bounds, start, size = [], 0, 0
    for i, c in enumerate(cases):
        if i > start and (i - start >= shard or size + len(c) > max_chars):
            bounds.append((start, i)); start, size = i, 0
        size += len(c)
    if cases:
        bounds.append((start, len(cases)))
    return bounds


def run_eval(ev, cases):
    """CoqEval with moderate parallelism; a shard whose coqc died without output (the machine is
    shared: out-of-memory kills) is retried once on its own"""
    res = ev.run(cases, jobs=12)
    if res["errors"]:
        bounds = dict(shard_bounds(cases, ev.shard, ev.max_chars))
        errors = []
        for si, err in res["errors"]:
            if si in bounds and ("Error" not in err):
                time.sleep(2)
                r2 = ev.run(cases[si:bounds[si]], jobs=2)
                if not r2["errors"]:
                    res["evaluated"] += r2["evaluated"]
                    res["failing"] += [si + i for i in r2["failing"]]
                    for k, v in r2["shows"].items():
                        res["shows"][si + k] = v
                    continue
                err = r2["errors"][0][1]
            errors.append((si, err))
        res["errors"] = errors
    return res


# every name exported by the public modules, classified; an unknown exported name fails the check (fail closed)
EXPORTS = {
    "joserfc.jws": {"consume": {"deserialize_compact": "jws.deserialize_compact", "deserialize_json": "jws.deserialize_json",
                                "extract_compact": "jws.extract+validate", "validate_compact": "jws.extract+validate",
                                "detach_content": "jws.detach+verify (helper; only what verification does with its output is judged)"},
                    "other": ["JWSAlgModel", "JWSRegistry", "HeaderDict", "HeaderMember", "CompactSignature", "GeneralJSONSignature",
                              "FlattenedJSONSignature", "GeneralJSONSerialization", "FlattenedJSONSerialization", "serialize_compact", "serialize_json"]},
    "joserfc.jwe": {"consume": {"decrypt_compact": "jwe.decrypt_compact", "decrypt_json": "jwe.decrypt_json"},
                    "other": ["JWERegistry", "JWEEncModel", "JWEZipModel", "Recipient", "CompactEncryption", "GeneralJSONEncryption",
                              "FlattenedJSONEncryption", "encrypt_compact", "encrypt_json", "default_registry"]},
    "joserfc.jwt": {"consume": {"decode": "jwt.decode/jws + jwt.decode/jwe"},
                    "other": ["Claims", "Token", "ClaimsOption", "JWTClaimsRegistry", "encode", "check_sensitive_data"]},
    "joserfc.rfc7797": {"consume": {"deserialize_compact": "rfc7797.deserialize_compact", "deserialize_json": "rfc7797.deserialize_json"},
                        "other": ["JWSRegistry", "serialize_compact", "serialize_json"]},
}


def check_exports(ctx):
    import importlib
    unknown, table = [], {}
    for mod, t in EXPORTS.items():
        names = list(getattr(importlib.import_module(mod), "__all__", []))
        for n in names:
            if n in t["consume"]:
                table["%s.%s" % (mod, n)] = t["consume"][n]
            elif n not in t["other"]:
                unknown.append("%s.%s" % (mod, n))
        for n in t["consume"]:
            if n not in names:
                unknown.append("%s.%s (listed as consuming entry, no longer exported)" % (mod, n))
    ctx.coverage["exported_consuming_entries"] = table
    ctx.coverage["exported_names_not_in_table"] = len(unknown)
    if unknown:
        ctx.violation({"kind": "entry-table"}, "exported names the C16 entry table does not know (a new consuming entry point would be unchecked): %s" % unknown,
                      {"names": unknown, "no_failing_input_found": True, "broken": "harness entry table"})


def run(ctx):
    warnings.simplefilter("ignore")
    ok, log = ctx.prove(extra_targets=["model/C16Cases.vo"])
    dist = {}
    t0 = time.time()
    S.ensure_drafts()
    check_exports(ctx)
    with PrimRecorder() as rec:
        calls, escapes = run_streams(ctx, dist)
        t1 = time.time()
        jcases, jmeta = jwe_entry_cases(ctx, calls, dist, rec)
    cases, meta = function_cases(ctx, dist)
    ecases, emeta = entry_cases(ctx, calls, dist)
    cases += ecases + jcases; meta += emeta + jmeta
    # classes observed at each primitive of the implementation, checked against contract_classes (props/C16.v)
    observed = {n: sorted(v) for n, v in rec.seen.items()}
    ctx.coverage["primitive_classes_observed"] = observed
    for n, classes in observed.items():
        for c in classes:
            cases.append("CContract %s %s" % (c_string(n), c_exn(c))); meta.append(("CContract", n, c))
    # every registered algorithm row was fed with tokens produced by the library itself
    ctx.coverage["library_token_rows"] = dict(S.LAST_COVERAGE)
    gaps = [k for k, v in S.LAST_COVERAGE.items() if k.startswith(("jws:", "jwe-alg:", "jwe-enc:")) and not (isinstance(v, int) and v > 0)]
    from joserfc import jws as _jws, jwe as _jwe
    rows = ["jws:" + a for a in _jws.JWSRegistry.algorithms] + ["jwe-alg:" + a for a in _jwe.JWERegistry.algorithms["alg"]] + \
        ["jwe-enc:" + a for a in _jwe.JWERegistry.algorithms["enc"]]
    gaps += [r for r in rows if r not in S.LAST_COVERAGE]
    if gaps:
        ctx.violation({"kind": "generator-coverage"}, "no library-produced token for the registered rows %s" % gaps,
                      {"rows": gaps, "no_failing_input_found": True, "broken": "harness generator coverage"})
    cases.append("CGuards"); meta.append(("CGuards",))
    t2 = time.time()
    ctx.coverage["input_distribution"] = dist
    ctx.coverage["rule"] = ("direct oracle: every call of the 8 entry points (x Key / KeySet x registries) returns or raises "
                            "JoseError/ValueError; correspondence: model class == implementation class on the same inputs "
                            "(kernel ops, front-end functions, JWS compact entry points with recorded json/verify oracles); "
                            "guards probed from the tree satisfy every needs_* of the theorems")
    ctx.sample({"entry": "jws.deserialize_compact", "token": "ImFsZyI.e30.e30", "impl": repr(call(S.call_entry, "jws.deserialize_compact", "ImFsZyI.e30.e30", "oct32", "all"))[:200]})
    ctx.sample({"stream_calls": len(calls), "function_and_entry_cases": len(cases), "secs_streams": round(t1 - t0, 1), "secs_cases": round(t2 - t1, 1)})
    if cases:
        ctx.sample({"coq_case": cases[len(cases) // 2][:300]})
    ev = lib.CoqEval(["From Model Require Import Base PyVal TableTypes C16Model C16Cases."], "c16case", "c16_check", "c16_show",
                     shard=300, max_chars=90000)
    t3 = time.time()
    res = run_eval(ev, cases)
    ctx.sample({"secs_prove": round(t0 - ctx.t0, 1), "secs_coq_eval": round(time.time() - t3, 1)})
    # how many of the JWE end-to-end cases were really compared (not declined / unreached)
    ej = [c for c, m in zip(cases, meta) if m[0] == "EJwe"]
    if ctx.quick:
        ej = ej[:: max(1, len(ej) // 400)]        # a sample in the quick tier
    ev2 = lib.CoqEval(["From Model Require Import Base PyVal TableTypes C16Model C16Cases."], "c16case", "c16_compared", None,
                      shard=300, max_chars=90000)
    res2 = run_eval(ev2, ej)
    ctx.coverage["jwe_end_to_end"] = {"cases": len(ej), "not_compared": len(res2["failing"]), "eval_errors": len(res2["errors"])}
    ctx.coverage["traces_validated_against_impl"] = res["evaluated"]
    ctx.coverage["disagreements_checked"] = len(res["failing"])
    direct = len(ctx.violations) + len(ctx.known_hits)
    seen_fn = set()
    for i in res["failing"]:
        m = meta[i]
        if m[0] == "CGuards":
            flags = open(os.path.join(lib.COQ, "gen", "TablesC16.v")).read().split(":=")[-1].strip()
            ctx.violation({"kind": "guard-missing"},
                          "the tree under test lacks a guard the C16 theorems need (probed flags, order of guards_list: %s)" % flags,
                          {"flags": flags, "no_failing_input_found": direct == 0, "broken": "hypothesis needs_* of props/C16.v"})
            continue
        if m[0] == "CContract":
            ctx.violation({"kind": "contract-class", "primitive": m[1], "class": m[2]},
                          "primitive %s of the implementation raised %s, which its contract (contract_classes, props/C16.v) does not allow" % (m[1], m[2]),
                          {"primitive": m[1], "class": m[2], "no_failing_input_found": direct == 0, "broken": "hypothesis prims_ok"})
            continue
        key = (m[0], m[1] if m[0] in ("EJws", "EJwe") else None)
        if key in seen_fn:
            continue
        seen_fn.add(key)
        ctx.violation({"kind": "correspondence", "fn": m[0] if m[0] not in ("EJws", "EJwe") else m[0] + ":" + m[1]},
                      "model and implementation disagree on %s%s" % (m[0], repr(m[1:])[:300]),
                      {"case": cases[i][:4000], "meta": repr(m)[:2000], "no_failing_input_found": direct == 0,
                       "broken": "correspondence model/C16Cases.v:c16_check vs joserfc"})
    for si, err in res["errors"]:
        ctx.violation({"kind": "correspondence-error"}, "coqc failed on a generated case file",
                      {"output": err, "no_failing_input_found": True, "broken": "case evaluation"})
    if not ok:
        ctx.violation({"kind": "proof-broken"}, "props/C16.v or its closure no longer compiles",
                      {"log": log[-3000:], "no_failing_input_found": direct == 0 and not res["failing"],
                       "broken": "theorems of props/C16.v"})
    ctx.assumptions += [
        "exception contract of the primitives (prims_ok in proofs/C16Refuted.v): json.loads raises ValueError or RecursionError only; alg.verify / enc.decrypt / key unwrap / key import / ECDH / KDF raise JoseError or ValueError only when called with a key of the algorithm's type (EdDSA: an Ed* curve) and, for PBKDF2, a count in 1..2^31-1; zlib raises zlib.error or the size error; validated only by the direct search on the implementation",
        "the Python semantics kernel of coq/model/PyVal.v (in, [], .get, iteration, truthiness, ==) and to_bytes/dict.update are hand transcriptions validated by the differential run only; dict.update with a list of pairs and to_bytes(float) are declined by the model (not compared)",
        "PBES2 counts in (100000, 2^31) are not executed (they run for minutes to hours); inputs above 100 kB are not generated",
        "JWE entry points are compared end to end (EJwe) with the primitives' results recorded from the real run when every primitive is called at most once; a model run that needs a primitive the real run did not reach is not compared (counted as declined by the model)",
    ]
    if not ctx.quick:
        ctx.coqchk()


def replay(path):
    warnings.simplefilter("ignore")
    r = json.load(open(path))["replay"]
    print("replay:", {k: (str(v)[:200]) for k, v in r.items()})
    if "entry" not in r:
        print("no direct failing input in this replay file (broken proof / correspondence)")
        return 1
    value = S.dec_value(r["value"])
    st, ex = S.execute(r["entry"], value, r["key"], r["reg"])
    print("outcome:", st, repr(ex)[:300])
    if st == "escape":
        print("escapes from", S.innermost(ex))
        return 1
    return 0
