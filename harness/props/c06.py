"""C06 — operations succeed only with a key suited to the algorithm and operation.

Runs the real entry points of joserfc (jws / rfc7797 / jwe / jwt) over the product
algorithm x key kind x private/public x use x key_ops x alg x entry point x key source,
records success / exception class, and
  (a) compares every outcome with the Gallina gate model (coq/model/C06Model.v) evaluated
      by vm_compute (correspondence), and
  (b) checks the property itself on the implementation: success => the key is suitable
      (an independent Python transcription of the table in the property text), plus the
      named must-fail situations and the unsafe-import warning.
"""
import json, warnings, itertools, base64
import lib
from lib import c_hex, c_str, c_N, c_bool, c_list, c_opt, c_pv, c_exn, exn_class

# ----------------------------------------------------------------------------------
# literals of the property text (independent of /repo's tables)
# ----------------------------------------------------------------------------------
JWS_ALGS = ["none", "HS256", "HS384", "HS512", "RS256", "RS384", "RS512", "ES256", "ES384", "ES512",
            "PS256", "PS384", "PS512", "EdDSA", "ES256K"]
JWE_ALGS = ["RSA1_5", "RSA-OAEP", "RSA-OAEP-256", "A128KW", "A192KW", "A256KW", "dir",
            "ECDH-ES", "ECDH-ES+A128KW", "ECDH-ES+A192KW", "ECDH-ES+A256KW",
            "A128GCMKW", "A192GCMKW", "A256GCMKW",
            "PBES2-HS256+A128KW", "PBES2-HS384+A192KW", "PBES2-HS512+A256KW",
            "ECDH-1PU", "ECDH-1PU+A128KW", "ECDH-1PU+A192KW", "ECDH-1PU+A256KW"]
ENC_CEK = {"A128CBC-HS256": 256, "A192CBC-HS384": 384, "A256CBC-HS512": 512,
           "A128GCM": 128, "A192GCM": 192, "A256GCM": 256}
ES_CURVE = {"ES256": "P-256", "ES384": "P-384", "ES512": "P-521", "ES256K": "secp256k1"}
WRAP_SIZE = {"A128KW": 128, "A192KW": 192, "A256KW": 256, "A128GCMKW": 128, "A192GCMKW": 192, "A256GCMKW": 256}
ALL_OPS = ["sign", "verify", "encrypt", "decrypt", "wrapKey", "unwrapKey", "deriveKey", "deriveBits"]
USE_OPS = {"sig": ["sign", "verify"], "enc": ["encrypt", "decrypt", "wrapKey", "unwrapKey", "deriveKey", "deriveBits"]}

KINDS = [("oct", 8), ("oct", 128), ("oct", 192), ("oct", 256), ("oct", 384), ("oct", 512),
         ("RSA", 1024), ("RSA", 2048),
         ("EC", "P-256"), ("EC", "P-384"), ("EC", "P-521"), ("EC", "secp256k1"),
         ("OKP", "Ed25519"), ("OKP", "Ed448"), ("OKP", "X25519"), ("OKP", "X448")]

JWS_ENTRIES = ["JSerCompact", "JDesCompact", "JSerFlat", "JSerGen", "JDesFlat", "JDesGen",
               "J97SerCompact", "J97DesCompact", "J97SerJson", "J97DesJson", "JwtEncode", "JwtDecode",
               "JValCompact", "J97SerCompactB64", "J97DesCompactB64", "J97SerJsonB64", "J97DesJsonB64"]
JWS_SIGN = {"JSerCompact", "JSerFlat", "JSerGen", "J97SerCompact", "J97SerJson", "JwtEncode",
            "J97SerCompactB64", "J97SerJsonB64"}
# every public key-taking function of the API and the entries that exercise it (fail closed at run time)
ENTRY_TABLE = {
    "joserfc.jws": {"serialize_compact": ["JSerCompact"], "deserialize_compact": ["JDesCompact"],
                    "validate_compact": ["JValCompact"], "serialize_json": ["JSerFlat", "JSerGen"],
                    "deserialize_json": ["JDesFlat", "JDesGen"]},
    "joserfc.rfc7797": {"serialize_compact": ["J97SerCompact", "J97SerCompactB64"],
                        "deserialize_compact": ["J97DesCompact", "J97DesCompactB64"],
                        "serialize_json": ["J97SerJson", "J97SerJsonB64"],
                        "deserialize_json": ["J97DesJson", "J97DesJsonB64"]},
    "joserfc.jwe": {"encrypt_compact": ["EEncCompact"], "decrypt_compact": ["EDecCompact"],
                    "encrypt_json": ["EEncFlat", "EEncGen", "EEncFlatPre", "EEncGenPre", "multi-enc"],
                    "decrypt_json": ["EDecFlat", "EDecGen", "multi-dec"]},
    "joserfc.jwt": {"encode": ["JwtEncode", "EJwtEncode"], "decode": ["JwtDecode", "EJwtDecode"]},
    "joserfc.jwk": {"guess_key": ["(every entry point resolves its key through guess_key)"]},
}
KEY_PARAM_NAMES = {"key", "private_key", "public_key", "sender_key"}


def untabled_entry_points():
    """public callables (per __all__) that take a key and are not in ENTRY_TABLE"""
    import importlib, inspect
    missing, seen = [], 0
    for modname, table in ENTRY_TABLE.items():
        mod = importlib.import_module(modname)
        for name in getattr(mod, "__all__", []):
            f = getattr(mod, name, None)
            if not inspect.isfunction(f):
                continue
            try:
                params = set(inspect.signature(f).parameters)
            except (TypeError, ValueError):
                continue
            if params & KEY_PARAM_NAMES:
                seen += 1
                if name not in table:
                    missing.append("%s.%s(%s)" % (modname, name, ", ".join(sorted(params))))
        for name in table:
            if not callable(getattr(mod, name, None)):
                missing.append("%s.%s is tabled but no longer exists" % (modname, name))
    return missing, seen


JWE_ENTRIES = ["EEncCompact", "EDecCompact", "EEncFlat", "EEncGen", "EDecFlat", "EDecGen",
               "EEncFlatPre", "EEncGenPre", "EJwtEncode", "EJwtDecode"]
JWE_ENC = {"EEncCompact", "EEncFlat", "EEncGen", "EEncFlatPre", "EEncGenPre", "EJwtEncode"}
JWE_PRE = {"EEncFlatPre", "EEncGenPre"}


def jws_family(alg):
    if alg.startswith("HS"):
        return "HMAC"
    if alg[:2] in ("RS", "PS"):
        return "RSA"
    if alg in ES_CURVE:
        return "EC"
    return {"EdDSA": "EdDSA", "none": "none"}[alg]


def jwe_family(alg):
    if alg.startswith("RSA"):
        return "RSA"
    if alg in WRAP_SIZE:
        return "WRAP"
    if alg == "dir":
        return "dir"
    if alg.startswith("PBES2"):
        return "PBES2"
    if alg.startswith("ECDH-ES"):
        return "ES"
    if alg.startswith("ECDH-1PU"):
        return "1PU"
    raise KeyError(alg)


def jwe_op(alg, encrypt):
    f = jwe_family(alg)
    return {"RSA": "encrypt" if encrypt else "decrypt", "WRAP": "wrapKey" if encrypt else "unwrapKey",
            "dir": None, "PBES2": "deriveKey", "ES": "deriveKey" if encrypt else None,
            "1PU": "deriveKey" if encrypt else None}[f]


# ---- the Spec, transcribed from the property text (independent of the Coq text too) ----
def use_ok(info, u):
    return info["use"] is None or info["use"] == u


def ops_include(info, op):
    return info["ops"] is None or (isinstance(info["ops"], list) and op in info["ops"])


def jws_suitable(alg, sign, k):
    if not use_ok(k, "sig"):
        return False
    f = jws_family(alg)
    if f == "none":
        return True
    if f == "HMAC" and k["kty"] != "oct":
        return False
    if f == "RSA" and k["kty"] != "RSA":
        return False
    if f == "EC" and not (k["kty"] == "EC" and k["crv"] == ES_CURVE[alg]):
        return False
    if f == "EdDSA" and not (k["kty"] == "OKP" and k["crv"] in ("Ed25519", "Ed448")):
        return False
    if not ops_include(k, "sign" if sign else "verify"):
        return False
    if sign and not k["priv"]:
        return False
    return True


def ecdh_kind(k):
    return k["kty"] == "EC" or (k["kty"] == "OKP" and k["crv"] in ("X25519", "X448"))


def jwe_kind_suitable(alg, encrypt, enc, k, s, epk):
    f = jwe_family(alg)
    if f == "RSA":
        if k["kty"] != "RSA":
            return False
        if encrypt:
            return k["bits"] >= 2048 and ops_include(k, "encrypt")
        return ops_include(k, "decrypt") and k["priv"]
    if f == "WRAP":
        return k["kty"] == "oct" and k["bits"] == WRAP_SIZE[alg] and ops_include(k, "wrapKey" if encrypt else "unwrapKey")
    if f == "dir":
        return k["kty"] == "oct" and k["bits"] == ENC_CEK[enc]
    if f == "PBES2":
        return k["kty"] == "oct" and ops_include(k, "deriveKey")
    if not ecdh_kind(k):
        return False
    if not encrypt and not (k["priv"] and epk is not None and (k["kty"], k["crv"]) == epk):
        return False
    if f == "1PU":
        if s is None or (s["kty"], s["crv"]) != (k["kty"], k["crv"]):
            return False
        if encrypt and not s["priv"]:
            return False
    return True


# ----------------------------------------------------------------------------------
# key material (generated once per run, reused for every metadata variant)
# ----------------------------------------------------------------------------------
class Mats:
    """materials, generated on first use and reused for every metadata variant:
    (kty, size-or-curve, tag) -> (private native, public native)"""

    def __init__(self, rng):
        from joserfc.jwk import OctKey, RSAKey, ECKey, OKPKey
        self.cls = {"oct": OctKey, "RSA": RSAKey, "EC": ECKey, "OKP": OKPKey}
        self.rng = rng
        self.m = {}
        self.cache = {}

    def get(self, kty, p, tag):
        if (kty, p, tag) not in self.m:
            if kty == "oct":
                raw = bytes(self.rng.randrange(256) for _ in range(p // 8))
                self.m[(kty, p, tag)] = (raw, raw)
            elif kty == "RSA":
                # pyca directly: RSAKey.generate_key refuses sizes that are not a multiple of 8
                from cryptography.hazmat.primitives.asymmetric import rsa
                for _ in range(40):     # an odd size may come out one bit short: retry (the model sees key_size)
                    prv = rsa.generate_private_key(65537, p)
                    if prv.key_size == p:
                        break
                self.m[(kty, p, tag)] = (prv, prv.public_key())
            else:
                k = self.cls[kty].generate_key(p)
                self.m[(kty, p, tag)] = (k.private_key, k.public_key)
        return self.m[(kty, p, tag)]

    def key(self, kty, p, tag, private, params, via="native"):
        prv, pub = self.get(kty, p, tag)
        private = private or kty == "oct"
        nat = prv if private else pub
        params = dict(params) if params else None
        if via == "native" or kty == "oct":
            return self.cls[kty](nat, nat, params)
        ck = (kty, p, tag, private, json.dumps(params, sort_keys=True), via)
        if ck not in self.cache:
            base = self.cls[kty](nat, nat, None)
            if via == "pem":
                self.cache[ck] = self.cls[kty].import_key(base.as_pem(private=private), params)
            else:
                self.cache[ck] = self.cls[kty].import_key({**base.as_dict(private=private), **(params or {})})
        return self.cache[ck]


def key_info(key):
    """abstract record of a joserfc Key object (what the Coq model sees)"""
    kty = key.key_type
    crv = key.curve_name if kty in ("EC", "OKP") else ""
    if kty == "oct":
        bits = len(key.raw_value) * 8
    elif kty == "RSA":
        bits = key.raw_value.key_size
    else:
        bits = 0
    return {"kty": kty, "crv": crv, "bits": bits, "priv": bool(key.is_private),
            "use": key.get("use"), "ops": key.get("key_ops"), "alg": key.get("alg")}


KTY_C = {"oct": "KOct", "RSA": "KRsa", "EC": "KEc", "OKP": "KOkp"}


def c_s(s):
    return '"%s"%%string' % s


def c_key(info):
    return ("{| k_kty := %s; k_crv := %s; k_bits := %s; k_priv := %s; k_use := %s; k_ops := %s; k_alg := %s |}" % (
        KTY_C[info["kty"]], c_s(info["crv"]), c_N(info["bits"]), c_bool(info["priv"]),
        c_opt(info["use"], c_pv), c_opt(info["ops"], c_pv), c_opt(info["alg"], c_pv)))


def c_res(out):
    return "(Ok tt)" if out == "ok" else "(Err %s)" % c_exn(out)


def outcome(f):
    """'ok' or the canonical exception class"""
    try:
        f()
        return "ok", None
    except BaseException as e:  # noqa
        return exn_class(e), e


# ----------------------------------------------------------------------------------
# the calls
# ----------------------------------------------------------------------------------
PAYLOAD = "hi"                 # URL-safe: the rfc7797 compact form keeps it attached
CLAIMS = {"a": 1}


DECOYS = {}


def as_src(key, src, shared=None):
    """the key argument of the call.  shared: dict kept over a history (one KeySet object reused)"""
    from joserfc.jwk import KeySet, OctKey
    if src == "SrcSet":
        if shared is not None:
            if shared.get("set_of") is not key:
                shared["set"], shared["set_of"] = KeySet([key]), key
            return shared["set"]
        return KeySet([key])
    if src == "SrcKid":            # kid-selected from a set that also holds another key
        if "decoy" not in DECOYS:
            DECOYS["decoy"] = OctKey(b"decoy-decoy-decoy", b"decoy-decoy-decoy", {"kid": "decoy"})
        return KeySet([DECOYS["decoy"], key])
    if src == "SrcCall":
        return lambda obj: key
    if src == "SrcText":
        return key.raw_value
    if src == "SrcTextCall":
        return lambda obj: key.raw_value
    return key


def hdr(alg, kid=None, **extra):
    h = {"alg": alg}
    if kid:
        h["kid"] = kid
    h.update(extra)
    return h


def h7797(alg, kid=None, b64=False):
    return hdr(alg, kid, b64=b64, crit=["b64"])


def jws_make_token(entry, alg, refkey, kid=None):
    """a token for the verifying entry point, made with refkey; returns (token, siglen)"""
    from joserfc import jws, jwt
    from joserfc.rfc7797 import serialize_compact as sc97, serialize_json as sj97
    from joserfc.util import urlsafe_b64decode
    A = [alg]
    if entry in ("JDesCompact", "JValCompact"):
        t = jws.serialize_compact(hdr(alg, kid), PAYLOAD, refkey, algorithms=A)
        sig = t.split(".")[2]
    elif entry == "JwtDecode":
        t = jwt.encode(hdr(alg, kid), dict(CLAIMS), refkey, algorithms=A)
        sig = t.split(".")[2]
    elif entry == "JDesFlat":
        t = jws.serialize_json({"protected": hdr(alg, kid)}, PAYLOAD, refkey, algorithms=A)
        sig = t["signature"]
    elif entry == "JDesGen":
        t = jws.serialize_json([{"protected": hdr(alg, kid)}], PAYLOAD, refkey, algorithms=A)
        sig = t["signatures"][0]["signature"]
    elif entry in ("J97DesCompact", "J97DesCompactB64"):
        t = sc97(h7797(alg, kid, entry.endswith("B64")), PAYLOAD, refkey, algorithms=A)
        sig = t.split(".")[2]
    elif entry in ("J97DesJson", "J97DesJsonB64"):
        t = sj97({"protected": h7797(alg, kid, entry.endswith("B64"))}, PAYLOAD, refkey, algorithms=A)
        sig = t["signature"]
    else:
        raise KeyError(entry)
    return t, len(urlsafe_b64decode(sig.encode()))


def cut_sig(entry, token):
    """same token with the last octet of the signature removed"""
    from joserfc.util import urlsafe_b64decode, urlsafe_b64encode

    def cut(s):
        return urlsafe_b64encode(urlsafe_b64decode(s.encode())[:-1]).decode()
    if isinstance(token, str):
        p = token.split(".")
        p[2] = cut(p[2])
        return ".".join(p)
    t = json.loads(json.dumps(token))
    if "signatures" in t:
        t["signatures"][0]["signature"] = cut(t["signatures"][0]["signature"])
    else:
        t["signature"] = cut(t["signature"])
    return t


def jws_call(entry, alg, keyarg, token, kid=None, reg=None):
    """reg: a (shared) registry object to use instead of algorithms=[alg]"""
    from joserfc import jws, jwt
    from joserfc.errors import BadSignatureError
    from joserfc.rfc7797 import (serialize_compact as sc97, deserialize_compact as dc97,
                                 serialize_json as sj97, deserialize_json as dj97)
    K = {"registry": reg} if reg is not None else {"algorithms": [alg]}
    cp = lambda x: json.loads(json.dumps(x))        # noqa
    b64 = entry.endswith("B64")
    if entry == "JSerCompact":
        return lambda: jws.serialize_compact(hdr(alg, kid), PAYLOAD, keyarg, **K)
    if entry == "JwtEncode":
        return lambda: jwt.encode(hdr(alg, kid), dict(CLAIMS), keyarg, **K)
    if entry == "JSerFlat":
        return lambda: jws.serialize_json({"protected": hdr(alg, kid)}, PAYLOAD, keyarg, **K)
    if entry == "JSerGen":
        return lambda: jws.serialize_json([{"protected": hdr(alg, kid)}], PAYLOAD, keyarg, **K)
    if entry in ("J97SerCompact", "J97SerCompactB64"):
        return lambda: sc97(h7797(alg, kid, b64), PAYLOAD, keyarg, **K)
    if entry in ("J97SerJson", "J97SerJsonB64"):
        return lambda: sj97({"protected": h7797(alg, kid, b64)}, PAYLOAD, keyarg, **K)
    if entry == "JDesCompact":
        return lambda: jws.deserialize_compact(token, keyarg, **K)
    if entry == "JValCompact":
        def val():
            obj = jws.extract_compact(token.encode())
            if not jws.validate_compact(obj, keyarg, **K):
                raise BadSignatureError()
            return obj
        return val
    if entry == "JwtDecode":
        return lambda: jwt.decode(token, keyarg, **K)
    if entry in ("JDesFlat", "JDesGen"):
        return lambda: jws.deserialize_json(cp(token), keyarg, **K)
    if entry in ("J97DesCompact", "J97DesCompactB64"):
        return lambda: dc97(token, keyarg, **K)
    if entry in ("J97DesJson", "J97DesJsonB64"):
        return lambda: dj97(cp(token), keyarg, **K)
    raise KeyError(entry)


def jwe_obj(entry, alg, enc, key=None, kid=None):
    from joserfc.jwe import GeneralJSONEncryption, FlattenedJSONEncryption
    cls = FlattenedJSONEncryption if "Flat" in entry else GeneralJSONEncryption
    obj = cls({"alg": alg, "enc": enc}, b"hello")
    obj.add_recipient({"kid": kid} if kid else None, key)
    return obj


def jwe_make_token(entry, alg, enc, refkey, refsender, kid=None):
    from joserfc import jwe
    A = [alg, enc]
    if entry == "EDecCompact":
        return jwe.encrypt_compact(hdr(alg, kid, enc=enc), b"hello", refkey, algorithms=A, sender_key=refsender)
    if entry == "EJwtDecode":
        # jwt.encode has no sender_key: make the JWT by hand
        return jwe.encrypt_compact(hdr(alg, kid, enc=enc, typ="JWT"), json.dumps(CLAIMS), refkey,
                                   algorithms=A, sender_key=refsender)
    if entry in ("EDecFlat", "EDecGen"):
        return jwe.encrypt_json(jwe_obj(entry, alg, enc, kid=kid), refkey, algorithms=A, sender_key=refsender)
    raise KeyError(entry)


def jwe_call(entry, alg, enc, key, keyarg, sender, token, kid=None, reg=None):
    from joserfc import jwe, jwt
    from joserfc.jwe import JWERegistry
    A = [alg, enc]
    K = {"registry": reg} if reg is not None else {"algorithms": A}
    R = reg if reg is not None else JWERegistry(algorithms=A)
    cp = lambda x: json.loads(json.dumps(x))        # noqa
    if entry == "EEncCompact":
        return lambda: jwe.encrypt_compact(hdr(alg, kid, enc=enc), b"hello", keyarg, sender_key=sender, **K)
    if entry == "EJwtEncode":
        return lambda: jwt.encode(hdr(alg, kid, enc=enc), dict(CLAIMS), keyarg, registry=R)
    if entry in ("EEncFlat", "EEncGen"):
        return lambda: jwe.encrypt_json(jwe_obj(entry, alg, enc, kid=kid), keyarg, sender_key=sender, **K)
    if entry in JWE_PRE:
        return lambda: jwe.encrypt_json(jwe_obj(entry, alg, enc, key, kid=kid), None, sender_key=sender, **K)
    if entry == "EDecCompact":
        return lambda: jwe.decrypt_compact(token, keyarg, sender_key=sender, **K)
    if entry == "EJwtDecode":
        return lambda: jwt.decode(token, keyarg, registry=R)
    if entry in ("EDecFlat", "EDecGen"):
        return lambda: jwe.decrypt_json(cp(token), keyarg, sender_key=sender, **K)
    raise KeyError(entry)


# ----------------------------------------------------------------------------------
# which kinds fit an algorithm (to choose the reference key that makes the token)
# ----------------------------------------------------------------------------------
def jws_fit_kinds(alg):
    f = jws_family(alg)
    if f in ("HMAC", "none"):
        return [k for k in KINDS if k[0] == "oct"]
    if f == "RSA":
        if alg == "PS512":      # RSA-1024 cannot hold a PSS-SHA512 encoding (pyca ValueError): primitive limit
            return [("RSA", 2048)]
        return [k for k in KINDS if k[0] == "RSA"]
    if f == "EC":
        return [("EC", ES_CURVE[alg])]
    return [("OKP", "Ed25519"), ("OKP", "Ed448")]


def jwe_fit_kinds(alg, enc, encrypt):
    f = jwe_family(alg)
    if f == "RSA":
        return [("RSA", 2048)] if encrypt else [("RSA", 1024), ("RSA", 2048)]
    if f == "WRAP":
        return [("oct", WRAP_SIZE[alg])]
    if f == "dir":
        return [("oct", ENC_CEK[enc])]
    if f == "PBES2":
        return [k for k in KINDS if k[0] == "oct"]
    return [k for k in KINDS if k[0] == "EC"] + [("OKP", "X25519"), ("OKP", "X448")]


def jwe_token_kinds(alg, enc):
    """kinds joserfc itself can produce a token for"""
    return jwe_fit_kinds(alg, enc, True)


# ----------------------------------------------------------------------------------
# case descriptors
# ----------------------------------------------------------------------------------
RSA_BOUNDARY = [1024, 2040, 2041, 2047, 2048, 2049]    # around "at least 2048 bits" (bits, not octets)


def boundary_octets(L):
    """octet lengths around a required length L"""
    return sorted({0, 1, L - 1, L, L + 1, 2 * L})


def params_of(use, ops, kalg):
    p = {}
    if use is not None:
        p["use"] = use
    if ops is not None:
        p["key_ops"] = list(ops)
    if kalg is not None:
        p["alg"] = kalg
    return p


def consistent(use, ops):
    return use is None or ops is None or all(o in USE_OPS[use] for o in ops)


def ops_variants(needed):
    """absent, [], each singleton, complement of the needed op, all"""
    out = [None, []] + [[o] for o in ALL_OPS]
    if needed:
        out.append([o for o in ALL_OPS if o != needed])
    out.append(list(ALL_OPS))
    return out


def remap_form(rng, d):
    """vary the KEY FORM (Key / KeySet alg- or kid-selected / callable / raw bytes) and the key SOURCE
    (generated native / PEM import / JWK import) of a descriptor"""
    if d.get("entry") in JWE_PRE or d.get("variant"):
        return d
    x = rng.random()
    plain_oct = d["kind"][0] == "oct" and d["use"] is None and d["ops"] is None and d["kalg"] is None and d["kind"][1] > 0
    if x < 0.18:
        d["src"] = "SrcKid"
    elif x < 0.30:
        d["src"] = "SrcCall"
    elif x < 0.42 and plain_oct:
        d["src"] = rng.choice(["SrcText", "SrcTextCall"])
    if d["kind"][0] != "oct" and d.get("via", "native") == "native":
        if rng.random() < (0.06 if d["kind"][0] == "RSA" else 0.3):
            d["via"] = rng.choice(["pem", "jwk"])
    return d


def gen_jws(ctx):
    """-> list of descriptor dicts for JWS / rfc7797 / jwt(JWS) calls"""
    rng = ctx.rng
    out = []

    def add(entry, alg, kind, private, use, ops, kalg, src, tag="a", variant=None, must=False):
        if not consistent(use, ops):
            use = None
        out.append(remap_form(rng, {"fam": "jws", "entry": entry, "alg": alg, "kind": list(kind), "private": private,
                                    "use": use, "ops": ops, "kalg": kalg, "src": src, "tag": tag, "variant": variant,
                                    "must": must, "via": "native"}))
    for entry in JWS_ENTRIES:
        sign = entry in JWS_SIGN
        need = "sign" if sign else "verify"
        for alg in JWS_ALGS:
            fit = jws_fit_kinds(alg)
            good = fit[rng.randrange(len(fit))]
            wrong_use = "enc"
            # --- the suitable key, then one defect at a time
            add(entry, alg, good, True, None, None, None, "SrcKey")
            add(entry, alg, good, True, "sig", [need], alg, rng.choice(["SrcKey", "SrcSet"]))
            add(entry, alg, good, True, wrong_use, None, None, rng.choice(["SrcKey", "SrcSet"]))
            add(entry, alg, good, True, None, [], None, "SrcKey")
            add(entry, alg, good, True, None, [o for o in ALL_OPS if o != need], None, rng.choice(["SrcKey", "SrcSet"]))
            add(entry, alg, good, True, None, ["verify" if sign else "sign"], None, "SrcKey")
            add(entry, alg, good, False, None, None, None, rng.choice(["SrcKey", "SrcSet"]))
            add(entry, alg, good, True, None, None, rng.choice([a for a in JWS_ALGS if a != alg]), "SrcKey")
            add(entry, alg, good, True, None, None, None, "SrcSet")
            if not sign:
                add(entry, alg, good, rng.choice([True, False]), None, None, None, "SrcKey", tag="b")   # other material
            # --- unsuitable kinds: same-size other curve, other types
            if alg in ES_CURVE:
                for crv in ("P-256", "P-384", "P-521", "secp256k1"):
                    if crv != ES_CURVE[alg]:
                        add(entry, alg, ("EC", crv), True, None, None, None, rng.choice(["SrcKey", "SrcSet"]), must=True)
                add(entry, alg, ("OKP", rng.choice(["Ed25519", "X25519", "Ed448", "X448"])), True, None, None, None, "SrcKey")
                if not sign:
                    add(entry, alg, good, True, None, ["sign"], None, "SrcKey", variant="cutsig")
                    add(entry, alg, good, True, None, None, None, "SrcKey", variant="cutsig")
            if alg == "EdDSA":
                add(entry, alg, ("OKP", "X25519"), True, None, None, None, "SrcKey")
                add(entry, alg, ("OKP", "X448"), rng.choice([True, False]), None, None, None, "SrcKey")
            if jws_family(alg) == "HMAC":
                # a MAC keyed with the public encoding of the verifier's asymmetric key
                for kind in (("RSA", 2048), ("EC", "P-256"), ("OKP", "Ed25519"), ("EC", "secp256k1"), ("OKP", "X448")):
                    if not sign:
                        add(entry, alg, kind, rng.choice([True, False]), None, None, None,
                            rng.choice(["SrcKey", "SrcSet"]), variant="pubmac")
            others = [k for k in KINDS if k not in fit]
            n_other = len(others) if not ctx.quick else 3
            for kind in (others if not ctx.quick else rng.sample(others, n_other)):
                add(entry, alg, kind, rng.choice([True, True, False]), rng.choice([None, None, "sig", "enc"]),
                    rng.choice([None, None, [need], []]), None, rng.choice(["SrcKey", "SrcKey", "SrcSet"]))
            # --- random points of the product
            for _ in range(ctx.scale(2, 40)):
                kind = rng.choice(fit) if rng.random() < 0.6 else rng.choice(KINDS)
                add(entry, alg, kind, rng.random() < 0.7, rng.choice([None, "sig", "enc"]),
                    rng.choice(ops_variants(need)), rng.choice([None, None, alg, "HS256", "RS256"]),
                    rng.choice(["SrcKey", "SrcSet"]), tag=rng.choice(["a", "a", "b"]))
    for alg in JWS_ALGS:
        fit = jws_fit_kinds(alg)
        for entries in (sorted(JWS_SIGN), sorted(set(JWS_ENTRIES) - JWS_SIGN)):
            entry = rng.choice(entries)
            for op in ALL_OPS:
                add(entry, alg, rng.choice(fit), True, None, [op], None, "SrcKey", must=True)
    return out


def gen_jwe(ctx):
    rng = ctx.rng
    out = []
    encs = list(ENC_CEK)

    def add(entry, alg, enc, kind, private, use, ops, kalg, src, tag="a", sender=None, refkind=None,
            via="native", must=False):
        if not consistent(use, ops):
            use = None
        out.append(remap_form(rng, {"fam": "jwe", "entry": entry, "alg": alg, "enc": enc, "kind": list(kind),
                                    "private": private, "use": use, "ops": ops, "kalg": kalg, "src": src, "tag": tag,
                                    "sender": sender, "refkind": list(refkind) if refkind else None, "via": via,
                                    "must": must}))

    def snd(kind, private=True, tag="b", use=None, ops=None):
        return {"kind": list(kind), "private": private, "tag": tag, "use": use, "ops": ops}
    for entry in JWE_ENTRIES:
        encrypt = entry in JWE_ENC
        for alg in JWE_ALGS:
            fam = jwe_family(alg)
            need = jwe_op(alg, encrypt)
            enc = rng.choice(encs)
            if fam == "1PU" and alg != "ECDH-1PU":
                enc = rng.choice(["A128CBC-HS256", "A192CBC-HS384", "A256CBC-HS512"])
            fit = jwe_fit_kinds(alg, enc, encrypt)
            good = rng.choice(fit)
            S = (lambda **kw: snd(good, **kw)) if fam == "1PU" and "Jwt" not in entry else (lambda **kw: None)
            src2 = (lambda: "SrcKey") if entry in JWE_PRE else (lambda: rng.choice(["SrcKey", "SrcSet"]))
            add(entry, alg, enc, good, True, None, None, None, "SrcKey", sender=S())
            add(entry, alg, enc, good, True, "enc", [need] if need else None, alg, src2(), sender=S())
            add(entry, alg, enc, good, True, "sig", None, None, src2(), sender=S())
            add(entry, alg, enc, good, True, None, [], None, "SrcKey", sender=S())
            if need:
                add(entry, alg, enc, good, True, None, [o for o in ALL_OPS if o != need], None, src2(), sender=S())
            add(entry, alg, enc, good, False, None, None, None, src2(), sender=S())
            add(entry, alg, enc, good, True, None, None, None, "SrcKey" if entry in JWE_PRE else "SrcSet", sender=S())
            if not encrypt:
                add(entry, alg, enc, good, True, None, None, None, "SrcKey", tag="b", sender=S())   # other material
            # sizes: the boundary of EVERY size gate (never thinned out)
            if fam in ("WRAP", "dir", "PBES2"):
                for kind in [k for k in KINDS if k[0] == "oct" and k != good]:
                    add(entry, alg, enc, kind, True, None, None, None, src2())
            if fam == "WRAP":
                for n in sorted(set(boundary_octets(WRAP_SIZE[alg] // 8)) | {16, 24, 32}):     # and the other AES sizes
                    add(entry, alg, enc, ("oct", 8 * n), True, None, None, None, src2(), must=True)
            if fam == "dir":
                for e2 in encs:
                    # around the CEK length, and every other (longer or shorter, but valid) AES / CEK length
                    for n in sorted(set(boundary_octets(ENC_CEK[e2] // 8)) | {16, 24, 32, 48, 64}):
                        add(entry, alg, e2, ("oct", 8 * n), True, None, None, None, "SrcKey", must=True)
            if fam == "RSA":
                for bits in RSA_BOUNDARY:
                    add(entry, alg, enc, ("RSA", bits), True, None, None, None, src2(),
                        via=rng.choice(["native", "pem", "jwk"]), must=True)
                    add(entry, alg, enc, ("RSA", bits), False, None, rng.choice([None, [need]]), None, src2(),
                        via=rng.choice(["pem", "jwk"]), must=True)
            if fam in ("ES", "1PU"):
                # both parties on one curve
                for kind in [k for k in KINDS if k[0] in ("EC", "OKP")]:
                    add(entry, alg, enc, kind, True, None, None, None, src2(),
                        sender=snd(kind) if fam == "1PU" and "Jwt" not in entry else None, refkind=good)
                if not encrypt:
                    for rk in (("EC", "P-256"), ("OKP", "X25519"), ("EC", "secp256k1"), ("OKP", "X448")):
                        k2 = rng.choice([k for k in KINDS if k[0] in ("EC", "OKP")])
                        add(entry, alg, enc, k2, True, None, None, None, "SrcKey",
                            sender=snd(k2) if fam == "1PU" and "Jwt" not in entry else None, refkind=rk)
            if fam == "1PU" and "Jwt" not in entry:
                # sender variations (never use-checked; kind / curve / private material matter)
                add(entry, alg, enc, good, True, None, None, None, "SrcKey", sender=None)
                add(entry, alg, enc, good, True, None, None, None, "SrcKey", sender=snd(good, private=False))
                add(entry, alg, enc, good, True, None, None, None, "SrcKey", sender=snd(good, use="sig"))
                add(entry, alg, enc, good, True, None, None, None, "SrcKey", sender=snd(good, ops=[]))
                add(entry, alg, enc, good, True, None, None, None, "SrcKey", sender=snd(good, ops=["deriveKey"]))
                add(entry, alg, enc, good, True, None, None, None, "SrcKey", sender=snd(good, tag="a"))
                for kind in rng.sample(KINDS, ctx.scale(4, len(KINDS))):
                    add(entry, alg, enc, good, rng.choice([True, False]), None, None, None, "SrcKey",
                        sender=snd(kind, private=rng.choice([True, False])))
                if alg != "ECDH-1PU":
                    add(entry, alg, "A128GCM", good, True, None, None, None, "SrcKey", sender=S())
                    add(entry, alg, "A256GCM", good, True, None, None, None, "SrcKey", sender=None)
            if "Jwt" not in entry:
                # the sender key is use-checked by the entry point whatever the algorithm
                sk = good if fam == "1PU" else rng.choice([k for k in KINDS if k[0] in ("EC", "OKP")])
                add(entry, alg, enc, good, True, None, None, None, "SrcKey", sender=snd(sk, use="sig"))
                add(entry, alg, enc, good, True, "enc", None, None, "SrcKey", sender=snd(sk, use="enc"))
                add(entry, alg, enc, good, True, "sig", None, None, "SrcKey", sender=snd(sk, use="sig"))
                if fam != "1PU":
                    add(entry, alg, enc, good, True, None, None, None, src2(), sender=snd(sk))
            others = [k for k in KINDS if k not in fit]
            for kind in (others if not ctx.quick else rng.sample(others, min(3, len(others)))):
                add(entry, alg, enc, kind, rng.choice([True, True, False]), rng.choice([None, None, "sig", "enc"]),
                    rng.choice([None, None, [need] if need else None, []]), None, src2(),
                    sender=snd(kind) if fam == "1PU" and "Jwt" not in entry and rng.random() < 0.5 else S())
            for _ in range(ctx.scale(2, 40)):
                kind = rng.choice(fit) if rng.random() < 0.6 else rng.choice(KINDS)
                e2 = rng.choice(encs)
                add(entry, alg, e2, kind, rng.random() < 0.7, rng.choice([None, "sig", "enc"]),
                    rng.choice(ops_variants(need)), rng.choice([None, None, alg, "dir"]), src2(),
                    tag=rng.choice(["a", "a", "b"]),
                    sender=(snd(rng.choice([kind, kind, rng.choice(KINDS)]), private=rng.random() < 0.8,
                                use=rng.choice([None, "enc", "sig"]))
                            if fam == "1PU" and "Jwt" not in entry and rng.random() < 0.85 else None))
    for alg in JWE_ALGS:
        for encrypt in (True, False):
            entries = [e for e in JWE_ENTRIES if (e in JWE_ENC) == encrypt]
            entry = rng.choice(entries)
            enc = rng.choice(["A128CBC-HS256", "A256CBC-HS512"] if jwe_family(alg) == "1PU" else list(ENC_CEK))
            good = rng.choice(jwe_fit_kinds(alg, enc, encrypt))
            sender = snd(good) if jwe_family(alg) == "1PU" and "Jwt" not in entry else None
            for op in ALL_OPS:
                add(entry, alg, enc, good, True, None, [op], None, "SrcKey", sender=sender, must=True)
    return out


# ----------------------------------------------------------------------------------
# histories: several calls on ONE key object
# ----------------------------------------------------------------------------------
def op_calls(kind, rng):
    """operation name -> a descriptor skeleton performing that key operation with a key of this kind"""
    kty, p = kind
    enc = rng.choice(list(ENC_CEK))
    J = lambda entries, alg: {"fam": "jws", "entry": rng.choice(entries), "alg": alg}      # noqa
    E = lambda entries, alg, e=None: {"fam": "jwe", "entry": rng.choice(entries), "alg": alg, "enc": e or enc}   # noqa
    SER = ["JSerCompact", "JSerFlat", "JSerGen", "J97SerCompact", "J97SerJson", "JwtEncode"]
    DES = ["JDesCompact", "JDesFlat", "JDesGen", "J97DesCompact", "J97DesJson", "JwtDecode"]
    EENC = ["EEncCompact", "EEncFlat", "EEncGen", "EEncFlatPre", "EJwtEncode"]
    EDEC = ["EDecCompact", "EDecFlat", "EDecGen", "EJwtDecode"]
    if kty == "oct":
        hs = rng.choice(["HS256", "HS384", "HS512"])
        kw = {128: ["A128KW", "A128GCMKW"], 192: ["A192KW", "A192GCMKW"], 256: ["A256KW", "A256GCMKW"]}.get(p)
        pb = rng.choice(["PBES2-HS256+A128KW", "PBES2-HS384+A192KW", "PBES2-HS512+A256KW"])
        out = {"sign": J(SER, hs), "verify": J(DES, hs), "deriveKey": E(EENC + EDEC, pb)}
        if kw:
            a = rng.choice(kw)
            out["wrapKey"] = E(EENC, a)
            out["unwrapKey"] = E(EDEC, a)
        return out
    if kty == "RSA":
        sg = rng.choice(["RS256", "RS384", "PS256", "PS384"])
        ea = rng.choice(["RSA-OAEP", "RSA-OAEP-256", "RSA1_5"])
        return {"sign": J(SER, sg), "verify": J(DES, sg), "encrypt": E(EENC, ea), "decrypt": E(EDEC, ea)}
    if kty == "EC":
        es = {v: k for k, v in ES_CURVE.items()}[p]
        ea = rng.choice(["ECDH-ES", "ECDH-ES+A128KW", "ECDH-ES+A256KW"])
        return {"sign": J(SER, es), "verify": J(DES, es), "deriveKey": E(EENC, ea), "ecdh-decrypt": E(EDEC, ea)}
    if p in ("Ed25519", "Ed448"):
        return {"sign": J(SER, "EdDSA"), "verify": J(DES, "EdDSA")}
    ea = rng.choice(["ECDH-ES", "ECDH-ES+A192KW"])
    return {"deriveKey": E(EENC, ea), "ecdh-decrypt": E(EDEC, ea)}


HIST_KINDS = [("oct", 128), ("oct", 256), ("oct", 192), ("RSA", 2048), ("EC", "P-256"), ("EC", "secp256k1"),
              ("OKP", "Ed25519"), ("OKP", "X25519")]


def gen_histories(ctx):
    """-> [(key descriptor, [step descriptor, ...])]: for every key (kind x key_ops subset x use x private) each
    operation its key_ops permit is performed first, then every other operation - permitted or not - on the SAME
    key object, directly, inside a KeySet and through a callable; plus interleavings of two operations"""
    rng = ctx.rng
    out = []
    for kind in HIST_KINDS:
        calls0 = op_calls(kind, rng)
        opnames = [o for o in calls0 if o in ALL_OPS]
        subsets = [[o] for o in opnames] + [list(c) for c in itertools.combinations(opnames, 2)] + [list(opnames), None]
        if ctx.quick:
            subsets = [[o] for o in opnames] + rng.sample(subsets[len(opnames):], min(3, len(subsets) - len(opnames)))
        for ops in subsets:
            for private in ([True] if kind[0] == "oct" else [True, False]):
                use = rng.choice([None, None, "sig", "enc"])
                if not consistent(use, ops):
                    use = None
                base = {"kind": list(kind), "private": private, "use": use, "ops": ops, "kalg": None, "tag": "a",
                        "variant": None, "sender": None, "refkind": None}
                permitted = [o for o in opnames if ops is None or o in ops]
                for first in permitted:
                    calls = op_calls(kind, rng)
                    seconds = list(calls)
                    if ctx.quick and len(seconds) > 3:
                        seconds = rng.sample(seconds, 3)
                    for second in seconds:
                        steps = [first, second]
                        if rng.random() < 0.35:      # interleave: A, B, A / A, B, C
                            steps.append(rng.choice([first] + list(calls)))
                        seq = []
                        for o in steps:
                            c = dict(op_calls(kind, rng)[o])
                            pre = c["entry"] in JWE_PRE
                            c.update(base)
                            c["src"] = "SrcKey" if pre else rng.choice(["SrcKey", "SrcKey", "SrcSet", "SrcCall"])
                            c["op"] = o
                            seq.append(c)
                        out.append((base, seq))
    return out


MULTI_ALGS = ["RSA1_5", "RSA-OAEP", "RSA-OAEP-256", "A128KW", "A192KW", "A256KW", "A128GCMKW", "A192GCMKW", "A256GCMKW",
              "PBES2-HS256+A128KW", "PBES2-HS384+A192KW", "PBES2-HS512+A256KW",
              "ECDH-ES+A128KW", "ECDH-ES+A192KW", "ECDH-ES+A256KW"]
ECDH_KINDS = [("EC", "P-256"), ("EC", "P-384"), ("EC", "P-521"), ("EC", "secp256k1"), ("OKP", "X25519"), ("OKP", "X448")]
MULTI_GATES = ["use", "key_ops", "type", "size", "curve", "public"]


def good_kind(alg, rng):
    f = jwe_family(alg)
    if f == "RSA":
        return ("RSA", 2048)
    if f == "WRAP":
        return ("oct", WRAP_SIZE[alg])
    if f == "PBES2":
        return ("oct", rng.choice([128, 256, 512]))
    return rng.choice(ECDH_KINDS)


def gen_multi(ctx):
    """general JSON with 2-4 recipients of mixed algorithms; exactly one recipient's key violates exactly one
    gate, in each position; verify_all_recipients True / False; keys per kid via KeySet / callable / add_recipient"""
    rng = ctx.rng
    out = []

    def compose(encrypt, gate, pos, va, src, variant=None):
        n = rng.choice([2, 3, 4])
        p = {"first": 0, "middle": n // 2 if n > 2 else 0, "last": n - 1}[pos]
        with_1pu = rng.random() < 0.2
        enc = rng.choice(["A128CBC-HS256", "A192CBC-HS384", "A256CBC-HS512"] if with_1pu else list(ENC_CEK))
        algs = [rng.choice(MULTI_ALGS) for _ in range(n)]
        if variant == "others-wrong-material":
            algs = [a if a != "RSA1_5" else "RSA-OAEP" for a in algs]
        one_pu = None
        if with_1pu:
            one_pu = rng.choice([i for i in range(n) if i != p] or [0]) if gate is not None else rng.randrange(n)
            if one_pu == p and gate is not None:
                one_pu = None
            else:
                algs[one_pu] = rng.choice(["ECDH-1PU+A128KW", "ECDH-1PU+A192KW", "ECDH-1PU+A256KW"])
        # the offender's algorithm must have the gate
        if gate == "key_ops":
            algs[p] = rng.choice([a for a in MULTI_ALGS if jwe_op(a, encrypt)])
        elif gate == "size":
            algs[p] = rng.choice([a for a in MULTI_ALGS if jwe_family(a) == "WRAP" or (encrypt and jwe_family(a) == "RSA")])
        elif gate in ("curve", "epk-type"):
            algs[p] = rng.choice(["ECDH-ES+A128KW", "ECDH-ES+A192KW", "ECDH-ES+A256KW"])
        elif gate == "public":
            algs[p] = rng.choice(["RSA-OAEP", "RSA-OAEP-256", "RSA1_5", "ECDH-ES+A128KW", "ECDH-ES+A256KW"])
        recs = []
        for i, alg in enumerate(algs):
            gk = good_kind(alg, rng)
            r = {"alg": alg, "kind": list(gk), "refkind": list(gk), "tag": "a", "private": True, "use": None, "ops": None,
                 "pre": (src == "pre"), "via": "native"}
            if rng.random() < 0.3:
                r["use"] = "enc"
            if variant == "others-wrong-material" and i != p:
                r["tag"] = "b"
            if i == p and gate is not None:
                if gate == "use":
                    r["use"] = "sig"
                elif gate == "key_ops":
                    need = jwe_op(alg, encrypt)
                    r["ops"] = rng.choice([[], [o for o in ALL_OPS if o != need]])
                    r["use"] = None
                elif gate == "type":
                    # (decrypting with an EC key a token made for an OKP key, or the reverse, is a type error too:
                    # the "epk" does not import, a ValueError that verify_all_recipients=False does not swallow)
                    r["kind"] = list(rng.choice([k for k in KINDS if k[0] != gk[0] and
                                                 not (encrypt and jwe_family(alg) in ("ES", "1PU") and k[0] in ("EC", "OKP"))]))
                elif gate == "size":
                    if jwe_family(alg) == "RSA":
                        r["kind"] = ["RSA", rng.choice([1024, 2040, 2047])]
                        r["via"] = rng.choice(["native", "pem", "jwk"])
                    else:
                        L = WRAP_SIZE[alg] // 8
                        r["kind"] = ["oct", 8 * rng.choice([n_ for n_ in boundary_octets(L) if n_ != L])]
                elif gate == "curve":
                    if encrypt:
                        r["kind"] = list(rng.choice([("OKP", "Ed25519"), ("OKP", "Ed448")]))
                    else:
                        r["kind"] = list(rng.choice([k for k in ECDH_KINDS if k[0] == gk[0] and k != gk] or
                                                    [("OKP", "Ed25519")]))
                elif gate == "epk-type":
                    # an EC key for a token made for an OKP key (or the reverse): the "epk" does not import,
                    # a ValueError, which verify_all_recipients=False does not swallow
                    r["kind"] = list(rng.choice([k for k in ECDH_KINDS + [("OKP", "Ed25519")] if k[0] != gk[0]]))
                elif gate == "public":
                    r["private"] = False
            recs.append(r)
        sender = None
        if one_pu is not None:
            sk = recs[one_pu]["refkind"]
            sender = {"kind": sk, "private": True if encrypt else rng.choice([True, False]), "tag": "b", "use": None, "ops": None}
        if gate == "sender-use":
            sk = recs[one_pu]["refkind"] if one_pu is not None else list(rng.choice(ECDH_KINDS))
            sender = {"kind": sk, "private": True, "tag": "b", "use": "sig", "ops": None}
        out.append({"fam": "jwem", "entry": "multi-enc" if encrypt else "multi-dec", "alg": "+".join(algs), "encrypt": encrypt,
                    "va": va, "src": "SrcKid" if src == "pre" else src, "enc": enc, "recs": recs, "sender": sender,
                    "gate": gate, "pos": pos, "variant": variant, "must": True})

    reps = ctx.scale(1, 12)
    for _ in range(reps):
        for pos in ("first", "middle", "last"):
            for gate in MULTI_GATES + ["sender-use", None]:
                for src in ("SrcKid", "SrcCall", "pre"):
                    if gate != "public":
                        compose(True, gate, pos, True, src)
                for src in ("SrcKid", "SrcCall"):
                    for va in (True, False):
                        compose(False, gate, pos, va, src)
                        if gate == "curve":
                            compose(False, "epk-type", pos, va, src)
                    if gate in ("use", "key_ops", "public"):
                        compose(False, gate, pos, False, src, variant="others-wrong-material")
    return out


# ----------------------------------------------------------------------------------
# executing one descriptor against the implementation
# ----------------------------------------------------------------------------------
class Runner:
    def __init__(self, mats):
        self.mats = mats
        self.tokens = {}

    def test_key(self, d):
        prm = params_of(d["use"], d["ops"], d["kalg"])
        if d.get("src") == "SrcKid":
            prm["kid"] = "t0"
        return self.mats.key(d["kind"][0], d["kind"][1], d["tag"], d["private"], prm, d.get("via", "native"))

    def sender_key(self, s):
        if s is None:
            return None
        return self.mats.key(s["kind"][0], s["kind"][1], s["tag"], s["private"], params_of(s["use"], s["ops"], None))

    def run_jws(self, d, key=None, shared=None):
        """-> (outcome class, exception, model-args dict) or None when the key cannot be built.
        key: use this (already used) key object instead of a fresh one"""
        entry, alg = d["entry"], d["alg"]
        kind = tuple(d["kind"])
        try:
            key = key if key is not None else self.test_key(d)
            info = key_info(key)
        except ValueError:
            return None
        sign = entry in JWS_SIGN
        kid = "t0" if d["src"] == "SrcKid" else None
        token, siglen, mat = None, 0, True
        if not sign:
            fit = jws_fit_kinds(alg)
            if d["variant"] == "pubmac":
                # the attacker's token: HMAC keyed with the PEM public encoding of the verifier's key
                from joserfc.jwk import OctKey
                pub = self.mats.key(kind[0], kind[1], d["tag"], False, None)
                with warnings.catch_warnings():
                    warnings.simplefilter("ignore")
                    ref = OctKey.import_key(pub.as_pem(private=False))
                tk = ("pubmac", entry, alg, kind, d["tag"], kid)
                mat = True      # the strongest attacker: the MAC is right for that octet string
            else:
                if kind in fit:
                    refkind, reftag = kind, "a"
                else:
                    refkind, reftag = fit[0], "a"
                ref = self.mats.key(refkind[0], refkind[1], reftag, True, None)
                tk = (entry, alg, refkind, kid)
                mat = (kind == refkind and d["tag"] == reftag)
            if tk not in self.tokens:
                self.tokens[tk] = jws_make_token(entry, alg, ref, kid)
            token, siglen = self.tokens[tk]
            if d["variant"] == "cutsig":
                token, siglen = cut_sig(entry, token), siglen - 1
        f = jws_call(entry, alg, as_src(key, d["src"], shared), token, kid, (shared or {}).get("jws_reg"))
        out, exc = outcome(f)
        return out, exc, {"info": info, "mat": mat, "siglen": siglen}

    def run_jwe(self, d, key=None, shared=None):
        entry, alg, enc = d["entry"], d["alg"], d["enc"]
        kind = tuple(d["kind"])
        try:
            key = key if key is not None else self.test_key(d)
            sender = self.sender_key(d["sender"])
            info = key_info(key)
            sinfo = key_info(sender) if sender is not None else None
        except ValueError:
            return None
        encrypt = entry in JWE_ENC
        fam = jwe_family(alg)
        kid = "t0" if d["src"] == "SrcKid" else None
        token, mat, epk = None, True, None
        if not encrypt:
            tkinds = jwe_token_kinds(alg, enc)
            if d.get("refkind"):
                refkind = tuple(d["refkind"])
            elif kind in tkinds:
                refkind = kind
            else:
                refkind = tkinds[0]
            ref = self.mats.key(refkind[0], refkind[1], "a", False if refkind[0] != "oct" else True, None)
            refsender = None
            if fam == "1PU":
                refsender = self.mats.key(refkind[0], refkind[1], "b", True, None)
            tk = (entry, alg, enc, refkind, kid)
            if tk not in self.tokens:
                try:
                    self.tokens[tk] = jwe_make_token(entry, alg, enc, ref, refsender, kid)
                except Exception:      # joserfc cannot produce such a token (ECDH-1PU+KW with a GCM enc)
                    self.tokens[tk] = None
            token = self.tokens[tk]
            if token is None:
                return None
            mat = (kind == refkind and d["tag"] == "a")
            if fam == "1PU" and d["sender"] is not None:
                s = d["sender"]
                mat = mat and tuple(s["kind"]) == refkind and s["tag"] == "b"
            if fam in ("ES", "1PU"):
                epk = refkind
        f = jwe_call(entry, alg, enc, key, as_src(key, d["src"], shared), sender, token, kid, (shared or {}).get("jwe_reg"))
        out, exc = outcome(f)
        return out, exc, {"info": info, "sinfo": sinfo, "mat": mat, "epk": epk}


    def run_multi(self, d):
        from joserfc import jwe
        from joserfc.jwe import GeneralJSONEncryption, JWERegistry
        from joserfc.jwk import KeySet
        enc, encrypt = d["enc"], d["encrypt"]
        algs = [r["alg"] for r in d["recs"]] + [enc]
        try:
            keys, infos = [], []
            for i, r in enumerate(d["recs"]):
                prm = params_of(r["use"], r["ops"], None)
                prm["kid"] = "r%d" % i
                k = self.mats.key(r["kind"][0], r["kind"][1], r["tag"], r["private"], prm, r.get("via", "native"))
                keys.append(k)
                infos.append(key_info(k))
            sender = self.sender_key(d["sender"])
            sinfo = key_info(sender) if sender is not None else None
        except ValueError:
            return None
        kidmap = {"r%d" % i: k for i, k in enumerate(keys)}
        mats_ok, epks = [], []
        for r in d["recs"]:
            fam = jwe_family(r["alg"])
            epks.append(tuple(r["refkind"]) if fam in ("ES", "1PU") else None)
            m = r["kind"] == r["refkind"] and r["tag"] == "a"
            if fam == "1PU":
                sd = d["sender"]
                m = m and sd is not None and sd["kind"] == r["refkind"] and sd["tag"] == "b"
            mats_ok.append(m)
        if d["src"] == "SrcCall":
            keyarg = lambda o: kidmap[o.headers()["kid"]]      # noqa
        else:
            keyarg = KeySet(list(keys))
        if encrypt:
            def f():
                obj = GeneralJSONEncryption({"enc": enc}, b"hello")
                for i, r in enumerate(d["recs"]):
                    obj.add_recipient({"alg": r["alg"], "kid": "r%d" % i}, keys[i] if r["pre"] else None)
                return jwe.encrypt_json(obj, keyarg, algorithms=algs, sender_key=sender)
        else:
            try:
                obj = GeneralJSONEncryption({"enc": enc}, b"hello")
                refsender = None
                for i, r in enumerate(d["recs"]):
                    rk = r["refkind"]
                    obj.add_recipient({"alg": r["alg"], "kid": "r%d" % i},
                                      self.mats.key(rk[0], rk[1], "a", rk[0] == "oct", None))
                    if jwe_family(r["alg"]) == "1PU":
                        refsender = self.mats.key(rk[0], rk[1], "b", True, None)
                token = jwe.encrypt_json(obj, None, algorithms=algs, sender_key=refsender)
            except Exception:      # joserfc cannot produce such a token
                return None
            reg = JWERegistry(algorithms=algs, verify_all_recipients=d["va"])

            def f():
                return jwe.decrypt_json(json.loads(json.dumps(token)), keyarg, registry=reg, sender_key=sender)
        out, exc = outcome(f)
        return out, exc, {"infos": infos, "sinfo": sinfo, "mats": mats_ok, "epks": epks}


def c_mrec(r, info, epk, mat):
    return "{| m_alg := %s; m_key := %s; m_pre := %s; m_epk := %s; m_mat := %s |}" % (
        c_s(r["alg"]), c_key(info), c_bool(r["pre"]), c_epk(epk), c_bool(mat))


def judge_multi(d, out, args):
    """success => every recipient key is suitable (encrypt, or verify_all_recipients); without
    verify_all_recipients: the plaintext must come from a suitable key with the right material"""
    if out != "ok":
        return None
    ok = []
    for r, info, epk, m in zip(d["recs"], args["infos"], args["epks"], args["mats"]):
        good = (jwe_kind_suitable(r["alg"], d["encrypt"], d["enc"], info, args["sinfo"], epk) and use_ok(info, "enc")
                and (args["sinfo"] is None or use_ok(args["sinfo"], "enc")))
        if not d["encrypt"]:
            good = good and m
        ok.append(good)
    if d["encrypt"] or d["va"]:
        return None if all(ok) else "jwe-multi-unsuitable-recipient-key-accepted"
    return None if any(ok) else "jwe-multi-plaintext-without-suitable-key"


def c_epk(epk):
    if epk is None:
        return '{| epk_kty := KEc; epk_crv := ""%string |}'
    return "{| epk_kty := %s; epk_crv := %s |}" % (KTY_C[epk[0]], c_s(epk[1]))


# ----------------------------------------------------------------------------------
# unsafe symmetric secrets
# ----------------------------------------------------------------------------------
def unsafe_texts(mats, rng):
    """-> [(label, bytes, must_warn or None)]  must_warn=True: PEM / OpenSSH / ssh-* text of an
    asymmetric key as produced by joserfc / pyca; None: recorded only (gap candidates)."""
    from cryptography.hazmat.primitives import serialization as ser
    out = []
    for kty, p in KINDS:
        if kty == "oct":
            continue
        prv, pub = mats.get(kty, p, "a")
        jk_prv = mats.key(kty, p, "a", True, None)
        label = "%s-%s" % (kty, p)
        out.append((label + " joserfc as_pem private", jk_prv.as_pem(private=True), True))
        out.append((label + " joserfc as_pem public", jk_prv.as_pem(private=False), True))
        out.append((label + " joserfc as_pem encrypted", jk_prv.as_pem(private=True, password="pw"), True))
        out.append((label + " joserfc as_der public", jk_prv.as_der(private=False), None))
        out.append((label + " joserfc as_der private", jk_prv.as_der(private=True), None))
        fmts = [(ser.Encoding.PEM, ser.PrivateFormat.PKCS8, "pkcs8")]
        if kty in ("RSA", "EC"):
            fmts.append((ser.Encoding.PEM, ser.PrivateFormat.TraditionalOpenSSL, "traditional"))
        for e, f, n in fmts:
            out.append((label + " pyca private " + n, prv.private_bytes(e, f, ser.NoEncryption()), True))
        out.append((label + " pyca public SPKI", pub.public_bytes(ser.Encoding.PEM, ser.PublicFormat.SubjectPublicKeyInfo), True))
        if kty == "RSA":
            out.append((label + " pyca public PKCS1", pub.public_bytes(ser.Encoding.PEM, ser.PublicFormat.PKCS1), True))
        ssh_ok = kty == "RSA" or (kty == "EC" and p != "secp256k1") or (kty == "OKP" and p == "Ed25519")
        if ssh_ok:
            out.append((label + " OpenSSH public", pub.public_bytes(ser.Encoding.OpenSSH, ser.PublicFormat.OpenSSH), True))
            out.append((label + " OpenSSH private", prv.private_bytes(ser.Encoding.PEM, ser.PrivateFormat.OpenSSH, ser.NoEncryption()), True))
    base = [t for t in out if t[2]]
    # gap candidates (reported, not raised): leading whitespace / BOM, DER
    for lab, txt, _ in rng.sample(base, 8):
        for pre, n in ((b" ", "space"), (b"\n", "newline"), (b"\t", "tab"), (b"\r\n", "crlf"), (b"\x0b", "VT"),
                       (b"\x0c", "FF"), (b" \t\r\n \x0b\x0c\n", "whitespace run")):
            out.append((lab + " with leading " + n, pre + txt, True))
        for pre, n in ((b"\xef\xbb\xbf", "bom"), (b"\x00", "NUL"), (b"\xc2\xa0", "nbsp"), (b"\x1c", "FS")):
            out.append((lab + " with leading " + n, pre + txt, None))
    out.append(("RFC4716 public key block", b"---- BEGIN SSH2 PUBLIC KEY ----\nAAAA\n---- END SSH2 PUBLIC KEY ----\n", True))
    out.append(("ssh-dss line", b"ssh-dss AAAAB3NzaC1kc3MAAACB", True))
    # the statement's "PEM/SSH-formatted key text", label by label and prefix by prefix - written from the
    # formats themselves (RFC 7468 labels, OpenSSH key type names), NOT from joserfc's table
    body = b"MIIBVQIBADANBgkqhkiG9w0BAQEFAASCAT8wggE7AgEAAkEAq7BFUpkGp3+LQmlQ\n"
    for lab in ("PRIVATE KEY", "RSA PRIVATE KEY", "EC PRIVATE KEY", "DSA PRIVATE KEY", "ENCRYPTED PRIVATE KEY",
                "OPENSSH PRIVATE KEY", "PUBLIC KEY", "RSA PUBLIC KEY", "CERTIFICATE"):
        t = b"-----BEGIN " + lab.encode() + b"-----\n" + body + b"-----END " + lab.encode() + b"-----\n"
        out.append(("PEM label " + lab, t, True))
        out.append(("PEM label " + lab + " with leading newline", b"\n" + t, True))
    out.append(("ssh.com private key block", b"---- BEGIN SSH2 ENCRYPTED PRIVATE KEY ----\nAAAA\n---- END SSH2 ENCRYPTED PRIVATE KEY ----\n", True))
    for pre in ("ssh-rsa AAAAB3NzaC1yc2EAAAADAQABAAABAQ", "ssh-dss AAAAB3NzaC1kc3MAAACBAP", "ssh-ed25519 AAAAC3NzaC1lZDI1NTE5AAAAI",
                "ecdsa-sha2-nistp256 AAAAE2VjZHNhLXNoYTItbmlzdHAyNTYAAAAIbmlzdHAyNTY",
                "ecdsa-sha2-nistp384 AAAAE2VjZHNhLXNoYTItbmlzdHAzODQAAAAIbmlzdHAzODQ",
                "ecdsa-sha2-nistp521 AAAAE2VjZHNhLXNoYTItbmlzdHA1MjEAAAAIbmlzdHA1MjE"):
        out.append(("OpenSSH public key line " + pre.split()[0], (pre + " user@host").encode(), True))
        out.append(("OpenSSH public key line " + pre.split()[0] + " with leading space", (" " + pre + " user@host").encode(), True))
    # security-key types: not in the statement's list on HEAD ("sk- variants if listed"): recorded only
    for pre in ("sk-ssh-ed25519@openssh.com AAAAGnNrLXNzaC1lZDI1NTE5QG9wZW5zc2guY29t",
                "sk-ecdsa-sha2-nistp256@openssh.com AAAAInNrLWVjZHNhLXNoYTItbmlzdHAyNTZAb3BlbnNzaC5jb20"):
        out.append(("OpenSSH sk key line " + pre.split()[0] + " (not listed)", pre.encode(), None))
    try:                        # a real X.509 certificate
        import datetime
        from cryptography import x509
        from cryptography.x509.oid import NameOID
        from cryptography.hazmat.primitives import hashes
        prv, pub = mats.get("EC", "P-256", "a")
        name = x509.Name([x509.NameAttribute(NameOID.COMMON_NAME, "c06")])
        now = datetime.datetime(2026, 1, 1)
        cert = (x509.CertificateBuilder().subject_name(name).issuer_name(name).public_key(pub).serial_number(1)
                .not_valid_before(now).not_valid_after(now + datetime.timedelta(days=1)).sign(prv, hashes.SHA256()))
        out.append(("X.509 certificate PEM", cert.public_bytes(ser.Encoding.PEM), True))
        out.append(("X.509 certificate DER (as_der)", cert.public_bytes(ser.Encoding.DER), None))
    except Exception as e:  # noqa
        out.append(("literal no-x509 %r" % (e,), b"secret", None))
    # ordinary secrets and near misses: must NOT be compared against a demand, only against the model
    for t in [b"", b"secret", b"-----BEGIN", b"-----BEGIN", b"----BEGIN ", b"---- BEGIN", b"-----begin ", b"ssh-rsa", b"ssh-rsa\t",
              b"ssh-ed25519", b"ecdsa-sha2", b"ecdsa-sha2-", b"ecdsa-sha2-nistp256 AAAA", b"xssh-rsa AAAA", b"-", b"-----", b"ssh-",
              b"SSH-RSA AAAA", b"ssh-ed448 AAAA", b"sk-ssh-ed25519@openssh.com AAAA"]:
        out.append(("literal %r" % t, t, None))
    for _ in range(60):
        p = rng.choice([b"-----BEGIN ", b"---- BEGIN ", b"ssh-rsa ", b"ssh-dss ", b"ssh-ed25519 ", b"ecdsa-sha2-"])
        cut = rng.randrange(0, len(p) + 1)
        t = p[:cut] + bytes(rng.choice(b"- aBsh2EGIN\n") for _ in range(rng.randrange(0, 6)))
        out.append(("random near-prefix", t, None))
    return out


def flagged(f):
    """run f; -> (a UserWarning 'may not be safe to import' was raised, outcome class)"""
    with warnings.catch_warnings(record=True) as w:
        warnings.simplefilter("always")
        out, _ = outcome(f)
    return any(issubclass(x.category, UserWarning) and "may not be safe" in str(x.message) for x in w), out


PB_ALG, PB_ENC = "PBES2-HS256+A128KW", "A128GCM"


class TextTokens:
    """tokens made with the oct key of a text (what the owner of that secret - or the forger who knows a
    public key's PEM text - would produce), for the verifying / decrypting routes"""

    def __init__(self, text):
        from joserfc import jws, jwe, jwt
        from joserfc.jwe import JWERegistry
        from joserfc.jwk import OctKey
        from joserfc.rfc7797 import serialize_compact as sc97, serialize_json as sj97
        k = OctKey(text, text)          # no import: no warning while preparing
        A, E = ["HS256"], [PB_ALG, PB_ENC]
        self.c = jws.serialize_compact({"alg": "HS256"}, PAYLOAD, k, algorithms=A)
        self.flat = jws.serialize_json({"protected": {"alg": "HS256"}}, PAYLOAD, k, algorithms=A)
        self.gen = jws.serialize_json([{"protected": {"alg": "HS256"}}], PAYLOAD, k, algorithms=A)
        self.c97 = sc97(h7797("HS256"), PAYLOAD, k, algorithms=A)
        self.j97 = sj97({"protected": h7797("HS256")}, PAYLOAD, k, algorithms=A)
        self.jwt = jwt.encode({"alg": "HS256"}, dict(CLAIMS), k, algorithms=A)
        self.ec = jwe.encrypt_compact({"alg": PB_ALG, "enc": PB_ENC}, b"hello", k, algorithms=E)
        self.eflat = jwe.encrypt_json(jwe_obj("EEncFlat", PB_ALG, PB_ENC), k, algorithms=E)
        self.egen = jwe.encrypt_json(jwe_obj("EEncGen", PB_ALG, PB_ENC), k, algorithms=E)
        self.ejwt = jwe.encrypt_compact({"typ": "JWT", "alg": PB_ALG, "enc": PB_ENC}, json.dumps(CLAIMS), k, algorithms=E)


def text_routes():
    """-> [(name, Coq route, f(arg, tokens) -> thunk, takes_callable)]: every way key text becomes an oct key"""
    from joserfc import jws, jwe, jwt
    from joserfc.jwe import JWERegistry
    from joserfc.jwk import OctKey, JWKRegistry
    from joserfc.rfc7797 import (serialize_compact as sc97, deserialize_compact as dc97,
                                 serialize_json as sj97, deserialize_json as dj97)
    A, E = ["HS256"], [PB_ALG, PB_ENC]
    cp = lambda x: json.loads(json.dumps(x))     # noqa
    imp = [
        ("OctKey.import_key", "RtImportKey", lambda a, t: (lambda: OctKey.import_key(a))),
        ("OctKey.import_key(parameters=)", "RtImportKey", lambda a, t: (lambda: OctKey.import_key(a, {"use": "sig"}))),
        ("JWKRegistry.import_key(text, 'oct')", "RtRegistry", lambda a, t: (lambda: JWKRegistry.import_key(a, "oct"))),
        ("JWKRegistry.import_key(text, 'oct', parameters)", "RtRegistry",
         lambda a, t: (lambda: JWKRegistry.import_key(a, "oct", {"kid": "x"}))),
    ]
    ent = [
        ("jws.serialize_compact", lambda a, t: (lambda: jws.serialize_compact({"alg": "HS256"}, PAYLOAD, a, algorithms=A))),
        ("jws.deserialize_compact", lambda a, t: (lambda: jws.deserialize_compact(t.c, a, algorithms=A))),
        ("jws.serialize_json flattened", lambda a, t: (lambda: jws.serialize_json({"protected": {"alg": "HS256"}}, PAYLOAD, a, algorithms=A))),
        ("jws.serialize_json general", lambda a, t: (lambda: jws.serialize_json([{"protected": {"alg": "HS256"}}], PAYLOAD, a, algorithms=A))),
        ("jws.deserialize_json flattened", lambda a, t: (lambda: jws.deserialize_json(cp(t.flat), a, algorithms=A))),
        ("jws.deserialize_json general", lambda a, t: (lambda: jws.deserialize_json(cp(t.gen), a, algorithms=A))),
        ("rfc7797.serialize_compact b64=false", lambda a, t: (lambda: sc97(h7797("HS256"), PAYLOAD, a, algorithms=A))),
        ("rfc7797.deserialize_compact b64=false", lambda a, t: (lambda: dc97(t.c97, a, algorithms=A))),
        ("rfc7797.serialize_json b64=false", lambda a, t: (lambda: sj97({"protected": h7797("HS256")}, PAYLOAD, a, algorithms=A))),
        ("rfc7797.deserialize_json b64=false", lambda a, t: (lambda: dj97(cp(t.j97), a, algorithms=A))),
        ("rfc7797.serialize_compact (no b64)", lambda a, t: (lambda: sc97({"alg": "HS256"}, PAYLOAD, a, algorithms=A))),
        ("rfc7797.deserialize_compact (no b64)", lambda a, t: (lambda: dc97(t.c, a, algorithms=A))),
        ("jwt.encode", lambda a, t: (lambda: jwt.encode({"alg": "HS256"}, dict(CLAIMS), a, algorithms=A))),
        ("jwt.decode", lambda a, t: (lambda: jwt.decode(t.jwt, a, algorithms=A))),
        ("jwe.encrypt_compact PBES2", lambda a, t: (lambda: jwe.encrypt_compact({"alg": PB_ALG, "enc": PB_ENC}, b"hello", a, algorithms=E))),
        ("jwe.decrypt_compact PBES2", lambda a, t: (lambda: jwe.decrypt_compact(t.ec, a, algorithms=E))),
        ("jwe.encrypt_json flattened", lambda a, t: (lambda: jwe.encrypt_json(jwe_obj("EEncFlat", PB_ALG, PB_ENC), a, algorithms=E))),
        ("jwe.encrypt_json general", lambda a, t: (lambda: jwe.encrypt_json(jwe_obj("EEncGen", PB_ALG, PB_ENC), a, algorithms=E))),
        ("jwe.decrypt_json flattened", lambda a, t: (lambda: jwe.decrypt_json(cp(t.eflat), a, algorithms=E))),
        ("jwe.decrypt_json general", lambda a, t: (lambda: jwe.decrypt_json(cp(t.egen), a, algorithms=E))),
        ("jwt.encode (JWE)", lambda a, t: (lambda: jwt.encode({"alg": PB_ALG, "enc": PB_ENC}, dict(CLAIMS), a, registry=JWERegistry(algorithms=E)))),
        ("jwt.decode (JWE)", lambda a, t: (lambda: jwt.decode(t.ejwt, a, registry=JWERegistry(algorithms=E)))),
        ("jwe.encrypt_compact dir", lambda a, t: (lambda: jwe.encrypt_compact({"alg": "dir", "enc": "A128GCM"}, b"hello", a, algorithms=["dir", "A128GCM"]))),
        ("jwe.encrypt_compact A128KW", lambda a, t: (lambda: jwe.encrypt_compact({"alg": "A128KW", "enc": "A128GCM"}, b"hello", a, algorithms=["A128KW", "A128GCM"]))),
        ("jwe.decrypt_compact dir (token of another key)", lambda a, t: (lambda: jwe.decrypt_compact(
            t.ec.replace(t.ec.split(".")[0], "eyJhbGciOiJkaXIiLCJlbmMiOiJBMTI4R0NNIn0"), a, algorithms=["dir", "A128GCM"]))),
    ]
    out = [(n, r, f, False) for n, r, f in imp]
    for n, f in ent:
        out.append((n + " [key given as text]", "RtEntryArg", f, False))
        out.append((n + " [callable returning text]", "RtEntryCallable", f, True))
    return out


def import_warns(text, as_str=False):
    from joserfc.jwk import OctKey
    arg = text.decode("latin1") if as_str else text
    with warnings.catch_warnings(record=True) as w:
        warnings.simplefilter("always")
        OctKey.import_key(arg)
    return any("may not be safe" in str(x.message) for x in w)


# ----------------------------------------------------------------------------------
def describe(d):
    if d.get("fam") == "jwem":
        return "%s json general enc=%s verify_all=%s keys via %s [%s]%s%s" % (
            "encrypt" if d["encrypt"] else "decrypt", d["enc"], d["va"], d["src"],
            "; ".join("%s: %s/%s %s use=%r key_ops=%r%s" % (r["alg"], r["kind"][0], r["kind"][1],
                                                          "private" if r["private"] else "public", r["use"], r["ops"],
                                                          " pre-attached" if r["pre"] else "") for r in d["recs"]),
            (" sender=%s/%s use=%r" % (d["sender"]["kind"][0], d["sender"]["kind"][1], d["sender"]["use"])) if d["sender"] else "",
            " (offender: %s at %s%s)" % (d["gate"], d["pos"], ", " + d["variant"] if d["variant"] else "") if d["gate"] else "")
    s = "%s alg=%s%s key=%s/%s %s use=%r key_ops=%r alg=%r via %s" % (
        d["entry"], d["alg"], (" enc=" + d["enc"]) if d.get("enc") else "", d["kind"][0], d["kind"][1],
        "private" if d["private"] else "public", d["use"], d["ops"], d["kalg"], d["src"])
    if d.get("sender"):
        s += " sender=%s/%s %s" % (d["sender"]["kind"][0], d["sender"]["kind"][1],
                                   "private" if d["sender"]["private"] else "public")
    if d.get("variant"):
        s += " [" + d["variant"] + "]"
    if d.get("via", "native") != "native":
        s += " (imported via %s)" % d["via"]
    return s


def export_mats(mats, d=None):
    """JWKs of the materials of this run (so that a replay re-runs the very same call)"""
    out = {}
    for (kty, p, tag) in list(mats.m):
        if kty == "oct" and p == 0:
            out["%s|%s|%s" % (kty, p, tag)] = {"kty": "oct", "k": ""}
            continue
        k = mats.key(kty, p, tag, True, None)
        out["%s|%s|%s" % (kty, p, tag)] = k.as_dict(private=True)
    return out


class ReplayMats(Mats):
    def __init__(self, jwks):
        import random
        Mats.__init__(self, random.Random(0))
        for name, jwk in jwks.items():
            kty, p, tag = name.split("|")
            p = int(p) if kty in ("oct", "RSA") else p
            if kty == "oct":
                from joserfc.util import urlsafe_b64decode
                raw = urlsafe_b64decode(jwk["k"].encode())
                self.m[(kty, p, tag)] = (raw, raw)
                continue
            k = self.cls[kty].import_key(jwk)
            self.m[(kty, p, tag)] = (k.private_key, k.public_key)


def judge(d, out, args):
    """direct oracle: the property on the implementation's outcome.  -> violation kind or None"""
    if out != "ok":
        return None
    k = args["info"]
    if d["fam"] == "jws":
        sign = d["entry"] in JWS_SIGN
        if d.get("variant") == "pubmac":
            return "mac-with-public-encoding-accepted"
        if not jws_suitable(d["alg"], sign, k):
            return "jws-unsuitable-key-accepted"
        return None
    encrypt = d["entry"] in JWE_ENC
    if not jwe_kind_suitable(d["alg"], encrypt, d["enc"], k, args["sinfo"], args["epk"]):
        return "jwe-unsuitable-key-accepted"
    if not use_ok(k, "enc"):
        if d["entry"] in JWE_PRE:
            return "jwe-preattached-use-mismatch-accepted"
        return "jwe-use-mismatch-accepted"
    if args["sinfo"] is not None and not use_ok(args["sinfo"], "enc"):
        return "jwe-sender-use-mismatch-accepted"
    return None


def run(ctx):
    from joserfc.drafts.jwe_ecdh_1pu import register_ecdh_1pu
    register_ecdh_1pu()
    ok, log = ctx.prove()
    rng = ctx.rng
    mats = Mats(rng)
    runner = Runner(mats)
    cases, meta = [], []
    dist = {}
    cand = {}
    verdicts = {}
    forms = {}

    missing, nkeyfns = untabled_entry_points()
    ctx.coverage["key_taking_entry_points"] = {"found_in___all__": nkeyfns, "untabled": missing,
                                               "tabled": {m: sorted(t) for m, t in ENTRY_TABLE.items()}}
    for x in missing:
        ctx.violation({"kind": "untabled-entry-point", "fn": x.split("(")[0]},
                      "public key-taking function not covered by the C06 check: " + x,
                      {"no_failing_input_found": True, "broken": "harness entry-point table", "fn": x})

    descs = gen_jws(ctx) + gen_jwe(ctx) + gen_multi(ctx)
    if ctx.quick:
        # thin the product: every (entry, alg) keeps its suitable key; each defect stays on about half of the
        # entry points (the entry points of one family share the defect list, so every defect is still
        # exercised on several entry points of every family)
        keep, seen = [], set()
        for d in descs:
            first = (d["entry"], d["alg"]) not in seen
            seen.add((d["entry"], d["alg"]))
            must = d.get("must") and (d["fam"] != "jwe" or d["entry"] in ("EEncCompact", "EDecCompact", "EEncGen", "EDecFlat")
                                      or rng.random() < 0.5)
            if first or d.get("variant") == "pubmac" or must or rng.random() < 0.5:
                keep.append(d)
        descs = keep
    exported = None
    for d in descs:
        r = {"jws": runner.run_jws, "jwe": runner.run_jwe, "jwem": runner.run_multi}[d["fam"]](d)
        if r is None:
            dist["skipped"] = dist.get("skipped", 0) + 1
            continue
        out, exc, args = r
        key = json.dumps(d, sort_keys=True)
        ctx.note_case(key)
        dist[d["entry"]] = dist.get(d["entry"], 0) + 1
        verdicts[out] = verdicts.get(out, 0) + 1
        forms[d.get("src")] = forms.get(d.get("src"), 0) + 1
        forms["via " + d.get("via", "native")] = forms.get("via " + d.get("via", "native"), 0) + 1
        if d["entry"] == "J97SerJson" and out in ("EType", "EAttr"):
            # rfc7797.serialize_json(b64=false) never calls alg.check_key_type: a wrong-type key is refused by the
            # primitive (TypeError / AttributeError): no token is produced, which the oracle counts as a refusal
            forms["J97SerJson refused by the primitive (no check_key_type)"] = \
                forms.get("J97SerJson refused by the primitive (no check_key_type)", 0) + 1
        if out.startswith("EJose ?"):
            ctx.violation({"kind": "unknown-error-class", "cls": out}, "unknown JoseError subclass %s on %s" % (out, describe(d)),
                          {"desc": d})
            continue
        if d["fam"] == "jws" and d["alg"] == "PS512" and d["kind"] == ["RSA", 1024] and out == "EValue":
            dist["primitive_limit_skipped"] = dist.get("primitive_limit_skipped", 0) + 1
            continue            # PSS-SHA512 does not fit a 1024-bit modulus: the primitive's own ValueError
        if d["fam"] == "jwem":
            term = "CJweMulti %s %s %s %s %s %s %s" % (
                c_bool(d["encrypt"]), c_bool(d["va"]), d["src"], c_s(d["enc"]),
                c_list([c_mrec(r, i, e, m) for r, i, e, m in zip(d["recs"], args["infos"], args["epks"], args["mats"])]),
                c_opt(args["sinfo"], c_key), c_res(out))
        elif d["fam"] == "jws":
            term = "CJws %s %s %s %s %s %s %s" % (d["entry"], d["src"], c_s(d["alg"]), c_key(args["info"]),
                                                 c_bool(args["mat"]), c_N(max(args["siglen"], 0)), c_res(out))
        else:
            term = "CJwe %s %s %s %s %s %s %s %s %s" % (
                d["entry"], d["src"], c_s(d["alg"]), c_s(d["enc"]), c_key(args["info"]),
                c_opt(args["sinfo"], c_key), c_epk(args["epk"]), c_bool(args["mat"]), c_res(out))
        cases.append(term)
        meta.append((d, out))
        v = judge_multi(d, out, args) if d["fam"] == "jwem" else judge(d, out, args)
        if v and v.startswith("candidate:"):
            cand[v] = cand.get(v, 0) + 1
        elif v:
            ctx.violation({"kind": v, "entry": d["entry"], "alg": d["alg"]},
                          "the call succeeded with an unsuitable key: " + describe(d),
                          {"desc": d, "jwks": export_mats(mats), "outcome": out})

    # ---- histories: several calls on ONE key object (the gates are stateless: a warm-up with a permitted
    # operation must not change the verdict of any later operation)
    nh = 0
    for base, seq in gen_histories(ctx):
        try:
            obj = runner.test_key(base)
            key_info(obj)
        except ValueError:
            continue
        done = []
        # KeySet-level and registry-level state: one KeySet object and one registry object per history
        shared = {}
        if rng.random() < 0.5:
            from joserfc.jwe import JWERegistry
            from joserfc.rfc7797 import JWSRegistry as JWSRegistry97
            shared["jws_reg"] = JWSRegistry97(algorithms=list(JWS_ALGS))
            shared["jwe_reg"] = JWERegistry(algorithms=list(JWE_ALGS) + list(ENC_CEK))
        for step in seq:
            run_x = runner.run_jws if step["fam"] == "jws" else runner.run_jwe
            r = run_x(step, key=obj, shared=shared)
            rf = run_x(step)                      # the same call with a fresh key object
            if r is None or rf is None:
                break
            out, exc, args = r
            outf = rf[0]
            nh += 1
            hist = " after [%s] on the same key object" % ", ".join(done) if done else ""
            ctx.note_case(("hist", json.dumps(step, sort_keys=True), tuple(done)))
            if step["fam"] == "jws":
                term = "CJws %s %s %s %s %s %s %s" % (step["entry"], step["src"], c_s(step["alg"]), c_key(args["info"]),
                                                     c_bool(args["mat"]), c_N(max(args["siglen"], 0)), c_res(out))
            else:
                term = "CJwe %s %s %s %s %s %s %s %s %s" % (
                    step["entry"], step["src"], c_s(step["alg"]), c_s(step["enc"]), c_key(args["info"]),
                    c_opt(args["sinfo"], c_key), c_epk(args["epk"]), c_bool(args["mat"]), c_res(out))
            cases.append(term)
            meta.append((dict(step, history=list(done)), out))
            v = judge(step, out, args)
            if v and not v.startswith("candidate:"):
                ctx.violation({"kind": v + "-after-warm-up", "entry": step["entry"], "alg": step["alg"]},
                              "the call succeeded with an unsuitable key%s: %s" % (hist, describe(step)),
                              {"desc": step, "history": [dict(x) for x in seq[:len(done)]], "jwks": export_mats(mats), "outcome": out})
            elif (out == "ok") != (outf == "ok"):
                ctx.violation({"kind": "history-dependent-verdict", "entry": step["entry"], "alg": step["alg"]},
                              "%s gives %s%s but %s with a fresh key object" % (describe(step), out, hist, outf),
                              {"desc": step, "history": [dict(x) for x in seq[:len(done)]], "jwks": export_mats(mats),
                               "outcome": out, "fresh_outcome": outf})
            done.append("%s %s: %s" % (step["entry"], step["alg"], out))
    dist["history_calls"] = nh

    # gate-level histories: get_op_key for every operation, in a random order, on one object
    REG_OPS = list(ALL_OPS)
    ngh = 0
    for _ in range(ctx.scale(150, 3000)):
        kty, p = rng.choice(KINDS)
        use = rng.choice([None, None, "sig", "enc"])
        ops = rng.choice([None, []] + [[o] for o in ALL_OPS] + [rng.sample(ALL_OPS, 2), rng.sample(ALL_OPS, 3)])
        if not consistent(use, ops):
            use = None
        private = rng.random() < 0.6
        try:
            obj = mats.key(kty, p, "a", private, params_of(use, ops, None))
            info = key_info(obj)
        except ValueError:
            continue
        permitted = [o for o in REG_OPS if ops is None or o in ops]
        order = ([rng.choice(permitted)] if permitted else []) + rng.sample(REG_OPS, len(REG_OPS)) + [rng.choice(REG_OPS)]
        obs = []
        for o in order:
            out, _ = outcome(lambda: obj.get_op_key(o))
            fresh = mats.key(kty, p, "a", private, params_of(use, ops, None))
            outf, _ = outcome(lambda: fresh.get_op_key(o))
            obs.append("(%s, %s)" % (c_s(o), c_res(out)))
            ngh += 1
            if out != outf:
                ctx.violation({"kind": "get_op_key-history-dependent", "op": o},
                              "get_op_key(%r) on a %s/%s key with key_ops=%r gives %s after %r on the same object but %s on a fresh key"
                              % (o, kty, p, ops, out, order[:len(obs) - 1], outf),
                              {"info": info, "order": order[:len(obs)], "outcome": out, "fresh_outcome": outf})
            if out == "ok" and not ops_include(info, o):
                ctx.violation({"kind": "get_op_key-accepts-after-warm-up", "op": o},
                              "get_op_key(%r) accepted key_ops=%r after %r on the same key object" % (o, ops, order[:len(obs) - 1]),
                              {"info": info, "order": order[:len(obs)]})
        ctx.note_case(("gate-hist", json.dumps(info, sort_keys=True), tuple(order)))
        cases.append("CHist %s %s" % (c_key(info), c_list(obs)))
        meta.append(({"fam": "gate", "entry": "get_op_key history", "order": order, "info": info}, "hist"))
    dist["gate_history_calls"] = ngh

    # ---- the gates themselves, directly on Key objects
    ngate = 0
    for _ in range(ctx.scale(300, 4000)):
        kty, p = rng.choice(KINDS)
        use = rng.choice([None, "sig", "enc"])
        ops = rng.choice([None, [], list(ALL_OPS)] + [[o] for o in ALL_OPS] + [rng.sample(ALL_OPS, 3)])
        if not consistent(use, ops):
            use = None
        kalg = rng.choice([None, "HS256", "RS256", "dir", ""])
        try:
            key = mats.key(kty, p, "a", rng.random() < 0.6, params_of(use, ops, kalg))
            info = key_info(key)
        except ValueError:          # the parameters are refused at import: nothing to gate
            continue
        which = rng.randrange(3)
        if which == 0:
            u = rng.choice(["sig", "enc"])
            out, _ = outcome(lambda: key.check_use(u))
            cases.append("CUse %s %s %s" % (c_s(u), c_key(info), c_res(out)))
            if out == "ok" and not use_ok(info, u):
                ctx.violation({"kind": "check_use-accepts"}, "check_use(%r) accepted use=%r" % (u, info["use"]), {"info": info, "use": u})
        elif which == 1:
            a = rng.choice(["HS256", "RS256", "dir", "ES256"])
            out, _ = outcome(lambda: key.check_alg(a))
            cases.append("CAlg %s %s %s" % (c_s(a), c_key(info), c_res(out)))
        else:
            op = rng.choice(ALL_OPS)
            out, _ = outcome(lambda: key.check_key_op(op))
            cases.append("COp %s %s %s" % (c_s(op), c_key(info), c_res(out)))
            if out == "ok" and not ops_include(info, op):
                ctx.violation({"kind": "check_key_op-accepts"}, "check_key_op(%r) accepted key_ops=%r" % (op, info["ops"]),
                              {"info": info, "op": op})
            if out == "ok" and op in ("sign", "decrypt", "unwrapKey") and not info["priv"]:
                ctx.violation({"kind": "check_key_op-public"}, "check_key_op(%r) accepted a public key" % op, {"info": info, "op": op})
        meta.append(({"fam": "gate", "entry": "gate"}, out))
        ctx.note_case(("gate", which, json.dumps(info, sort_keys=True)))
        ngate += 1
    dist["gates"] = ngate

    # ---- key import validates use / key_ops (what key_wf assumes): a declared use is one of
    # the strings "sig" / "enc", declared key_ops a list of operation names.  A "key_ops"
    # given as a JSON string would be matched by substring ("wrapKey" in "unwrapKey"), a
    # "use" given as a list never equals the requested use: both must be refused at import,
    # through import_key(dict) and through parameters= alike
    from joserfc.jwk import OctKey
    bad_params = [("use", v) for v in ("", "foo", "SIG", 0, ["sig"], ["sig", "enc"], [])] + \
                 [("key_ops", v) for v in ("sign", "unwrapKey", "wrapKey", "", ["foo"], [1], {"sign": 1}, ("sign",))]
    nimp = 0
    for name, bad in bad_params:
        for how, f in (("import_key(dict)", lambda: OctKey.import_key({"kty": "oct", "k": "AAAA", name: bad})),
                       ("import_key(bytes, parameters=)", lambda: OctKey.import_key(b"0123456789abcdef", {name: bad}).dict_value),
                       ("generate_key(parameters=)", lambda: OctKey.generate_key(128, {name: bad}).dict_value)):
            o, _ = outcome(f)
            nimp += 1
            ctx.note_case(("import", name, repr(bad), how))
            if o == "ok":
                ctx.violation({"kind": "import-accepts-malformed-" + name, "value": repr(bad)},
                              "OctKey %s accepted %s=%r (a declared use must be 'sig' or 'enc', declared key_ops a list "
                              "of operation names)" % (how, name, bad), {"param": name, "value": repr(bad), "how": how})
            elif o != "EValue":
                ctx.violation({"kind": "import-malformed-" + name + "-error-class", "cls": o},
                              "OctKey %s refused %s=%r with %s instead of ValueError" % (how, name, bad, o),
                              {"param": name, "value": repr(bad), "how": how})
    for name, good in (("use", "sig"), ("use", "enc"), ("key_ops", []), ("key_ops", ["sign"]), ("key_ops", list(ALL_OPS))):
        o, _ = outcome(lambda: OctKey.import_key({"kty": "oct", "k": "AAAA", name: good}))
        nimp += 1
        if o != "ok":
            ctx.notes.append("key import refused the well-formed %s=%r (%s)" % (name, good, o))
    dist["import_validation"] = nimp

    # ---- unsafe symmetric secrets
    nwarn = 0
    gaps = {}
    for label, text, must in unsafe_texts(mats, rng):
        try:
            w = import_warns(text)
            w2 = import_warns(text, as_str=True) if all(b < 128 for b in text) else w
        except Exception as e:  # noqa
            ctx.violation({"kind": "oct-import-raises"}, "OctKey.import_key raised %r on %s" % (e, label), {"text_hex": text.hex()})
            continue
        nwarn += 1
        ctx.note_case(("warn", text))
        cases.append("CWarn %s %s" % (c_hex(text), c_bool(w)))
        meta.append(({"fam": "warn", "entry": "warn", "label": label, "text_hex": text.hex()}, "warned" if w else "silent"))
        if w != w2:
            ctx.violation({"kind": "unsafe-import-str-bytes"}, "import_key warns differently for str and bytes: " + label,
                          {"text_hex": text.hex()})
        if must and not w:
            ctx.violation({"kind": "unsafe-import-not-flagged"},
                          "importing %s as an oct key gave no warning" % label, {"text_hex": text.hex(), "label": label})
        if must is None and not w and ("leading" in label or "as_der" in label or "sk key line" in label):
            g = ("OpenSSH sk-* key types" if "sk key line" in label else
                 "leading-non-whitespace (BOM, NUL, nbsp, FS)" if "leading" in label else "DER")
            gaps[g] = gaps.get(g, 0) + 1
    dist["unsafe_import"] = nwarn

    # ---- the same through EVERY route by which key text becomes an oct key
    routes = text_routes()
    texts = [(lab, txt, must) for lab, txt, must in unsafe_texts(mats, rng) if len(txt) > 0]
    texts += [("random secret", bytes(rng.randrange(33, 127) for _ in range(rng.choice([8, 16, 32, 40]))), False)
              for _ in range(ctx.scale(12, 100))]
    nroute = 0
    for ti, (label, text, must) in enumerate(texts):
        benign = (must is False) or (must is None and label.startswith("literal") and
                                     not any(text.lstrip(b" \t\n\r\x0b\x0c").startswith(p_) for p_ in
                                             (b"-----BEGIN ", b"---- BEGIN ", b"ssh-rsa ", b"ssh-dss ", b"ssh-ed25519 ", b"ecdsa-sha2-")))
        if not ctx.quick or ti % 5 == 0:
            chosen = routes
        else:
            chosen = rng.sample(routes, 7)
        try:
            toks = TextTokens(text)
        except Exception as e:  # noqa
            ctx.notes.append("no tokens for text %s: %r" % (label, e))
            continue
        as_str = all(b < 128 for b in text) and rng.random() < 0.5
        arg0 = text.decode("ascii") if as_str else text
        obs = []
        for name, croute, mk, via_callable in chosen:
            arg = (lambda o, _a=arg0: _a) if via_callable else arg0
            w, out = flagged(mk(arg, toks))
            nroute += 1
            ctx.note_case(("route", name, text))
            obs.append("(%s, %s)" % (croute, c_bool(w)))
            sig = {"kind": None, "route": name.split(" [")[0], "how": croute}
            rep = {"text_hex": text.hex(), "label": label, "route": name, "as_str": as_str, "outcome": out}
            if must and not w:
                sig["kind"] = "unsafe-key-text-not-flagged"
                ctx.violation(sig, "%s with %s as the key raised no 'may not be safe to import' warning (call outcome: %s)" % (
                    name, label, out), rep)
            elif benign and w:
                sig["kind"] = "benign-secret-flagged"
                ctx.violation(sig, "%s with the ordinary secret %r raised the unsafe-key warning" % (name, text[:40]), rep)
        cases.append("CWarnRoutes %s %s %s" % (c_hex(text), c_N(8 * len(text)), c_list(obs)))
        meta.append(({"fam": "warn", "entry": "warn-routes", "label": label, "text_hex": text.hex()}, "routes"))
    dist["unsafe_import_routes"] = nroute

    # ---- recorded gaps (not raised)
    ctx.notes.append("recorded gaps (not raised): %s" % json.dumps({"unsafe-import (no warning)": gaps}))

    ctx.coverage["input_distribution"] = dist
    ctx.coverage["verdict_classes"] = verdicts
    ctx.coverage["key_forms_and_sources"] = forms
    ctx.coverage["rule"] = ("every (entry point, algorithm) pair gets the suitable key, each single defect "
                            "(use, key_ops [], complement, wrong op, public, alg, other material), every EC curve for ES*, "
                            "size variants, unsuitable kinds and random points of the product; thorough: all unsuitable kinds "
                            "and 20x the random points")
    for i in (0, 7, len(cases) // 2):
        if i < len(cases):
            ctx.sample({"coq_case": cases[i][:300]})

    # ---- correspondence
    ev = lib.CoqEval(["From Model Require Import Base PyVal TableTypes C06Model C06Cases."], "c06case", "c06_check", "c06_show",
                     shard=450, max_chars=150000)
    res = ev.run(cases)
    ctx.coverage["traces_validated_against_impl"] = res["evaluated"]
    ctx.coverage["disagreements_checked"] = len(res["failing"])
    direct = len(ctx.violations)
    for i in res["failing"][:20]:
        d, out = meta[i]
        rep = {"case": cases[i], "desc": d, "impl_outcome": out, "no_failing_input_found": direct == 0,
               "broken": "correspondence model/C06Model.v vs joserfc"}
        if d.get("fam") in ("jws", "jwe", "jwem"):
            rep["jwks"] = export_mats(mats)
            what = describe(d)
        else:
            what = json.dumps(d)[:200]
        ctx.violation({"kind": "correspondence", "entry": d.get("entry"), "alg": d.get("alg"), "impl": out},
                      "model and implementation disagree (impl: %s) on %s" % (out, what), rep)
    for si, err in res["errors"]:
        ctx.violation({"kind": "correspondence-error"}, "coqc failed on a generated case file",
                      {"output": err, "no_failing_input_found": True, "broken": "case evaluation"})
    if not ok:
        ctx.violation({"kind": "proof-broken"}, "props/C06.v or its closure no longer compiles",
                      {"log": log[-3000:], "no_failing_input_found": direct == 0 and not res["failing"],
                       "broken": "theorems of props/C06.v"})
    ctx.assumptions += [
        "cryptographic primitives (hmac.new, pyca sign/verify/encrypt/decrypt/exchange, AES key wrap, PBKDF2) are not modelled: "
        "a Section variable `prim` with the type contract `prim_contract` (raises on a native of the wrong kind), used only by the "
        "theorems named *_by_contract; whether the key material matches the token is the boolean `mat`",
        "key_wf: a declared use is a non-empty string, key_ops a list, curve names those of the key's class (validated by key import: "
        "c06_table_key_params reads the validators off the registry table, and this run requires import to refuse use '' / 'foo' / a list "
        "and key_ops given as a string)",
        "the order and presence of the gates on each entry point is transcribed by hand in model/C06Model.v and validated by the "
        "differential run only",
    ]
    if not ctx.quick:
        ctx.coqchk()


def replay(path):
    from joserfc.drafts.jwe_ecdh_1pu import register_ecdh_1pu
    register_ecdh_1pu()
    r = json.load(open(path))
    rep = r["replay"]
    print("replay:", r["description"])
    if "text_hex" in rep and "route" in rep:
        text = bytes.fromhex(rep["text_hex"])
        arg0 = text.decode("ascii") if rep.get("as_str") else text
        for name, croute, mk, via_callable in text_routes():
            if name == rep["route"]:
                arg = (lambda o: arg0) if via_callable else arg0
                w, out = flagged(mk(arg, TextTokens(text)))
                print("%s: warned=%s outcome=%s" % (name, w, out))
                bad = (not w) if r["signature"]["kind"] == "unsafe-key-text-not-flagged" else w
                return 1 if bad else 0
        return 1
    if "text_hex" in rep:
        text = bytes.fromhex(rep["text_hex"])
        w = import_warns(text)
        print("OctKey.import_key(%r...) warned: %s" % (text[:40], w))
        return 0 if w else 1
    d = rep.get("desc")
    if not d or d.get("fam") not in ("jws", "jwe", "jwem") or "jwks" not in rep:
        print("see the replay file for the failing case")
        return 1
    runner = Runner(ReplayMats(rep["jwks"]))
    if rep.get("history") is not None:
        obj = runner.test_key(d)
        for step in rep["history"]:
            rr = (runner.run_jws if step["fam"] == "jws" else runner.run_jwe)(step, key=obj)
            print("warm-up:", step["entry"], step["alg"], "->", rr[0] if rr else None)
        out, exc, args = (runner.run_jws if d["fam"] == "jws" else runner.run_jwe)(d, key=obj)
        fresh = (runner.run_jws if d["fam"] == "jws" else runner.run_jwe)(d)
        print("outcome after the history:", out, "| with a fresh key object:", fresh[0])
        v = judge(d, out, args)
        print("direct oracle:", v)
        return 1 if (v and not v.startswith("candidate:")) or ((out == "ok") != (fresh[0] == "ok")) else 0
    out, exc, args = {"jws": runner.run_jws, "jwe": runner.run_jwe, "jwem": runner.run_multi}[d["fam"]](d)
    print("outcome:", out, repr(exc) if exc else "")
    v = judge_multi(d, out, args) if d["fam"] == "jwem" else judge(d, out, args)
    print("direct oracle:", v)
    if r["signature"].get("kind") == "correspondence":
        print("recorded implementation outcome was:", rep.get("impl_outcome"))
        return 1
    return 1 if v and not v.startswith("candidate:") else 0
