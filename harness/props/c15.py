"""C15 — header parameters are validated when producing and when consuming.

Function level: registry.check_header(header[, check_more]) of the three registry
classes, with header_registry= / strict_check_header= / algorithms= settings.
API level: every producing entry point, and every consuming entry point on
VALIDLY signed / encrypted tokens that carry the header under test (built here
with HMAC / AES-GCM / AES-KW directly, or by the library under a permissive
registry and then edited in the unauthenticated header parts).
Each recorded run becomes a Coq term (model/C15Cases.v) that is compared with
the Gallina model of registry.py; independently the property itself is checked
on the implementation with a Python reading of the property text (oracle)."""
import base64, copy, hashlib, hmac, json, zlib
import lib
from lib import c_str, c_bool, c_list, c_pv, c_exn, exn_class

# --------------------------------------------------------------------------
# the property, read from its text (independent of joserfc): registries
# --------------------------------------------------------------------------
JWS_REG = {"alg": ("str", True), "jku": ("url", False), "jwk": ("jwk", False), "kid": ("str", False),
           "x5u": ("url", False), "x5c": ("list[str]", False), "x5t": ("str", False),
           "x5t#S256": ("str", False), "typ": ("str", False), "cty": ("str", False),
           "crit": ("list[str]", False)}
JWE_REG = dict({"enc": ("str", True), "zip": ("str", False)}, **JWS_REG)
JWS7797_REG = dict({"b64": ("bool", False)}, **JWS_REG)
ECDH = {"epk": ("jwk", True), "apu": ("str", False), "apv": ("str", False)}
ECDH1PU = dict(ECDH, skid=("str", False))
PBES2 = {"p2s": ("str", True), "p2c": ("int", True)}
GCMKW = {"iv": ("str", True), "tag": ("str", True)}
ALG_MORE = {"RSA1_5": {}, "RSA-OAEP": {}, "RSA-OAEP-256": {}, "A128KW": {}, "A192KW": {}, "A256KW": {}, "dir": {},
            "ECDH-ES": ECDH, "ECDH-ES+A128KW": ECDH, "ECDH-ES+A192KW": ECDH, "ECDH-ES+A256KW": ECDH,
            "A128GCMKW": GCMKW, "A192GCMKW": GCMKW, "A256GCMKW": GCMKW,
            "PBES2-HS256+A128KW": PBES2, "PBES2-HS384+A192KW": PBES2, "PBES2-HS512+A256KW": PBES2}
ALG_MORE_DRAFTS = dict(ALG_MORE, **{"ECDH-1PU": ECDH1PU, "ECDH-1PU+A128KW": ECDH1PU,
                                    "ECDH-1PU+A192KW": ECDH1PU, "ECDH-1PU+A256KW": ECDH1PU})
DEFAULTS = {"jws": JWS_REG, "jws7797": JWS7797_REG, "jwe": JWE_REG, "jwed": JWE_REG}


def type_ok(kind, v):
    if kind == "str":
        return type(v) is str
    if kind == "url":
        return type(v) is str and (v.startswith("http://") or v.startswith("https://"))
    if kind == "int":
        return type(v) is int
    if kind == "bool":
        return type(v) is bool
    if kind == "list[str]":
        return type(v) is list and all(type(x) is str for x in v)
    if kind == "jwk":
        return type(v) is dict
    if kind == "none":
        return False
    if isinstance(kind, list) and kind[0] in ("choices", "choice-str", "choice-list"):
        # in_choices(c): one of c or an array of them; (c, False): one of c only; (c, True): an array only
        if type(v) is list:
            return kind[0] != "choice-str" and all(type(x) is str and x in kind[1] for x in v)
        return kind[0] != "choice-list" and type(v) is str and v in kind[1]
    raise AssertionError(kind)


def merged_reg(rk, cfg):
    reg = dict(DEFAULTS[rk])
    if cfg:
        for n, k, r in cfg["extra"]:
            reg[n] = (k, r)
    return reg


def failed_clause(rk, cfg, cm, h, recommended):
    """None when the header satisfies the property, else the name of a violated clause."""
    reg = merged_reg(rk, cfg)
    strict = cfg["strict"] if cfg else True
    for n, (k, r) in reg.items():
        if r and n not in h:
            return "required:" + n
    for n, (k, r) in reg.items():
        if n in h and not type_ok(k, h[n]):
            return "type:" + n
    if "crit" in h:
        c = h["crit"]
        if type(c) is not list or not all(type(x) is str for x in c):
            return "crit-shape"
        for x in c:
            if x not in h:
                return "crit-absent"
    if rk == "jws7797" and "b64" in h:
        c = h.get("crit")
        if type(c) is not list or "b64" not in c:
            return "b64-without-crit"
    names = set(reg)
    if rk in ("jwe", "jwed"):
        a = h.get("alg")
        table = ALG_MORE_DRAFTS if rk == "jwed" else ALG_MORE
        if type(a) is not str or a not in table:
            return "alg-unknown"
        allowed = cfg["allowed"] if cfg else None
        if a not in (allowed if allowed else recommended):
            return "alg-not-permitted"
        more = table[a]
        for n, (k, r) in more.items():
            if cm and r and n not in h:
                return "required:" + n
        for n, (k, r) in more.items():
            if n in h and not type_ok(k, h[n]):
                return "type:" + n
        names |= set(more)
    if strict:
        for n in h:
            if n not in names:
                return "unregistered"
    return None


# --------------------------------------------------------------------------
# Coq printers
# --------------------------------------------------------------------------
def c_string(s):
    assert all(32 <= ord(c) < 127 and c != '"' for c in s), s
    return '"%s"%%string' % s


def c_kind(k):
    if isinstance(k, list):
        fn = {"choices": "vchoices", "choice-str": "vchoice_str", "choice-list": "vchoice_list"}[k[0]]
        return "(%s %s)" % (fn, c_list([c_string(x) for x in k[1]]))
    return "(vk %s)" % c_string(k)


def c_cfg(cfg):
    if cfg is None:
        return "None"
    extra = c_list(["(hp %s %s %s)" % (c_string(n), c_kind(k), c_bool(r)) for n, k, r in cfg["extra"]])
    allowed = "None" if cfg["allowed"] is None else "(Some %s)" % c_list([c_string(a) for a in cfg["allowed"]])
    return "(Some {| c_extra := %s; c_strict := %s; c_allowed := %s |})" % (extra, c_bool(cfg["strict"]), allowed)


def c_hdr(h):
    return c_list(["(%s, %s)" % (c_str(k), c_pv(v)) for k, v in h.items()])


RK = {"jws": "RJws", "jws7797": "RJws7797", "jwe": "(RJwe false)", "jwed": "(RJwe true)"}

# scenario entry -> constructor of model/C15Cases.v:entry
ENTRY_COQ = {
    "jws.serialize_compact": "JwsSerializeCompact", "jws.serialize_json.flattened": "JwsSerializeJson",
    "jws.serialize_json.general": "JwsSerializeJson", "jws.validate_compact": "JwsValidateCompact",
    "jws.deserialize_compact": "JwsDeserializeCompact", "jws.deserialize_json.flattened": "JwsDeserializeJson",
    "jws.deserialize_json.general": "JwsDeserializeJson",
    "rfc7797.serialize_compact": "R7797SerializeCompact", "rfc7797.serialize_json": "R7797SerializeJson",
    "rfc7797.deserialize_compact": "R7797DeserializeCompact", "rfc7797.deserialize_json": "R7797DeserializeJson",
    "jwt.encode.jws": "JwtEncodeJws", "jwt.decode.jws": "JwtDecodeJws",
    "jwt.encode.jwe": "(JwtEncodeJwe false)", "jwt.decode.jwe": "(JwtDecodeJwe false)",
    "jwe.encrypt_compact": "(JweEncryptCompact false)", "jwe.encrypt_json.flattened": "(JweEncryptJson false)",
    "jwe.encrypt_json.general": "(JweEncryptJson false)", "jwe.decrypt_compact": "(JweDecryptCompact false)",
    "jwe.decrypt_compact.lib": "(JweDecryptCompact false)", "jwe.decrypt_json.flattened": "(JweDecryptJson false)",
    "jwe.decrypt_json.general": "(JweDecryptJson false)", "jwe.decrypt_json.edited": "(JweDecryptJson false)",
}
# every public callable of the four API modules, classified; the scenario entries that exercise it.
# An export that is not listed here makes the check fail (closed): a new public producing / consuming
# function has to get scenarios before C15 can pass again.
EXPORTS = {
    "jws": {"serialize_compact": ["jws.serialize_compact"],
            "deserialize_compact": ["jws.deserialize_compact"],
            "validate_compact": ["jws.validate_compact"],
            "serialize_json": ["jws.serialize_json.flattened", "jws.serialize_json.general"],
            "deserialize_json": ["jws.deserialize_json.flattened", "jws.deserialize_json.general"],
            "extract_compact": None,       # parses only: takes no key, gives no verdict (first half of validate_compact)
            "detach_content": None},       # string / dict surgery on a serialization: no key, no verdict
    "rfc7797": {"serialize_compact": ["rfc7797.serialize_compact"], "deserialize_compact": ["rfc7797.deserialize_compact"],
                "serialize_json": ["rfc7797.serialize_json"], "deserialize_json": ["rfc7797.deserialize_json"]},
    "jwe": {"encrypt_compact": ["jwe.encrypt_compact"],
            "decrypt_compact": ["jwe.decrypt_compact", "jwe.decrypt_compact.lib"],
            "encrypt_json": ["jwe.encrypt_json.flattened", "jwe.encrypt_json.general", "jwe.encrypt_json.history"],
            "decrypt_json": ["jwe.decrypt_json.flattened", "jwe.decrypt_json.general", "jwe.decrypt_json.edited"]},
    "jwt": {"encode": ["jwt.encode.jws", "jwt.encode.jwe"], "decode": ["jwt.decode.jws", "jwt.decode.jwe"],
            "check_sensitive_data": None},  # inspects claims only
}
CLAIMS = {"sub": "x"}
CLAIMS_JSON = b'{"sub":"x"}'


def entry_parts(entry, parts):
    """the parts an entry point merges (jwt.encode: {"typ": "JWT", **header})"""
    return ([{"typ": "JWT"}] + list(parts)) if entry.startswith("jwt.encode") else list(parts)


def check_exports(ctx, dist):
    """fail closed on public functions this check does not know, and on known ones left unexercised"""
    import inspect
    from joserfc import jws, jwe, jwt, rfc7797
    mods = {"jws": jws, "jwe": jwe, "jwt": jwt, "rfc7797": rfc7797}
    seen, unknown, idle = 0, [], []
    for mname, mod in mods.items():
        for n in mod.__all__:
            o = getattr(mod, n, None)
            if not inspect.isfunction(o):
                continue
            seen += 1
            if n not in EXPORTS[mname]:
                unknown.append("%s.%s" % (mname, n))
                continue
            for e in EXPORTS[mname][n] or []:
                if not any(k.startswith("api:%s:" % e) for k in dist):
                    idle.append(e)
        for n in EXPORTS[mname]:
            if n not in mod.__all__:
                unknown.append("%s.%s (listed here, no longer exported)" % (mname, n))
    ctx.coverage["public_functions_seen"] = seen
    ctx.coverage["public_functions_unclassified"] = unknown
    ctx.coverage["entry_points_without_cases"] = idle
    for u in unknown:
        ctx.violation({"kind": "unknown-export", "function": u},
                      "public function %s is not classified by the C15 check (producing / consuming / neither): "
                      "header validation on it is unchecked" % u,
                      {"no_failing_input_found": True, "broken": "entry-point table of harness/props/c15.py", "function": u})
    for e in idle:
        ctx.violation({"kind": "entry-without-cases", "entry": e}, "no API-level case was generated for %s" % e,
                      {"no_failing_input_found": True, "broken": "generators of harness/props/c15.py", "entry": e})


def call(f, *a, **kw):
    try:
        return ("ok", f(*a, **kw))
    except BaseException as e:  # noqa
        return ("err", e)


def c_res(r):
    return "(Ok tt)" if r[0] == "ok" else "(Err %s)" % c_exn(exn_class(r[1]))


# --------------------------------------------------------------------------
# registries of the implementation
# --------------------------------------------------------------------------
def make_registry(rk, cfg):
    from joserfc import jws, jwe
    from joserfc.rfc7797 import JWSRegistry as JWSRegistry7797
    from joserfc.registry import HeaderParameter, in_choices
    cls = {"jws": jws.JWSRegistry, "jws7797": JWSRegistry7797, "jwe": jwe.JWERegistry, "jwed": jwe.JWERegistry}[rk]
    if cfg is None:
        return cls()
    extra = {}
    for n, k, r in cfg["extra"]:
        if isinstance(k, list):
            v = {"choices": lambda c: in_choices(c), "choice-str": lambda c: in_choices(c, False),
                 "choice-list": lambda c: in_choices(c, True)}[k[0]](list(k[1]))
        else:
            v = k
        extra[n] = HeaderParameter("caller registered", v, r)
    return cls(header_registry=extra, algorithms=cfg["allowed"], strict_check_header=cfg["strict"])


def merge(parts):
    rv = {}
    for p in parts:
        if p:
            rv.update(p)
    return rv


# --------------------------------------------------------------------------
# keys and hand-made tokens
# --------------------------------------------------------------------------
K16 = bytes(range(1, 17))
K16B = bytes(range(33, 49))
PAYLOAD = b"hello"


def b64u(b):
    return base64.urlsafe_b64encode(b).rstrip(b"=")


def jdump(h):
    return json.dumps(h, separators=(",", ":")).encode("utf-8")


def hs256(msg):
    return hmac.new(K16, msg, hashlib.sha256).digest()


def own_jws_compact(protected, raw, payload=None):
    payload = PAYLOAD if payload is None else payload
    hseg = b64u(jdump(protected))
    pseg = payload if raw else b64u(payload)
    return (hseg + b"." + pseg + b"." + b64u(hs256(hseg + b"." + pseg))).decode()


def own_jws_member(protected, header, payload_seg):
    pseg = b64u(jdump(protected)) if protected else b""
    m = {"signature": b64u(hs256(pseg + b"." + payload_seg)).decode()}
    if protected:
        m["protected"] = pseg.decode()
    if header is not None:
        m["header"] = header
    return m


def own_jwe(rng, protected, unprotected, recips, compact, payload=None):
    """recips: [(header|None, 'dir'|'A128KW', key)].  A128GCM content encryption."""
    from cryptography.hazmat.primitives.ciphers.aead import AESGCM
    from cryptography.hazmat.primitives.keywrap import aes_key_wrap
    direct = recips[0][1] == "dir"
    cek = recips[0][2] if direct else bytes(rng.randrange(256) for _ in range(16))
    pseg = b64u(jdump(protected))
    iv = bytes(rng.randrange(256) for _ in range(12))
    pt = PAYLOAD if payload is None else payload
    if protected.get("zip") == "DEF":
        pt = zlib.compress(pt)[2:-4]
    ct = AESGCM(cek).encrypt(iv, pt, pseg)
    ct, tag = ct[:-16], ct[-16:]
    eks = [b"" if mode == "dir" else aes_key_wrap(key, cek) for (_, mode, key) in recips]
    if compact:
        return b".".join([pseg, b64u(eks[0]), b64u(iv), b64u(ct), b64u(tag)]).decode()
    data = {"protected": pseg.decode(), "iv": b64u(iv).decode(), "ciphertext": b64u(ct).decode(),
            "tag": b64u(tag).decode()}
    if unprotected is not None:
        data["unprotected"] = unprotected
    return data, eks


# --------------------------------------------------------------------------
# value / name pools
# --------------------------------------------------------------------------
B64_STRS = ["", "ab", "QUJD", "x-y_z0"]
OTHER_STRS = ["x", "https://e.example/k", "http://e/x", "ftp://e/x", "http:/e", "HTTP://E/x", " https://e",
              "httpss://e", "https:/", "http://", "é", "sig", "DEF", "HS256", "b64", "a"]
NONSTR = [0, 1, -5, 2 ** 70, True, False, 1.5, 1.0, None, [], ["a"], ["b", "a"], ["a", "zz"], ["b64"], ["kid", "alg"], ["a", 1], [1],
          [None], [[]], [{}], [["a"]], {}, {"kty": "oct", "k": "AQ"}, {"alg": 1}]
ALL_VALUES = B64_STRS + OTHER_STRS + NONSTR
JWS_NAMES = list(JWS_REG)
ALGSPEC = ["epk", "apu", "apv", "iv", "tag", "p2s", "p2c", "skid"]
CALLER = [("x-str", "str"), ("x-int", "int"), ("x-bool", "bool"), ("x-url", "url"), ("x-list", "list[str]"),
          ("x-jwk", "jwk"), ("x-none", "none"), ("x-ch", ["choices", ["a", "b", "sig"]]),
          ("x-one", ["choice-str", ["a", "b", "sig"]]), ("x-many", ["choice-list", ["a", "b", "sig"]])]
UNKNOWN = ["foo", "ALG", "x5t#s256", "", "kid ", "é", "exp"]
ALL_NAMES = ["enc", "zip", "b64"] + JWS_NAMES + ALGSPEC + [n for n, _ in CALLER] + UNKNOWN

EPK = {"kty": "EC", "crv": "P-256", "x": "gI0GAILBdu7T53akrFmMyGcsF3n5dO7MmwNBHKW5SV0",
       "y": "SLW_xSffzlPWrHEVI30DHM_4egVwt3NQqeUD7nMFpps"}


def base_header(rk, rng, alg=None):
    if rk in ("jws", "jws7797"):
        return {"alg": "HS256"}
    alg = alg or rng.choice(["dir", "A128KW", "ECDH-ES", "ECDH-ES+A128KW", "PBES2-HS256+A128KW", "A128GCMKW",
                             "A256KW", "RSA-OAEP"] + (["ECDH-1PU", "ECDH-1PU+A128KW"] if rk == "jwed" else []))
    h = {"alg": alg, "enc": "A128GCM"}
    if alg.startswith("ECDH"):
        h["epk"] = dict(EPK)
    elif alg.startswith("PBES2"):
        h["p2s"] = "c2FsdHNhbHQ"
        h["p2c"] = 8
    elif alg.endswith("GCMKW"):
        h["iv"] = "AAAAAAAAAAAAAAAA"
        h["tag"] = "AAAAAAAAAAAAAAAAAAAAAA"
    return h


def rand_cfg(rk, rng, allow_override=True):
    extra = []
    for n, k in CALLER:
        if rng.random() < 0.45:
            extra.append([n, k, rng.random() < 0.25])
    if allow_override and rng.random() < 0.3:
        # the caller re-registers a default name (other type / required)
        n = rng.choice(["kid", "typ", "x5c", "jwk", "cty"])
        extra.append([n, rng.choice(["str", "int", "bool", "url", "list[str]", "jwk", "none"]), rng.random() < 0.4])
    if allow_override and rng.random() < 0.08:
        extra.append(["crit", rng.choice(["str", "list[str]", "jwk", "int"]), False])
    if allow_override and rng.random() < 0.08:
        extra.append(["alg", rng.choice(["str", "int", "jwk", "list[str]"]), rng.random() < 0.5])
    if rng.random() < 0.3:
        extra.append([rng.choice(ALGSPEC), rng.choice(["str", "int", "jwk"]), False])
    rng.shuffle(extra)
    allowed = None
    if rk in ("jwe", "jwed"):
        r = rng.random()
        if r < 0.5:
            allowed = ["dir", "A128KW", "A256KW", "ECDH-ES", "ECDH-ES+A128KW", "PBES2-HS256+A128KW", "A128GCMKW",
                       "ECDH-1PU", "ECDH-1PU+A128KW", "A128GCM", "DEF"]
        elif r < 0.6:
            allowed = ["A128KW", "A128GCM"]
        elif r < 0.65:
            allowed = []
    return {"extra": extra, "strict": rng.random() < 0.6, "allowed": allowed}


def rand_value(rng):
    return copy.deepcopy(rng.choice(ALL_VALUES))


def rand_crit(rng, h):
    r = rng.random()
    names = list(h) or ["alg"]
    if r < 0.35:
        return [rng.choice(names) for _ in range(rng.randrange(0, 3))]
    if r < 0.55:
        return [rng.choice(names + ["exp", "b64", "nope"]) for _ in range(rng.randrange(1, 4))]
    if r < 0.7:
        return [rng.choice(names), rng.choice([1, None, True, 1.5, [], {}, ["alg"], {"alg": 1}]), rng.choice(names + ["zz"])][rng.randrange(0, 2):]
    if r < 0.8:
        return rng.choice(["alg", "a", "", "kid", "algx"])          # a str is iterated by characters
    if r < 0.9:
        return rng.choice([{"alg": 1}, {"zz": 1}, {}])                # a dict is iterated by keys
    return rng.choice([5, 0, None, True, False, 1.5])                 # not iterable


# --------------------------------------------------------------------------
class Run:
    def __init__(self, ctx):
        self.ctx, self.cases, self.meta = ctx, [], []
        self.dist = {}
        import joserfc.jwe  # noqa: F401  (registers the algorithms)
        from joserfc.rfc7516.registry import JWERegistry
        self.recommended = list(JWERegistry.recommended)
        self.t = {}

    def count(self, k):
        self.dist[k] = self.dist.get(k, 0) + 1

    # ---- function level
    def fn_case(self, rk, cfg, cm, h):
        ctx = self.ctx
        reg = make_registry(rk, cfg)
        hh = copy.deepcopy(h)
        r = call(reg.check_header, hh, cm) if rk in ("jwe", "jwed") else call(reg.check_header, hh)
        clause = failed_clause(rk, cfg, cm, h, self.recommended)
        spec = clause is None
        self.cases.append("CCheck %s %s %s %s %s %s" % (RK[rk], c_cfg(cfg), c_bool(cm), c_hdr(h), c_res(r), c_bool(spec)))
        replay = {"level": "check_header", "rk": rk, "cfg": cfg, "cm": cm, "header": h}
        self.meta.append(replay)
        ctx.note_case(("fn", rk, json.dumps(cfg, sort_keys=True), cm, json.dumps(h, sort_keys=True)))
        self.count("fn:%s:%s" % (rk, "ok" if r[0] == "ok" else exn_class(r[1])))
        overrides = bool(cfg) and any(n in ("crit",) for n, _, _ in cfg["extra"])
        if hh != h:
            ctx.violation({"kind": "header-mutated", "level": "check_header", "registry": rk},
                          "check_header modified the header %r" % (h,), replay)
        if not overrides:
            self.direct(r, spec, clause, replay, "check_header", rk, [h])

    def direct(self, r, spec, clause, replay, entry, rk, merged):
        ctx = self.ctx
        if r[0] == "ok" and not spec:
            ctx.violation({"kind": "accepts-bad-header", "entry": entry, "registry": rk, "clause": clause.split(":")[0]},
                          "%s (%s registry) accepted a header violating '%s': %r" % (entry, rk, clause, merged), replay)
        elif r[0] == "err" and spec:
            ctx.violation({"kind": "rejects-good-header", "entry": entry, "registry": rk, "error": exn_class(r[1])},
                          "%s (%s registry) rejected (%r) a header that satisfies the property: %r" % (entry, rk, r[1], merged),
                          replay)
        elif r[0] == "err" and entry == "check_header":
            from joserfc.errors import UnsupportedAlgorithmError
            cfg = replay.get("cfg")
            alg_overridden = bool(cfg) and any(n == "alg" for n, _, _ in cfg["extra"])
            if not isinstance(r[1], (ValueError, UnsupportedAlgorithmError)) and not alg_overridden:
                ctx.violation({"kind": "error-class", "entry": entry, "registry": rk, "error": exn_class(r[1])},
                              "%s raised %r (neither ValueError nor UnsupportedAlgorithmError) on %r" % (entry, r[1], merged),
                              replay)

    def emitted_check(self, spec, value, cfg):
        """whatever a producing entry point returned must itself carry headers that satisfy the property"""
        overrides = bool(cfg) and any(n in ("crit", "alg") for n, _, _ in cfg["extra"])
        if overrides:
            return
        try:
            ms = emitted_members(spec["entry"], value)
        except Exception as e:  # noqa
            self.ctx.violation({"kind": "emitted-undecodable", "entry": spec["entry"]},
                               "cannot decode the headers of the output of %s: %r" % (spec["entry"], e), spec)
            return
        for m in ms:
            mm = merge(m)
            clause = failed_clause(spec["rk"], cfg, False, mm, self.recommended)
            if clause is not None:
                self.ctx.violation({"kind": "emits-bad-header", "entry": spec["entry"], "clause": clause.split(":")[0]},
                                   "%s produced output whose header violates '%s': %r" % (spec["entry"], clause, mm), spec)
                return

    # ---- object histories
    def hist_case(self, spec):
        ctx = self.ctx
        r, state0, final = hist_execute(spec)
        cfg = spec["cfg"]
        members = state_members(final)
        raised = "None"
        if r[0] == "err" and final[0].get("enc") == "A128GCM":
            raised = "(Some %s)" % c_exn(exn_class(r[1]))
        self.cases.append("CHist false %s %s %s %s %s" % (
            c_cfg(cfg), c_obj(state0), c_list([c_edit(e) for e in spec["edits"]]), c_bool(r[0] == "ok"), raised))
        self.meta.append(spec)
        ctx.note_case(("hist", json.dumps(spec, sort_keys=True, default=str)))
        self.count("api:%s:%s" % (spec["entry"], "ok" if r[0] == "ok" else "rejected"))
        # the harness' own fold of the edits must describe what the object really looks like
        st = state0
        for e in spec["edits"]:
            st = py_apply_edit(st, e)
        if list(st) != list(final):
            ctx.violation({"kind": "history-state", "entry": spec["entry"]},
                          "the object state after the edits is %r, expected %r" % (final, st), spec)
        merged = [merge(parts) for parts in members]
        bad = [c for c in (failed_clause("jwe", cfg, False, m, self.recommended) for m in merged) if c is not None]
        overrides = bool(cfg) and any(n in ("crit", "alg") for n, _, _ in cfg["extra"])
        if not overrides:
            self.direct(r, not bad, bad[0] if bad else None, spec, spec["entry"], "jwe", merged)
        if r[0] == "ok":
            self.emitted_check(spec, r[1], cfg)

    # ---- API level
    def api_case(self, spec):
        """spec: JSON-able description of one entry-point run (see execute)."""
        ctx = self.ctx
        r, members = execute(spec, ctx.rng)
        rk, cfg, cm = spec["rk"], spec["cfg"], spec["cm"]
        # the class raised is compared too when nothing can fail before the header check
        raised = "None"
        if r[0] == "err" and (rk == "jws" or rk == "jws7797" or (members and members[0] and members[0][0].get("enc") == "A128GCM")):
            raised = "(Some %s)" % c_exn(exn_class(r[1]))
        self.cases.append("CApi %s %s %s %s %s" % (
            ENTRY_COQ[spec["entry"]], c_cfg(cfg), c_list([c_list([c_hdr(p) for p in parts]) for parts in members]),
            c_bool(r[0] == "ok"), raised))
        self.meta.append(spec)
        ctx.note_case(("api", json.dumps(spec, sort_keys=True, default=str)))
        self.count("api:%s:%s" % (spec["entry"], "ok" if r[0] == "ok" else "rejected"))
        merged = [merge(entry_parts(spec["entry"], parts)) for parts in members]
        clauses = [failed_clause(rk, cfg, cm, m, self.recommended) for m in merged]
        bad = [c for c in clauses if c is not None]
        overrides = bool(cfg) and any(n in ("crit", "alg") for n, _, _ in cfg["extra"])
        if not overrides:
            self.direct(r, not bad, bad[0] if bad else None, spec, spec["entry"], rk, merged)
        if r[0] == "ok" and (".serialize" in spec["entry"] or ".encrypt" in spec["entry"] or ".encode" in spec["entry"]):
            self.emitted_check(spec, r[1], cfg)
        if r[0] == "ok" and spec.get("expect_payload") and r[1] != (CLAIMS if spec["entry"].startswith("jwt.") else PAYLOAD):
            ctx.violation({"kind": "wrong-payload", "entry": spec["entry"]},
                          "%s returned %r instead of the protected content" % (spec["entry"], r[1]), spec)


# --------------------------------------------------------------------------
# running one API-level scenario (also used by replay)
# --------------------------------------------------------------------------
def oct_key(b):
    from joserfc.jwk import OctKey
    return OctKey.import_key(b)


_EC = {}


def ec_key():
    from joserfc.jwk import ECKey
    if "k" not in _EC:
        _EC["k"] = ECKey.import_key({
            "kty": "EC", "crv": "P-256",
            "x": "weNJy2HscCSM6AEDTDg04biOvhFhyyWvOHQfeF_PxMQ",
            "y": "e8lnCO-AlStT-NJVX-crhB7QRYhiix03illJOVAOyck",
            "d": "VEmDZpDXXK8p8N0Cndsxs924q6nS1RXFASRl6BfUqdw"})
    return _EC["k"]


def jwe_key(mode):
    if mode.startswith("ECDH"):
        return ec_key()
    if mode.startswith("PBES2"):
        return oct_key(b"password-for-pbes2")
    return oct_key(K16)


def permissive(rk, algorithms=None):
    """a registry that lets (almost) every header through on the producing side"""
    from joserfc import jws, jwe
    from joserfc.rfc7797 import JWSRegistry as R7797
    from joserfc.registry import HeaderParameter
    anyp = {n: HeaderParameter("any", lambda v: None) for n in ALL_NAMES if n not in ALGSPEC}
    cls = {"jws": jws.JWSRegistry, "jws7797": R7797, "jwe": jwe.JWERegistry, "jwed": jwe.JWERegistry}[rk]
    return cls(header_registry=anyp, algorithms=algorithms, strict_check_header=False)


def execute(spec, rng):
    """-> (("ok", value) | ("err", exc), members) where members is, per signature /
    recipient, the list of header parts that the entry point merges."""
    from joserfc import jws, jwe
    from joserfc import rfc7797
    entry, rk, cfg = spec["entry"], spec["rk"], spec["cfg"]
    reg = None if cfg is None else make_registry(rk, cfg)
    key = oct_key(K16)
    ms = copy.deepcopy(spec["members"])          # [[protected, unprotected, (recipient header)] ...]
    if entry == "jws.serialize_compact":
        r = call(jws.serialize_compact, copy.deepcopy(ms[0][0]), PAYLOAD, key, registry=reg)
        return r, [[ms[0][0]]]
    if entry == "jws.serialize_json.flattened":
        member = {k: v for k, v in (("protected", ms[0][0]), ("header", ms[0][1])) if v is not None}
        r = call(jws.serialize_json, copy.deepcopy(member), PAYLOAD, key, registry=reg)
        return r, [[p for p in ms[0] if p is not None]]
    if entry == "jws.serialize_json.general":
        members = [{k: v for k, v in (("protected", m[0]), ("header", m[1])) if v is not None} for m in ms]
        r = call(jws.serialize_json, copy.deepcopy(members), PAYLOAD, key, registry=reg)
        return r, [[p for p in m if p is not None] for m in ms]
    if entry == "rfc7797.serialize_compact":
        r = call(rfc7797.serialize_compact, copy.deepcopy(ms[0][0]), PAYLOAD, key, registry=reg)
        return r, [[ms[0][0]]]
    if entry == "rfc7797.serialize_json":
        member = {k: v for k, v in (("protected", ms[0][0]), ("header", ms[0][1])) if v is not None}
        r = call(rfc7797.serialize_json, copy.deepcopy(member), PAYLOAD, key, registry=reg)
        return r, [[p for p in ms[0] if p is not None]]
    if entry == "jwt.encode.jws":
        from joserfc import jwt
        r = call(jwt.encode, copy.deepcopy(ms[0][0]), dict(CLAIMS), key, registry=reg)
        return r, [[ms[0][0]]]
    if entry == "jwt.encode.jwe":
        from joserfc import jwt
        r = call(jwt.encode, copy.deepcopy(ms[0][0]), dict(CLAIMS), jwe_key(spec["modes"][0]), registry=reg)
        return r, [[ms[0][0]]]
    # ---- consuming JWS: tokens signed here
    if entry == "jws.validate_compact":
        # the public two-step route: extract_compact, then validate_compact gives the verdict
        tok = own_jws_compact(ms[0][0], False)

        def two_step():
            obj = jws.extract_compact(tok.encode())
            if jws.validate_compact(obj, key, registry=reg) is not True:
                raise RuntimeError("validate_compact did not return True for a valid signature")
            return obj.payload
        return call(two_step), [[ms[0][0]]]
    if entry == "jwt.decode.jws":
        from joserfc import jwt
        tok = own_jws_compact(ms[0][0], False, CLAIMS_JSON)
        r = call(jwt.decode, tok, key, registry=reg)
        if r[0] == "ok":
            r = ("ok", r[1].claims)
        return r, [[ms[0][0]]]
    if entry == "jwt.decode.jwe":
        from joserfc import jwt
        tok = own_jwe(rng, ms[0][0], None, [(None, spec["modes"][0], K16)], True, CLAIMS_JSON)
        r = call(jwt.decode, tok, key, registry=reg)
        if r[0] == "ok":
            r = ("ok", r[1].claims)
        return r, [[ms[0][0]]]
    if entry in ("jws.deserialize_compact", "rfc7797.deserialize_compact"):
        p = ms[0][0]
        raw = entry.startswith("rfc7797") and "b64" in p and p["b64"] is not True
        tok = own_jws_compact(p, raw)
        f = jws.deserialize_compact if entry.startswith("jws") else rfc7797.deserialize_compact
        r = call(f, tok, key, registry=reg)
        if r[0] == "ok":
            r = ("ok", r[1].payload)
        return r, [[p]]
    if entry in ("jws.deserialize_json.flattened", "rfc7797.deserialize_json", "jws.deserialize_json.general"):
        general = entry.endswith("general")
        mm = merge(ms[0])
        raw = entry.startswith("rfc7797") and "b64" in mm and mm["b64"] is not True
        pseg = PAYLOAD if raw else b64u(PAYLOAD)
        sigs = [own_jws_member(m[0], m[1], pseg) for m in ms]
        value = {"payload": pseg.decode()}
        if general:
            value["signatures"] = sigs
        else:
            value.update(sigs[0])
        f = rfc7797.deserialize_json if entry.startswith("rfc7797") else jws.deserialize_json
        r = call(f, value, key, registry=reg)
        if r[0] == "ok":
            r = ("ok", r[1].payload)
        return r, [[p for p in m if p is not None] for m in ms]
    # ---- producing JWE
    modes = spec.get("modes")
    if entry == "jwe.encrypt_compact":
        r = call(jwe.encrypt_compact, copy.deepcopy(ms[0][0]), PAYLOAD, jwe_key(modes[0]), registry=reg)
        return r, [[ms[0][0]]]
    if entry in ("jwe.encrypt_json.flattened", "jwe.encrypt_json.general"):
        cls = jwe.FlattenedJSONEncryption if entry.endswith("flattened") else jwe.GeneralJSONEncryption
        obj = cls(copy.deepcopy(ms[0][0]), PAYLOAD, copy.deepcopy(ms[0][1]))
        for m, mode in zip(ms, modes):
            obj.add_recipient(copy.deepcopy(m[2]), jwe_key(mode))
        r = call(jwe.encrypt_json, obj, None, registry=reg)
        return r, [[p for p in m if p is not None] for m in ms]
    # ---- consuming JWE: tokens encrypted here (dir / A128KW + A128GCM)
    if entry == "jwe.decrypt_compact":
        tok = own_jwe(rng, ms[0][0], None, [(None, modes[0], K16)], True)
        r = call(jwe.decrypt_compact, tok, key, registry=reg)
        if r[0] == "ok":
            r = ("ok", r[1].plaintext)
        return r, [[ms[0][0]]]
    if entry in ("jwe.decrypt_json.flattened", "jwe.decrypt_json.general"):
        data, eks = own_jwe(rng, ms[0][0], ms[0][1], [(m[2], mode, K16) for m, mode in zip(ms, modes)], False)
        if entry.endswith("flattened"):
            if ms[0][2] is not None:
                data["header"] = ms[0][2]
            if eks[0]:
                data["encrypted_key"] = b64u(eks[0]).decode()
        else:
            data["recipients"] = []
            for m, ek in zip(ms, eks):
                item = {}
                if m[2] is not None:
                    item["header"] = m[2]
                if ek:
                    item["encrypted_key"] = b64u(ek).decode()
                data["recipients"].append(item)
        r = call(jwe.decrypt_json, data, key, registry=reg)
        if r[0] == "ok":
            r = ("ok", r[1].plaintext)
        return r, [[p for p in m if p is not None] for m in ms]
    # ---- consuming JWE: token made by the library, unauthenticated parts edited
    if entry == "jwe.decrypt_json.edited":
        data = copy.deepcopy(spec["token"])

        def keyfn(rcp):
            a = rcp.headers().get("alg")
            return jwe_key(a) if isinstance(a, str) else oct_key(K16)
        r = call(jwe.decrypt_json, data, keyfn, registry=reg)
        if r[0] == "ok":
            r = ("ok", r[1].plaintext)
        prot = json.loads(base64.urlsafe_b64decode(data["protected"] + "=="))
        if "recipients" in data:
            members = [[prot, data.get("unprotected"), rc.get("header")] for rc in data["recipients"]]
        else:
            members = [[prot, data.get("unprotected"), data.get("header")]]
        return r, [[p for p in m if p is not None] for m in members]
    if entry == "jwe.decrypt_compact.lib":
        r = call(jwe.decrypt_compact, spec["token"], jwe_key(modes[0]), registry=reg)
        if r[0] == "ok":
            r = ("ok", r[1].plaintext)
        prot = json.loads(base64.urlsafe_b64decode(spec["token"].split(".")[0] + "=="))
        return r, [[prot]]
    raise AssertionError(entry)


# --------------------------------------------------------------------------
# generators
# --------------------------------------------------------------------------
# --------------------------------------------------------------------------
# object-level histories: a JWE JSON object is used, edited, and used again
# --------------------------------------------------------------------------
HIST_ALLOWED = ["A128KW", "dir", "ECDH-ES+A128KW", "PBES2-HS256+A128KW", "A128GCMKW", "A128GCM", "DEF"]


def c_opt_hdr(h):
    return "None" if h is None else "(Some %s)" % c_hdr(h)


def c_obj(state):
    P, U, Rs = state
    return "{| o_protected := %s; o_unprotected := %s; o_recipients := %s |}" % (
        c_hdr(P), c_opt_hdr(U), c_list([c_opt_hdr(r) for r in Rs]))


def c_edit(e):
    how = e["how"]
    if how == "setP":
        return "(ESetP %s %s)" % (c_str(e["k"]), c_pv(e["v"]))
    if how == "delP":
        return "(EDelP %s)" % c_str(e["k"])
    if how == "rebindP":
        return "(ERebindP %s)" % c_hdr(e["h"])
    if how == "setU":
        return "(ESetU %s %s)" % (c_str(e["k"]), c_pv(e["v"]))
    if how == "delU":
        return "(EDelU %s)" % c_str(e["k"])
    if how == "rebindU":
        return "(ERebindU %s)" % c_opt_hdr(e["h"])
    if how == "setR":
        return "(ESetR %d%%nat %s %s)" % (e["i"], c_str(e["k"]), c_pv(e["v"]))
    if how == "delR":
        return "(EDelR %d%%nat %s)" % (e["i"], c_str(e["k"]))
    if how == "rebindR":
        return "(ERebindR %d%%nat %s)" % (e["i"], c_opt_hdr(e["h"]))
    if how == "add_header":
        return "(EAddHeader %d%%nat %s %s)" % (e["i"], c_str(e["k"]), c_pv(e["v"]))
    if how == "add_recipient":
        return "(EAddRecipient %s %s)" % (c_bool(e["flattened"]), c_opt_hdr(e["h"]))
    raise AssertionError(how)


def py_apply_edit(state, e):
    """the harness' own reading of what an edit does to (protected, unprotected, [recipient headers])"""
    P, U, Rs = copy.deepcopy(state)
    how = e["how"]
    if how == "setP":
        P[e["k"]] = copy.deepcopy(e["v"])
    elif how == "delP":
        P.pop(e["k"], None)
    elif how == "rebindP":
        P = copy.deepcopy(e["h"])
    elif how == "setU":
        U[e["k"]] = copy.deepcopy(e["v"])
    elif how == "delU":
        U.pop(e["k"], None)
    elif how == "rebindU":
        U = copy.deepcopy(e["h"])
    elif how == "setR":
        Rs[e["i"]][e["k"]] = copy.deepcopy(e["v"])
    elif how == "delR":
        Rs[e["i"]].pop(e["k"], None)
    elif how == "rebindR":
        Rs[e["i"]] = copy.deepcopy(e["h"])
    elif how == "add_header":
        Rs[e["i"]] = dict(Rs[e["i"]] or {}, **{e["k"]: copy.deepcopy(e["v"])})
    elif how == "add_recipient":
        Rs = [copy.deepcopy(e["h"])] if e["flattened"] else Rs + [copy.deepcopy(e["h"])]
    return P, U, Rs


def obj_apply_edit(obj, e):
    """the same edit on the live joserfc object, through its public attributes / methods"""
    how = e["how"]
    if how == "setP":
        obj.protected[e["k"]] = copy.deepcopy(e["v"])
    elif how == "delP":
        obj.protected.pop(e["k"], None)
    elif how == "rebindP":
        obj.protected = copy.deepcopy(e["h"])
    elif how == "setU":
        obj.unprotected[e["k"]] = copy.deepcopy(e["v"])
    elif how == "delU":
        obj.unprotected.pop(e["k"], None)
    elif how == "rebindU":
        obj.unprotected = copy.deepcopy(e["h"])
    elif how == "setR":
        obj.recipients[e["i"]].header[e["k"]] = copy.deepcopy(e["v"])
    elif how == "delR":
        obj.recipients[e["i"]].header.pop(e["k"], None)
    elif how == "rebindR":
        obj.recipients[e["i"]].header = copy.deepcopy(e["h"])
    elif how == "add_header":
        obj.recipients[e["i"]].add_header(e["k"], copy.deepcopy(e["v"]))
    elif how == "add_recipient":
        obj.add_recipient(copy.deepcopy(e["h"]), jwe_key(e["mode"]))


def obj_state(obj):
    return (copy.deepcopy(obj.protected), copy.deepcopy(obj.unprotected),
            [copy.deepcopy(r.header) for r in obj.recipients])


def state_members(state):
    P, U, Rs = state
    return [[p for p in (P, U, r) if p is not None] for r in Rs]


def hist_first_operation(spec):
    """build the object and put it through a first, valid operation (under a lax registry)"""
    from joserfc import jwe
    lax = permissive("jwe", HIST_ALLOWED)
    P, U, Rs = copy.deepcopy(spec["init"])
    cls = jwe.FlattenedJSONEncryption if spec["flattened"] else jwe.GeneralJSONEncryption
    obj = cls(P, PAYLOAD, U)
    for h, mode in zip(Rs, spec["modes"]):
        obj.add_recipient(h, jwe_key(mode))
    data = jwe.encrypt_json(obj, None, registry=lax)
    if spec["start"] == "decrypt":
        def keyfn(rcp):
            a = rcp.headers().get("alg")
            return jwe_key(a) if isinstance(a, str) else oct_key(K16)
        obj = jwe.decrypt_json(data, keyfn, registry=lax)      # a received object, to be re-encrypted
    return obj


def hist_execute(spec):
    """-> (result of the second operation, state before the edits, state the second operation sees)"""
    from joserfc import jwe
    cfg = spec["cfg"]
    reg = None if cfg is None else make_registry("jwe", cfg)
    obj = hist_first_operation(spec)
    state0 = obj_state(obj)
    for e in spec["edits"]:
        obj_apply_edit(obj, e)
    final = obj_state(obj)
    r = call(jwe.encrypt_json, obj, None, registry=reg)
    return r, state0, final


def emitted_members(entry, value):
    """the header parts carried by what a producing entry point returned (decoded here)"""
    def dec(seg):
        seg = seg if isinstance(seg, str) else seg.decode()
        return json.loads(base64.urlsafe_b64decode(seg + "=" * (-len(seg) % 4)))
    if isinstance(value, str):
        return [[dec(value.split(".")[0])]]
    if "signatures" in value:
        return [[p for p in (dec(m["protected"]) if "protected" in m else None, m.get("header")) if p is not None]
                for m in value["signatures"]]
    if "signature" in value:
        return [[p for p in (dec(value["protected"]) if "protected" in value else None, value.get("header")) if p is not None]]
    prot = dec(value["protected"])
    rcs = value["recipients"] if "recipients" in value else [value]
    return [[p for p in (prot, value.get("unprotected"), rc.get("header")) if p is not None] for rc in rcs]


def perturb(rng, h, names, values=None):
    """one random edit of a header dict"""
    r = rng.random()
    if r < 0.12 and h:
        del h[rng.choice(list(h))]
    elif r < 0.3:
        h["crit"] = rand_crit(rng, h)
    else:
        h[rng.choice(names)] = copy.deepcopy(rng.choice(values)) if values else rand_value(rng)


def gen_function_level(run, ctx, rks):
    rng = ctx.rng
    for rk in rks:
        jwe_like = rk in ("jwe", "jwed")
        names = ALL_NAMES
        # (1) single (name, value) edits of a valid header: the full cross product
        # under the default registry; a sample under strict-off / caller registries
        algs = [None] if not jwe_like else (["dir", "ECDH-ES+A128KW", "PBES2-HS256+A128KW", "A128GCMKW"] +
                                            (["ECDH-1PU"] if rk == "jwed" else []))
        fixed = [None, {"extra": [], "strict": False, "allowed": None},
                 {"extra": [[n, k, False] for n, k in CALLER], "strict": True,
                  "allowed": ["dir", "A128KW", "ECDH-ES", "ECDH-ES+A128KW", "PBES2-HS256+A128KW", "A128GCMKW",
                              "ECDH-1PU", "A128GCM"] if jwe_like else None}]
        for alg in algs:
            allowed_cfg = {"extra": [], "strict": True,
                           "allowed": [alg, "A128GCM"]} if (alg and alg not in run.recommended) else None
            for n in names:
                for v in ALL_VALUES:
                    if ctx.quick and jwe_like and alg != "dir" and rng.random() < (0.5 if alg.startswith("PBES2") else 0.85):
                        continue
                    if ctx.quick and rk == "jwed" and rng.random() < 0.65:
                        continue
                    h = base_header(rk, rng, alg)
                    h[n] = copy.deepcopy(v)
                    cm = rng.random() < 0.5
                    run.fn_case(rk, allowed_cfg, cm, h)
                    if rng.random() < ctx.scale(12, 100) / 100.0:
                        run.fn_case(rk, rng.choice(fixed[1:]), cm, h)
        # (2) random headers under random configurations
        for _ in range(ctx.scale(350, 8000)):
            cfg = rng.choice(fixed) if rng.random() < 0.3 else rand_cfg(rk, rng)
            h = base_header(rk, rng)
            if cfg and rng.random() < 0.6:
                for n, k, r in cfg["extra"]:
                    if rng.random() < (0.8 if r else 0.4):
                        good = [v for v in ALL_VALUES if type_ok(k, v)]
                        h[n] = copy.deepcopy(rng.choice(good)) if good and rng.random() < 0.7 else rand_value(rng)
            for _ in range(rng.choice([0, 1, 1, 2, 3])):
                perturb(rng, h, names)
            if rk == "jws7797" and rng.random() < 0.5:
                h["b64"] = rng.choice([True, False, False, "false", 0, None])
                if rng.random() < 0.7:
                    h["crit"] = rng.choice([["b64"], ["b64", "alg"], ["alg"], [], "b64", ["b64", 1], {"b64": 1}, ["b64", []]])
            run.fn_case(rk, cfg, rng.random() < 0.5, h)
        # (3) crit of every shape
        for _ in range(ctx.scale(150, 3000)):
            h = base_header(rk, rng)
            if rng.random() < 0.5:
                h["kid"] = "k"
            h["crit"] = rand_crit(rng, h)
            run.fn_case(rk, rng.choice(fixed), rng.random() < 0.5, h)
        # (4) boundary: empty header, only crit, every required name removed
        for cfg in fixed:
            for cm in (False, True):
                run.fn_case(rk, cfg, cm, {})
                run.fn_case(rk, cfg, cm, {"crit": []})
                for alg in algs:
                    h = base_header(rk, rng, alg)
                    for n in list(h):
                        h2 = dict(h)
                        del h2[n]
                        run.fn_case(rk, cfg, cm, h2)
                    run.fn_case(rk, cfg, cm, h)


# values that keep an otherwise valid token / operation valid (no failure after check_header)
API_GOOD = {"kid": ["k1", "", "https://e/x"], "typ": ["JWT", "ab"], "cty": ["x"], "x5t": ["QUJD"], "x5t#S256": ["ab"],
            "jku": ["https://e.example/k", "http://e/x"], "x5u": ["https://e/x"], "x5c": [["QUJD"], []],
            "jwk": [{"kty": "oct", "k": "AQ"}, {}]}


def api_values(name, rng):
    """a value for `name` in an API-level scenario: well-typed ones never break the operation itself"""
    bad_pool = NONSTR + ["ftp://e/x", "http:/e", " https://e"]
    if name in ("alg", "enc"):
        return copy.deepcopy(rng.choice(NONSTR))            # valid values are set by the scenario
    if name == "zip":
        return copy.deepcopy(rng.choice(NONSTR + ["DEF"]))
    if name in ("apu", "apv", "p2s", "iv", "tag", "skid"):
        return copy.deepcopy(rng.choice(NONSTR + B64_STRS))
    if name == "p2c":
        return copy.deepcopy(rng.choice([x for x in NONSTR if type(x) is not int] + [1, 2, 8, 16]))
    if name == "epk":
        return copy.deepcopy(rng.choice([x for x in NONSTR if type(x) is not dict] + [dict(EPK)] + B64_STRS))
    if name == "b64":
        return copy.deepcopy(rng.choice([True, False, False, "false", 0, 1, None, [], "b64"]))
    if name in API_GOOD and rng.random() < 0.5:
        return copy.deepcopy(rng.choice(API_GOOD[name]))
    if name.startswith("x-"):
        k = dict((n, kk) for n, kk in CALLER)[name]
        good = [v for v in ALL_VALUES if type_ok(k, v)]
        if good and rng.random() < 0.6:
            return copy.deepcopy(rng.choice(good))
    return copy.deepcopy(rng.choice(bad_pool + B64_STRS + ["x", "https://e/x"]))


def api_cfg(rk, rng, need_allowed=None):
    r = rng.random()
    if r < 0.35 and not need_allowed:
        return None
    extra = []
    if r > 0.6:
        for n, k in CALLER:
            if rng.random() < 0.4:
                extra.append([n, k, rng.random() < 0.2])
        if rng.random() < 0.25:
            extra.append([rng.choice(["kid", "typ", "cty"]), rng.choice(["int", "str", "bool"]), rng.random() < 0.3])
    allowed = None
    if rk in ("jwe", "jwed"):
        if need_allowed or rng.random() < 0.3:
            allowed = sorted(set((need_allowed or []) + ["dir", "A128KW", "A128GCM", "DEF"]))
    return {"extra": extra, "strict": rng.random() < 0.65, "allowed": allowed}


def edit_parts(rng, parts, nparts, names, cfg):
    """random edits of the header parts of one signature / recipient"""
    k = rng.choice([0, 1, 1, 1, 2, 3])
    for _ in range(k):
        i = rng.randrange(nparts)
        if parts[i] is None:
            parts[i] = {}
        r = rng.random()
        if r < 0.1 and parts[i]:
            del parts[i][rng.choice(list(parts[i]))]
        elif r < 0.25:
            parts[i]["crit"] = rand_crit(rng, merge(parts))
        else:
            n = rng.choice(names)
            parts[i][n] = api_values(n, rng)
    if cfg:
        for n, kk, req in cfg["extra"]:
            if req and rng.random() < 0.75 and n not in merge(parts):
                good = [v for v in ALL_VALUES if type_ok(kk, v)]
                if good:
                    i = rng.randrange(nparts)
                    if parts[i] is None:
                        parts[i] = {}
                    parts[i][n] = copy.deepcopy(rng.choice(good))


def gen_api_jws(run, ctx):
    rng = ctx.rng
    names = [n for n in ALL_NAMES if n not in ("enc", "zip")] + ["b64", "crit", "kid"]
    plan = [("jws.serialize_compact", "jws", 1, False), ("jws.serialize_json.flattened", "jws", 2, False),
            ("jws.serialize_json.general", "jws", 2, True), ("rfc7797.serialize_compact", "jws7797", 1, False),
            ("rfc7797.serialize_json", "jws7797", 2, False),
            ("jwt.encode.jws", "jws", 1, False), ("jws.validate_compact", "jws", 1, False),
            ("jwt.decode.jws", "jws", 1, False),
            ("jws.deserialize_compact", "jws", 1, False), ("jws.deserialize_json.flattened", "jws", 2, False),
            ("jws.deserialize_json.general", "jws", 2, True), ("rfc7797.deserialize_compact", "jws7797", 1, False),
            ("rfc7797.deserialize_json", "jws7797", 2, False)]
    for entry, rk, nparts, multi in plan:
        for _ in range(ctx.scale(110, 1500)):
            cfg = api_cfg(rk, rng)
            members = []
            for _m in range(rng.choice([1, 1, 2]) if multi else 1):
                parts = [None] * 2
                where = rng.randrange(nparts)
                parts[where] = {"alg": "HS256"}
                if rk == "jws7797" and rng.random() < 0.55:
                    i = 0 if rng.random() < 0.8 else rng.randrange(nparts)
                    parts[i] = parts[i] or {}
                    parts[i]["b64"] = rng.choice([False, False, True])
                    if rng.random() < 0.8:
                        parts[i]["crit"] = ["b64"]
                edit_parts(rng, parts, nparts, names, cfg)
                if nparts == 1:
                    parts[0] = parts[0] or {}
                    if (entry.endswith("deserialize_compact") or entry in ("jws.validate_compact", "jwt.decode.jws")) \
                            and "alg" not in parts[0]:
                        parts[0]["alg"] = "HS256"        # extract_compact demands alg before any header check
                members.append(parts)
            if entry in ("rfc7797.serialize_json", "rfc7797.deserialize_json") and any(
                    m[0] and m[1] and "b64" in m[1] for m in members):
                # RFC 7797 section 3 (b64 must be integrity protected): next to a protected header the
                # entry points refuse b64 in the unprotected header before any registry check; that
                # rule is not part of C15 (b64 in the unprotected header WITHOUT a protected header is kept)
                continue
            spec = {"entry": entry, "rk": rk, "cfg": cfg, "cm": False, "members": members,
                    "expect_payload": ("deserialize" in entry or "validate" in entry or "decode" in entry)}
            if not json_ok(spec):
                continue
            run.api_case(spec)


def json_ok(x):
    try:
        json.dumps(x, allow_nan=False)
        return True
    except (TypeError, ValueError):
        return False


def jwe_members(rng, modes, nparts, names, cfg):
    """header parts [protected, unprotected, per-recipient] of every recipient; protected and
    unprotected are shared.  Returns None when a well-typed header would still make the
    operation fail for a reason other than the header check (see the comments)."""
    P, U = {"enc": "A128GCM"}, None
    if rng.random() < 0.2:
        P["zip"] = "DEF"
    R = [None] * len(modes)
    if len(modes) == 1:
        i = rng.randrange(nparts)
        if i == 0:
            P["alg"] = modes[0]
        elif i == 1:
            U = {"alg": modes[0]}
        else:
            R[0] = {"alg": modes[0]}
    else:
        for i, m in enumerate(modes):
            R[i] = {"alg": m}
    view = [P, U, R[0]]
    edit_parts(rng, view, nparts, names, cfg)
    P, U, R[0] = view[0] or {}, view[1], view[2]
    if len(modes) > 1 and rng.random() < 0.5:
        n = rng.choice(names)
        R[1] = R[1] or {}
        R[1][n] = api_values(n, rng)
    members = [[P, U, R[i]] for i in range(len(modes))]
    for m, mode in zip(members, modes):
        mm = merge(m)
        if type(mm.get("alg")) is str and mm["alg"] != mode:
            return None        # the key management actually used must be the one announced
        if type(mm.get("enc")) is str and P.get("enc") != "A128GCM":
            return None        # enc is read from the protected header only
        if type(mm.get("zip")) is str and "zip" in P and P["zip"] != "DEF":
            return None        # zip is read from the protected header only
        if nparts == 1 and ("alg" not in P or "enc" not in P):
            return None        # compact: extract_compact demands both before any header check
    return members


def gen_api_jwe_produce(run, ctx):
    rng = ctx.rng
    names = [n for n in ALL_NAMES if n != "b64"] + ["crit", "kid", "zip"]
    modes_all = ["dir", "A128KW", "ECDH-ES", "ECDH-ES+A128KW", "PBES2-HS256+A128KW", "A128GCMKW"]
    for entry, nparts, multi in (("jwe.encrypt_compact", 1, False), ("jwt.encode.jwe", 1, False),
                                 ("jwe.encrypt_json.flattened", 3, False), ("jwe.encrypt_json.general", 3, True)):
        for _ in range(ctx.scale(170, 2000)):
            nrec = rng.choice([1, 2]) if multi else 1
            modes = [rng.choice(modes_all if nrec == 1 else ["A128KW", "ECDH-ES+A128KW", "PBES2-HS256+A128KW", "A128GCMKW"])
                     for _r in range(nrec)]
            need = [m for m in modes if m not in run.recommended]
            cfg = api_cfg("jwe", rng, need_allowed=(need + ["A128GCM", "DEF"]) if need else None)
            if cfg is None and entry.startswith("jwt."):
                cfg = {"extra": [], "strict": True, "allowed": None}   # jwt.* takes the JWE route for a JWERegistry only
            members = jwe_members(rng, modes, nparts, names, cfg)
            if members is None:
                continue
            spec = {"entry": entry, "rk": "jwe", "cfg": cfg, "cm": False, "members": members, "modes": modes}
            if json_ok(spec):
                run.api_case(spec)


def gen_api_jwe_history(run, ctx):
    """encrypt (or decrypt) -> edit the object's header fields -> encrypt again"""
    rng = ctx.rng
    names = [n for n in ALL_NAMES if n != "b64"] + ["crit", "kid", "kid", "foo"]
    for _ in range(ctx.scale(260, 3000)):
        flattened = rng.random() < 0.5
        nrec = 1 if flattened else rng.choice([1, 1, 2])
        modes = [rng.choice(["A128KW", "dir", "ECDH-ES+A128KW", "PBES2-HS256+A128KW", "A128GCMKW"] if nrec == 1
                            else ["A128KW", "ECDH-ES+A128KW", "PBES2-HS256+A128KW", "A128GCMKW"]) for _r in range(nrec)]
        P, U, Rs = {"enc": "A128GCM"}, None, [None] * nrec
        if nrec == 1:
            i = rng.randrange(3)
            if i == 0:
                P["alg"] = modes[0]
            elif i == 1:
                U = {"alg": modes[0]}
            else:
                Rs[0] = {"alg": modes[0]}
        else:
            Rs = [{"alg": m} for m in modes]
        if rng.random() < 0.4:
            tgt = rng.randrange(3)
            if tgt == 0:
                P["kid"] = "k1"
            elif tgt == 1:
                U = dict(U or {}, kid="k1")
            else:
                Rs[0] = dict(Rs[0] or {}, kid="k1")
        for j in range(nrec):
            if modes[j].startswith("PBES2"):
                Rs[j] = dict(Rs[j] or {}, p2c=rng.choice([1, 8]))
        need = [m for m in modes if m not in run.recommended]
        cfg = api_cfg("jwe", rng, need_allowed=(need + ["A128KW", "A128GCM", "DEF"]) if need else None)
        spec = {"entry": "jwe.encrypt_json.history", "rk": "jwe", "cfg": cfg, "cm": False, "flattened": flattened,
                "start": rng.choice(["encrypt", "encrypt", "decrypt"]), "init": [P, U, Rs], "modes": modes, "edits": []}
        state = obj_state(hist_first_operation(spec))       # structure of the object after the first operation
        modes2 = list(modes)
        for _e in range(rng.choice([0, 1, 1, 1, 2, 2, 3])):
            Pn, Un, Rn = state
            loc = rng.choice(["P", "U", "R", "R"])
            n = rng.choice(names)
            v = rand_crit(rng, merge(state_members(state)[0])) if n == "crit" and rng.random() < 0.7 else api_values(n, rng)
            r = rng.random()
            if r < 0.06 and not any(m in ("dir",) for m in modes2):
                h = {"alg": "A128KW"}
                if rng.random() < 0.4:
                    h[n] = v
                e = {"how": "add_recipient", "flattened": flattened, "h": h, "mode": "A128KW"}
                modes2 = ["A128KW"] if flattened else modes2 + ["A128KW"]
            elif loc == "P":
                if r < 0.2 and Pn:
                    e = {"how": "delP", "k": rng.choice(list(Pn))}
                elif r < 0.4:
                    e = {"how": "rebindP", "h": dict(Pn, **{n: v})}
                else:
                    e = {"how": "setP", "k": n, "v": v}
            elif loc == "U":
                if Un is None or r < 0.4:
                    e = {"how": "rebindU", "h": dict(Un or {}, **{n: v}) if r > 0.05 else None}
                elif r < 0.5 and Un:
                    e = {"how": "delU", "k": rng.choice(list(Un))}
                else:
                    e = {"how": "setU", "k": n, "v": v}
            else:
                i = rng.randrange(len(Rn))
                if r < 0.3:
                    e = {"how": "add_header", "i": i, "k": n, "v": v}
                elif Rn[i] is None or r < 0.5:
                    e = {"how": "rebindR", "i": i, "h": dict(Rn[i] or {}, **{n: v}) if r > 0.34 else None}
                elif r < 0.6 and Rn[i]:
                    e = {"how": "delR", "i": i, "k": rng.choice(list(Rn[i]))}
                else:
                    e = {"how": "setR", "i": i, "k": n, "v": v}
            spec["edits"].append(e)
            state = py_apply_edit(state, e)
        spec["modes_after"] = modes2
        # keep the second operation valid whenever its header is (same rules as for fresh objects)
        Pf = state[0]
        ok_shape = len(state[2]) == len(modes2)
        for m, mode in zip(state_members(state), modes2):
            mm = merge(m)
            if type(mm.get("alg")) is str and mm["alg"] != mode:
                ok_shape = False
            if type(mm.get("enc")) is str and Pf.get("enc") != "A128GCM":
                ok_shape = False
            if type(mm.get("zip")) is str and "zip" in Pf and Pf["zip"] != "DEF":
                ok_shape = False
        if ok_shape and json_ok(spec):
            run.hist_case(spec)


def gen_api_jwe_consume_own(run, ctx):
    rng = ctx.rng
    names = [n for n in ALL_NAMES if n != "b64"] + ["crit", "kid"]
    for entry, nparts, multi in (("jwe.decrypt_compact", 1, False), ("jwt.decode.jwe", 1, False),
                                 ("jwe.decrypt_json.flattened", 3, False), ("jwe.decrypt_json.general", 3, True)):
        for _ in range(ctx.scale(170, 2000)):
            nrec = rng.choice([1, 2]) if multi else 1
            modes = [rng.choice(["dir", "A128KW"])] if nrec == 1 else ["A128KW", "A128KW"]
            cfg = api_cfg("jwe", rng)
            if cfg is None and entry.startswith("jwt."):
                cfg = {"extra": [], "strict": True, "allowed": None}
            members = jwe_members(rng, modes, nparts, names, cfg)
            if members is None:
                continue
            spec = {"entry": entry, "rk": "jwe", "cfg": cfg, "cm": True, "members": members, "modes": modes,
                    "expect_payload": True}
            if json_ok(spec):
                run.api_case(spec)


def gen_api_jwe_consume_lib(run, ctx):
    """tokens with algorithm-specific parameters, produced by the library under a
    permissive registry; then the unauthenticated parts are edited"""
    from joserfc import jwe
    rng = ctx.rng
    algs = ["A128GCMKW", "PBES2-HS256+A128KW", "ECDH-ES", "ECDH-ES+A128KW"]
    allowed_all = algs + ["A128KW", "dir", "A128GCM", "DEF"]
    perm = permissive("jwe", allowed_all)
    bases = []
    for alg in algs:
        for kind in ("flattened", "general1", "general2", "compact"):
            if kind == "general2" and alg == "ECDH-ES":
                continue                                # direct key agreement: one recipient only
            for _ in range(ctx.scale(2, 6)):
                prot = {"enc": "A128GCM"}
                unprot, rh = None, {}
                where = rng.randrange(3) if kind != "compact" else 0
                if kind == "general2":
                    where = 2
                if where == 0:
                    prot["alg"] = alg
                elif where == 1:
                    unprot = {"alg": alg}
                else:
                    rh["alg"] = alg
                if alg.startswith("PBES2"):
                    rh["p2c"] = rng.choice([1, 8, 16])
                    if kind == "compact":
                        prot["p2c"] = rh.pop("p2c")
                if rng.random() < 0.4:
                    prot["kid"] = "k1"
                if rng.random() < 0.3:
                    prot["foo"] = "unknown-in-protected"
                if rng.random() < 0.3:
                    prot["crit"] = ["enc"]
                if rng.random() < 0.2:
                    prot["zip"] = "DEF"
                if rng.random() < 0.2:
                    prot["typ"] = 7
                if kind == "compact":
                    r = call(jwe.encrypt_compact, prot, PAYLOAD, jwe_key(alg), registry=perm)
                    if r[0] != "ok":
                        raise RuntimeError("cannot build base token: %r %r" % (prot, r[1]))
                    bases.append(("jwe.decrypt_compact.lib", r[1], [alg]))
                    continue
                cls = jwe.FlattenedJSONEncryption if kind == "flattened" else jwe.GeneralJSONEncryption
                obj = cls(prot, PAYLOAD, unprot)
                obj.add_recipient(rh or None, jwe_key(alg))
                modes = [alg]
                if kind == "general2":
                    obj.add_recipient({"alg": "A128KW"}, jwe_key("A128KW"))
                    modes.append("A128KW")
                r = call(jwe.encrypt_json, obj, None, registry=perm)
                if r[0] != "ok":
                    raise RuntimeError("cannot build base token: %r %r" % (prot, r[1]))
                bases.append(("jwe.decrypt_json.edited", r[1], modes))
    names = ALGSPEC + ["kid", "foo", "crit", "typ", "x-int", "x-str", "jku", "zip2"]
    for entry, token, modes in bases:
        for _ in range(ctx.scale(9, 40)):
            tok = copy.deepcopy(token)
            need = [m for m in modes if m not in run.recommended]
            cfg = api_cfg("jwe", rng, need_allowed=need + ["A128GCM", "DEF"])
            if entry == "jwe.decrypt_json.edited":
                rcs = tok["recipients"] if "recipients" in tok else [tok]
                for _e in range(rng.choice([0, 1, 1, 2])):
                    rc = rng.choice(rcs)
                    hdr = rc.setdefault("header", {})
                    r = rng.random()
                    spec_names = [n for n in hdr if n in ALGSPEC]
                    if r < 0.2 and spec_names:          # move to the shared unprotected header: still valid
                        if len(rcs) == 1:
                            n = rng.choice(spec_names)
                            tok.setdefault("unprotected", {})[n] = hdr.pop(n)
                    elif r < 0.35 and spec_names:       # delete an algorithm-specific parameter
                        del hdr[rng.choice(spec_names)]
                    elif r < 0.55 and spec_names:       # retype it
                        n = rng.choice(spec_names)
                        hdr[n] = copy.deepcopy(rng.choice([x for x in NONSTR if not type_ok(
                            dict(ECDH1PU, **dict(PBES2, **GCMKW))[n][0], x)]))
                    elif r < 0.7:
                        tgt = hdr if rng.random() < 0.5 else tok.setdefault("unprotected", {})
                        tgt["crit"] = rand_crit(rng, merge([json.loads(base64.urlsafe_b64decode(tok["protected"] + "==")),
                                                            tok.get("unprotected"), hdr]))
                    else:
                        tgt = hdr if rng.random() < 0.5 else tok.setdefault("unprotected", {})
                        n = rng.choice(["kid", "foo", "typ", "x-int", "x-str", "jku", "apu", "apv", "skid", "p2c", "iv"])
                        m0 = modes[0]
                        if (n in ("apu", "apv") and m0.startswith("ECDH")) or (n == "p2c" and m0.startswith("PBES2")) \
                                or (n == "iv" and m0.endswith("GCMKW")):
                            continue                    # these enter the key derivation: leave valid tokens valid
                        tgt[n] = api_values(n, rng)
                for rc in rcs:
                    if rc.get("header") == {}:
                        del rc["header"]
                if tok.get("unprotected") == {}:
                    del tok["unprotected"]
            spec = {"entry": entry, "rk": "jwe", "cfg": cfg, "cm": True, "token": tok, "modes": modes,
                    "members": [], "expect_payload": True}
            run.api_case(spec)


# --------------------------------------------------------------------------
def run(ctx):
    ok, log = ctx.prove()
    R = Run(ctx)
    gen_function_level(R, ctx, ("jws", "jws7797", "jwe"))
    n_fn = len(R.cases)
    gen_api_jws(R, ctx)
    gen_api_jwe_produce(R, ctx)
    gen_api_jwe_consume_own(R, ctx)
    gen_api_jwe_consume_lib(R, ctx)
    gen_api_jwe_history(R, ctx)
    n_api = len(R.cases) - n_fn
    # the draft algorithms (ECDH-1PU: skid) are registered last: the registry is process-global
    from joserfc.drafts.jwe_ecdh_1pu import register_ecdh_1pu
    from joserfc.rfc7516.registry import JWERegistry
    register_ecdh_1pu()
    R.recommended = list(JWERegistry.recommended)
    n0 = len(R.cases)
    gen_function_level(R, ctx, ("jwed",))
    gen_drafts(R, ctx)
    check_exports(ctx, R.dist)
    ctx.coverage["input_distribution"] = dict(sorted(R.dist.items()))
    ctx.coverage["rule"] = ("function level: registry.check_header on every (name x JSON value) edit of a valid header, "
                            "random multi-edit headers, crit of every shape, under default / strict-off / caller registries; "
                            "API level: every public producing / consuming function of jws, rfc7797, jwe, jwt (incl. the two-step "
                            "extract_compact + validate_compact and jwt.encode / jwt.decode over JWS and JWE), header parts in protected / unprotected / per-recipient "
                            "position, consuming side on validly signed / encrypted tokens")
    ctx.coverage["function_level_cases"] = n_fn + (len(R.cases) - n0)
    ctx.coverage["api_level_cases"] = n_api
    for i in (0, n_fn // 2, n_fn + 5, n_fn + n_api // 2, len(R.cases) - 1):
        if 0 <= i < len(R.cases):
            ctx.sample({"coq_case": R.cases[i][:300]})

    ev = lib.CoqEval(["From Model Require Import Base PyVal TableTypes C15Registry C15Spec C15Cases."],
                     "c15case", "c15_check", "c15_show", shard=250)
    res = ev.run(R.cases)
    ctx.coverage["traces_validated_against_impl"] = res["evaluated"]
    ctx.coverage["disagreements_checked"] = len(res["failing"])
    direct = len(ctx.violations)
    for i in res["failing"][:20]:
        m = R.meta[i]
        ctx.violation({"kind": "correspondence", "level": m.get("level", "api"), "entry": m.get("entry", "check_header"),
                       "registry": m.get("rk")},
                      "model and implementation disagree on %s" % json.dumps(m, default=str)[:600],
                      dict(m, case=R.cases[i][:3000], no_failing_input_found=False,
                           broken="correspondence model/C15Cases.v:c15_check vs joserfc registry/check_header"))
    for si, err in res["errors"]:
        ctx.violation({"kind": "correspondence-error"}, "coqc failed on a generated case file",
                      {"output": err, "no_failing_input_found": True, "broken": "case evaluation"})
    if not ok:
        ctx.violation({"kind": "proof-broken"}, "props/C15.v or its closure no longer compiles",
                      {"log": log[-3000:], "no_failing_input_found": direct == 0 and not res["failing"],
                       "broken": "theorems of props/C15.v"})
    ctx.assumptions += [
        "the entry points are not modelled in Gallina: that each one hands the merged header of every signature / "
        "recipient to registry.check_header (and fails without output otherwise) is validated by the API-level "
        "differential and the direct oracle only",
        "custom validator callables (other than the named ones and in_choices) are outside the model (kind VUnknown: fail closed)",
        "validators are identified by probing (extract_tables.py); values outside the probe set are covered by the differential run",
    ]
    if not ctx.quick:
        ctx.coqchk()


def gen_drafts(run, ctx):
    rng = ctx.rng
    fixed = [None, {"extra": [], "strict": True, "allowed": ["ECDH-1PU", "ECDH-1PU+A128KW", "A128GCM"]},
             {"extra": [], "strict": False, "allowed": ["ECDH-1PU", "ECDH-1PU+A128KW", "A128GCM"]}]
    for alg in ("ECDH-1PU", "ECDH-1PU+A128KW", "ECDH-ES", "dir"):
        for n in ["skid", "epk", "apu", "apv", "kid", "foo", "p2c"]:
            for v in ALL_VALUES:
                if ctx.quick and rng.random() < 0.5:
                    continue
                h = base_header("jwed", rng, alg)
                h[n] = copy.deepcopy(v)
                run.fn_case("jwed", rng.choice(fixed), rng.random() < 0.5, h)
        for cm in (False, True):
            h = base_header("jwed", rng, alg)
            h.pop("epk", None)
            run.fn_case("jwed", fixed[1], cm, h)


def replay(path):
    import random
    r = json.load(open(path))["replay"]
    print("replay:", json.dumps(r, default=str)[:2000])
    from joserfc.rfc7516.registry import JWERegistry
    if r.get("rk") == "jwed":
        from joserfc.drafts.jwe_ecdh_1pu import register_ecdh_1pu
        register_ecdh_1pu()
    rec = list(JWERegistry.recommended)
    if r.get("level") == "check_header":
        reg = make_registry(r["rk"], r["cfg"])
        res = call(reg.check_header, r["header"], r["cm"]) if r["rk"] in ("jwe", "jwed") else call(reg.check_header, r["header"])
        clause = failed_clause(r["rk"], r["cfg"], r["cm"], r["header"], rec)
        print("implementation:", res, "| property clause violated:", clause)
        return 1 if (res[0] == "ok") != (clause is None) else 0
    if r.get("entry") == "jwe.encrypt_json.history":
        res, state0, final = hist_execute(r)
        merged = [merge(p) for p in state_members(final)]
        bad = [c for c in (failed_clause("jwe", r["cfg"], False, m, rec) for m in merged) if c]
        print("second operation:", res, "| current merged headers:", merged, "| property clauses violated:", bad)
        return 1 if (res[0] == "ok") != (not bad) else 0
    if "entry" in r:
        res, members = execute(r, random.Random(0))
        merged = [merge(entry_parts(r["entry"], p)) for p in members]
        bad = [c for c in (failed_clause(r["rk"], r["cfg"], r["cm"], m, rec) for m in merged) if c]
        print("implementation:", res, "| merged headers:", merged, "| property clauses violated:", bad)
        return 1 if (res[0] == "ok") != (not bad) else 0
    print("see the replay file")
    return 1
