"""C03 — JWS sign-then-verify round trip for every algorithm and serialization.
Every (algorithm, key, serialization, b64 option, header placement, payload,
key form) is signed and verified with the real code (algorithm models and json
intercepted); direct oracle: the verification returns exactly the payload
octets and header members that were signed (plus the kid of the key chosen
from a key set), detaching leaves header and signature untouched; the same
sign and verify calls are evaluated by the Coq model (model/Jws.v) with the
oracles instantiated by the recorded tables."""
import copy, json
import lib
from lib import c_hex, c_str, c_bool, c_list, c_opt, c_pv, c_exn, exn_class, c_Z, c_N
import props.jws_common as J
from props.jws_common import call, b64u, b64u_dec
from props.c01 import PAYLOADS, detect_fixed

SIG_BINARY = {"kind": "rfc7797-compact-non-utf8-payload-raises"}


class FakeOp:
    def __init__(self, r, s):
        self.r, self.s, self.seen = r, s, None

    def sign(self, msg, algo):
        from cryptography.hazmat.primitives.asymmetric.utils import encode_dss_signature
        return encode_dss_signature(self.r, self.s)

    def verify(self, der, msg, algo):
        from cryptography.hazmat.primitives.asymmetric.utils import decode_dss_signature
        self.seen = decode_dss_signature(der)


class FakeECKey:
    """an EC key whose primitive is a recording stub: forces chosen (r, s) through
    ECAlgModel.sign / verify (the fixed-width encode / decode path)"""
    key_type = "EC"
    is_private = True
    kid = None

    def __init__(self, crv, bits, r, s):
        self.curve_name, self.curve_key_size, self.op = crv, bits, FakeOp(r, s)

    def get_op_key(self, op):
        return self.op

    def get(self, k, d=None):
        return d

    def thumbprint(self):
        return "fake-%s" % self.curve_name


def run(ctx):
    from joserfc import jws
    from joserfc import rfc7797 as r97
    from joserfc.jwk import KeySet
    ok, log = ctx.prove(extra_targets=["model/C03Cases.vo"])
    rng = ctx.rng
    K = J.keys()
    fixed, _ = detect_fixed()
    # variant probe (fix03): does a payload that is not UTF-8 get detached, or does to_str raise?
    _p = call(r97.serialize_compact, {"alg": "HS256", "b64": False, "crit": ["b64"]}, b"\xff\x00", K["oct32"], ["HS256"])
    if _p[0] == "ok" and _p[1].split(".")[1] == "":
        lenient = True
    elif _p[0] == "err" and isinstance(_p[1], UnicodeDecodeError):
        lenient = False
    else:
        raise RuntimeError("unexpected behaviour of the non-UTF-8 payload probe: %r" % (_p[1],))
    ctx.notes.append("rfc7797.serialize_compact non-UTF-8 payload: %s" % ("detached (fix03)" if lenient else "raises UnicodeDecodeError"))
    cases, meta = [], []
    dist = {}
    budget = ctx.scale(700, 40000)

    def note(k):
        dist[k] = dist.get(k, 0) + 1

    def add(term, m):
        cases.append((term, m))

    def bad(sig, desc, replay):
        ctx.violation(sig, desc, replay)

    with J.Recorder() as rec:
        def kobj_of(x):
            """the key source after a callable has been applied / a raw secret imported"""
            if isinstance(x, (str, bytes)):
                from joserfc.jwk import OctKey as _O
                return _O.import_key(x)
            return x(None) if callable(x) else x

        def choose_row(keyset, hdr_after):
            """the key random.choice picked = the one whose kid was stored in the header"""
            kid = hdr_after.get("kid")
            for k in keyset.keys:
                if k.kid == kid:
                    return ["OChoose %s" % c_N(J.key_id(k))]
            return []

        quick = ctx.quick
        combos = []
        for alg in J.ALL_ALGS:
            for kn in J.ALG_KEYS[alg][:1 if quick else 4]:
                for ser in ("compact", "flat", "gen1", "gen2", "gen3"):
                    for b64 in ((None, True, False) if ser in ("compact", "flat") else (None,)):
                        for placement in (("protected",) if ser == "compact" else ("protected", "split", "unprotected", "empty-protected")):
                            for form in ("key", "set", "set-kid", "callable", "set1", "callable-set", "callable-set1", "callable-set-kid", "raw"):
                                if form == "raw" and not alg.startswith("HS"):
                                    continue
                                combos.append((alg, kn, ser, b64, placement, form))
        if quick:
            # every (alg, ser, b64) at least once, other dimensions sampled
            keyf = lambda c: (c[0], c[2], c[3])
            groups = {}
            for c in combos:
                groups.setdefault(keyf(c), []).append(c)
            combos = [x for g in groups.values() for x in rng.sample(g, min(len(g), 3))]
        ctx.coverage["combinations"] = len(combos)
        # histories of registry construction: building registries with extra header parameters,
        # relaxed checks or custom algorithm lists must not change any later default round trip
        from joserfc.registry import HeaderParameter
        from joserfc import jwe as _jwe
        reg_hist = {"n": 0}

        def registry_history():
            i = reg_hist["n"]
            reg_hist["n"] += 1
            extra = [{"nonce": HeaderParameter("Nonce", "str", True)},
                     {"url": HeaderParameter("URL", "url", True), "nonce": HeaderParameter("Nonce", "str", False)},
                     {"iat": HeaderParameter("Issued at", "int", True)},
                     {"x-flag": HeaderParameter("Flag", "bool", True), "x-list": HeaderParameter("List", "list[str]", False)}][i % 4]
            made = [jws.JWSRegistry(header_registry=dict(extra)),
                    jws.JWSRegistry(header_registry=dict(extra), algorithms=["HS256", "none"], strict_check_header=False),
                    jws.JWSRegistry(strict_check_header=False),
                    r97.JWSRegistry(header_registry=dict(extra)),
                    r97.JWSRegistry(algorithms=["ES256"]),
                    _jwe.JWERegistry(header_registry=dict(extra))]
            # the custom registry itself works with its own parameters ...
            name, hp = next(iter(extra.items()))
            val = {"str": "n-1", "url": "https://a.example/x", "int": 7, "bool": True}[
                {"nonce": "str", "url": "url", "iat": "int", "x-flag": "bool"}[name]]
            hdr = {"alg": "HS256", name: val}
            if "nonce" in extra and name != "nonce":
                hdr["nonce"] = "n-2"
            t = call(jws.serialize_compact, dict(hdr), b"custom", K["oct32"], None, made[0])
            rec.take()
            if t[0] != "ok":
                bad({"kind": "custom-registry"}, "a registry with extra header parameter %r refuses its own header: %r" % (name, t[1]), {"fn": "registry-history", "extra": name})
            else:
                v = call(jws.deserialize_compact, t[1], K["oct32"], None, made[0])
                rec.take()
                if v[0] != "ok" or v[1].payload != b"custom":
                    bad({"kind": "custom-registry"}, "round trip with a custom registry failed: %r" % (v[1],), {"fn": "registry-history", "extra": name})
            # ... and a registry built afterwards (and the default one) does not know them
            for fresh in (jws.JWSRegistry(), None):
                t = call(jws.serialize_compact, {"alg": "HS256"}, b"plain", K["oct32"], None, fresh)
                v = call(jws.deserialize_compact, t[1], K["oct32"], None, fresh) if t[0] == "ok" else t
                u = call(jws.serialize_compact, dict(hdr), b"plain", K["oct32"], None, fresh)
                rec.take()
                note("registry-history")
                if v[0] != "ok" or v[1].payload != b"plain":
                    bad({"kind": "registry-history"}, "after constructing registries with extra header parameter %r a default round trip fails: %r" % (name, v[1]),
                        {"fn": "registry-history", "extra": name})
                if u[0] == "ok":
                    bad({"kind": "registry-history-leak"}, "header parameter %r registered on ANOTHER registry instance is accepted by a fresh / the default registry" % name,
                        {"fn": "registry-history", "extra": name})

        registry_history()
        for ci, (alg, kn, ser, b64, placement, form) in enumerate(combos):
            if ci % 40 == 17:
                registry_history()
            k = K[kn]
            pub = J.pubkey_of(k)
            o1, o2 = [K[n] for n in ("oct16", "p384", "ed448", "rsa") if K[n].key_type != k.key_type][:2]
            # every KEY FORM on the signing side x the corresponding form on the verifying side:
            # Key / KeySet (one key, several keys; kid in the header or not) / callable returning a Key /
            # callable returning a KeySet / raw str or bytes
            nokid_set = form in ("set", "set1", "callable-set", "callable-set1")
            same = J.other_key_same_type(kn)
            extra = [K[same]] if same and form in ("set", "callable-set") else []
            if form == "key":
                sk, vk = k, pub
            elif form in ("set", "set-kid"):
                # a second key of the SAME type in the set when one exists (random pick must be followed)
                sk = KeySet([o1, k] + extra + [o2])
                vk = KeySet([J.pubkey_of(o1), pub] + [J.pubkey_of(x) for x in extra])
            elif form == "set1":
                sk, vk = KeySet([k]), KeySet([pub])
            elif form in ("callable-set", "callable-set-kid"):
                _S = KeySet([o1, k] + extra + [o2])
                _V = KeySet([J.pubkey_of(o1), pub] + [J.pubkey_of(x) for x in extra])
                sk, vk = (lambda obj, _s=_S: _s), (lambda obj, _v=_V: _v)
            elif form == "callable-set1":
                _S, _V = KeySet([k]), KeySet([pub])
                sk, vk = (lambda obj, _s=_S: _s), (lambda obj, _v=_V: _v)
            elif form == "raw":
                sk = vk = ("raw-secret-text-0123456789abcdef-%s" % alg) if ci % 2 else (b"raw-secret-octets-\x00\xff-0123456789abcdef" + alg.encode())
            else:
                sk, vk = (lambda obj, _k=k: _k), (lambda obj, _p=pub: _p)
            base = {"alg": alg}
            if form in ("set-kid", "callable-set-kid"):
                base["kid"] = kn
            if rng.random() < 0.3:
                base["typ"] = rng.choice(["JWT", "a/b é 中", "x"])
            if b64 is not None:
                base["b64"] = b64
                # crit lists with several names: b64 first / last / in the middle, next to registered parameters that are present
                cv = rng.randrange(5)
                if cv == 0:
                    base["crit"] = ["b64"]
                else:
                    base["cty"] = "x/y"
                    base.setdefault("typ", "JWT")
                    base["crit"] = [["b64", "cty"], ["cty", "b64"], ["typ", "b64", "cty"], ["cty", "typ", "b64"]][cv - 1]
                    if "kid" in base:
                        base["crit"] = base["crit"] + ["kid"] if cv % 2 else ["kid"] + base["crit"]
            elif rng.random() < 0.15:
                base["cty"] = "x/y"
                base["crit"] = ["cty"]
            pls = PAYLOADS if not quick else rng.sample(PAYLOADS, 2)
            for pl in pls:
                is97 = b64 is not None
                skobj = kobj_of(sk)
                vkobj = kobj_of(vk)
                replay = {"alg": alg, "key": kn, "ser": ser, "b64": b64, "placement": placement, "form": form, "payload_hex": pl.hex(), "header": base}
                ctx.note_case((alg, kn, ser, b64, placement, form, pl))
                note("%s:b64=%s" % (ser, b64))
                rec.take()
                if ser == "compact":
                    hdr = dict(base)
                    hdr_in = dict(hdr)
                    r = call(r97.serialize_compact if is97 else jws.serialize_compact, hdr, pl, sk, [alg])
                    rows, _ = rec.take()
                    if nokid_set:
                        rows += choose_row(skobj, hdr)
                    add("%s %s %s %s %s %s %s" % (("JSerCompact97 %s" % J.c_table(rows) + " " + c_bool(lenient)) if is97 else ("JSerCompact %s" % J.c_table(rows)), "", J.c_dict(hdr_in), c_hex(pl),
                                                 J.c_keysrc(skobj), J.c_algs([alg]), J.c_res(r, lambda t: c_hex(t.encode()))),
                        {"fn": "serialize_compact97" if is97 else "serialize_compact", "what": "%s:%s" % (alg, b64), **replay})
                    if r[0] != "ok":
                        non_utf8 = False
                        try:
                            pl.decode("utf-8")
                        except ValueError:
                            non_utf8 = True
                        if b64 is False and non_utf8 and isinstance(r[1], ValueError):
                            bad(dict(SIG_BINARY), "rfc7797.serialize_compact(b64=false) raises %r for a payload that is not UTF-8 instead of producing a detached JWS" % (r[1],), dict(replay, fn="serialize_compact97"))
                        else:
                            bad({"kind": "sign-failed", "ser": ser}, "serialize_compact failed: %r" % (r[1],), replay)
                        continue
                    tok = r[1].encode()
                    hs, ps, ss = tok.split(b".")
                    signed_hdr = json.loads(b64u_dec(hs))
                    expect_hdr = dict(hdr_in)
                    if nokid_set:
                        if "kid" not in signed_hdr:
                            bad({"kind": "kid-not-signed"}, "the kid of the key picked from the key set is not in the signed header", replay)
                        expect_hdr["kid"] = signed_hdr.get("kid")
                    if signed_hdr != expect_hdr:
                        bad({"kind": "header-differs"}, "signed header %r != %r" % (signed_hdr, expect_hdr), replay)
                    if b64 is False:
                        attached = ps != b""
                        import re
                        want = bool(re.fullmatch(rb"[A-Za-z0-9\-_~]+", pl))
                        if attached != want and not (attached and pl.endswith(b"\n")):
                            bad({"kind": "attach-decision"}, "payload %r attached=%s, URL-safe=%s" % (pl, attached, want), replay)
                        if attached and ps != pl:
                            bad({"kind": "attached-payload-differs"}, "attached payload segment %r != payload %r" % (ps, pl), replay)
                    parg = pl if (b64 is False and ps == b"" and pl) else None
                    rec.take()
                    rv = call(r97.deserialize_compact, tok, vk, parg, [alg]) if is97 else call(jws.deserialize_compact, tok, vk, [alg])
                    rows, _ = rec.take()
                    if is97:
                        add("JDesCompact97 %s %s %s %s %s %s" % (J.c_table(rows), c_hex(tok), J.c_keysrc(vkobj), c_opt(parg, c_hex), J.c_algs([alg]),
                                                                J.c_compact_result(rv)), {"fn": "deserialize_compact97", "what": "rt:%s" % alg, **replay})
                    else:
                        add("JDesCompact %s %s %s %s %s" % (J.c_table(rows), c_hex(tok), J.c_keysrc(vkobj), J.c_algs([alg]), J.c_compact_result(rv)),
                            {"fn": "deserialize_compact", "what": "rt:%s" % alg, **replay})
                    if rv[0] != "ok" or rv[1].payload != pl or rv[1].protected != expect_hdr:
                        bad({"kind": "roundtrip", "ser": ser, "b64": b64}, "compact round trip failed: %r" % (rv[1] if rv[0] != "ok" else (rv[1].protected, rv[1].payload),),
                            dict(replay, token=tok.decode("latin1")))
                    # detached content (RFC 7515 appendix F)
                    if b64 is not False:
                        d = jws.detach_content(tok.decode())
                        add("JDetachCompact %s (Ok %s)" % (c_hex(tok), c_hex(d.encode())), {"fn": "detach_compact", "what": "detach"})
                        dh, dp, ds = d.split(".")
                        if (dh, dp, ds) != (hs.decode(), "", ss.decode()):
                            bad({"kind": "detach"}, "detach_content changed header or signature: %r" % d, dict(replay, token=tok.decode()))
                        restored = dh + "." + b64u(pl).decode() + "." + ds
                        rr = call(jws.deserialize_compact, restored, vk, [alg]) if not is97 else call(r97.deserialize_compact, restored, vk, None, [alg])
                        if rr[0] != "ok" or rr[1].payload != pl:
                            bad({"kind": "detach-restore"}, "restoring the detached payload does not verify: %r" % (rr[1],), replay)
                else:
                    if placement == "protected":
                        m = {"protected": dict(base)}
                    elif placement == "split":
                        m = {"protected": {x: v for x, v in base.items() if x != "typ"}, "header": {"typ": base.get("typ", "t")}}
                    elif placement == "unprotected":
                        m = {"header": dict(base)}
                    else:
                        m = {"protected": {}, "header": dict(base)}
                    if b64 is False:
                        try:
                            pl.decode("utf-8")
                        except ValueError:
                            continue
                    n = 1 if ser == "flat" else int(ser[3])
                    members = [copy.deepcopy(m) for _ in range(n)]
                    if n > 1 and m.get("protected"):
                        for i_, mm in enumerate(members):
                            mm["protected"]["cty"] = "m%d" % i_      # distinct signing inputs per member
                    same_input = n > 1 and not m.get("protected")
                    randomized = alg.startswith(("PS", "ES"))
                    members_in = copy.deepcopy(members)
                    rec.take()
                    if ser == "flat":
                        r = call(r97.serialize_json if is97 else jws.serialize_json, members[0], pl, sk, [alg])
                    else:
                        r = call(jws.serialize_json, members, pl, sk, [alg])
                    rows, _ = rec.take()
                    if r[0] == "ok" and nokid_set:
                        for sg in (r[1]["signatures"] if ser != "flat" else [r[1]]):
                            rows += choose_row(skobj, sg.get("header") or {})
                    if ser == "flat":
                        if is97:
                            term = "JSerJson97 %s %s %s %s %s %s %s" % (J.c_table(rows), c_bool(fixed), J.c_smember(members_in[0]), c_hex(pl), J.c_keysrc(skobj),
                                                                       J.c_algs([alg]), J.c_res(r, J.c_jval))
                        else:
                            term = "JSerFlat %s %s %s %s %s %s" % (J.c_table(rows), J.c_smember(members_in[0]), c_hex(pl), J.c_keysrc(skobj), J.c_algs([alg]),
                                                                  J.c_res(r, J.c_jval))
                    else:
                        term = "JSerGen %s %s %s %s %s %s" % (J.c_table(rows), c_list([J.c_smember(x) for x in members_in]), c_hex(pl), J.c_keysrc(skobj),
                                                             J.c_algs([alg]), J.c_res(r, J.c_jval))
                    # with several same-type keys in the set each member may pick another key: one OChoose row cannot describe that
                    # (randomized signatures over one and the same signing input: the finite table cannot tell them apart)
                    if not (nokid_set and n > 1 and extra) and not (same_input and randomized):
                        add(term, {"fn": "serialize_json", "what": "%s:%s:%s" % (ser, alg, b64), **replay})
                    if r[0] != "ok":
                        if fixed and is97 and placement == "split":
                            continue
                        bad({"kind": "sign-failed", "ser": ser}, "serialize_json failed: %r" % (r[1],), replay)
                        continue
                    val = r[1]
                    rec.take()
                    rv = call(r97.deserialize_json if is97 else jws.deserialize_json, copy.deepcopy(val), vk, [alg])
                    rows, _ = rec.take()
                    if is97:
                        add("JDesJson97 %s %s %s %s %s %s" % (J.c_table(rows), c_bool(fixed), J.c_jval(val), J.c_keysrc(vkobj), J.c_algs([alg]),
                                                             J.c_json_result(rv)), {"fn": "deserialize_json97", "what": "rt:%s" % alg, **replay})
                    else:
                        add("JDesJson %s %s %s %s %s" % (J.c_table(rows), J.c_jval(val), J.c_keysrc(vkobj), J.c_algs([alg]), J.c_json_result(rv)),
                            {"fn": "deserialize_json", "what": "rt:%s" % alg, **replay})
                    good = rv[0] == "ok" and rv[1].payload == pl and len(rv[1].members) == n
                    if good:
                        for i, mem in enumerate(rv[1].members):
                            want = dict(members_in[i].get("protected") or {})
                            want.update(members_in[i].get("header") or {})
                            got = mem.headers()
                            if nokid_set:
                                if not got.get("kid"):
                                    good = False
                                want["kid"] = got.get("kid")
                            if got != want or (mem.protected or {}) != (members_in[i].get("protected") or {}):
                                good = False
                    if not good:
                        bad({"kind": "roundtrip", "ser": ser, "b64": b64}, "JSON round trip failed: %r" % (rv[1] if rv[0] != "ok" else ([x.headers() for x in rv[1].members], rv[1].payload),),
                            dict(replay, value=val))
                    if b64 is not False:
                        d = jws.detach_content(copy.deepcopy(val))
                        if "payload" in d or {x: v for x, v in val.items() if x != "payload"} != d:
                            bad({"kind": "detach"}, "detach_content changed the JSON serialization: %r" % (d,), replay)
                        d2 = dict(d, payload=b64u(pl).decode())
                        rr = call(r97.deserialize_json if is97 else jws.deserialize_json, d2, vk, [alg])
                        if rr[0] != "ok" or rr[1].payload != pl:
                            bad({"kind": "detach-restore"}, "restoring the detached payload does not verify: %r" % (rr[1],), replay)

        try:
            # ---- detached content on payloads CORRELATED with the other segments
            # (the payload text occurs inside the header / signature segment, is empty, is the token itself)
            def correlated_payloads(hs, ss, text, tok):
                out = [("empty", b""), ("header-json", text), ("token-text", tok), ("header-segment-text", hs), ("signature-segment-text", ss)]
                n3 = len(text) // 3
                for j in range(1, n3 + 1):
                    out.append(("header-prefix-aligned", text[:3 * j]))
                for i in range(1, n3):
                    out.append(("header-suffix-aligned", text[3 * i:]))
                    for j in (i + 1, i + 2, n3):
                        if i < j <= n3:
                            out.append(("header-infix-aligned", text[3 * i:3 * j]))
                for j in (1, 2, 4, 5, len(text) - 1):
                    if 0 < j < len(text):
                        out.append(("header-prefix-unaligned", text[:j]))
                # every short slice of the header / signature segment text that is a canonical encoding
                for name, seg in (("header", hs), ("signature", ss)):
                    for ln in (2, 3, 4, 6, 8):
                        for i in range(0, max(0, len(seg) - ln + 1)):
                            sl = seg[i:i + ln]
                            try:
                                raw = b64u_dec(sl)
                            except Exception:
                                continue
                            if b64u(raw) == sl:
                                out.append(("%s-slice" % name, raw))
                seen, uniq = set(), []
                for k_, v_ in out:
                    if v_ not in seen:
                        seen.add(v_)
                        uniq.append((k_, v_))
                return uniq

            det_budget = ctx.scale(260, 4000)
            for alg, kn in (("HS256", "oct32"), ("HS512", "oct64"), ("ES256", "p256"), ("RS256", "rsa"), ("EdDSA", "ed25519")):
                k = K[kn]
                pub = J.pubkey_of(k)
                for h in ({"alg": alg}, {"alg": alg, "typ": "JWT"}, {"alg": alg, "kid": kn, "cty": "a/b"}):
                    text = json.dumps(h, separators=(",", ":")).encode()
                    t0 = jws.serialize_compact(dict(h), b"seed", k, [alg]).encode()
                    hs0, _, ss0 = t0.split(b".")
                    cands = correlated_payloads(hs0, ss0, text, t0)
                    if len(cands) > det_budget // 15:
                        keep = [c for c in cands if not c[0].endswith("-slice")]
                        rest = [c for c in cands if c[0].endswith("-slice")]
                        cands = keep + rng.sample(rest, max(0, min(len(rest), det_budget // 15 - len(keep))))
                    for kind, pl in cands:
                        rec.take()
                        tok = jws.serialize_compact(dict(h), pl, k, [alg]).encode()
                        rec.take()
                        hs, ps, ss = tok.split(b".")
                        collide = "header" if (ps and ps in hs) else ("signature" if (ps and ps in ss) else "none")
                        ctx.note_case(("detach-correlated", alg, json.dumps(h, sort_keys=True), pl))
                        note("detach-correlated:%s:collides-with-%s" % (kind.split("-")[0], collide))
                        rp = {"fn": "detach_content", "alg": alg, "key": kn, "header": h, "payload_hex": pl.hex(), "token": tok.decode(), "kind": kind}
                        d = call(jws.detach_content, tok.decode())
                        want = hs.decode() + ".." + ss.decode()
                        if d[0] != "ok" or d[1].split(".") != [hs.decode(), "", ss.decode()] or d[1] != want:
                            bad({"kind": "detach", "ser": "compact"}, "detach_content(%r...) = %r, expected header..signature %r (payload kind %s, its encoding occurs in the %s segment)" % (
                                tok.decode()[:50], d[1], want, kind, collide), rp)
                        add("JDetachCompact %s %s" % (c_hex(tok), J.c_res(d, lambda x: c_hex(x.encode()))),
                            {"fn": "detach_compact", "what": "detach-correlated", "force": True, **rp})
                        if d[0] == "ok":
                            parts = d[1].split(".")
                            if len(parts) == 3:
                                restored = parts[0] + "." + b64u(pl).decode() + "." + parts[2]
                                rr = call(jws.deserialize_compact, restored, pub, [alg])
                                rec.take()
                                if rr[0] != "ok" or rr[1].payload != pl:
                                    bad({"kind": "detach-restore", "ser": "compact"}, "restoring the detached payload (kind %s) does not verify: %r" % (kind, rr[1]), rp)
                        # JSON forms: every other member untouched (deep compare), input object not altered
                        if kind.endswith("-slice") and rng.random() < 0.7:
                            continue
                        for form in ("flat", "general"):
                            m = {"protected": dict(h), "header": {"x5t": hs.decode()[:8]}}
                            val = jws.serialize_json(m if form == "flat" else [m, {"protected": dict(h, typ="second")}], pl, k, [alg])
                            rec.take()
                            before = copy.deepcopy(val)
                            dj = call(jws.detach_content, val)
                            expect = {x: v for x, v in before.items() if x != "payload"}
                            if dj[0] != "ok" or dj[1] != expect or "payload" in dj[1]:
                                bad({"kind": "detach", "ser": form}, "detach_content(JSON %s) = %r, expected %r" % (form, dj[1], expect), dict(rp, value=before))
                            if val != before:
                                bad({"kind": "detach-alters-input", "ser": form}, "detach_content altered its argument: %r" % (val,), dict(rp, value=before))
                            if dj[0] == "ok" and isinstance(dj[1], dict):
                                # no aliasing: mutating the result must not reach the input
                                for sg in (dj[1].get("signatures") or [dj[1]]):
                                    if isinstance(sg.get("header"), dict):
                                        sg["header"]["mutated"] = 1
                                if val != before:
                                    bad({"kind": "detach-aliases-input", "ser": form}, "the result of detach_content shares objects with its argument", dict(rp, value=before))
                                d2 = dict(expect, payload=b64u(pl).decode())
                                rr = call(jws.deserialize_json, d2, pub, [alg])
                                rec.take()
                                if rr[0] != "ok" or rr[1].payload != pl:
                                    bad({"kind": "detach-restore", "ser": form}, "restoring the detached JSON payload does not verify: %r" % (rr[1],), rp)
            # payload' = b64d of a slice of the signature of a first (deterministic HMAC) token, re-signed
            for hs_alg, kn in (("HS256", "oct32"), ("HS384", "oct64")):
                k = K[kn]
                t0 = jws.serialize_compact({"alg": hs_alg}, b"first", k, [hs_alg])
                ss0 = t0.split(".")[2]
                for i in range(0, len(ss0) - 4, 4):
                    for ln in (4, 8, 12):
                        pl = b64u_dec(ss0[i:i + ln].encode())
                        tok = jws.serialize_compact({"alg": hs_alg}, pl, k, [hs_alg])
                        rec.take()
                        hs, ps, ss = tok.split(".")
                        ctx.note_case(("detach-sig-slice", hs_alg, pl))
                        note("detach-correlated:signature-slice-resigned")
                        d = call(jws.detach_content, tok)
                        if d[0] != "ok" or d[1] != hs + ".." + ss:
                            bad({"kind": "detach", "ser": "compact"}, "detach_content(%r) = %r" % (tok, d[1]), {"fn": "detach_content", "token": tok})
                        add("JDetachCompact %s %s" % (c_hex(tok.encode()), J.c_res(d, lambda x: c_hex(x.encode()))),
                            {"fn": "detach_compact", "what": "detach-correlated", "force": True, "token": tok})

            # ---- key configurations: key_ops / use / alg members on both sides
            from joserfc.jwk import JWKRegistry, OctKey
            from joserfc.errors import UnsupportedKeyOperationError

            def cfg_key(k, private, params):
                if k.key_type == "oct":
                    return OctKey.import_key(k.raw_value, dict(params, kid=k.kid))
                return JWKRegistry.import_key(dict(k.as_dict(private=private), **params))

            for alg in J.ALL_ALGS:
                kn = J.ALG_KEYS[alg][0]
                k = K[kn]
                vk = cfg_key(k, False, {"key_ops": ["verify"], "use": "sig", "alg": alg})
                for sname, sparams in (("sign-only", {"key_ops": ["sign"], "use": "sig", "alg": alg}),
                                       ("sign+verify", {"key_ops": ["sign", "verify"], "use": "sig"}),
                                       ("unrestricted", {"alg": alg})):
                    sk = cfg_key(k, True, sparams)
                    for ser in ("compact", "flat", "gen2", "compact97", "flat97"):
                        if quick and rng.random() < 0.4 and not (alg.startswith("HS") and sname == "sign-only"):
                            continue
                        pl = rng.choice([b"hello", b"a.b", "h\u00e9".encode(), b"urlsafe_1"])
                        base = {"alg": alg}
                        if ser.endswith("97"):
                            base.update({"b64": False, "crit": ["b64"]})
                        rp = {"fn": "key-config", "alg": alg, "key": kn, "ser": ser, "signer": sname, "payload_hex": pl.hex()}
                        ctx.note_case(("key-config", alg, sname, ser, pl))
                        note("key-config:%s:%s" % (sname, ser))
                        rec.take()
                        if ser == "compact":
                            r = call(jws.serialize_compact, dict(base), pl, sk, [alg])
                            rows, _ = rec.take()
                            add("JSerCompact %s %s %s %s %s %s" % (J.c_table(rows), J.c_dict(base), c_hex(pl), J.c_keysrc(sk), J.c_algs([alg]),
                                                                 J.c_res(r, lambda t: c_hex(t.encode()))), {"fn": "serialize_compact", "what": "key-config:" + sname, **rp})
                        elif ser == "compact97":
                            r = call(r97.serialize_compact, dict(base), pl, sk, [alg])
                            rows, _ = rec.take()
                            add("JSerCompact97 %s %s %s %s %s %s %s" % (J.c_table(rows), c_bool(lenient), J.c_dict(base), c_hex(pl), J.c_keysrc(sk), J.c_algs([alg]),
                                                                       J.c_res(r, lambda t: c_hex(t.encode()))), {"fn": "serialize_compact97", "what": "key-config:" + sname, **rp})
                        else:
                            m_ = {"protected": dict(base)}
                            ms = [copy.deepcopy(m_), {"protected": dict(base, cty="m1")}] if ser == "gen2" else copy.deepcopy(m_)
                            r = call(r97.serialize_json if ser == "flat97" else jws.serialize_json, ms, pl, sk, [alg])
                            rows, _ = rec.take()
                        if r[0] != "ok":
                            bad({"kind": "key-config-sign", "ser": ser}, "signing with a key whose key_ops is %r failed: %r" % (sparams.get("key_ops"), r[1]), rp)
                            continue
                        rec.take()
                        if ser == "compact":
                            rv = call(jws.deserialize_compact, r[1], vk, [alg])
                            rows, _ = rec.take()
                            add("JDesCompact %s %s %s %s %s" % (J.c_table(rows), c_hex(r[1].encode()), J.c_keysrc(vk), J.c_algs([alg]), J.c_compact_result(rv)),
                                {"fn": "deserialize_compact", "what": "key-config:verify-only", "force": True, **rp})
                        elif ser == "compact97":
                            parg = pl if r[1].split(".")[1] == "" else None
                            rv = call(r97.deserialize_compact, r[1], vk, parg, [alg])
                            rows, _ = rec.take()
                            add("JDesCompact97 %s %s %s %s %s %s" % (J.c_table(rows), c_hex(r[1].encode()), J.c_keysrc(vk), c_opt(parg, c_hex), J.c_algs([alg]),
                                                                    J.c_compact_result(rv)), {"fn": "deserialize_compact97", "what": "key-config:verify-only", "force": True, **rp})
                        elif ser == "flat97":
                            rv = call(r97.deserialize_json, copy.deepcopy(r[1]), vk, [alg])
                            rows, _ = rec.take()
                            add("JDesJson97 %s %s %s %s %s %s" % (J.c_table(rows), c_bool(fixed), J.c_jval(r[1]), J.c_keysrc(vk), J.c_algs([alg]), J.c_json_result(rv)),
                                {"fn": "deserialize_json97", "what": "key-config:verify-only", "force": True, **rp})
                        else:
                            rv = call(jws.deserialize_json, copy.deepcopy(r[1]), vk, [alg])
                            rows, _ = rec.take()
                            add("JDesJson %s %s %s %s %s" % (J.c_table(rows), J.c_jval(r[1]), J.c_keysrc(vk), J.c_algs([alg]), J.c_json_result(rv)),
                                {"fn": "deserialize_json", "what": "key-config:verify-only", "force": True, **rp})
                        if rv[0] != "ok" or rv[1].payload != pl:
                            bad({"kind": "key-config-roundtrip", "ser": ser}, "a JWS (%s, %s) signed with key_ops %r does not verify with the same key material restricted to key_ops ['verify']: %r" % (
                                alg, ser, sparams.get("key_ops"), rv[1]), rp)
                # the operations are not interchangeable: verify-only keys do not sign, sign-only keys do not verify
                rec.take()
                r = call(jws.serialize_compact, {"alg": alg}, b"x", vk if k.key_type == "oct" else cfg_key(k, True, {"key_ops": ["verify"]}), [alg])
                rows, _ = rec.take()
                if r[0] == "ok" or not isinstance(r[1], UnsupportedKeyOperationError):
                    bad({"kind": "key-config-verify-only-signs"}, "a key restricted to key_ops ['verify'] signed: %r" % (r[1],), {"fn": "key-config", "alg": alg})
                tok = jws.serialize_compact({"alg": alg}, b"x", k, [alg])
                rec.take()
                so = cfg_key(k, True, {"key_ops": ["sign"]})
                r = call(jws.deserialize_compact, tok, so, [alg])
                rows, _ = rec.take()
                add("JDesCompact %s %s %s %s %s" % (J.c_table(rows), c_hex(tok.encode()), J.c_keysrc(so), J.c_algs([alg]), J.c_compact_result(r)),
                    {"fn": "deserialize_compact", "what": "key-config:sign-only-verifies", "force": True, "alg": alg})
                if r[0] == "ok" or not isinstance(r[1], UnsupportedKeyOperationError):
                    bad({"kind": "key-config-sign-only-verifies"}, "a key restricted to key_ops ['sign'] verified: %r" % (r[1],), {"fn": "key-config", "alg": alg})

            # ---- callables that perform nested library calls, interleaved object histories:
            # every token must still verify to its own payload
            pool = []
            for alg, kn in (("HS256", "oct32"), ("ES256", "p256"), ("EdDSA", "ed25519"), ("RS256", "rsa"), ("HS512", "oct64")):
                for pl in (b"payload-of-" + alg.encode(), b"", b"a.b.c"):
                    tok = jws.serialize_compact({"alg": alg, "kid": kn}, pl, K[kn], [alg])
                    val = jws.serialize_json({"protected": {"alg": alg}, "header": {"kid": kn}}, pl, K[kn], [alg])
                    pool.append((tok, val, alg, kn, J.pubkey_of(K[kn]), pl))
            rec.take()
            for ia, A in enumerate(pool):
                for ib, B in enumerate(pool):
                    if ia == ib or (quick and (ia * 7 + ib) % 4):
                        continue
                    C = pool[(ia + ib) % len(pool)]
                    inner = {}

                    def keyf(obj, A=A, B=B, C=C, inner=inner):
                        inner["b"] = call(jws.deserialize_compact, B[0], B[4], [B[2]])
                        inner["c"] = call(jws.extract_compact, C[0].encode())
                        inner["s"] = call(jws.serialize_compact, {"alg": "HS256"}, b"inner", K["oct32"], ["HS256"])
                        inner["j"] = call(jws.deserialize_json, copy.deepcopy(B[1]), B[4], [B[2]])
                        return A[4]
                    ctx.note_case(("nested", ia, ib))
                    note("nested-callable")
                    rp = {"fn": "nested-callable", "tokA": A[0], "tokB": B[0], "algA": A[2], "algB": B[2]}
                    rec.take()
                    r = call(jws.deserialize_compact, A[0], keyf, [A[2]])
                    rows, _ = rec.take()
                    add("JDesCompact %s %s %s %s %s" % (J.c_table(rows), c_hex(A[0].encode()), J.c_keysrc(A[4]), J.c_algs([A[2]]), J.c_compact_result(r)),
                        {"fn": "deserialize_compact", "what": "nested-callable", "force": (ia + ib) % 3 == 0, **rp})
                    if r[0] != "ok" or r[1].payload != A[5] or r[1].protected != {"alg": A[2], "kid": A[3]}:
                        bad({"kind": "nested-callable", "ser": "compact"}, "deserialize_compact(A) with a key callable that parses other tokens: %r (expected payload %r)" % (
                            r[1] if r[0] != "ok" else r[1].payload, A[5]), rp)
                    if inner.get("b", ("err", None))[0] != "ok" or inner["b"][1].payload != B[5] or inner["j"][0] != "ok" or inner["j"][1].payload != B[5]:
                        bad({"kind": "nested-callable-inner"}, "the nested verification of B inside the callable failed: %r" % (inner.get("b"),), rp)
                    rj = call(jws.deserialize_json, copy.deepcopy(A[1]), keyf, [A[2]])
                    rec.take()
                    if rj[0] != "ok" or rj[1].payload != A[5]:
                        bad({"kind": "nested-callable", "ser": "flat"}, "deserialize_json(A) with a key callable that parses other tokens: %r" % (rj[1],), rp)

                    # signing with a callable that verifies / signs other tokens
                    def skeyf(obj, A=A, B=B):
                        call(jws.deserialize_compact, B[0], B[4], [B[2]])
                        call(jws.serialize_compact, {"alg": B[2]}, b"other", K[B[3]], [B[2]])
                        return K[A[3]]
                    t2 = call(jws.serialize_compact, {"alg": A[2]}, A[5], skeyf, [A[2]])
                    rec.take()
                    r2 = call(jws.deserialize_compact, t2[1], A[4], [A[2]]) if t2[0] == "ok" else t2
                    rec.take()
                    if r2[0] != "ok" or r2[1].payload != A[5]:
                        bad({"kind": "nested-callable-sign"}, "serialize_compact with a key callable that handles other tokens, then verify: %r" % (r2[1],), rp)
                    # interleaved histories: extract A, extract B, validate A, validate B
                    ea = call(jws.extract_compact, A[0].encode())
                    eb = call(jws.extract_compact, B[0].encode())
                    va = call(jws.validate_compact, ea[1], A[4], [A[2]]) if ea[0] == "ok" else ea
                    vb = call(jws.validate_compact, eb[1], B[4], [B[2]]) if eb[0] == "ok" else eb
                    rec.take()
                    note("interleaved-history")
                    okseg = ea[0] == "ok" and [ea[1].segments.get(x) for x in ("header", "payload", "signature")] == A[0].encode().split(b".")
                    if va != ("ok", True) or vb != ("ok", True) or ea[1].payload != A[5] or eb[1].payload != B[5] or not okseg:
                        bad({"kind": "interleaved-history"}, "extract A, extract B, validate A, validate B: %r / %r; payloads %r / %r; A's segments intact: %s" % (
                            va[1], vb[1], getattr(ea[1], "payload", None), getattr(eb[1], "payload", None), okseg), rp)

            # ---- forced ECDSA boundary values of (r, s) through ECAlgModel.sign / verify
            for alg, crv, bits in (("ES256", "P-256", 256), ("ES384", "P-384", 384), ("ES512", "P-521", 521), ("ES256K", "secp256k1", 256)):
                inst = jws.JWSRegistry.algorithms[alg]
                L = (bits + 7) // 8
                vals = [0, 1, 255, 256, 2 ** (8 * (L - 1)) - 1, 2 ** (8 * (L - 1)), 2 ** (8 * (L - 2)), 2 ** bits - 1, 2 ** (8 * L) - 1,
                        2 ** (bits - 1), 65537]
                vals += [rng.getrandbits(rng.choice([8, 64, 8 * (L - 1), 8 * (L - 3), bits])) for _ in range(ctx.scale(6, 60))]
                pairs = [(a, b) for a in vals[:11] for b in (vals[:11] if not quick else rng.sample(vals, 3))] + list(zip(vals[11:], reversed(vals[11:])))
                for (r_, s_) in pairs:
                    fk = FakeECKey(crv, bits, r_, s_)
                    ctx.note_case(("ec-rs", alg, r_, s_))
                    note("ecdsa-forced-rs")
                    rec.take()
                    rs = call(inst.sign, b"m", fk)
                    rows, _ = rec.take()
                    want = r_.to_bytes(L, "big") + s_.to_bytes(L, "big")
                    if rs != ("ok", want):
                        bad({"kind": "ecdsa-encode"}, "%s.sign with (r, s) = (%s, %s) gave %r, expected the %d-octet R||S" % (alg, hex(r_)[:20], hex(s_)[:20], rs[1], 2 * L),
                            {"fn": "ec.sign", "alg": alg, "r": str(r_), "s": str(s_)})
                    add("JAlgSign %s %s %s %s %s" % (J.c_table(rows), c_str(alg), J.c_key(fk), c_hex(b"m"), J.c_res(rs, c_hex)),
                        {"fn": "ec.sign", "what": alg, "r": str(r_), "s": str(s_)})
                    rec.take()
                    rv = call(inst.verify, b"m", want, fk)
                    rows, _ = rec.take()
                    if rv != ("ok", True) or fk.op.seen != (r_, s_):
                        bad({"kind": "ecdsa-decode"}, "%s.verify of R||S for (%s, %s): result %r, primitive saw %r" % (alg, hex(r_)[:20], hex(s_)[:20], rv[1], fk.op.seen),
                            {"fn": "ec.verify", "alg": alg, "r": str(r_), "s": str(s_)})
                    add("JAlgVerify %s %s %s %s %s %s" % (J.c_table(rows), c_str(alg), J.c_key(fk), c_hex(b"m"), c_hex(want), J.c_res(rv, c_bool)),
                        {"fn": "ec.verify", "what": alg, "r": str(r_), "s": str(s_)})
        except Exception as e:   # a library call that must succeed raised: a finding, not a harness crash
            import traceback as _tb
            bad({"kind": "unexpected-exception"}, "a library call of the round-trip run raised %r" % (e,), {"fn": "unexpected-exception", "traceback": _tb.format_exc()[-1500:]})

    # stratified selection of the Coq cases
    groups = {}
    forced = [(t, m) for t, m in cases if m.get("force")]
    if len(forced) > ctx.scale(250, 5000):
        forced = rng.sample(forced, ctx.scale(250, 5000))
    for t, m in cases:
        if not m.get("force"):
            groups.setdefault((m.get("fn"), str(m.get("what", ""))), []).append((t, m))
    per = max(2, budget // max(1, len(groups)))
    sel = list(forced)
    for g in sorted(groups):
        sel += groups[g] if len(groups[g]) <= per else rng.sample(groups[g], per)
    ctx.coverage["rule"] = ("verify(sign(h, p, k), pub(k)) returns exactly p and the header members of h (plus the kid chosen from a key set); "
                            "detach leaves header and signature untouched and restoring verifies; model output == implementation output per call")
    ctx.coverage["input_distribution"] = dict(sorted(dist.items()))
    for t, m in sel[:3]:
        ctx.sample({"coq_case": t[:300]})
    J.finish_correspondence(ctx, "C03", [t for t, m in sel], [m for t, m in sel], ok, log, "c03_check", "c03_show", "c03case")
    ctx.assumptions += [
        "SigCorrect (primitives: verify accepts sign's output under the matching key, outputs are octet strings, ECDSA r, s < 256^L) and json.loads(json.dumps(h)) = h are Section hypotheses of the theorems; the run checks the same on the real primitives",
        "theorems are stated for a key given as a key; key sets / callables and the rfc7797 b64=false forms are covered by the differential run and the direct round-trip oracle",
    ]
    if not ctx.quick:
        ctx.coqchk()


def replay(path):
    from joserfc import jws
    from joserfc import rfc7797 as r97
    d = json.load(open(path))
    r = d["replay"]
    print("replay:", json.dumps(r, default=str)[:1500])
    K = J.keys()
    if r.get("fn") == "serialize_compact97":
        out = call(r97.serialize_compact, dict(r["header"]), bytes.fromhex(r["payload_hex"]), K[r["key"]], [r["alg"]])
        print(out)
        return 1 if out[0] == "err" else 0
    if r.get("fn") == "detach_content" and "token" in r:
        tok = r["token"]
        hs, ps, ss = tok.split(".")
        out = call(jws.detach_content, tok)
        print(out, "expected", hs + ".." + ss)
        return 0 if out == ("ok", hs + ".." + ss) else 1
    print("see the replay file")
    return 1
